/-
Helper lemmas for the `HeapDict` model (C14).

Layout:
* `insertAsc`: membership, length, permutation, sortedness.
* a single bounded queue: `pushQueue` / `foldQ` with the invariant `QInv`.
* the keyed store: `lookup` / `store`, and `lookup k (pushAll ..).qs` as a `foldQ`.
* the key order of the store versus `List.eraseDups`.

The order hypotheses are passed as three plain hypotheses (`irrefl`, `trans`,
`negTrans`); the bundled structure `StrictWeak` lives in `MM/Props/C14.lean`.
-/
import MM.Model.HeapDict

namespace MM.HeapDict

variable {κ α : Type}

/-! ### `insertAsc` -/

theorem mem_insertAsc (lt : α → α → Bool) (x a : α) (q : List α) :
    a ∈ insertAsc lt x q ↔ a = x ∨ a ∈ q := by
  induction q with
  | nil => simp [insertAsc]
  | cons y ys ih =>
    unfold insertAsc
    split
    · simp
    · simp only [List.mem_cons, ih]
      constructor
      · rintro (h | h | h)
        · exact Or.inr (Or.inl h)
        · exact Or.inl h
        · exact Or.inr (Or.inr h)
      · rintro (h | h | h)
        · exact Or.inr (Or.inl h)
        · exact Or.inl h
        · exact Or.inr (Or.inr h)

theorem length_insertAsc (lt : α → α → Bool) (x : α) (q : List α) :
    (insertAsc lt x q).length = q.length + 1 := by
  induction q with
  | nil => simp [insertAsc]
  | cons y ys ih =>
    unfold insertAsc
    split
    · simp
    · simp [ih]

theorem perm_insertAsc (lt : α → α → Bool) (x : α) (q : List α) :
    (insertAsc lt x q).Perm (x :: q) := by
  induction q with
  | nil => simp [insertAsc]
  | cons y ys ih =>
    unfold insertAsc
    split
    · exact List.Perm.refl _
    · exact (List.Perm.cons y ih).trans (List.Perm.swap x y ys)

/-- ascending: no item is strictly smaller than an earlier one -/
abbrev Asc (lt : α → α → Bool) (q : List α) : Prop := q.Pairwise (fun a b => lt b a = false)

theorem asc_insertAsc {lt : α → α → Bool}
    (hi : ∀ a, lt a a = false)
    (ht : ∀ a b c, lt a b = true → lt b c = true → lt a c = true)
    (x : α) {q : List α} (h : Asc lt q) : Asc lt (insertAsc lt x q) := by
  induction q with
  | nil => simp [insertAsc, Asc]
  | cons y ys ih =>
    have hy : ∀ z ∈ ys, lt z y = false := (List.pairwise_cons.mp h).1
    have hys : Asc lt ys := (List.pairwise_cons.mp h).2
    unfold insertAsc
    split
    · rename_i hxy
      refine List.pairwise_cons.mpr ⟨?_, h⟩
      intro z hz
      rcases List.mem_cons.mp hz with rfl | hz
      · -- `lt z x` together with `lt x z` would give `lt z z`
        cases hzx : lt z x with
        | false => rfl
        | true => have := ht _ _ _ hzx hxy; simp [hi] at this
      · cases hzx : lt z x with
        | false => rfl
        | true => have := ht _ _ _ hzx hxy; simp [hy z hz] at this
    · rename_i hxy
      refine List.pairwise_cons.mpr ⟨?_, ih hys⟩
      intro z hz
      rcases (mem_insertAsc lt x z ys).mp hz with rfl | hz
      · simpa using hxy
      · exact hy z hz

/-! ### a single bounded queue -/

/-- the queue after pushing `xs` (in order) into `q` -/
def foldQ (lt : α → α → Bool) (size : Nat) (q : List α) (xs : List α) : List α :=
  xs.foldl (fun q x => pushQueue lt size x q) q

@[simp] theorem foldQ_nil (lt : α → α → Bool) (size : Nat) (q : List α) :
    foldQ lt size q [] = q := rfl

@[simp] theorem foldQ_cons (lt : α → α → Bool) (size : Nat) (q : List α) (x : α) (xs : List α) :
    foldQ lt size q (x :: xs) = foldQ lt size (pushQueue lt size x q) xs := rfl

theorem length_pushQueue (lt : α → α → Bool) (size : Nat) (x : α) (q : List α)
    (h : q.length ≤ size) : (pushQueue lt size x q).length = min size (q.length + 1) := by
  unfold pushQueue
  split
  · rw [length_insertAsc]; omega
  · cases q with
    | nil => simp at *; omega
    | cons m rest =>
      simp only [List.length_cons] at *
      split
      · rw [length_insertAsc]; omega
      · simp only [List.length_cons]; omega

theorem length_foldQ (lt : α → α → Bool) (size : Nat) (q xs : List α) (n : Nat)
    (h : q.length = min size n) : (foldQ lt size q xs).length = min size (n + xs.length) := by
  induction xs generalizing q n with
  | nil => simpa using h
  | cons x xs ih =>
    rw [foldQ_cons, ih (pushQueue lt size x q) (n + 1)]
    · simp only [List.length_cons]; congr 1; omega
    · rw [length_pushQueue lt size x q (by omega)]; omega

/-- Invariant of one queue: `q` is what is kept of `pushed`, `dropped` is the (ghost) rest. -/
structure QInv (lt : α → α → Bool) (size : Nat) (pushed q dropped : List α) : Prop where
  sorted : Asc lt q
  len : q.length = min size pushed.length
  perm : (q ++ dropped).Perm pushed
  dom : ∀ d ∈ dropped, ∀ x ∈ q, lt x d = false

theorem QInv.init (lt : α → α → Bool) (size : Nat) : QInv lt size [] [] [] :=
  ⟨List.Pairwise.nil, by simp, by simp, by simp⟩

theorem QInv.step {lt : α → α → Bool}
    (hi : ∀ a, lt a a = false)
    (ht : ∀ a b c, lt a b = true → lt b c = true → lt a c = true)
    (hn : ∀ a b c, lt a c = true → lt a b = true ∨ lt b c = true)
    {size : Nat} {pushed q dropped : List α} (x : α) (h : QInv lt size pushed q dropped) :
    ∃ dropped', QInv lt size (pushed ++ [x]) (pushQueue lt size x q) dropped' := by
  have hasym : ∀ a b, lt a b = true → lt b a = false := by
    intro a b hab
    cases hba : lt b a with
    | false => rfl
    | true => have := ht _ _ _ hab hba; simp [hi] at this
  have hlen : q.length + dropped.length = pushed.length := by
    have := h.perm.length_eq; simpa using this
  have hl := h.len
  have hlen' : (pushQueue lt size x q).length = min size (pushed ++ [x]).length := by
    rw [length_pushQueue lt size x q (by omega)]; simp only [List.length_append, List.length_singleton]; omega
  have hpx : (x :: (q ++ dropped)).Perm (pushed ++ [x]) :=
    (List.Perm.cons x h.perm).trans (List.perm_append_singleton x pushed).symm
  by_cases hlt : q.length < size
  · -- below capacity: nothing has been dropped so far
    have e : pushQueue lt size x q = insertAsc lt x q := by simp [pushQueue, hlt]
    rw [e] at hlen' ⊢
    have hd : dropped = [] := List.eq_nil_of_length_eq_zero (by omega)
    subst hd
    refine ⟨[], asc_insertAsc hi ht x h.sorted, hlen', ?_, by simp⟩
    simp only [List.append_nil] at hpx ⊢
    exact (perm_insertAsc lt x q).trans hpx
  · cases q with
    | nil =>
      -- capacity 0
      have e : pushQueue lt size x [] = [] := by unfold pushQueue; rw [if_neg hlt]
      rw [e] at hlen' ⊢
      refine ⟨x :: dropped, List.Pairwise.nil, hlen', ?_, by simp⟩
      simpa using hpx
    | cons m rest =>
      have hm : ∀ z ∈ rest, lt z m = false := (List.pairwise_cons.mp h.sorted).1
      have hrest : Asc lt rest := (List.pairwise_cons.mp h.sorted).2
      by_cases hmx : lt m x = true
      · -- the root `m` is evicted
        have e : pushQueue lt size x (m :: rest) = insertAsc lt x rest := by
          unfold pushQueue; rw [if_neg hlt]; simp [hmx]
        rw [e] at hlen' ⊢
        refine ⟨m :: dropped, asc_insertAsc hi ht x hrest, hlen', ?_, ?_⟩
        · have h1 : (insertAsc lt x rest ++ m :: dropped).Perm (x :: rest ++ m :: dropped) :=
            (perm_insertAsc lt x rest).append_right _
          have h2 : (x :: rest ++ m :: dropped).Perm (x :: (m :: rest ++ dropped)) := by
            simp only [List.cons_append]
            exact List.Perm.cons x List.perm_middle
          exact (h1.trans h2).trans hpx
        · intro d hd y hy
          rcases (mem_insertAsc lt x y rest).mp hy with rfl | hy
          · rcases List.mem_cons.mp hd with rfl | hd
            · exact hasym _ _ hmx
            · have hmd : lt m d = false := h.dom d hd m (List.mem_cons_self)
              rcases hn m d y hmx with h' | h'
              · simp [hmd] at h'
              · exact hasym _ _ h'
          · rcases List.mem_cons.mp hd with rfl | hd
            · exact hm y hy
            · exact h.dom d hd y (List.mem_cons_of_mem _ hy)
      · -- `x` itself is dropped
        have hmx' : lt m x = false := by simpa using hmx
        have e : pushQueue lt size x (m :: rest) = m :: rest := by
          unfold pushQueue; rw [if_neg hlt]; simp [hmx']
        rw [e] at hlen' ⊢
        refine ⟨x :: dropped, h.sorted, hlen', ?_, ?_⟩
        · exact List.perm_middle.trans hpx
        · intro d hd y hy
          rcases List.mem_cons.mp hd with rfl | hd
          · rcases List.mem_cons.mp hy with rfl | hy
            · exact hmx'
            · cases hyd : lt y d with
              | false => rfl
              | true =>
                rcases hn y m d hyd with h' | h'
                · simp [hm y hy] at h'
                · simp [hmx'] at h'
          · exact h.dom d hd y hy

theorem QInv.fold {lt : α → α → Bool}
    (hi : ∀ a, lt a a = false)
    (ht : ∀ a b c, lt a b = true → lt b c = true → lt a c = true)
    (hn : ∀ a b c, lt a c = true → lt a b = true ∨ lt b c = true)
    {size : Nat} {pushed q dropped : List α} (xs : List α) (h : QInv lt size pushed q dropped) :
    ∃ dropped', QInv lt size (pushed ++ xs) (foldQ lt size q xs) dropped' := by
  induction xs generalizing pushed q dropped with
  | nil => exact ⟨dropped, by simpa using h⟩
  | cons x xs ih =>
    obtain ⟨d1, h1⟩ := h.step hi ht hn x
    obtain ⟨d2, h2⟩ := ih h1
    exact ⟨d2, by simpa using h2⟩

/-! ### the keyed store -/

/-- the keys of a store, in order -/
def keys (qs : List (κ × List α)) : List κ := qs.map (·.1)

theorem keys_getResult (s : State κ α) : (getResult s).map (·.1) = keys s.qs := by
  simp only [getResult, keys, List.map_map]
  apply List.map_congr_left
  rintro ⟨k, q⟩ _
  rfl

section Keyed
variable [BEq κ]

@[simp] theorem push_size (lt : α → α → Bool) (s : State κ α) (k : κ) (x : α) :
    (push lt s k x).size = s.size := rfl

@[simp] theorem pushAll_nil (lt : α → α → Bool) (s : State κ α) : pushAll lt s [] = s := rfl

@[simp] theorem pushAll_cons (lt : α → α → Bool) (s : State κ α) (k : κ) (x : α)
    (ops : List (κ × α)) : pushAll lt s ((k, x) :: ops) = pushAll lt (push lt s k x) ops := rfl

theorem pushAll_append (lt : α → α → Bool) (s : State κ α) (ops ops' : List (κ × α)) :
    pushAll lt s (ops ++ ops') = pushAll lt (pushAll lt s ops) ops' := by
  simp [pushAll, List.foldl_append]

@[simp] theorem pushAll_size (lt : α → α → Bool) (s : State κ α) (ops : List (κ × α)) :
    (pushAll lt s ops).size = s.size := by
  induction ops generalizing s with
  | nil => rfl
  | cons o ops ih => obtain ⟨k, x⟩ := o; rw [pushAll_cons, ih, push_size]

variable [LawfulBEq κ]

theorem lookup_store_self (k : κ) (q : List α) (qs : List (κ × List α)) :
    lookup k (store k q qs) = q := by
  induction qs with
  | nil => simp [store, lookup]
  | cons p rest ih =>
    obtain ⟨k', q'⟩ := p
    unfold store
    split
    · rename_i hk; simp [lookup, hk]
    · rename_i hk; simp [lookup, hk, ih]

theorem lookup_store_ne (k k' : κ) (hne : (k == k') = false) (q : List α)
    (qs : List (κ × List α)) : lookup k' (store k q qs) = lookup k' qs := by
  induction qs with
  | nil => simp [store, lookup, hne]
  | cons p rest ih =>
    obtain ⟨k2, q2⟩ := p
    unfold store
    split
    · rename_i hk
      have : k2 = k := LawfulBEq.eq_of_beq hk
      subst this
      simp [lookup, hne]
    · simp only [lookup, ih]

/-- the queue under `k` only sees the items pushed under `k` -/
theorem lookup_pushAll (lt : α → α → Bool) (s : State κ α) (ops : List (κ × α)) (k : κ) :
    lookup k (pushAll lt s ops).qs
      = foldQ lt s.size (lookup k s.qs) ((ops.filter (fun o => o.1 == k)).map (·.2)) := by
  induction ops generalizing s with
  | nil => rfl
  | cons o ops ih =>
    obtain ⟨k', x⟩ := o
    rw [pushAll_cons, ih, push_size]
    cases hk : (k' == k) with
    | true =>
      have : k' = k := LawfulBEq.eq_of_beq hk
      subst this
      simp [push, lookup_store_self]
    | false =>
      simp [hk, push, lookup_store_ne k' k hk]

/-! ### key order -/

theorem keys_store_of_mem (k : κ) (q : List α) (qs : List (κ × List α))
    (h : (keys qs).any (fun b => k == b) = true) : keys (store k q qs) = keys qs := by
  induction qs with
  | nil => simp [keys] at h
  | cons p rest ih =>
    obtain ⟨k2, q2⟩ := p
    unfold store
    split
    · rfl
    · rename_i hk
      have hk' : (k == k2) = false := by
        cases h' : (k == k2) with
        | false => rfl
        | true =>
          have : k = k2 := LawfulBEq.eq_of_beq h'
          subst this
          simp at hk
      have : (keys rest).any (fun b => k == b) = true := by
        simpa [keys, hk'] using h
      have := ih this
      simp only [keys, List.map_cons] at this ⊢
      rw [this]

theorem keys_store_of_not_mem (k : κ) (q : List α) (qs : List (κ × List α))
    (h : (keys qs).any (fun b => k == b) = false) : keys (store k q qs) = keys qs ++ [k] := by
  induction qs with
  | nil => simp [keys, store]
  | cons p rest ih =>
    obtain ⟨k2, q2⟩ := p
    have h1 : (k == k2) = false ∧ (keys rest).any (fun b => k == b) = false := by
      simpa [keys] using h
    unfold store
    split
    · rename_i hk
      have : k2 = k := LawfulBEq.eq_of_beq hk
      subst this
      simp at h1
    · have := ih h1.2
      simp only [keys, List.map_cons, List.cons_append] at this ⊢
      rw [this]

theorem keys_pushAll_loop (lt : α → α → Bool) (s : State κ α) (ops : List (κ × α)) :
    keys (pushAll lt s ops).qs
      = List.eraseDupsBy.loop (· == ·) (ops.map (·.1)) (keys s.qs).reverse := by
  induction ops generalizing s with
  | nil => simp [List.eraseDupsBy.loop]
  | cons o ops ih =>
    obtain ⟨k, x⟩ := o
    rw [pushAll_cons, ih]
    simp only [List.map_cons]
    rw [List.eraseDupsBy.loop]
    cases h : (keys s.qs).any (fun b => k == b) with
    | true =>
      have h' : (keys s.qs).reverse.any (fun b => k == b) = true := by simpa using h
      simp only [h']
      simp only [push, keys_store_of_mem k _ s.qs h]
    | false =>
      have h' : (keys s.qs).reverse.any (fun b => k == b) = false := by
        rw [List.any_reverse]; exact h
      simp only [h']
      simp only [push, keys_store_of_not_mem k _ s.qs h, List.reverse_append,
        List.reverse_singleton, List.singleton_append]

end Keyed

end MM.HeapDict
