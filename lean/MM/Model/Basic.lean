/-
Python-semantics kit shared by all model files.  No Mathlib imports here.
-/
namespace MM

/-- Exception classes of the modelled Python code (message texts are ignored). -/
inductive PyErr
  | valueError | indexError | zeroDivisionError | typeError | overflowError
  | keyError | attributeError | notImplementedError
deriving DecidableEq, Repr, Inhabited

def PyErr.name : PyErr → String
  | .valueError => "ValueError" | .indexError => "IndexError"
  | .zeroDivisionError => "ZeroDivisionError" | .typeError => "TypeError"
  | .overflowError => "OverflowError" | .keyError => "KeyError"
  | .attributeError => "AttributeError" | .notImplementedError => "NotImplementedError"

abbrev Py (α : Type) := Except PyErr α

/-- `itertools.combinations(l, r)` in its order (lexicographic in positions). -/
def combos {α : Type} : Nat → List α → List (List α)
  | 0, _ => [[]]
  | _+1, [] => []
  | r+1, a :: l => (combos r l).map (a :: ·) ++ combos (r+1) l

/-- Sets of geo indices: strictly increasing lists of naturals. -/
abbrev GeoSet := List Nat

/-- insertion into an increasing list (no duplicates). -/
def insertSet (a : Nat) : GeoSet → GeoSet
  | [] => [a]
  | b :: l => if a < b then a :: b :: l else if a = b then b :: l else b :: insertSet a l

def unionSet (a b : GeoSet) : GeoSet := a.foldr insertSet b
def diffSet (a b : GeoSet) : GeoSet := a.filter (fun i => !b.contains i)
def interSet (a b : GeoSet) : GeoSet := a.filter (fun i => b.contains i)
def subsetSet (a b : GeoSet) : Bool := a.all (fun i => b.contains i)
/-- `s.symmetric_difference([g])` -/
def toggleSet (s : GeoSet) (g : Nat) : GeoSet :=
  if s.contains g then s.filter (· != g) else insertSet g s

/-- `range(lo, hi + 1)` for Python ints (empty when `hi < lo`). -/
def pyRangeIncl (lo hi : Int) : List Int :=
  (List.range (hi + 1 - lo).toNat).map (fun (i : Nat) => lo + (i : Int))

/-- Python floats that appear in decision logic: exact rationals plus the specials. -/
inductive PyFloat
  | fin (q : Rat) | pinf | ninf | nan
deriving DecidableEq, Repr, Inhabited

namespace PyFloat
def lt : PyFloat → PyFloat → Bool
  | nan, _ | _, nan => false
  | fin a, fin b => a < b
  | ninf, ninf => false | ninf, _ => true
  | _, ninf => false
  | pinf, _ => false
  | fin _, pinf => true
def le : PyFloat → PyFloat → Bool
  | nan, _ | _, nan => false
  | fin a, fin b => a ≤ b
  | ninf, _ => true
  | _, pinf => true
  | pinf, _ => false
  | fin _, ninf => false
def beq : PyFloat → PyFloat → Bool
  | nan, _ | _, nan => false
  | fin a, fin b => a == b
  | pinf, pinf => true | ninf, ninf => true
  | _, _ => false
end PyFloat

/-- A score entry: `none` is NaN.  Python tuple comparison: first index where the
entries are not `==`, then `<` there; a NaN is `==` to nothing (distinct objects). -/
abbrev Score := List (Option Rat)

def entryEq : Option Rat → Option Rat → Bool
  | some a, some b => a == b
  | _, _ => false
def entryLt : Option Rat → Option Rat → Bool
  | some a, some b => a < b
  | _, _ => false

/-- Python `a < b` on tuples (lists here). -/
def scoreLt : Score → Score → Bool
  | [], [] => false
  | [], _ :: _ => true
  | _ :: _, [] => false
  | a :: as, b :: bs => if entryEq a b then scoreLt as bs else entryLt a b

def scoreNaNFree (s : Score) : Bool := s.all Option.isSome

end MM
