"""C18: pointwise and cumulative effect series are well-formed for any experiment."""
import json
import math
import os
import numpy as np
from scipy import stats
import core
import engines.numeric as en

PROP = 'C18'
LEAN_TARGETS = ['MM.Props.C07C18', 'MM.Driver.Wire', 'MM.Model.Numeric', 'MM.Props.MemoTie']
THEOREMS = ['MM.Numeric.' + n for n in (
    'C18_cumulative_order', 'C18_pointwise_order_partial', 'C18_pointwise_order_fails', 'C18_counterfactual_sum',
    'C18_counterfactual_order', 'C18_counterfactual_order_iff', 'C18_pointwise_telescopes', 'C18_last_date',
    'C18_cumulative_order_bundle', 'quantile_nonpos', 'quantile_nonneg')]
THEOREMS = list(THEOREMS) + ['MM.Memo.tie_memoised']
TRUSTED_BASE = [
    'Lean 4.33.0 kernel + Mathlib; axioms propext, Classical.choice, Quot.sound (audited per theorem)',
    'model of the band construction (cumulativeBand / pointwiseBand / counterfactualBand in MM/Model/Numeric.lean) given the cumulative '
    'posterior locations and scales (C06); theorems at ℝ, Float correspondence to 1e-9; Student-t quantiles external',
    'pandas indexing/alignment inside estimate_pointwise_and_cumulative_effect (unique dates, concatenation of pre-period residuals) '
    'is not modelled: compared by the correspondence and the oracle',
    'correspondence harness harness/props/c18.py + engines/numeric.py, driver lean/drivers/Numeric.lean',
]


SHARED = {}


def check_frame(out, rng, fr, sess, pending):
  from matched_markets.methodology import tbr_iroas
  level, tails, metric = fr['level'], fr['tails'], fr['metric']
  tail_p = (1 - level) / tails
  case = {'frame': fr}
  col = 4 if metric == 'tbr_response' else 5
  px, py, tx, ty = en.series(fr, True, col=col)
  cond = en.conditioned(px, py)
  kl, ks, kdf = en.kerman(px, py, tx, ty) if len(px) >= 3 and np.std(px) > 0 else (None, None, None)
  # (not strictly increasing: with equal scales the pointwise bound coincides with the estimate and rounding decides)
  nonmono = bool(ks is not None and any(ks[i + 1] <= ks[i] * (1 + 1e-12) for i in range(len(ks) - 1)))
  exact_fit = False
  if len(px) >= 3 and np.std(px) > 0:
    # pre-period fit exact to ten digits: the posterior is a point mass and bounds differ from estimates by rounding only
    exact_fit = bool(math.sqrt(max(en.own_ols(px, py)[2], 0.0)) <= 1e-10 * max(1.0, float(np.abs(py).max())))
  facts = {'call': 'estimate_pointwise_and_cumulative_effect', 'exact_fit': exact_fit, 'metric': metric, 'tails': tails, 'level': level,
           'tail_probability': tail_p, 'scale_nonmonotone': nonmono, 'cost_kind': fr['cost_kind']}
  m = SHARED.get('m') if fr.get('reuse_object') else None
  if m is None:
    m = tbr_iroas.TBRiROAS(use_cooldown=True)
  if fr.get('reuse_object'):
    SHARED['m'] = m      # one analysis object fitted again and again: every fit must start from scratch
  try:
    m.fit(en.to_df(fr), **en.fit_kwargs(fr))
    # which cost scenario this frame is, determined from the frame itself (not asked from the object under test)
    t_cost = en.totals(fr, col=5)
    strict = sum(t_cost[0][0]) + sum(t_cost[0][1]) + sum(t_cost[1][0])
    broad = strict + sum(r[5] for r in fr['rows'] if r[2] not in (1, 2) and r[3] == 0)
    fixed = (strict == 0) if (strict == 0) == (broad == 0) else m._is_fixed_cost_scenario()
    ts = m.estimate_pointwise_and_cumulative_effect(metric=metric, level=level, tails=tails)
  except Exception as e:
    out.oracle_violation(dict(facts, symptom='exception', exception=type(e).__name__), case,
                         f'effect series ({metric}, level={level}, tails={tails}) raised {type(e).__name__}: {str(e)[:120]}')
    return
  cf, pw, cum = ts.counterfactual, ts.pointwise_difference, ts.cumulative_effect
  for name, s in (('counterfactual', cf), ('pointwise_difference', pw), ('cumulative_effect', cum)):
    lo, es, up = (np.asarray(s[c], dtype=float) for c in ('lower', 'estimate', 'upper'))
    if np.any(lo > es + 1e-9 * np.maximum(1, np.abs(es))) or np.any(up < es - 1e-9 * np.maximum(1, np.abs(es))):
      out.oracle_violation(dict(facts, symptom='order'), case, f'{name}: lower <= estimate <= upper fails on some date')
      return
  n_pre, n_exp = len(px), len(tx)
  obs = np.concatenate([py, ty])
  if metric == 'tbr_cost' and fixed:
    ok = (np.allclose(cf['estimate'], 0) and np.allclose(np.asarray(pw['estimate'], dtype=float), obs, rtol=1e-12) and
          np.allclose(np.asarray(cum['estimate'], dtype=float), np.cumsum(ty), rtol=1e-12))
    if not ok:
      out.oracle_violation(dict(facts, symptom='fixed-cost-series'), case,
                           'fixed-cost cost metric: counterfactual is not 0 / pointwise is not the observed cost / cumulative is not its running sum')
    out.count(('fixedcost', fr['n_pre'], fr['n_test'], fr['n_cool']))
    return
  if not cond:
    out.count(None)
    return
  a, b, s2, sxx, xb, res = en.own_ols(px, py)
  pw_e = np.asarray(pw['estimate'], dtype=float)
  cf_e = np.asarray(cf['estimate'], dtype=float)
  sc = max(1.0, float(np.abs(obs).max()))
  bad = None
  if len(pw_e) != n_pre + n_exp or len(cum) != n_exp:
    bad = f'series lengths {len(pw_e)}, {len(cum)} do not match the {n_pre}+{n_exp} analysed dates'
  elif not en.all_close(cf_e + pw_e, obs, 1e-9, sc):
    bad = 'counterfactual + pointwise difference != observed treatment series'
  elif not en.all_close(pw_e[:n_pre], res, 1e-8, sc):
    bad = 'pre-period pointwise differences are not the regression residuals'
  else:
    q_lo, q_hi = stats.t.ppf(tail_p, kdf), stats.t.ppf(1 - tail_p, kdf)
    ce = np.asarray(cum['estimate'], dtype=float)
    cl = np.asarray(cum['lower'], dtype=float)
    cu = np.asarray(cum['upper'], dtype=float)
    if not (en.close(ce[-1], kl[-1], 1e-8, sc) and en.close(cl[-1], kl[-1] + ks[-1] * q_lo, 1e-8, sc) and
            en.close(cu[-1], kl[-1] + ks[-1] * q_hi, 1e-8, sc)):
      bad = (f'last-date cumulative ({cl[-1]}, {ce[-1]}, {cu[-1]}) != posterior location and quantiles '
             f'({kl[-1] + ks[-1] * q_lo}, {kl[-1]}, {kl[-1] + ks[-1] * q_hi})')
  if bad:
    out.oracle_violation(dict(facts, symptom='identity'), case, bad)
    return
  if sess is not None:
    sess.set_series(px, py, tx, ty, obs=ty)
    r1 = sess.req('posterior ' + en.bits(1.0), 4)
    r2 = sess.req(f'bands {en.bits(q_lo)} {en.bits(q_hi)}', 9)
    real = [np.asarray(cum[c], dtype=float) for c in ('lower', 'estimate', 'upper')] + \
           [np.asarray(pw[c], dtype=float)[n_pre:] for c in ('lower', 'estimate', 'upper')] + \
           [np.asarray(cf[c], dtype=float)[n_pre:] for c in ('lower', 'estimate', 'upper')]
    pending.append((case, r2, real, sc))
  out.count((metric, fr['n_pre'], fr['n_test'], fr['n_cool'], tails, level))


def run(out, tier, model_ok=True):
  rng = core.rng_for(PROP)
  n = 120 if tier == 'quick' else 4000
  sess = en.ModelSession() if model_ok else None
  pending = []
  cdir = os.path.join(core.VERIF, 'corpus', 'C18')
  for fn in sorted(os.listdir(cdir)) if os.path.isdir(cdir) else []:      # past failures run first
    with open(os.path.join(cdir, fn)) as f:
      check_frame(out, rng, json.load(f)['frame'], None, [])
  for i in range(n):
    fr = en.gen_frame(rng, cooldown=rng.choice([1, 2, 4, 0]), cost_kind=('variable' if i % 3 == 0 else 'fixed'), spike=(i % 10 == 3), flat_test=(i % 12 == 5))
    if i % 10 == 4:
      SHARED.clear()      # a new re-used object now and then, so that both cost scenarios come first on some object
    fr.update(level=rng.choice([0.9, 0.8, 0.95, 0.5, 0.3]), tails=rng.choice([1, 2]),
              metric=rng.choice(['tbr_response', 'tbr_cost', 'tbr_cost']), reuse_object=(i % 2 == 0))
    if i % 5 == 2:
      fr['names'] = dict(en.CUSTOM_NAMES)      # caller-chosen column names
      fr['reuse_object'] = False
    check_frame(out, rng, fr, sess, pending)
  if sess is not None and pending:
    res = sess.run()
    for case, r2, real, sc in pending:
      got = [en.parse_vals(l) for l in res[r2]]
      names = ['cum.lower', 'cum.estimate', 'cum.upper', 'pw.lower', 'pw.estimate', 'pw.upper', 'cf.lower', 'cf.estimate', 'cf.upper']
      for nm, g, w in zip(names, got, real):
        if not en.all_close(g, w, 1e-8, sc):
          out.mismatch('numeric-bands', case, f'{nm}: implementation {list(w[:4])} model {g[:4]}')
          break
  out.rule = ('generated experiment frames with 0-4 cooldown days (every 10th with a control spike followed by a reversal on the first test '
              'days), fixed and variable cost, metric response/cost, every other frame fitted on one re-used TBRiROAS object, tails 1/2, levels {0.9,0.8,0.95,0.5,0.3}; per frame: the report must '
              'succeed, the three series must be ordered, counterfactual + difference = observed, pre-period differences = residuals, '
              'last-date cumulative = posterior location and quantiles; experiment-date bands against the Lean model; '
              'non-trivial = well-conditioned frame; distinct by (metric, n_pre, n_test, n_cool, tails, level)')
  out.extra.update({'frames': n, 'model_compared': len(pending)})
  out.sample({'n_pre': fr['n_pre'], 'n_test': fr['n_test'], 'n_cool': fr['n_cool'], 'metric': fr['metric'], 'level': fr['level'],
              'tails': fr['tails'], 'rows': fr['rows'][:4]})


def replay(out, path, model_ok=True):
  with open(path) as f:
    rp = json.load(f)
  case = (rp.get('violation') or (rp.get('correspondence_mismatches') or [{}])[0]).get('case')
  check_frame(out, core.rng_for(PROP, 'replay'), case['frame'], None, [])
  out.count(('replay', 1)); out.count(('replay', 2))
