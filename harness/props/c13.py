"""C13: greedy search never beats the exhaustive optimum."""
import core
import engines.search as se
from props._searchprop import SEARCH_TARGETS, SEARCH_TRUST, run_search_prop, replay_search

PROP = 'C13'
LEAN_TARGETS = SEARCH_TARGETS
THEOREMS = ['MM.Search.' + n for n in ('evaluatedRaw_eq_filter', 'C13_greedy_in_evaluated', 'C13_empty', 'C13_not_better', 'C14_greedy', 'tie_volume', 'tie_geo_ratio', 'tie_within', 'tie_within_fields')]
TRUSTED_BASE = SEARCH_TRUST + ['score comparison across the two real searches tolerates last-ulp differences (1e-9 relative)']


SUPPORTS_DEEPEN = True


def run(out, tier, model_ok=True, deepen=False):
  out.rule = 'oracle: on instances without budget/share constraints every greedy design must be a feasible design of the brute-force enumeration and must not score above the exhaustive optimum; exhaustive empty => greedy empty; non-trivial = greedy returned a design'
  run_search_prop(out, PROP, se.judge_c13, tier, model_ok, deepen=deepen)


def replay(out, path, model_ok=True):
  replay_search(out, path, se.judge_c13)
