import MM.Props.Exhaustive
import MM.Props.Greedy
import MM.Props.C04Series
import MM.Props.DiagTests
import MM.Props.DiagTestsTie
#print axioms MM.Search.C04_score_of_design
#print axioms MM.Search.C04_greedy_score
#print axioms MM.Search.exhaustive_sub_evaluated
#print axioms MM.Data.C04_series
#print axioms MM.Data.C04_series_length
#print axioms MM.Data.C04_window
#print axioms MM.Numeric.corr_abs_le_one
#print axioms MM.Numeric.dwStat_range
#print axioms MM.Numeric.bbBounds_length
#print axioms MM.Numeric.bbBounds_nonneg
#print axioms MM.Numeric.bbBounds_symm
#print axioms MM.Numeric.bbOk_scale
#print axioms MM.Numeric.dwStat_scale
#print axioms MM.Numeric.aaTest_contains_zero
#print axioms MM.Numeric.aaTest_verdict
#print axioms MM.Numeric.aaTest_interval
#print axioms MM.Numeric.float_order_lt
#print axioms MM.Numeric.tie_corr_test
#print axioms MM.Numeric.tie_dw_test
#print axioms MM.Numeric.tie_bb_test
#print axioms MM.Numeric.tie_aa_test
