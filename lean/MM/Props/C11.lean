/-
C11: `count_max_designs` counts exactly the eligibility-respecting assignments with
admissible group sizes, the generators list exactly that many pairs, and the exhaustive
search evaluates at most that many.
-/
import MM.Proofs.Count
import MM.Proofs.CountSpec

namespace MM.Search

inductive Slot | T | C | X deriving DecidableEq, Repr

/-- the groups a geo of each eligibility class may be put in (X = neither) -/
def choices : GeoClass → List Slot
  | .tFixed => [.T] | .cFixed => [.C] | .ct => [.T, .C]
  | .tx => [.T, .X] | .cx => [.C, .X] | .ctx => [.T, .C, .X]

/-- number of ways to put each geo of `cls` into T, C or neither respecting its class such
that the final (t, c) group sizes satisfy `ok` -/
def specCount (ok : Nat → Nat → Bool) : List GeoClass → Nat → Nat → Nat
  | [], t, c => if ok t c then 1 else 0
  | g :: rest, t, c => ((choices g).map fun s => match s with
      | .T => specCount ok rest (t+1) c | .C => specCount ok rest t (c+1)
      | .X => specCount ok rest t c).sum

def sizesOk (p : Params) (e : Env) (t c : Nat) : Bool :=
  (trtSizeRange p e).contains t && (ctlSizes p e t).contains c

theorem specCount_eq_opList (ok : Nat → Nat → Bool) (cls : List GeoClass) (t c : Nat) :
    specCount ok cls t c = opList cls (W0 ok) t c := by
  induction cls generalizing t c with
  | nil => rfl
  | cons g rest ih =>
    cases g <;> simp [specCount, choices, opList, op, shT, shC, ih, Nat.add_assoc]

/-- (A) the fast count is the number of eligibility-respecting assignments with admissible sizes -/
theorem C11_count_eq_spec (p : Params) (e : Env) :
    countMaxDesigns p e = specCount (sizesOk p e) e.cls 0 0 := by
  rw [specCount_eq_opList, opList_eq_opCounts, ← countAux_eq_opCounts, countMaxDesigns_eq_countAux]
  rfl

/-- admissible sizes are positive: both groups non-empty -/
theorem C11_sizes_pos (p : Params) (e : Env) (t c : Nat) :
    sizesOk p e t c = true → 1 ≤ t ∧ 1 ≤ c := by
  intro h
  simp only [sizesOk, Bool.and_eq_true, List.contains_iff_mem] at h
  exact ⟨pos_of_mem_trtSizeRange h.1, pos_of_mem_ctlSizes h.2⟩

/-- `specCount` counts the members of the duplicate-free enumeration `specList` of legal pairs
whose sizes are admissible. -/
theorem specCount_eq_countP (ok : Nat → Nat → Bool) (cls : List GeoClass) (t c : Nat) :
    specCount ok cls t c
      = (specList cls).countP (fun TC => ok (t + TC.1.length) (c + TC.2.length)) := by
  induction cls generalizing t c with
  | nil => simp [specCount, specList, List.countP_cons]
  | cons g rest ih =>
    cases g <;>
      simp [specCount, choices, specList, GeoClass.canT, GeoClass.canC, GeoClass.canX,
        List.countP_append, List.countP_map, Function.comp_def, length_shift, ih,
        Nat.add_assoc, Nat.add_comm 1]

/-- membership form of (B): the listed pairs are exactly the legal pairs of admissible sizes. -/
theorem C11_listing_mem (p : Params) (e : Env) (T C : GeoSet) :
    (T, C) ∈ designsListing p e ↔ Legal e.cls T C ∧ sizesOk p e T.length C.length = true := by
  rw [mem_designsListing]
  simp [sizesOk]

/-- (B) the generators list exactly that many pairs, without repetition -/
theorem C11_listing_nodup (p : Params) (e : Env) : (designsListing p e).Nodup :=
  nodup_designsListing p e

theorem C11_listing_length (p : Params) (e : Env) :
    (designsListing p e).length = countMaxDesigns p e := by
  rw [C11_count_eq_spec, specCount_eq_countP, List.countP_eq_length_filter]
  apply List.Perm.length_eq
  rw [List.perm_ext_iff_of_nodup (nodup_designsListing p e) ((nodup_specList _).filter _)]
  rintro ⟨T, C⟩
  rw [C11_listing_mem, List.mem_filter, mem_specList]
  simp

/-- (C) upper bound on what the exhaustive search evaluates -/
theorem C11_upper_bound (p : Params) (e : Env) :
    (evaluatedRaw p e).length ≤ countMaxDesigns p e := by
  rw [← C11_listing_length]
  exact evaluatedRaw_length_le p e

/-! ### non-vacuity: both sides evaluated on a concrete six-geo class list -/

/-- one fixed treatment geo, one ct, two ctx, one cx, one tx geo; shares 1, 2, …, 6. -/
def exEnv : Env :=
  { cls := [.tFixed, .ct, .ctx, .cx, .tx, .ctx], share := fun i => (i : Rat) + 1,
    optImpact := fun _ => .nan, impact := fun _ _ => .nan, score5 := fun _ _ => [],
    invImpact := fun _ _ => none, budgetInv := fun _ _ => none }

/-- size ranges only (integer arithmetic, plain `decide`). -/
def exParams : Params := { trtRange := some (2, 3), ctlRange := some (1, 3) }

/-- size ranges, geo-ratio tolerance and a volume-ratio tolerance (rational arithmetic). -/
def exParams2 : Params :=
  { trtRange := some (1, 4), ctlRange := some (1, 4), geoTol := some (1/2), volTol := some (1/2) }

example : countMaxDesigns exParams exEnv = 45 := by decide
example : specCount (sizesOk exParams exEnv) exEnv.cls 0 0 = 45 := by decide
example : (designsListing exParams exEnv).length = 45 := by decide
example : (evaluatedRaw exParams exEnv).length = 45 := by decide
/-- without any user range the count is 64 (of the 2·3·3·2·2 = 72 assignments). -/
example : countMaxDesigns {} exEnv = 64 ∧ specCount (fun _ _ => true) exEnv.cls 0 0 = 72 := by
  decide

example : countMaxDesigns exParams2 exEnv = 30 := by decide +kernel
example : specCount (sizesOk exParams2 exEnv) exEnv.cls 0 0 = 30 := by decide +kernel
example : (designsListing exParams2 exEnv).length = 30 := by decide +kernel
/-- the bound (C) can be strict: the volume-ratio test discards listed pairs. -/
example : (evaluatedRaw exParams2 exEnv).length = 16 := by decide +kernel
example : (designsListing exParams2 exEnv).take 3 = [([0], [1]), ([0, 1], [2, 3]), ([0, 1], [2, 5])] := by
  decide +kernel
example : sizesOk exParams2 exEnv 2 3 = true ∧ sizesOk exParams2 exEnv 2 4 = false := by
  decide +kernel

end MM.Search
