/-
Helper lemmas for C11 (A): the nested-sum count as a composition of one-geo operators.
-/
import MM.Proofs.Combos
import Mathlib.Algebra.BigOperators.Intervals
import Mathlib.Algebra.BigOperators.Ring.Finset
import Mathlib.Tactic.Ring
import Mathlib.Tactic.Linarith

namespace MM.Search
open Finset

/-- `sum` over `List.range` as a `Finset.range` sum. -/
theorem list_sum_range (n : Nat) (f : Nat → Nat) :
    ((List.range n).map f).sum = ∑ i ∈ range n, f i := by
  induction n with
  | zero => simp
  | succ n ih => simp [List.range_succ, Finset.sum_range_succ, ih]

/-- Pascal regrouping. -/
theorem sum_choose_succ (n : ℕ) (f : ℕ → ℕ) :
    ∑ i ∈ range (n + 2), (n + 1).choose i * f i
      = ∑ i ∈ range (n + 1), n.choose i * f (i + 1) + ∑ i ∈ range (n + 1), n.choose i * f i := by
  have h1 : ∑ i ∈ range (n + 1), n.choose (i + 1) * f (i + 1) + f 0
      = ∑ i ∈ range (n + 1), n.choose i * f i := by
    have hR : ∑ i ∈ range (n + 1), n.choose i * f i
        = ∑ i ∈ range n, n.choose (i + 1) * f (i + 1) + f 0 := by
      rw [sum_range_succ']; simp
    have hL : ∑ i ∈ range (n + 1), n.choose (i + 1) * f (i + 1)
        = ∑ i ∈ range n, n.choose (i + 1) * f (i + 1) := by
      rw [sum_range_succ]; simp [Nat.choose_succ_self]
    rw [hR, hL]
  rw [sum_range_succ' _ (n + 1)]
  simp only [Nat.choose_succ_succ, Nat.choose_zero_right, one_mul, add_mul, sum_add_distrib]
  simp only [Nat.succ_eq_add_one] at *
  omega

/-- weight functions on (treatment size, control size). -/
abbrev Wt := Nat → Nat → Nat

def shT (W : Wt) : Wt := fun t c => W (t + 1) c
def shC (W : Wt) : Wt := fun t c => W t (c + 1)

/-- the one-geo operator of each eligibility class. -/
def op : GeoClass → Wt → Wt
  | .tFixed, W => shT W
  | .cFixed, W => shC W
  | .ct, W => fun t c => W (t + 1) c + W t (c + 1)
  | .tx, W => fun t c => W (t + 1) c + W t c
  | .cx, W => fun t c => W t (c + 1) + W t c
  | .ctx, W => fun t c => W (t + 1) c + W t (c + 1) + W t c

theorem op_comm (g h : GeoClass) (W : Wt) : op g (op h W) = op h (op g W) := by
  funext t c
  cases g <;> cases h <;> simp only [op, shT, shC] <;> omega

theorem op_commute (g h : GeoClass) : Function.Commute (op g) (op h) := fun W => op_comm g h W

/-- additivity of `op`. -/
theorem op_add (g : GeoClass) (U V : Wt) : op g (U + V) = op g U + op g V := by
  funext t c
  cases g <;> simp only [op, shT, shC, Pi.add_apply] <;> omega

theorem op_iter_add (g : GeoClass) (n : Nat) (U V : Wt) :
    (op g)^[n] (U + V) = (op g)^[n] U + (op g)^[n] V := by
  induction n generalizing U V with
  | zero => rfl
  | succ n ih => simp only [Function.iterate_succ_apply, op_add, ih]

theorem shT_iter (n : Nat) (W : Wt) (t c : Nat) : shT^[n] W t c = W (t + n) c := by
  induction n generalizing W t with
  | zero => rfl
  | succ n ih => rw [Function.iterate_succ_apply, ih]; show W (t + n + 1) c = W (t + (n + 1)) c; rfl

theorem shC_iter (n : Nat) (W : Wt) (t c : Nat) : shC^[n] W t c = W t (c + n) := by
  induction n generalizing W c with
  | zero => rfl
  | succ n ih => rw [Function.iterate_succ_apply, ih]; show W t (c + n + 1) = W t (c + (n + 1)); rfl

/-- binomial theorem for two commuting additive operators, pointwise. -/
theorem binom_iter (P Q : Wt → Wt)
    (hP : ∀ U V, P (U + V) = P U + P V) (hQ : ∀ U V, Q (U + V) = Q U + Q V)
    (hc : ∀ W, Q (P W) = P (Q W)) (n : Nat) (W : Wt) (t c : Nat) :
    (fun W => P W + Q W)^[n] W t c
      = ∑ i ∈ range (n + 1), n.choose i * (P^[i] (Q^[n - i] W)) t c := by
  have hPi : ∀ i U V, P^[i] (U + V) = P^[i] U + P^[i] V := by
    intro i; induction i with
    | zero => intros; rfl
    | succ i ih => intro U V; simp only [Function.iterate_succ_apply, hP, ih]
  have hQi : ∀ i U V, Q^[i] (U + V) = Q^[i] U + Q^[i] V := by
    intro i; induction i with
    | zero => intros; rfl
    | succ i ih => intro U V; simp only [Function.iterate_succ_apply, hQ, ih]
  have hci : ∀ k W, Q^[k] (P W) = P (Q^[k] W) := by
    intro k; induction k with
    | zero => intros; rfl
    | succ k ih => intro W; simp only [Function.iterate_succ_apply, hc, ih]
  induction n generalizing W with
  | zero => simp
  | succ n ih =>
    rw [Function.iterate_succ_apply, ih, sum_choose_succ n (fun i => (P^[i] (Q^[n + 1 - i] W)) t c),
      ← sum_add_distrib]
    refine sum_congr rfl fun i hi => ?_
    have hin : i ≤ n := by have := mem_range.1 hi; omega
    have e1 : n + 1 - (i + 1) = n - i := by omega
    have e2 : n + 1 - i = (n - i) + 1 := by omega
    simp only [e1, e2, hQi, hPi, Pi.add_apply, hci, Function.iterate_succ_apply, mul_add]

/-! ### closed forms of the iterated one-geo operators -/

theorem op_tFixed_iter (n : Nat) (W : Wt) (t c : Nat) : (op .tFixed)^[n] W t c = W (t + n) c :=
  shT_iter n W t c

theorem op_cFixed_iter (n : Nat) (W : Wt) (t c : Nat) : (op .cFixed)^[n] W t c = W t (c + n) :=
  shC_iter n W t c

theorem shT_add (U V : Wt) : shT (U + V) = shT U + shT V := op_add .tFixed U V
theorem shC_add (U V : Wt) : shC (U + V) = shC U + shC V := op_add .cFixed U V

theorem op_tx_iter (n : Nat) (W : Wt) (t c : Nat) :
    (op .tx)^[n] W t c = ∑ i ∈ range (n + 1), n.choose i * W (t + i) c := by
  have h : op .tx = fun W => shT W + id W := by funext W; rfl
  rw [h, binom_iter shT id shT_add (fun _ _ => rfl) (fun _ => rfl)]
  simp only [Function.iterate_id, id, shT_iter]

theorem op_cx_iter (n : Nat) (W : Wt) (t c : Nat) :
    (op .cx)^[n] W t c = ∑ i ∈ range (n + 1), n.choose i * W t (c + i) := by
  have h : op .cx = fun W => shC W + id W := by funext W; rfl
  rw [h, binom_iter shC id shC_add (fun _ _ => rfl) (fun _ => rfl)]
  simp only [Function.iterate_id, id, shC_iter]

theorem op_ct_iter (n : Nat) (W : Wt) (t c : Nat) :
    (op .ct)^[n] W t c = ∑ i ∈ range (n + 1), n.choose i * W (t + i) (c + (n - i)) := by
  have h : op .ct = fun W => shT W + shC W := by funext W; rfl
  rw [h, binom_iter shT shC shT_add shC_add (fun W => op_comm .cFixed .tFixed W)]
  simp only [shT_iter, shC_iter]

theorem op_ctx_iter (n : Nat) (W : Wt) (t c : Nat) :
    (op .ctx)^[n] W t c
      = ∑ i ∈ range (n + 1), ∑ j ∈ range (n - i + 1),
          n.choose i * ((n - i).choose j * W (t + i) (c + j)) := by
  have h : op .ctx = fun W => shT W + op .cx W := by
    funext W t c; simp only [op, shT, Pi.add_apply, Nat.add_assoc]
  rw [h, binom_iter shT (op .cx) shT_add (op_add .cx) (fun W => op_comm .cx .tFixed W)]
  simp only [shT_iter, op_cx_iter, mul_sum]

/-- composition of the one-geo operators along a class list. -/
def opList : List GeoClass → Wt → Wt
  | [], W => W
  | g :: rest, W => op g (opList rest W)

def cnt (cls : List GeoClass) (g : GeoClass) : Nat := (cls.filter (· == g)).length

theorem cnt_cons (g h : GeoClass) (rest : List GeoClass) :
    cnt (g :: rest) h = if g = h then cnt rest h + 1 else cnt rest h := by
  unfold cnt
  by_cases hh : g = h <;> simp [hh]

/-- the canonical ordering of the iterated operators used by the fast count. -/
def opCounts (nTF nCF nCX nTX nCT nCTX : Nat) (W : Wt) : Wt :=
  (op .ct)^[nCT] ((op .tx)^[nTX] ((op .ctx)^[nCTX] ((op .cx)^[nCX]
    ((op .tFixed)^[nTF] ((op .cFixed)^[nCF] W)))))

theorem op_push (g h : GeoClass) (n : Nat) (X : Wt) :
    op g ((op h)^[n] X) = (op h)^[n] (op g X) := ((op_commute g h).iterate_right n) X

theorem op_absorb (g : GeoClass) (n : Nat) (X : Wt) :
    op g ((op g)^[n] X) = (op g)^[n + 1] X := (Function.iterate_succ_apply' (op g) n X).symm

/-- since the one-geo operators commute, their composition depends on class counts only. -/
theorem opList_eq_opCounts (cls : List GeoClass) (W : Wt) :
    opList cls W = opCounts (cnt cls .tFixed) (cnt cls .cFixed) (cnt cls .cx) (cnt cls .tx)
      (cnt cls .ct) (cnt cls .ctx) W := by
  induction cls with
  | nil => rfl
  | cons g rest ih =>
    simp only [opList, ih, opCounts]
    cases g <;> simp only [cnt_cons, if_true, reduceCtorEq, if_false]
    · rw [op_push .cFixed .ct, op_push .cFixed .tx, op_push .cFixed .ctx, op_push .cFixed .cx,
        op_push .cFixed .tFixed, op_absorb]
    · rw [op_push .tFixed .ct, op_push .tFixed .tx, op_push .tFixed .ctx, op_push .tFixed .cx,
        op_absorb]
    · rw [op_absorb]
    · rw [op_push .cx .ct, op_push .cx .tx, op_push .cx .ctx, op_absorb]
    · rw [op_push .tx .ct, op_absorb]
    · rw [op_push .ctx .ct, op_push .ctx .tx, op_absorb]

/-- indicator weight of an admissibility predicate. -/
def W0 (ok : Nat → Nat → Bool) : Wt := fun t c => if ok t c then 1 else 0

/-- `count_max_designs` as a function of the six class counts and the size predicate. -/
def countAux (ok : Nat → Nat → Bool) (nTF nCF nCX nTX nCT nCTX : Nat) : Nat :=
  ∑ iCT ∈ range (1 + nCT), ∑ iTX ∈ range (1 + nTX), ∑ iCTX ∈ range (1 + nCTX),
    ∑ iCX ∈ range (1 + nCX), ∑ iCCTX ∈ range (1 + nCTX - iCTX),
      if ok (nTF + iTX + iCTX + iCT) (nCF + iCX + iCCTX + (nCT - iCT)) then
        nCT.choose iCT * nTX.choose iTX * nCTX.choose iCTX * nCX.choose iCX
          * (nCTX - iCTX).choose iCCTX
      else 0

theorem countAux_eq_opCounts (ok : Nat → Nat → Bool) (nTF nCF nCX nTX nCT nCTX : Nat) :
    countAux ok nTF nCF nCX nTX nCT nCTX = opCounts nTF nCF nCX nTX nCT nCTX (W0 ok) 0 0 := by
  unfold countAux opCounts
  rw [op_ct_iter]
  simp only [op_tx_iter, op_ctx_iter, op_cx_iter, op_tFixed_iter, op_cFixed_iter, mul_sum]
  rw [Nat.add_comm 1 nCT, Nat.add_comm 1 nTX, Nat.add_comm 1 nCTX, Nat.add_comm 1 nCX]
  refine sum_congr rfl fun iCT _ => sum_congr rfl fun iTX _ => sum_congr rfl fun iCTX hCTX => ?_
  have e : nCTX + 1 - iCTX = nCTX - iCTX + 1 := by have := mem_range.1 hCTX; omega
  rw [e, sum_comm]
  refine sum_congr rfl fun iCCTX _ => sum_congr rfl fun iCX _ => ?_
  have e1 : 0 + iCT + iTX + iCTX + nTF = nTF + iTX + iCTX + iCT := by omega
  have e2 : 0 + (nCT - iCT) + iCCTX + iCX + nCF = nCF + iCX + iCCTX + (nCT - iCT) := by omega
  simp only [W0, e1, e2]
  split_ifs <;> simp only [mul_one, mul_zero]
  ring

theorem countCls_eq_cnt (e : Env) (g : GeoClass) : countCls e g = cnt e.cls g := rfl

/-- the model's five nested loops are `countAux` of the class counts and the size predicate. -/
theorem countMaxDesigns_eq_countAux (p : Params) (e : Env) :
    countMaxDesigns p e
      = countAux (fun t c => (trtSizeRange p e).contains t && (ctlSizes p e t).contains c)
          (cnt e.cls .tFixed) (cnt e.cls .cFixed) (cnt e.cls .cx) (cnt e.cls .tx)
          (cnt e.cls .ct) (cnt e.cls .ctx) := by
  unfold countMaxDesigns countAux
  simp only [list_sum_range, MM.Search.choose_eq, countCls_eq_cnt]
  refine sum_congr rfl fun iCT _ => sum_congr rfl fun iTX _ => sum_congr rfl fun iCTX _ => ?_
  by_cases h : (trtSizeRange p e).contains (cnt e.cls .tFixed + iTX + iCTX + iCT) = true
  · rw [if_pos h]; simp only [h, Bool.true_and]
  · rw [if_neg h]; rw [Bool.not_eq_true] at h
    simp only [h, Bool.false_and, Bool.false_eq_true, if_false, sum_const_zero]

end MM.Search
