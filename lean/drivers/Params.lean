/- Driver for the C17 model.
   obj <field>=<val> ...      construct with these keyword arguments -> ok | err <Class>
   eq <field>=<val> ... | <field>=<val> ...     both must construct; prints true/false
   values: i:<int>  f:<num/den|inf|-inf|nan>  b:0|1  n (None)  o (other)  t:[v;v;...]   -/
import MM.Model.Params
import MM.Driver.Wire
open MM MM.Params

partial def parseVal (s : String) : PyVal :=
  if s == "n" then .none
  else if s == "o" then .other
  else if s.startsWith "i:" then match (s.drop 2).toString.toInt? with | some z => .int z | none => .other
  else if s.startsWith "b:" then .bool ((s.drop 2).toString == "1")
  else if s.startsWith "f:" then match Wire.parsePyFloat (s.drop 2).toString with | some f => .float f | none => .other
  else if s.startsWith "t:[" then
    let inner := ((s.drop 3).dropEnd 1).toString
    .tuple (if inner == "" then [] else (inner.splitOn ";").map parseVal)
  else .other

def fieldOf (name : String) : Option Field := Field.all.find? (fun f => f.name == name)

def parseArgs (toks : List String) : Field → Option PyVal :=
  let kvs : List (Field × PyVal) := toks.filterMap fun tok =>
    match tok.splitOn "=" with
    | [k, v] => (fieldOf k).map fun f => (f, parseVal v)
    | _ => none
  fun f => (kvs.find? (fun kv => kv.1 == f)).map (·.2)

def handle (line : String) : IO Unit := do
  match Wire.words line with
  | "obj" :: toks =>
    match construct (parseArgs toks) with
    | .ok _ => IO.println "ok"
    | .error e => IO.println ("err " ++ e.name)
  | "eq" :: toks =>
    let a := toks.takeWhile (· != "|")
    let b := (toks.dropWhile (· != "|")).drop 1
    match construct (parseArgs a), construct (parseArgs b) with
    | .ok x, .ok y => IO.println (if objEq x y then "true" else "false")
    | _, _ => IO.println "err construct"
  | _ => IO.println "bad-op"

def main : IO Unit := do Wire.forLines (← IO.getStdin) handle
