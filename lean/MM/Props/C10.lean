/-
C10: the public surface of one `TBRMatchedMarkets` object is history free.

Whatever sequence of property reads, queries, searches and `search_results()` retrievals a caller
performs on one object, every call other than the retrieval answers exactly as it would on a
freshly built object, the caller's parameter object is never modified (in particular a
`greedy_search()` hands it back as it found it), and `search_results()` answers with the designs
the most recent successful search returned (geo IDs, not indices; the same answer every time).

Model: `MM/Model/Api.lean` (state machine over `MM/Model/Search.lean`, `MM/Model/Admit.lean`).
Helper lemmas: `MM/Proofs/Api.lean`.  No Mathlib imports.
-/
import MM.Proofs.Api

namespace MM.Api
open MM MM.Search MM.Admit

/-! ### specification -/

/-- what a call answers on a freshly built object (for `results`: there is nothing to retrieve yet) -/
def freshOut (w : World) (p : Params) (op : Op) : Out := (step w (init p) op).2

/-- the search calls -/
def Op.isSearch : Op → Bool | .exhaustive | .greedy _ => true | _ => false

/-- did this search call store results?  (it does exactly when it returns designs) -/
def storesResults (w : World) (p : Params) (op : Op) : Bool :=
  match freshOut w p op with | .designs _ => op.isSearch | _ => false

/-- the answer `search_results()` must give after the calls `pre`: the designs returned by the most
recent search that returned designs, AttributeError if there was none -/
def lastSearchOut (w : World) (p : Params) : List Op → Out
  | [] => .err .attributeError
  | op :: pre => if storesResults w p op then freshOut w p op else lastSearchOut w p pre     -- `pre` is given most-recent-first

/-- specification of a whole history: every call answers as on a fresh object; `results` answers
with the last stored search -/
def specRun (w : World) (p : Params) : List Op → List Op → List Out     -- (calls so far, most recent first) (remaining)
  | _, [] => []
  | done, .results :: ops => lastSearchOut w p done :: specRun w p (.results :: done) ops
  | done, op :: ops => freshOut w p op :: specRun w p (op :: done) ops

/-- invariant of reachable states -/
structure Inv (w : World) (p : Params) (s : State) : Prop where
  params : s.params = p
  index : s.geoIndex = none ∨ s.geoIndex = some (admitted w p)
  resultsIndexed : s.results ≠ none → s.geoIndex = some (admitted w p)

/-- auxiliary invariant: the stored results, shown through the admitted geos, are what the
specification says `search_results()` must answer after the calls `done` (most recent first) -/
def ResInv (w : World) (p : Params) (s : State) (done : List Op) : Prop :=
  lastSearchOut w p done =
    match s.results with
    | none => .err .attributeError
    | some ds => showDesigns (admitted w p) ds

/-! ### unfolding the specification -/

theorem specRun_results (w : World) (p : Params) (done ops : List Op) :
    specRun w p done (.results :: ops) = lastSearchOut w p done :: specRun w p (.results :: done) ops := by
  simp only [specRun]

theorem specRun_cons (w : World) (p : Params) (done : List Op) (op : Op) (ops : List Op)
    (hop : op ≠ .results) :
    specRun w p done (op :: ops) = freshOut w p op :: specRun w p (op :: done) ops := by
  cases op
  case results => exact absurd rfl hop
  all_goals simp only [specRun]

theorem isSearch_ne_results (op : Op) (hs : op.isSearch = true) : op ≠ .results := by
  intro h; subst h; cases hs

theorem storesResults_results (w : World) (p : Params) : storesResults w p .results = false := rfl

/-- a search whose fresh answer is a list of designs stores it -/
theorem storesResults_of_designs (w : World) (p : Params) (op : Op) (hs : op.isSearch = true)
    (l : List (List Nat × List Nat × Score)) (h : freshOut w p op = .designs l) :
    storesResults w p op = true := by
  unfold storesResults; rw [h]; exact hs

/-- a call whose fresh answer is not a list of designs stores nothing -/
theorem storesResults_of_not_designs (w : World) (p : Params) (op : Op)
    (h : ∀ l, freshOut w p op ≠ .designs l) : storesResults w p op = false := by
  unfold storesResults
  split
  · next l heq => exact absurd heq (h l)
  · rfl

/-! ### invariants -/

theorem C10_init_inv (w : World) (p : Params) : Inv w p (init p) :=
  ⟨rfl, .inl rfl, fun h => absurd rfl h⟩

theorem C10_step_inv (w : World) (p : Params) (s : State) (op : Op) (h : Inv w p s) :
    Inv w p (step w s op).1 := by
  have hidx : (step w s op).1.geoIndex = s.geoIndex ∨
      (step w s op).1.geoIndex = some (admitted w p) := by
    have := step_geoIndex w s op
    rwa [h.params] at this
  refine ⟨(step_params w s op).trans h.params, ?_, ?_⟩
  · rcases hidx with e | e
    · rw [e]; exact h.index
    · exact .inr e
  · intro hne
    rcases step_store w s op with ⟨ds, _, hi, _, _⟩ | ⟨hr, _⟩
    · rw [hi, h.params]
    · rw [hr] at hne
      rcases hidx with e | e
      · rw [e]; exact h.resultsIndexed hne
      · exact e

theorem after_inv (w : World) (p : Params) (s : State) (ops : List Op) (h : Inv w p s) :
    Inv w p (after w s ops) := by
  induction ops generalizing s with
  | nil => exact h
  | cons op ops ih => exact ih _ (C10_step_inv w p s op h)

/-- a search leaves the caller's parameter object unmodified, and so does every other call -/
theorem C10_params_unchanged (w : World) (p : Params) (ops : List Op) :
    (ops.foldl (fun s op => (step w s op).1) (init p)).params = p :=
  (after_inv w p (init p) ops (C10_init_inv w p)).params

/-- every non-retrieval call answers exactly as on a fresh object, whatever happened before -/
theorem C10_call_history_free (w : World) (p : Params) (s : State) (h : Inv w p s) (op : Op)
    (hop : op ≠ .results) : (step w s op).2 = freshOut w p op :=
  step_out_congr w s (init p) h.params op hop

theorem resInv_init (w : World) (p : Params) : ResInv w p (init p) [] := rfl

/-- one call keeps the stored results in line with the specification -/
theorem resInv_step (w : World) (p : Params) (s : State) (done : List Op) (op : Op)
    (h : Inv w p s) (hr : ResInv w p s done) : ResInv w p (step w s op).1 (op :: done) := by
  unfold ResInv
  show (if storesResults w p op then freshOut w p op else lastSearchOut w p done) = _
  rcases step_store w s op with ⟨ds, hres, _, hout, hsrch⟩ | ⟨hres, hno⟩
  · have hs : op.isSearch = true := by
      rcases hsrch with rfl | ⟨f, rfl⟩ <;> rfl
    have hfresh : freshOut w p op = showDesigns (admitted w p) ds := by
      rw [← C10_call_history_free w p s h op (isSearch_ne_results op hs), hout, h.params]
    rw [storesResults_of_designs w p op hs _ hfresh, if_pos rfl, hres, hfresh]
  · have hst : storesResults w p op = false := by
      rcases hno with rfl | hno
      · exact storesResults_results w p
      · by_cases hop : op = .results
        · subst hop; exact storesResults_results w p
        · apply storesResults_of_not_designs
          intro l
          rw [← C10_call_history_free w p s h op hop]
          exact hno l
    rw [hst, hres]
    exact hr

theorem after_resInv (w : World) (p : Params) (s : State) (done ops : List Op)
    (h : Inv w p s) (hr : ResInv w p s done) : ResInv w p (after w s ops) (ops.reverse ++ done) := by
  induction ops generalizing s done with
  | nil => exact hr
  | cons op ops ih =>
    have := ih (step w s op).1 (op :: done) (C10_step_inv w p s op h) (resInv_step w p s done op h hr)
    simpa using this

/-- the retrieval answers what the specification says -/
theorem results_out (w : World) (p : Params) (s : State) (done : List Op)
    (h : Inv w p s) (hr : ResInv w p s done) : (step w s .results).2 = lastSearchOut w p done := by
  rw [step_results_out, hr]
  cases hres : s.results with
  | none => rfl
  | some ds =>
    have hi := h.resultsIndexed (by rw [hres]; exact fun e => by cases e)
    rw [hi]

/-- the generalised statement: from any state satisfying the invariants -/
theorem run_eq_specRun (w : World) (p : Params) (s : State) (done ops : List Op)
    (h : Inv w p s) (hr : ResInv w p s done) : run w s ops = specRun w p done ops := by
  induction ops generalizing s done with
  | nil => rfl
  | cons op ops ih =>
    have hnext := ih (step w s op).1 (op :: done) (C10_step_inv w p s op h) (resInv_step w p s done op h hr)
    by_cases hop : op = .results
    · subst hop
      rw [run_cons, specRun_results, results_out w p s done h hr, hnext]
    · rw [run_cons, specRun_cons w p done op ops hop, C10_call_history_free w p s h op hop, hnext]

/-- main theorem: any interleaving of queries, searches and retrievals behaves like the specification -/
theorem C10_history_free (w : World) (p : Params) (ops : List Op) :
    run w (init p) ops = specRun w p [] ops :=
  run_eq_specRun w p (init p) [] ops (C10_init_inv w p) (resInv_init w p)

/-- retrieving the results repeatedly returns the same designs -/
theorem C10_results_idempotent (w : World) (p : Params) (pre : List Op) (post : List Op) :
    ∀ o1 o2, (run w (init p) (pre ++ [.results, .results] ++ post))[pre.length]? = some o1 →
             (run w (init p) (pre ++ [.results, .results] ++ post))[pre.length + 1]? = some o2 → o1 = o2 := by
  intro o1 o2 h1 h2
  have e : pre ++ [Op.results, Op.results] ++ post = pre ++ (Op.results :: Op.results :: post) := by simp
  rw [e] at h1 h2
  have g1 := run_append_getElem? w (init p) pre (Op.results :: Op.results :: post) 0
  have g2 := run_append_getElem? w (init p) pre (Op.results :: Op.results :: post) 1
  rw [Nat.add_zero] at g1
  rw [g1] at h1
  rw [g2] at h2
  simp only [run_cons, step_results_state, List.getElem?_cons_zero, List.getElem?_cons_succ] at h1 h2
  exact Option.some.inj (h1.symm.trans h2)

/-- the retrieval right after a search returns what the search returned -/
theorem C10_results_after_search (w : World) (p : Params) (pre : List Op) (op : Op)
    (hs : op.isSearch = true) (ds : _) (hout : freshOut w p op = .designs ds) :
    (run w (init p) (pre ++ [op, .results]))[pre.length + 1]? = some (.designs ds) := by
  have hI := after_inv w p (init p) pre (C10_init_inv w p)
  have hR := after_resInv w p (init p) [] pre (C10_init_inv w p) (resInv_init w p)
  rw [run_append_getElem? w (init p) pre [op, .results] 1,
    run_eq_specRun w p _ _ [op, .results] hI hR,
    specRun_cons w p _ op _ (isSearch_ne_results op hs), specRun_results]
  show some (if storesResults w p op then freshOut w p op else _) = _
  rw [storesResults_of_designs w p op hs ds hout, if_pos rfl, hout]

/-! ### negative witness: the model can express the repaired defects

`stepBuggy` is `step` except that `greedy` does not restore the caller's parameter object (the
behaviour of the tree before the repair).  On a two-geo panel the parameter object then comes
back with the size ranges filled in, and (second defect, a consequence) a later
`treatment_group_size_range()` no longer answers as on a fresh object. -/

def stepBuggy (w : World) (s : State) : Op → State × Out
  | .greedy fuel =>
    let (s1, idx) := install w s
    let user := s1.params
    let s2 := { s1 with params := greedyParams user (w.env idx) }
    match greedyFuel fuel user (w.env idx) with
    | none => (s2, .diverge)
    | some (.ok ds) => ({ s2 with results := some ds }, showDesigns idx ds)
    | some (.error e) => (s2, .err e)
  | op => step w s op

def runBuggy (w : World) (s : State) : List Op → List Out
  | [] => []
  | op :: ops => let r := stepBuggy w s op; r.2 :: runBuggy w r.1 ops

deriving instance DecidableEq for Out

def envConst (cls : List GeoClass) : Env :=
  { cls := cls
    share := fun _ => 1 / 4
    optImpact := fun _ => .fin 1
    impact := fun _ _ => .fin 1
    score5 := fun T C => [some 1, some (T.length : Rat), some (C.length : Rat), some (T.sum : Rat), some 1]
    invImpact := fun _ _ => some 1
    budgetInv := fun _ _ => some 1 }

/-- two geos of class ctx, constant environment -/
def w2 : World :=
  { rows := [⟨.ctx, 1 / 2, .fin 1⟩, ⟨.ctx, 1 / 2, .fin 1⟩]
    nGeosMax := none
    env := fun _ => envConst [.ctx, .ctx] }

def p0 : Params := {}

/-- repaired model: the caller's ranges are still unspecified after a greedy search -/
example : (step w2 (init p0) (.greedy 100)).1.params.trtRange = none := by decide +kernel

/-- defect 1: without the restore the parameter object comes back modified -/
theorem stepBuggy_modifies_params :
    (stepBuggy w2 (init p0) (.greedy 100)).1.params.trtRange = some (1, 1) ∧
    (stepBuggy w2 (init p0) (.greedy 100)).1.params.ctlRange = some (1, 1) ∧
    (init p0).params.trtRange = none ∧ (init p0).params.ctlRange = none := by decide +kernel

/-- `stepBuggy` agrees with `step` away from `greedy` -/
theorem stepBuggy_eq_step (w : World) (s : State) (op : Op) (h : ∀ f, op ≠ .greedy f) :
    stepBuggy w s op = step w s op := by
  cases op
  case greedy f => exact absurd rfl (h f)
  all_goals rfl

/-- second repaired defect: `search_results()` used to map indices to geo IDs *in place* on the
stored designs, so a second retrieval mapped the IDs once more.  `stepBuggyResults` is `step`
except that the retrieval writes the mapped designs back. -/
def stepBuggyResults (w : World) (s : State) : Op → State × Out
  | .results =>
    match s.results, s.geoIndex with
    | some ds, some idx =>
      let ds' := ds.map fun d => { d with T := toIds idx d.T, C := toIds idx d.C }
      ({ s with results := some ds' }, .designs (ds'.map fun d => (d.T, d.C, d.score)))
    | _, _ => (s, .err .attributeError)
  | op => step w s op

def runBuggyResults (w : World) (s : State) : List Op → List Out
  | [] => []
  | op :: ops => let r := stepBuggyResults w s op; r.2 :: runBuggyResults w r.1 ops

/-- three rows, the first excluded from the design: geo IDs 1, 2 have indices 0, 1 -/
def w2x : World :=
  { rows := [⟨.xFixed, 1 / 2, .fin 1⟩, ⟨.ctx, 1 / 4, .fin 1⟩, ⟨.ctx, 1 / 4, .fin 1⟩]
    nGeosMax := none
    env := fun _ => envConst [.ctx, .ctx] }

/-- defect 2: the two retrievals differ (IDs mapped twice; `2` is no index, so it maps to row 0) -/
theorem stepBuggyResults_not_idempotent :
    runBuggyResults w2x (init p0) [.exhaustive, .results, .results] =
      [.designs [([2], [1], [some 1, some 1, some 1, some 1, some 1, some 1])],
       .designs [([2], [1], [some 1, some 1, some 1, some 1, some 1, some 1])],
       .designs [([0], [2], [some 1, some 1, some 1, some 1, some 1, some 1])]] := by decide +kernel

/-- repaired model on the same panel and history -/
example :
    run w2x (init p0) [.exhaustive, .results, .results] =
      [.designs [([2], [1], [some 1, some 1, some 1, some 1, some 1, some 1])],
       .designs [([2], [1], [some 1, some 1, some 1, some 1, some 1, some 1])],
       .designs [([2], [1], [some 1, some 1, some 1, some 1, some 1, some 1])]] := by decide +kernel

/-! ### non-vacuity: a concrete panel and history -/

/-- three admitted geos of classes ctx, ctx, cx; NaN-free scores (the fifth entry separates the designs) -/
def env3 : Env :=
  { cls := [.ctx, .ctx, .cx]
    share := fun _ => 1 / 3
    optImpact := fun _ => .fin 1
    impact := fun _ _ => .fin 1
    score5 := fun T C => [some 1, some 1, some 1, some 1, some ((C.length : Rat) * 3 - (T.sum : Rat))]
    invImpact := fun _ _ => some (1 / 2)
    budgetInv := fun _ _ => some 1 }

def w3 : World :=
  { rows := [⟨.ctx, 1 / 2, .fin 1⟩, ⟨.ctx, 1 / 4, .fin 1⟩, ⟨.cx, 1 / 4, .fin 1⟩]
    nGeosMax := none
    env := fun _ => env3 }

def p3 : Params := { nDesigns := 2 }

def hist3 : List Op :=
  [.count, .exhaustive, .results, .sizeRange, .greedy 1000, .results, .results, .designOk [0] [1]]

def sc3 (x : Rat) : Score := [some 1, some 1, some 1, some 1, some x, some (1 / 2)]
def exh3 : Out := .designs [([0], [1, 2], sc3 6), ([1], [0, 2], sc3 5)]
def grd3 : Out := .designs [([0], [1, 2], sc3 6), ([0, 1], [2], sc3 2)]

/-- the two searches return different designs; each retrieval shows the latest one -/
def out3 : List Out := [.num 7, exh3, exh3, .sizes [1, 2], grd3, grd3, grd3, .bool true]

theorem run_hist3 : run w3 (init p3) hist3 = out3 := by decide +kernel
#guard run w3 (init p3) hist3 = out3
#guard specRun w3 p3 [] hist3 = out3

/-- the main theorem applied: the specification of this history is the evaluated run -/
example : specRun w3 p3 [] hist3 = out3 := (C10_history_free w3 p3 hist3).symm.trans run_hist3

/-- the hypotheses of `C10_results_after_search` are satisfiable, for both searches -/
example : (run w3 (init p3) ([.count, .exhaustive, .results, .sizeRange] ++ [.greedy 1000, .results]))[4 + 1]? = some grd3 :=
  C10_results_after_search w3 p3 [.count, .exhaustive, .results, .sizeRange] (.greedy 1000) rfl _ (by decide +kernel)
example : (run w3 (init p3) ([.count] ++ [.exhaustive, .results]))[1 + 1]? = some exh3 :=
  C10_results_after_search w3 p3 [.count] .exhaustive rfl _ (by decide +kernel)

/-- which calls of the history store results: the searches that return designs, nothing else -/
example : storesResults w3 p3 .exhaustive = true ∧ storesResults w3 p3 (.greedy 1000) = true ∧
    storesResults w3 p3 (.greedy 0) = false ∧ storesResults w3 p3 .count = false := by decide +kernel

/-- running out of fuel is not a stored search: the retrieval still shows the exhaustive result -/
example : run w3 (init p3) [.exhaustive, .greedy 0, .results] = [exh3, .diverge, exh3] := by decide +kernel

/-- the reachable-state invariant holds non-trivially (index installed, results stored) -/
example : (after w3 (init p3) hist3).geoIndex = some [0, 1, 2] ∧
    (after w3 (init p3) hist3).results.isSome = true ∧
    (after w3 (init p3) hist3).params.trtRange = none := by decide +kernel

end MM.Api
