/-
Helper lemmas for the greedy-search theorems (MM/Props/Greedy.lean).

* `MM.Proofs.GreedySets`  – set and association-list lemmas
* `MM.Proofs.GreedyInv`   – the structural loop invariant (`InvPair`, `GInv`), fuel monotonicity
* `MM.Proofs.GreedyOrder` – tuple order on NaN-free scores, totalised comparison, `topK`
* `MM.Proofs.GreedyCons`  – `design_within_constraints` as a specification, link to the listing
* `MM.Proofs.GreedyTerm`  – termination measure
-/
import MM.Proofs.GreedyInv
import MM.Proofs.GreedyOrder
import MM.Proofs.GreedyCons
import MM.Proofs.GreedyTerm

namespace MM.Search
open MM

theorem ctorOk_of_invPair {e : Env} {T C : GeoSet} (hinv : InvPair e T C) (hT : T ≠ [])
    (hC : C ≠ []) : ctorOk T C = true := by
  unfold ctorOk
  rw [interSet_isEmpty hinv.disj]
  simp [hT, hC]

theorem greedyFinal_ctorOk {gp : Params} {e : Env} {st : GState} (hinv : GInv e st) :
    (greedyFinal gp e st).all (fun d => ctorOk d.T d.C) = true := by
  rw [List.all_eq_true]
  intro d hd
  obtain ⟨hp, _, hw, _⟩ := greedyFinal_spec hinv hd
  obtain ⟨hT, hC⟩ := withinConstraints_ne_nil hw
  exact ctorOk_of_invPair hp hT hC

/-- a terminated greedy search returns the top-k of the filtered dictionary of a state that
satisfies the loop invariant -/
theorem greedyFuel_some {fuel : Nat} {p : Params} {e : Env} {r : Py (List Design)}
    (h : greedyFuel fuel p e = some r) :
    ∃ st, greedyLoop (greedyParams p e) e fuel (greedyInit e) = some st ∧ GInv e st ∧
      r = .ok (topK p.nDesigns (greedyFinal (greedyParams p e) e st)) := by
  unfold greedyFuel at h
  dsimp only at h
  cases hl : greedyLoop (greedyParams p e) e fuel (greedyInit e) with
  | none => rw [hl] at h; cases h
  | some st =>
    rw [hl] at h
    have hinv := greedyLoop_ginv _ _ _ _ hl
    dsimp only at h
    rw [if_pos (greedyFinal_ctorOk hinv)] at h
    exact ⟨st, rfl, hinv, (Option.some.inj h).symm⟩

/-- everything the proofs need about one returned design -/
theorem mem_greedy {fuel : Nat} {p : Params} {e : Env} {ds : List Design}
    (h : greedyFuel fuel p e = some (.ok ds)) {d : Design} (hd : d ∈ ds) :
    InvPair e d.T d.C ∧ d.score = fullScore e d.T d.C ∧
      WithinSpec (greedyParams p e) e d.T d.C ∧ budgetBad (greedyParams p e) e d.T d.C = false := by
  obtain ⟨st, _, hinv, hr⟩ := greedyFuel_some h
  cases hr
  obtain ⟨h1, h2, h3, h4⟩ := greedyFinal_spec hinv (mem_topK hd)
  exact ⟨h1, h2, withinConstraints_spec h3, h4⟩

theorem effTrtRange_greedyParams (p : Params) (e : Env) :
    effTrtRange (greedyParams p e) e = effTrtRange p e :=
  effTrtRange_of_some rfl

theorem length_idx_le (e : Env) (pr : GeoClass → Bool) : (e.idx pr).length ≤ e.cls.length := by
  unfold Env.idx
  exact (List.length_filter_le _ _).trans (by rw [List.length_range])

end MM.Search
