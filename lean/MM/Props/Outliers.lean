/-
Termination of the outlier-date loop (model: MM/Model/Outliers.lean).  STATEMENTS FIXED; proofs to be supplied.
-/
import MM.Model.Outliers
namespace MM.Outliers

theorem ol_remaining_append (e : Env) (ex l : List Nat) :
    remaining e (ex ++ l) = (remaining e ex).filter fun d => !l.contains d := by
  unfold remaining
  rw [List.filter_filter]
  congr 1
  funext d
  simp [List.contains_eq_mem, List.mem_append]
  exact Bool.and_comm _ _

theorem ol_remaining_append_lt (e : Env) (ex l : List Nat) (d : Nat) (hd : d ∈ l)
    (hr : d ∈ remaining e ex) : (remaining e (ex ++ l)).length < (remaining e ex).length := by
  rw [ol_remaining_append]
  rw [List.length_filter_lt_length_iff_exists]
  exact ⟨d, hr, by simp [hd]⟩

theorem ol_step_some (e : Env) (ex ex' : List Nat) (h : step e ex = some ex') :
    ex' = ex ++ e.argmax ex ∧ ∃ m, e.maxResid ex = some m := by
  unfold step at h
  split at h
  · exact absurd h (by simp)
  · split at h
    · exact absurd h (by simp)
    · rename_i m hm
      split at h
      · split at h
        · exact absurd h (by simp)
        · exact ⟨(Option.some.inj h).symm, m, hm⟩
      · exact ⟨(Option.some.inj h).symm, m, hm⟩

/-- every pass that does not stop removes at least one remaining date -/
theorem step_progress (e : Env) (hs : Sound e) (ex ex' : List Nat) (h : step e ex = some ex') :
    (remaining e ex').length < (remaining e ex).length := by
  obtain ⟨rfl, m, hm⟩ := ol_step_some e ex ex' h
  obtain ⟨d, hd, hr⟩ := hs.attained ex m hm
  exact ol_remaining_append_lt e ex _ d hd hr

theorem ol_loop_terminates_gen (e : Env) (hs : Sound e) :
    ∀ fuel ex, (remaining e ex).length < fuel → loop (step e) fuel ex ≠ none := by
  intro fuel
  induction fuel with
  | zero => intro ex h; exact absurd h (Nat.not_lt_zero _)
  | succ n ih =>
    intro ex h
    unfold loop
    cases hst : step e ex with
    | none => simp
    | some ex' =>
      simp only
      apply ih
      have := step_progress e hs ex ex' hst
      omega

/-- the repaired loop stops within `dates.length + 1` passes, whatever the numerics -/
theorem loop_terminates (e : Env) (hs : Sound e) : loop (step e) (e.dates.length + 1) [] ≠ none := by
  apply ol_loop_terminates_gen e hs
  have : (remaining e []).length ≤ e.dates.length := by
    unfold remaining
    exact List.length_filter_le _ _
  omega

theorem ol_remaining_sub (e : Env) (ex : List Nat) (d : Nat) (h : d ∈ remaining e ex) : d ∈ e.dates := by
  unfold remaining at h
  exact (List.mem_filter.mp h).1

theorem ol_loop_reports_gen (e : Env) (hsub : ∀ ex d, d ∈ e.argmax ex → d ∈ remaining e ex)
    (out : List Nat) : ∀ fuel ex, (∀ d ∈ ex, d ∈ e.dates) → loop (step e) fuel ex = some out →
      ∀ d ∈ out, d ∈ e.dates := by
  intro fuel
  induction fuel with
  | zero => intro ex _ h; simp [loop] at h
  | succ n ih =>
    intro ex hex h
    unfold loop at h
    cases hst : step e ex with
    | none =>
      rw [hst] at h
      simp only at h
      cases h
      exact hex
    | some ex' =>
      rw [hst] at h
      simp only at h
      apply ih ex' _ h
      obtain ⟨rfl, _⟩ := ol_step_some e ex ex' hst
      intro d hd
      rcases List.mem_append.mp hd with hd | hd
      · exact hex d hd
      · exact ol_remaining_sub e ex d (hsub ex d hd)

/-- only dates of the data are ever reported, and the reported list has no date the loop did not pick -/
theorem loop_reports_dates (e : Env) (hs : Sound e) (hsub : ∀ ex d, d ∈ e.argmax ex → d ∈ remaining e ex)
    (fuel : Nat) (out : List Nat) (h : loop (step e) fuel [] = some out) : ∀ d ∈ out, d ∈ e.dates := by
  have _ := hs
  exact ol_loop_reports_gen e hsub out fuel [] (by intro d hd; cases hd) h

/-- a perfect fit: the maximum is NaN from the start -/
def perfectFit : Env where
  dates := [0, 1, 2]
  maxResid := fun _ => none
  threshold := fun _ => some 2
  argmax := fun _ => []

theorem perfectFit_sound : Sound perfectFit := by
  constructor
  · intro ex m h
    simp [perfectFit] at h
  · intro ex _
    rfl

theorem ol_stepOriginal_perfectFit : stepOriginal perfectFit [] = some [] := by
  simp [stepOriginal, remaining, perfectFit]

/-- before the repair the loop never stops on a perfect fit: it is out of fuel for every amount of fuel -/
theorem original_does_not_terminate : ∀ fuel, loop (stepOriginal perfectFit) fuel [] = none := by
  intro fuel
  induction fuel with
  | zero => rfl
  | succ n ih =>
    unfold loop
    rw [ol_stepOriginal_perfectFit]
    exact ih

/-- after the repair the same input stops at once and reports no date -/
theorem repaired_stops_on_perfectFit : loop (step perfectFit) 1 [] = some [] := by
  simp [loop, step, remaining, perfectFit]

end MM.Outliers
