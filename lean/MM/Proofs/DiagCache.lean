/-
Helper lemmas for C08 (lazy caches of TBRMMDiagnostics never serve stale values).

The model (`MM/Model/DiagCache.lean`) refers to the GENERATED invalidation data
`xSetterClears` / `ySetterClearsX`.  Here the machine is re-stated with the clear list and
the y-setter flag as PARAMETERS (`assignXWith`, `stepWith`, `runWith`), shown to coincide with
the model at the generated values (without unfolding them), and all coherence lemmas are
proved for arbitrary `cl`, `yclr` under the two hypotheses

  `hcl : ∀ c, c ∈ cl`      and      `hy : yclr = true`.

Nothing in this file unfolds `xSetterClears` or `ySetterClearsX`.
-/
import MM.Model.DiagCache

namespace MM.DiagCache

/-! ## the machine, parameterised by the invalidation data -/

def assignXWith (cl : List Cache) (s : St) (v : Option Nat) : St :=
  { s with xv := v, cache := clear cl s.cache }

def stepWith (cl : List Cache) (yclr : Bool) (s : St) : Op → St × Option (Option Stamp)
  | .setX => (assignXWith cl { s with next := s.next + 1 } (some s.next), none)
  | .clearX => (assignXWith cl s none, none)
  | .setY short =>
    let s1 := { s with yv := s.next, yShort := short, next := s.next + 1 }
    (if yclr then assignXWith cl s1 none else s1, none)
  | .read q => let r := readQ s q; (r.1, some r.2)

def runWith (cl : List Cache) (yclr : Bool) (s : St) : List Op → List (Option (Option Stamp))
  | [] => []
  | op :: ops => let r := stepWith cl yclr s op; r.2 :: runWith cl yclr r.1 ops

/-- the specification run: every read reports the fresh value of the current series -/
def specRunWith (cl : List Cache) (yclr : Bool) (s : St) : List Op → List (Option (Option Stamp))
  | [] => []
  | op :: ops =>
    (match op with | .read _ => some (fresh s) | _ => none) ::
      specRunWith cl yclr (stepWith cl yclr s op).1 ops

theorem assignXWith_gen (s : St) (v : Option Nat) : assignXWith xSetterClears s v = assignX s v := rfl

theorem stepWith_gen (s : St) (op : Op) : stepWith xSetterClears ySetterClearsX s op = step s op := by
  cases op <;> rfl

theorem runWith_gen (s : St) (ops : List Op) : runWith xSetterClears ySetterClearsX s ops = run s ops := by
  induction ops generalizing s with
  | nil => rfl
  | cons op ops ih => simp only [runWith, run, stepWith_gen, ih]

/-! ## the invariant -/

/-- every cached value was computed from the current series; nothing is cached while x is None -/
def Coh (s : St) : Prop := ∀ c v, s.cache c = some v → ∃ x, s.xv = some x ∧ v = (x, s.yv)

/-- what a correct read from `s` looks like -/
structure ReadOK (s : St) (r : St × Option Stamp) : Prop where
  coh : Coh r.1
  val : r.2 = fresh s
  xv : r.1.xv = s.xv
  yv : r.1.yv = s.yv

theorem init_coh (b : Bool) : Coh (init b) := by
  intro c v hv
  simp [init] at hv

theorem combine_self (cur : Stamp) (deps : List Stamp) (h : ∀ d ∈ deps, d = cur) :
    combine cur deps = cur := by
  have hf : deps.find? (· != cur) = none := by
    rw [List.find?_eq_none]
    intro d hd
    simp [h d hd]
  simp [combine, hf]

theorem combine_single (c : Stamp) : combine c [c] = c :=
  combine_self c [c] (by simp)

theorem fresh_some {s : St} {x : Nat} (hx : s.xv = some x) : fresh s = some (x, s.yv) := by
  simp [fresh, hx]

theorem fresh_none {s : St} (hx : s.xv = none) : fresh s = none := by
  simp [fresh, hx]

theorem coh_setCache {s : St} {x : Nat} (h : Coh s) (hx : s.xv = some x) (c : Cache) :
    Coh { s with cache := setCache s.cache c (x, s.yv) } := by
  intro c' v hv
  simp only [setCache] at hv
  split at hv
  · refine ⟨x, hx, ?_⟩
    simpa using hv.symm
  · exact h c' v hv

/-- serving a cached value of a coherent state -/
theorem cached_ok {s : St} (h : Coh s) {c : Cache} {v : Stamp} (hc : s.cache c = some v) :
    ReadOK s (s, some v) := by
  obtain ⟨x, hx, hv⟩ := h c v hc
  exact ⟨h, by simp [fresh_some hx, hv], rfl, rfl⟩

/-- nothing to report while x is None -/
theorem none_ok {s : St} (h : Coh s) (hx : s.xv = none) : ReadOK s (s, none) :=
  ⟨h, (fresh_none hx).symm, rfl, rfl⟩

/-- computing the current value after a sub-read and storing it -/
theorem store_ok {s s1 : St} {x : Nat} (h1 : Coh s1) (hx1 : s1.xv = s.xv) (hy1 : s1.yv = s.yv)
    (hx : s.xv = some x) (c : Cache) :
    ReadOK s ({ s1 with cache := setCache s1.cache c (x, s1.yv) }, some (x, s1.yv)) :=
  ⟨coh_setCache h1 (hx1.trans hx) c, by simp [fresh_some hx, hy1], hx1, hy1⟩

/-- computing the current value after a sub-read without storing it -/
theorem nostore_ok {s s1 : St} {x : Nat} (h1 : Coh s1) (hx1 : s1.xv = s.xv) (hy1 : s1.yv = s.yv)
    (hx : s.xv = some x) : ReadOK s (s1, some (x, s1.yv)) :=
  ⟨h1, by simp [fresh_some hx, hy1], hx1, hy1⟩

/-- the two possible outcomes of a correct sub-read -/
theorem ReadOK.cases {s s1 : St} {c : Option Stamp} (h : ReadOK s (s1, c)) :
    (s.xv = none ∧ s1.xv = none ∧ c = none) ∨
    (∃ x, s.xv = some x ∧ s1.xv = some x ∧ c = some (x, s1.yv)) := by
  have hv : c = fresh s := h.val
  have hx : s1.xv = s.xv := h.xv
  have hy : s1.yv = s.yv := h.yv
  cases hxs : s.xv with
  | none => exact .inl ⟨rfl, hx.trans hxs, hv.trans (fresh_none hxs)⟩
  | some x => exact .inr ⟨x, rfl, hx.trans hxs, by rw [hv, fresh_some hxs, hy]⟩

theorem ReadOK.trans {s s1 : St} {c : Option Stamp} {r : St × Option Stamp}
    (h : ReadOK s (s1, c)) (h' : ReadOK s1 r) : ReadOK s r := by
  have hx : s1.xv = s.xv := h.xv
  have hy : s1.yv = s.yv := h.yv
  refine ⟨h'.coh, ?_, h'.xv.trans hx, h'.yv.trans hy⟩
  rw [h'.val]
  simp [fresh, hx, hy]

/-! ## the reads -/

theorem readCorr_ok (s : St) (h : Coh s) : ReadOK s (readCorr s) := by
  unfold readCorr
  split
  · next hx => exact none_ok h hx
  · next x hx =>
    split
    · next v hc => exact cached_ok h hc
    · exact store_ok h rfl rfl hx _

theorem readPretestfit_ok (s : St) (h : Coh s) : ReadOK s (readPretestfit s) := by
  unfold readPretestfit
  split
  · next hx => exact none_ok h hx
  · next x hx =>
    split
    · next v hc => exact cached_ok h hc
    · exact store_ok h rfl rfl hx _

theorem readRequiredImpact_ok (s : St) (h : Coh s) : ReadOK s (readRequiredImpact s) := by
  unfold readRequiredImpact
  split
  · next v hc => exact cached_ok h hc
  · have hr := readCorr_ok s h
    rcases hrc : readCorr s with ⟨s1, c⟩
    rw [hrc] at hr
    rcases hr.cases with ⟨hx, hx1, rfl⟩ | ⟨x, hx, hx1, rfl⟩
    · simp only []
      exact ⟨hr.coh, hr.val, hr.xv, hr.yv⟩
    · have h1 : Coh s1 := hr.coh
      have e1 : s1.xv = s.xv := hr.xv
      have y1 : s1.yv = s.yv := hr.yv
      obtain ⟨xv1, yv1, ys1, nx1, ca1⟩ := s1
      obtain rfl : xv1 = some x := hx1
      simp only [cur, combine_single]
      exact store_ok h1 e1 y1 hx _

theorem readDwtest_ok (s : St) (h : Coh s) : ReadOK s (readDwtest s) := by
  unfold readDwtest
  split
  · next v hc => exact cached_ok h hc
  · have hr := readPretestfit_ok s h
    rcases hrc : readPretestfit s with ⟨s1, c⟩
    rw [hrc] at hr
    rcases hr.cases with ⟨hx, hx1, rfl⟩ | ⟨x, hx, hx1, rfl⟩
    · simp only []
      exact ⟨hr.coh, hr.val, hr.xv, hr.yv⟩
    · have h1 : Coh s1 := hr.coh
      have e1 : s1.xv = s.xv := hr.xv
      have y1 : s1.yv = s.yv := hr.yv
      obtain ⟨xv1, yv1, ys1, nx1, ca1⟩ := s1
      obtain rfl : xv1 = some x := hx1
      simp only [cur, combine_single]
      exact store_ok h1 e1 y1 hx _

theorem readBbtest_ok (s : St) (h : Coh s) : ReadOK s (readBbtest s) := by
  unfold readBbtest
  split
  · next hx => exact none_ok h hx
  · next x hx =>
    split
    · next v hc => exact cached_ok h hc
    · have hr := readPretestfit_ok s h
      rcases hrc : readPretestfit s with ⟨s1, c⟩
      rw [hrc] at hr
      rcases hr.cases with ⟨hx', _, rfl⟩ | ⟨x', hx', hx1, rfl⟩
      · simp [hx] at hx'
      · obtain rfl : x = x' := by simpa [hx] using hx'
        have h1 : Coh s1 := hr.coh
        have e1 : s1.xv = s.xv := hr.xv
        have y1 : s1.yv = s.yv := hr.yv
        simp only [cur, combine_single]
        exact store_ok h1 e1 y1 hx _

theorem readAatest_ok (s : St) (h : Coh s) : ReadOK s (readAatest s) := by
  unfold readAatest
  split
  · next v hc => exact cached_ok h hc
  · split
    · next hx => exact none_ok h hx
    · next x hx =>
      split
      · exact nostore_ok h rfl rfl hx
      · exact store_ok h rfl rfl hx _

theorem readCorrTest_ok (s : St) (h : Coh s) : ReadOK s (readCorrTest s) := by
  unfold readCorrTest
  have hr := readCorr_ok s h
  rcases hrc : readCorr s with ⟨s1, c⟩
  rw [hrc] at hr
  rcases hr.cases with ⟨hx, hx1, rfl⟩ | ⟨x, hx, hx1, rfl⟩
  · simp only []
    exact ⟨hr.coh, hr.val, hr.xv, hr.yv⟩
  · have h1 : Coh s1 := hr.coh
    have e1 : s1.xv = s.xv := hr.xv
    have y1 : s1.yv = s.yv := hr.yv
    obtain ⟨xv1, yv1, ys1, nx1, ca1⟩ := s1
    obtain rfl : xv1 = some x := hx1
    simp only [cur, combine_single]
    exact nostore_ok h1 e1 y1 hx

theorem readTbrfit_ok (s : St) (h : Coh s) : ReadOK s (readTbrfit s) := by
  unfold readTbrfit
  have hr := readPretestfit_ok s h
  rcases hrc : readPretestfit s with ⟨s1, c⟩
  rw [hrc] at hr
  rcases hr.cases with ⟨hx, hx1, rfl⟩ | ⟨x, hx, hx1, rfl⟩
  · simp only []
    exact ⟨hr.coh, hr.val, hr.xv, hr.yv⟩
  · have h1 : Coh s1 := hr.coh
    have e1 : s1.xv = s.xv := hr.xv
    have y1 : s1.yv = s.yv := hr.yv
    obtain ⟨xv1, yv1, ys1, nx1, ca1⟩ := s1
    obtain rfl : xv1 = some x := hx1
    simp only [cur, combine_single]
    exact nostore_ok h1 e1 y1 hx

/-- an optionally evaluated conjunct of `tests_ok` -/
structure CondOK (s : St) (x : Nat) (r : St × Option Stamp) : Prop where
  coh : Coh r.1
  val : ∀ d ∈ r.2.toList, d = (x, s.yv)
  xv : r.1.xv = some x
  yv : r.1.yv = s.yv

theorem cond_ok (p : Prop) [Decidable p] (f : St → St × Option Stamp)
    (hf : ∀ s, Coh s → ReadOK s (f s)) {s : St} {x : Nat} (h : Coh s) (hx : s.xv = some x) :
    CondOK s x (if p then f s else (s, none)) := by
  split
  · have hr := hf s h
    refine ⟨hr.coh, ?_, hr.xv.trans hx, hr.yv⟩
    intro d hd
    rw [hr.val, fresh_some hx] at hd
    simpa using hd
  · exact ⟨h, by simp, hx, rfl⟩

theorem readTestsOk_ok (s : St) (n : Nat) (h : Coh s) : ReadOK s (readTestsOk s n) := by
  unfold readTestsOk
  split
  · next v hc => exact cached_ok h hc
  · have hr := readCorrTest_ok s h
    rcases hrc : readCorrTest s with ⟨s1, c⟩
    rw [hrc] at hr
    rcases hr.cases with ⟨hx, hx1, rfl⟩ | ⟨x, hx, hx1, rfl⟩
    · simp only []
      exact ⟨hr.coh, hr.val, hr.xv, hr.yv⟩
    · have h1 : Coh s1 := hr.coh
      simp only [hx1]
      have h2 := cond_ok (n ≥ 2) readBbtest readBbtest_ok h1 hx1
      generalize (if n ≥ 2 then readBbtest s1 else (s1, none)) = r2 at h2 ⊢
      obtain ⟨s2, d2⟩ := r2
      have c2 : Coh s2 := h2.coh
      have x2 : s2.xv = some x := h2.xv
      dsimp only
      have h3 := cond_ok (n ≥ 3) readDwtest readDwtest_ok c2 x2
      generalize (if n ≥ 3 then readDwtest s2 else (s2, none)) = r3 at h3 ⊢
      obtain ⟨s3, d3⟩ := r3
      have c3 : Coh s3 := h3.coh
      have x3 : s3.xv = some x := h3.xv
      dsimp only
      have h4 := cond_ok (n ≥ 4) readAatest readAatest_ok c3 x3
      generalize (if n ≥ 4 then readAatest s3 else (s3, none)) = r4 at h4 ⊢
      obtain ⟨s4, d4⟩ := r4
      have c4 : Coh s4 := h4.coh
      dsimp only
      have e2 : s2.yv = s1.yv := h2.yv
      have e3 : s3.yv = s2.yv := h3.yv
      have e4 : s4.yv = s3.yv := h4.yv
      have e1 : s1.yv = s.yv := hr.yv
      have hc : combine (cur s4 x) ([(x, s1.yv)] ++ d2.toList ++ d3.toList ++ d4.toList)
          = (x, s4.yv) := by
        apply combine_self
        intro d hd
        simp only [List.mem_append, List.mem_singleton] at hd
        have y4 : s4.yv = s1.yv := by rw [e4, e3, e2]
        rcases hd with ((hd | hd) | hd) | hd
        · simp [hd, cur, y4]
        · simp [h2.val d hd, cur, y4]
        · simp [h3.val d hd, cur, y4, e2]
        · simp [h4.val d hd, cur, y4, e3, e2]
      simp only [hc]
      have x4 : s4.xv = s.xv := by
        have : s4.xv = some x := h4.xv
        rw [this, hx]
      exact store_ok c4 x4 (by rw [e4, e3, e2, e1]) hx _

theorem readQ_ok (s : St) (q : Q) (h : Coh s) : ReadOK s (readQ s q) := by
  cases q with
  | corr => exact readCorr_ok s h
  | required_impact => exact readRequiredImpact_ok s h
  | pretestfit => exact readPretestfit_ok s h
  | bbtest => exact readBbtest_ok s h
  | dwtest => exact readDwtest_ok s h
  | aatest => exact readAatest_ok s h
  | corr_test => exact readCorrTest_ok s h
  | tbrfit => exact readTbrfit_ok s h
  | tests_ok n => exact readTestsOk_ok s n h

/-! ## the setters, for an arbitrary clear list satisfying the obligations -/

/-- if the x setter resets every cache, the result is coherent whatever the previous state -/
theorem assignXWith_coh {cl : List Cache} (hcl : ∀ c, c ∈ cl) (s : St) (v : Option Nat) :
    Coh (assignXWith cl s v) := by
  intro c w hw
  simp [assignXWith, clear, hcl c] at hw

theorem stepWith_coh {cl : List Cache} {yclr : Bool} (hcl : ∀ c, c ∈ cl) (hy : yclr = true)
    (s : St) (op : Op) (h : Coh s) : Coh (stepWith cl yclr s op).1 := by
  cases op with
  | setX => exact assignXWith_coh hcl _ _
  | clearX => exact assignXWith_coh hcl _ _
  | setY b =>
    subst hy
    exact assignXWith_coh hcl _ _
  | read q => exact (readQ_ok s q h).coh

theorem stepWith_out {cl : List Cache} {yclr : Bool} (s : St) (op : Op) (h : Coh s) :
    (stepWith cl yclr s op).2 = (match op with | .read _ => some (fresh s) | _ => none) := by
  cases op with
  | setX => rfl
  | clearX => rfl
  | setY b => rfl
  | read q => simp only [stepWith, (readQ_ok s q h).val]

theorem runWith_spec {cl : List Cache} {yclr : Bool} (hcl : ∀ c, c ∈ cl) (hy : yclr = true)
    (s : St) (h : Coh s) (ops : List Op) : runWith cl yclr s ops = specRunWith cl yclr s ops := by
  induction ops generalizing s with
  | nil => rfl
  | cons op ops ih =>
    simp only [runWith, specRunWith, stepWith_out s op h, ih _ (stepWith_coh hcl hy s op h)]

theorem stepWith_setY_xv {cl : List Cache} {yclr : Bool} (hy : yclr = true) (s : St) (b : Bool) :
    (stepWith cl yclr s (.setY b)).1.xv = none := by
  subst hy
  rfl

end MM.DiagCache
