/-
C05 (design-side required impact = calibrated posterior scale) and C06 (variance propagation of the
cumulative causal effect = Kerman 2017 eq. 5; summary rows), for the ℝ instance of MM.Model.Numeric.
-/
import MM.Proofs.NumericCore
namespace MM.Numeric

/-! ## centred sums and OLS facts -/

/-- centred sums: Σ(x−x̄)² = Σx² − (Σx)²/n -/
theorem sxx_eq (xs : List ℝ) (h : xs ≠ []) :
    sxx xs = (xs.map fun x => x * x).sum - xs.sum * xs.sum / xs.length := by
  rw [sxx_raw xs h, dot_self]

/-- Σ(x−x̄)(y−ȳ) = Σxy − ΣxΣy/n -/
theorem sxy_eq (xs ys : List ℝ) (hlen : xs.length = ys.length) (h : xs ≠ []) :
    sxy xs ys = (List.zipWith (fun x y => x * y) xs ys).sum - xs.sum * ys.sum / xs.length :=
  sxy_raw xs ys hlen h

/-- OLS residuals sum to zero (`hx` is not needed for this fact; kept for a uniform signature) -/
theorem ols_resid_sum (xs ys : List ℝ) (hlen : xs.length = ys.length) (hne : xs ≠ [])
    (_hx : 0 < sxx xs) : ((ols xs ys).resid).sum = 0 :=
  ols_resid_sum_core xs ys hlen hne

/-- rss = Syy − Sxy²/Sxx -/
theorem ols_rss (xs ys : List ℝ) (hlen : xs.length = ys.length) (hne : xs ≠ []) (hx : 0 < sxx xs) :
    (ols xs ys).rss = sxx ys - sxy xs ys * sxy xs ys / sxx xs :=
  ols_rss_core xs ys hlen hne hx

/-! ## C06 -/

/-- C06 (variance propagation = Kerman eq. 5): for every non-empty prefix p of the test-period
control series -/
theorem C06_closed_form (xs : List ℝ) (hn : 2 ≤ xs.length) (hx : 0 < sxx xs) (sigma2 : ℝ)
    (p : List ℝ) (hp : p ≠ []) :
    paramVar xs sigma2 (mean p) * ((p.length : ℝ) * (p.length : ℝ)) + (p.length : ℝ) * sigma2
      = kermanVar xs sigma2 p := by
  have hne : xs ≠ [] := by intro h; simp [h] at hn
  have hn0 := length_cast_ne_zero hne
  have ht0 := length_cast_ne_zero hp
  have hD : sxx xs ≠ 0 := ne_of_gt hx
  have hS2 : (xs.map fun x => x * x).sum = sxx xs + xs.sum * xs.sum / (xs.length : ℝ) := by
    rw [sxx_raw xs hne, dot_self]; ring
  simp only [paramVar, kermanVar, sum_real, nat_real, mean_real, sum_map_sub_const, hS2,
    Nat.cast_ofNat]
  generalize sxx xs = D at hD ⊢
  generalize xs.sum = S1
  generalize p.sum = P
  generalize (xs.length : ℝ) = n at hn0 ⊢
  generalize (p.length : ℝ) = t at ht0 ⊢
  have hdet : n * (D + S1 * S1 / n) - S1 * S1 = n * D := by field_simp; ring
  rw [hdet]
  field_simp
  ring

/-- the posterior reported for day t (0-based) has the Kerman scale -/
theorem C06_posterior_scale (xs ys xt yt : List ℝ) (hn : 2 ≤ xs.length) (hx : 0 < sxx xs)
    (rescale : ℝ) (t : Nat) (ht : t < xt.length) :
    (posterior xs ys xt yt rescale).scale[t]? =
      some (|rescale| * Real.sqrt (kermanVar xs (ols xs ys).sigma2 (xt.take (t + 1)))) := by
  have hp := take_succ_ne_nil xt t ht
  simp only [posterior, List.getElem?_map, prefixes_getElem? xt t ht, Option.map_some, abs_real,
    sqrt_real, nat_real]
  rw [C06_closed_form xs hn hx _ _ hp]

/-- … the cumulative-difference location -/
theorem C06_posterior_loc (xs ys xt yt : List ℝ) (hlt : xt.length = yt.length) (rescale : ℝ)
    (t : Nat) (ht : t < xt.length) :
    (posterior xs ys xt yt rescale).loc[t]? =
      some (rescale *
        ((List.zipWith (fun x y => y - ((ols xs ys).a + (ols xs ys).b * x)) xt yt).take (t + 1)).sum) := by
  have hl : t < (List.zipWith (fun x y => y - ((ols xs ys).a + (ols xs ys).b * x)) xt yt).length := by
    rw [List.length_zipWith, ← hlt, Nat.min_self]; exact ht
  simp only [posterior, List.getElem?_map, prefixes_getElem? _ t hl, Option.map_some, sum_real]

/-- … and n−2 degrees of freedom -/
theorem C06_posterior_df (xs ys xt yt : List ℝ) (r : ℝ) :
    (posterior xs ys xt yt r).df = xs.length - 2 := rfl

/-- the design-side fit yields the identical estimate and scale on the same data:
xt̄, yt̄ = test-period means, n_test = number of test days -/
theorem C06_design_side (xs ys xt yt : List ℝ) (hlen : xs.length = ys.length)
    (hlt : xt.length = yt.length) (hn : 3 ≤ xs.length) (hx : 0 < sxx xs) (hT : 0 < xt.length)
    (tqSig : ℝ) :
    let f := tbrfit xs ys xt.length tqSig (mean xt) (mean yt)
    let post := posterior xs ys xt yt 1
    post.loc[xt.length - 1]? = some f.estimate ∧ post.scale[xt.length - 1]? = some f.scale ∧
      f.cihw = tqSig * f.scale := by
  intro f post
  have hne : xs ≠ [] := by intro h; simp [h] at hn
  have hnet : xt ≠ [] := by intro h; simp [h] at hT
  have hTt : xt.length - 1 < xt.length := by omega
  have hsucc : xt.length - 1 + 1 = xt.length := by omega
  have hT0 := length_cast_ne_zero hnet
  refine ⟨?_, ?_, rfl⟩
  · show (posterior xs ys xt yt 1).loc[xt.length - 1]? = _
    rw [C06_posterior_loc xs ys xt yt hlt 1 _ hTt, hsucc]
    have hl : (List.zipWith (fun x y => y - ((ols xs ys).a + (ols xs ys).b * x)) xt yt).length
        ≤ xt.length := by
      rw [List.length_zipWith, ← hlt, Nat.min_self]
    have hf : (fun x y : ℝ => y - ((ols xs ys).a + (ols xs ys).b * x)) =
        fun x y => -(ols xs ys).a + (-(ols xs ys).b) * x + 1 * y := by
      funext x y; ring
    rw [List.take_of_length_le hl, hf, sum_zipWith_lin _ _ hlt, ols_a]
    show _ = some ((xt.length : ℝ) * ((mean yt - mean ys) - (ols xs ys).b * (mean xt - mean xs)))
    rw [mean_real xt, mean_real yt, ← hlt]
    congr 1
    field_simp
    ring
  · show (posterior xs ys xt yt 1).scale[xt.length - 1]? =
      some (tbrfit xs ys xt.length tqSig (mean xt) (mean yt)).scale
    rw [C06_posterior_scale xs ys xt yt (by omega) hx 1 _ hTt, hsucc, List.take_length,
      tbrfit_scale xs ys hlen hne, kermanVar_eq xs hne (ne_of_gt hx) _ xt hnet,
      Real.sqrt_mul (ols_sigma2_nonneg xs ys (by omega)),
      sqrt_mul_self_mul (Nat.cast_nonneg _)]
    congr 1
    rw [abs_one]
    ring

/-- summary rows: order, precision, with an explicit condition on the quantiles -/
theorem C06_summary_order (loc scale qA : ℝ) (qU : Option ℝ) (cdf : ℝ → ℝ) (thr : ℝ)
    (hs : 0 ≤ scale) (hA : qA ≤ 0) (hU : ∀ u, qU = some u → 0 ≤ u) :
    let r := summaryRow loc scale qA qU cdf thr
    r.lower ≤ r.estimate ∧ (∀ u, r.upper = some u → r.estimate ≤ u) ∧
      r.precision = r.estimate - r.lower := by
  intro r
  have hsa : scale * qA ≤ 0 := by nlinarith
  refine ⟨?_, ?_, ?_⟩
  · show loc + scale * qA ≤ loc
    linarith
  · intro u hu
    change (qU.map fun q => loc + scale * q) = some u at hu
    cases qU with
    | none => simp at hu
    | some q =>
      simp only [Option.map_some, Option.some.injEq] at hu
      have hq := hU q rfl
      show loc ≤ u
      have : 0 ≤ scale * q := mul_nonneg hs hq
      linarith
  · show |loc + scale * qA - loc| = loc - (loc + scale * qA)
    have : loc + scale * qA - loc = scale * qA := by ring
    rw [this, abs_of_nonpos hsa]
    ring

/-- and the condition is necessary: with a positive alpha-quantile (tails = 1, level < 1/2) the lower
bound exceeds the estimate -/
theorem C06_summary_order_fails (loc scale qA : ℝ) (cdf : ℝ → ℝ) (thr : ℝ) (hs : 0 < scale)
    (hA : 0 < qA) :
    (summaryRow loc scale qA none cdf thr).estimate < (summaryRow loc scale qA none cdf thr).lower := by
  show loc < loc + scale * qA
  have := mul_pos hs hA
  linarith

theorem C06_summary_probability (loc scale qA : ℝ) (qU : Option ℝ) (cdf : ℝ → ℝ) (thr : ℝ) :
    (summaryRow loc scale qA qU cdf thr).probability = 1 - cdf ((thr - loc) / scale) := by
  simp only [summaryRow, nat_real, Nat.cast_one]

/-! ## C05 -/

/-- C05: sigma of the design-side formula is the residual standard deviation of the OLS fit -/
theorem C05_sigma (xs ys : List ℝ) (hlen : xs.length = ys.length) (hn : 3 ≤ xs.length)
    (hx : 0 < sxx xs) (hy : 0 < sxx ys) :
    std2 ys * Real.sqrt (1 - corr xs ys * corr xs ys) = Real.sqrt ((ols xs ys).sigma2) := by
  have hne : xs ≠ [] := by intro h; simp [h] at hn
  have hn3 : (3 : ℝ) ≤ (xs.length : ℝ) := by exact_mod_cast hn
  have hn2 : (xs.length : ℝ) - 2 ≠ 0 := by intro h; linarith
  have hn2' : 0 ≤ (xs.length : ℝ) - 2 := by linarith
  have hP : 0 ≤ sxx xs * sxx ys := le_of_lt (mul_pos hx hy)
  have hrho : corr xs ys * corr xs ys = sxy xs ys * sxy xs ys / (sxx xs * sxx ys) := by
    simp only [corr, sqrt_real]
    rw [div_mul_div_comm, Real.mul_self_sqrt hP]
  have hstd : std2 ys = Real.sqrt (sxx ys / ((xs.length : ℝ) - 2)) := by
    simp only [std2, sqrt_real, nat_real, Nat.cast_ofNat, hlen]
  rw [hrho, hstd, ← Real.sqrt_mul (div_nonneg (le_of_lt hy) hn2'), ols_sigma2,
    ols_rss xs ys hlen hne hx]
  congr 1
  have hDx : sxx xs ≠ 0 := ne_of_gt hx
  have hDy : sxx ys ≠ 0 := ne_of_gt hy
  generalize sxx xs = D at hDx ⊢
  generalize sxx ys = E at hDy ⊢
  generalize sxy xs ys = C
  generalize (xs.length : ℝ) - 2 = m at hn2 ⊢
  field_simp

/-- C05: required impact = (tq_sig + tq_pow) × the posterior scale of an n_test-day test whose control
mean is displaced from the pre-period mean by the planning amount
dx² = phi (n+1) / (n_test (n−1)) · Sxx / n -/
theorem C05_calibration (xs ys : List ℝ) (hlen : xs.length = ys.length) (hn : 3 ≤ xs.length)
    (hx : 0 < sxx xs) (hy : 0 < sxx ys) (nTest : Nat) (hT : 0 < nTest)
    (phi tqSig tqPow xt yt : ℝ) (_hphi : 0 ≤ phi)
    (hdx : (xt - mean xs) * (xt - mean xs) =
      phi * ((xs.length : ℝ) + 1) / ((nTest : ℝ) * ((xs.length : ℝ) - 1)) * (sxx xs / xs.length)) :
    requiredImpact xs ys nTest phi tqSig tqPow = (tqSig + tqPow) * (tbrfit xs ys nTest tqSig xt yt).scale := by
  have hne : xs ≠ [] := by intro h; simp [h] at hn
  have hn0 := length_cast_ne_zero hne
  have hn3 : (3 : ℝ) ≤ (xs.length : ℝ) := by exact_mod_cast hn
  have hn1 : (xs.length : ℝ) - 1 ≠ 0 := by intro h; linarith
  have hT0 : (nTest : ℝ) ≠ 0 := by
    have : nTest ≠ 0 := by omega
    exact_mod_cast this
  have hv : sxx xs / (xs.length : ℝ) ≠ 0 := div_ne_zero (ne_of_gt hx) hn0
  rw [tbrfit_scale xs ys hlen hne, hdx, mul_div_assoc, div_self hv, mul_one]
  simp only [requiredImpact, estimateRequiredImpact, impactTerm, sqrt_real, nat_real, Nat.cast_one,
    C05_sigma xs ys hlen hn hx hy, ← hlen]
  have harg : phi * ((xs.length : ℝ) + 1) / ((xs.length : ℝ) * (nTest : ℝ) * ((xs.length : ℝ) - 1))
        + 1 / (xs.length : ℝ) + 1 / (nTest : ℝ) =
      (1 + phi * ((xs.length : ℝ) + 1) / ((nTest : ℝ) * ((xs.length : ℝ) - 1))) / (xs.length : ℝ)
        + 1 / (nTest : ℝ) := by
    field_simp
    ring
  rw [harg]
  ring

/-- consequently: if the test period shows exactly that lift, the post-analysis estimates it and its
one-sided lower bound at level sig is tq_pow × scale (uses q(1−sig) = −q(sig)) -/
theorem C05_lower_bound (scale tqSig tqPow : ℝ) (qOneMinusSig : ℝ) (hsym : qOneMinusSig = -tqSig)
    (cdf : ℝ → ℝ) (thr : ℝ) :
    let impact := (tqSig + tqPow) * scale
    (summaryRow impact scale qOneMinusSig none cdf thr).estimate = impact ∧
    (summaryRow impact scale qOneMinusSig none cdf thr).lower = tqPow * scale := by
  intro impact
  refine ⟨rfl, ?_⟩
  show (tqSig + tqPow) * scale + scale * qOneMinusSig = tqPow * scale
  rw [hsym]
  ring

/-- homogeneity (`hn` is not needed; kept for a uniform signature) -/
theorem C05_homogeneous (ys : List ℝ) (_hn : 3 ≤ ys.length) (c : ℝ) (hc : 0 < c) (nTest : Nat)
    (phi tqSig tqPow rho : ℝ) :
    estimateRequiredImpact (ys.map (c * ·)) nTest phi tqSig tqPow rho =
      c * estimateRequiredImpact ys nTest phi tqSig tqPow rho := by
  simp only [estimateRequiredImpact, List.length_map, std2_map_mul ys (le_of_lt hc)]
  ring

/-- shift invariance (`hne` is not needed; kept for a uniform signature) -/
theorem C05_shift_invariant (ys : List ℝ) (_hne : ys ≠ []) (k : ℝ) (nTest : Nat)
    (phi tqSig tqPow rho : ℝ) :
    estimateRequiredImpact (ys.map (· + k)) nTest phi tqSig tqPow rho =
      estimateRequiredImpact ys nTest phi tqSig tqPow rho := by
  simp only [estimateRequiredImpact, List.length_map, std2_map_add]

theorem C05_corr_invariant (xs ys : List ℝ) (hlen : xs.length = ys.length) (hne : xs ≠ [])
    (c k : ℝ) (hc : 0 < c) :
    corr xs (ys.map fun y => c * y + k) = corr xs ys := by
  have hney : ys ≠ [] := by
    intro h; apply hne; rw [h] at hlen; simpa using hlen
  simp only [corr, sqrt_real, sxy_map_affine_right xs ys hney, sxx_map_affine ys hney]
  have : sxx xs * (c * c * sxx ys) = c * c * (sxx xs * sxx ys) := by ring
  rw [this, sqrt_mul_self_mul (le_of_lt hc), mul_div_mul_left _ _ (ne_of_gt hc)]

/-- strict antitonicity in |rho|, for a positive multiplier -/
theorem C05_antitone_partial (ys : List ℝ) (nTest : Nat) (phi tqSig tqPow : ℝ)
    (hpos : 0 < impactTerm nTest ys.length phi tqSig tqPow * std2 ys) (r1 r2 : ℝ)
    (h1 : |r1| < |r2|) (h2 : |r2| < 1) :
    estimateRequiredImpact ys nTest phi tqSig tqPow r2 < estimateRequiredImpact ys nTest phi tqSig tqPow r1 := by
  have hsq : r1 * r1 < r2 * r2 := by
    rw [← abs_mul_abs_self r1, ← abs_mul_abs_self r2]
    exact mul_self_lt_mul_self (abs_nonneg r1) h1
  have hlt1 : r2 * r2 < 1 := by
    rw [← abs_mul_abs_self r2]
    nlinarith [abs_nonneg r2]
  have hs : Real.sqrt (1 - r2 * r2) < Real.sqrt (1 - r1 * r1) :=
    Real.sqrt_lt_sqrt (by linarith) (by linarith)
  simp only [estimateRequiredImpact, sqrt_real, nat_real, Nat.cast_one, ← mul_assoc]
  exact mul_lt_mul_of_pos_left hs hpos

/-- with a negative multiplier the order is reversed -/
theorem C05_antitone_neg (ys : List ℝ) (nTest : Nat) (phi tqSig tqPow : ℝ)
    (hneg : impactTerm nTest ys.length phi tqSig tqPow * std2 ys < 0) (r1 r2 : ℝ)
    (h1 : |r1| < |r2|) (h2 : |r2| < 1) :
    estimateRequiredImpact ys nTest phi tqSig tqPow r1 < estimateRequiredImpact ys nTest phi tqSig tqPow r2 := by
  have hsq : r1 * r1 < r2 * r2 := by
    rw [← abs_mul_abs_self r1, ← abs_mul_abs_self r2]
    exact mul_self_lt_mul_self (abs_nonneg r1) h1
  have hlt1 : r2 * r2 < 1 := by
    rw [← abs_mul_abs_self r2]
    nlinarith [abs_nonneg r2]
  have hs : Real.sqrt (1 - r2 * r2) < Real.sqrt (1 - r1 * r1) :=
    Real.sqrt_lt_sqrt (by linarith) (by linarith)
  simp only [estimateRequiredImpact, sqrt_real, nat_real, Nat.cast_one, ← mul_assoc]
  exact mul_lt_mul_of_neg_left hs hneg

/-- the unrestricted claim is false when tq_sig + tq_pow ≤ 0 (sig_level + power_level ≤ 1): witness -/
theorem C05_antitone_fails : ∃ (ys : List ℝ) (nTest : Nat) (phi tqSig tqPow r1 r2 : ℝ),
    |r1| < |r2| ∧ |r2| < 1 ∧ tqSig + tqPow < 0 ∧
    estimateRequiredImpact ys nTest phi tqSig tqPow r1 < estimateRequiredImpact ys nTest phi tqSig tqPow r2 := by
  refine ⟨[0, 1, 2], 1, 0, -1, 0, 0, 1 / 2, ?_, ?_, ?_, ?_⟩
  · rw [abs_zero]; positivity
  · rw [abs_of_pos (by norm_num : (0 : ℝ) < 1 / 2)]; norm_num
  · norm_num
  · apply C05_antitone_neg
    · have hstd : 0 < std2 ([0, 1, 2] : List ℝ) := by
        simp only [std2, sqrt_real]
        apply Real.sqrt_pos.2
        norm_num [sxx, sprod, mean]
      have hterm : impactTerm 1 ([0, 1, 2] : List ℝ).length (0 : ℝ) (-1) 0 < 0 := by
        simp only [impactTerm, sqrt_real, nat_real]
        have : 0 < Real.sqrt ((0 : ℝ) * (((([0, 1, 2] : List ℝ).length : ℕ) : ℝ) + ((1 : ℕ) : ℝ)) /
            (((([0, 1, 2] : List ℝ).length : ℕ) : ℝ) * ((1 : ℕ) : ℝ) *
              (((([0, 1, 2] : List ℝ).length : ℕ) : ℝ) - ((1 : ℕ) : ℝ))) +
            ((1 : ℕ) : ℝ) / ((([0, 1, 2] : List ℝ).length : ℕ) : ℝ) + ((1 : ℕ) : ℝ) / ((1 : ℕ) : ℝ)) := by
          apply Real.sqrt_pos.2
          norm_num
        nlinarith
      exact mul_neg_of_neg_of_pos hterm hstd
    · rw [abs_zero]; positivity
    · rw [abs_of_pos (by norm_num : (0 : ℝ) < 1 / 2)]; norm_num

/-! ## non-vacuity -/

/-- a concrete pre-period: the control series is not constant -/
example : 0 < sxx ([1, 2, 4, 3, 5] : List ℝ) := by
  norm_num [sxx, sprod, mean]

example : sxx ([1, 2, 4, 3, 5] : List ℝ) = 10 := by
  norm_num [sxx, sprod, mean]

example : 0 < sxx ([2, 3, 7, 5, 9] : List ℝ) := by
  norm_num [sxx, sprod, mean]

/-- a numeric instance of C06_closed_form: xs = [1,2,4,3,5], σ² = 3, p = [6, 8]:
    both sides equal 3·(4/5 + 64/10 + 2) = 138/5 -/
example : paramVar ([1, 2, 4, 3, 5] : List ℝ) 3 (mean ([6, 8] : List ℝ)) * (2 * 2) + 2 * 3 = 138 / 5 := by
  norm_num [paramVar, mean]

example : kermanVar ([1, 2, 4, 3, 5] : List ℝ) 3 ([6, 8] : List ℝ) = 138 / 5 := by
  norm_num [kermanVar, sxx, sprod, mean]

example : paramVar ([1, 2, 4, 3, 5] : List ℝ) 3 (mean ([6, 8] : List ℝ)) *
      ((([6, 8] : List ℝ).length : ℝ) * (([6, 8] : List ℝ).length : ℝ)) +
        (([6, 8] : List ℝ).length : ℝ) * 3 = kermanVar ([1, 2, 4, 3, 5] : List ℝ) 3 ([6, 8] : List ℝ) :=
  C06_closed_form _ (by simp) (by norm_num [sxx, sprod, mean]) _ _ (by simp)

/-- the pre-period fit of the concrete pair is not exact: rss = 32.8 − 18²/10 = 2/5 > 0 -/
example : (ols ([1, 2, 4, 3, 5] : List ℝ) [2, 3, 7, 5, 9]).rss = 2 / 5 := by
  rw [ols_rss [1, 2, 4, 3, 5] [2, 3, 7, 5, 9] rfl (by simp) (by norm_num [sxx, sprod, mean])]
  norm_num [sxx, sxy, sprod, mean]

/-- the planning displacement of C05_calibration exists for every phi ≥ 0 (the hypothesis `hdx` is
satisfiable) -/
theorem C05_calibration_nonvacuous (xs : List ℝ) (hn : 3 ≤ xs.length) (hx : 0 < sxx xs) (nTest : Nat)
    (phi : ℝ) (hphi : 0 ≤ phi) :
    ∃ xt : ℝ, (xt - mean xs) * (xt - mean xs) =
      phi * ((xs.length : ℝ) + 1) / ((nTest : ℝ) * ((xs.length : ℝ) - 1)) * (sxx xs / xs.length) := by
  have hn3 : (3 : ℝ) ≤ (xs.length : ℝ) := by exact_mod_cast hn
  have hT : (0 : ℝ) ≤ (nTest : ℝ) := Nat.cast_nonneg _
  have hR : 0 ≤ phi * ((xs.length : ℝ) + 1) / ((nTest : ℝ) * ((xs.length : ℝ) - 1)) *
      (sxx xs / xs.length) := by
    apply mul_nonneg
    · apply div_nonneg
      · apply mul_nonneg hphi; linarith
      · apply mul_nonneg hT; linarith
    · apply div_nonneg (le_of_lt hx); linarith
  refine ⟨mean xs + Real.sqrt (phi * ((xs.length : ℝ) + 1) / ((nTest : ℝ) * ((xs.length : ℝ) - 1)) *
      (sxx xs / xs.length)), ?_⟩
  rw [add_sub_cancel_left, Real.mul_self_sqrt hR]

end MM.Numeric
