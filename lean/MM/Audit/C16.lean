import MM.Props.C16

#print axioms MM.Elig.C16_accept_iff
#print axioms MM.Elig.C16_reject_valueError
#print axioms MM.Elig.C16_validate_total
#print axioms MM.Elig.C16_formulas
#print axioms MM.Elig.C16_partition
#print axioms MM.Elig.C16_class_of_row
#print axioms MM.Elig.C16_columns
#print axioms MM.Elig.C16_all_geos
#print axioms MM.Elig.C16_indices_need_geos
#print axioms MM.Elig.C16_empty_subset
#print axioms MM.Elig.C16_unknown_geo
