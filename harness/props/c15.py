"""C15: the canonical data object faithfully represents the input panel."""
import json
import math
import os
import warnings
from fractions import Fraction
import numpy as np
import pandas as pd
import core
import engines.search as se

warnings.filterwarnings('ignore')
PROP = 'C15'
LEAN_TARGETS = ['MM.Props.C15', 'MM.Driver.Wire', 'MM.Model.Data']
THEOREMS = ['MM.Data.' + n for n in (
    'C15_rows', 'C15_columns', 'C15_shape', 'C15_cell', 'C15_cell_missing', 'C15_order', 'C15_share', 'C15_share_sum',
    'C15_aggregate_nil', 'C15_aggregate_cons', 'C15_aggregate_pointwise', 'C15_aggregate_perm', 'C15_truncate',
    'C15_reconcile_reject', 'C15_reconcile_ok', 'C15_reconcile_total', 'C15_assignable', 'C15_set_index')]
TRUSTED_BASE = [
    'Lean 4.33.0 kernel; axioms propext, Classical.choice, Quot.sound (audited per theorem)',
    'hand model MM/Model/Data.lean of tbrmmdata.py over exact rationals: pandas pivot_table / mean / sort_values / loc / to_numpy and '
    'numpy fancy indexing + sum are modelled as filter-mean, insertion sort by mean, list lookup and list sums',
    'generated frames carry integer values and pairwise distinct geo means (ties in the mean are outside the comparison); '
    'cells and means are compared exactly, shares and aggregated shares to 1e-12 relative (float summation)',
    'correspondence harness harness/props/c15.py, driver lean/drivers/Data.lean',
]
CELL = {0: '0', 1: '1'}


def gen_case(rng):
  inst = _gen_case(rng)
  if rng.random() < 0.25:
    inst['elig_reused_first'] = True
  return inst


def _gen_case(rng):
  inst = se.gen_instance(rng, 'quick', max_admitted=6, theme='default')
  if rng.random() < 0.3:      # numeric geo codes (so that integer-typed ID columns are exercised often)
    b0 = rng.choice([3, 10, 100, 2000])
    m = {g: str(b0 + 7 * i) for i, g in enumerate(inst['geos'])}
    inst['rows'] = [[m[g], d, v] for g, d, v in inst['rows']]
    inst['geos'] = [m[g] for g in inst['geos']]
  ids = inst['geos']
  kind = rng.choice(['none', 'subset', 'equal', 'superset_ok', 'superset_bad', 'equal', 'mixed_ok', 'mixed_bad'])
  codes = [c for c in se.CLS_CODE]
  if kind == 'none':
    elig = None
  else:
    elig = {g: list(rng.choice(codes)) for g in ids}
    if kind in ('subset', 'mixed_ok', 'mixed_bad') and len(ids) > 1:
      for g in rng.sample(ids, rng.randint(1, len(ids) - 1)):
        del elig[g]
    if kind in ('superset_ok', 'mixed_ok'):
      elig['ghost1'] = list(rng.choice([(1, 1, 1), (0, 0, 1), (1, 0, 1), (0, 1, 1)]))
      if rng.random() < 0.5:
        elig['ghost2'] = [1, 1, 1]
    if kind in ('superset_bad', 'mixed_bad'):
      elig['ghost1'] = list(rng.choice([(1, 1, 0), (1, 0, 0), (0, 1, 0)]))
  inst['elig'] = elig
  inst['elig_kind'] = kind
  sign = rng.choice(['pos', 'pos', 'pos', 'mixed', 'neg'])
  if sign != 'pos':
    # net-change style metrics: negative values, possibly a negative grand total (keeps integer values)
    vals = [r[2] for r in inst['rows']]
    k = int(sorted(vals)[len(vals) // 2]) if sign == 'mixed' else int(max(vals)) + rng.randint(1, 50)
    inst['rows'] = [[g, d, v - k] for g, d, v in inst['rows']]
  inst['sign'] = sign
  inst['id_type'] = rng.choice(['int', 'int_object']) if all(g.isdigit() and str(int(g)) == g for g in ids) and rng.random() < 0.7 else 'str'
  return inst


def wire(inst, queries):
  L = ['new']
  for g, d, v in inst['rows']:
    fr = Fraction(v)
    L.append(f'obs {g} {d} {fr.numerator}/{fr.denominator}')
  if inst['elig'] is not None:
    for g, c in inst['elig'].items():
      L.append(f'elig {g} ' + ' '.join(CELL[x] for x in c))
  else:
    for g in inst['geos']:
      L.append(f'elig {g} 1 1 1')
  L.append('table')
  L.append('reconcile')
  L.append('assignable')
  for q in queries:
    if q[0] == 'setindex':
      L.append('setindex ' + (','.join(map(str, q[1])) if q[1] else '-'))
    elif q[0] == 'trunc':
      L.append(f'trunc {q[1]}')
    elif q[0] == 'agg':
      L.append('agg ' + (','.join(q[1]) if q[1] else '-') + ' ' + (','.join(str(i) for i in q[2]) if q[2] else '-'))
  return L


def fr_list(s):
  return [Fraction(int(a), int(b)) for a, b in (t.split('/') for t in s.split())]


def check_case(out, inst, model_lines, queries):
  from matched_markets.methodology import tbrmmdata
  case = {'inst': inst}
  dates, table = se.pivot(inst)
  means = {g: Fraction(0) for g in table}
  cells = {}
  for g, d, v in inst['rows']:
    cells.setdefault((g, d), []).append(Fraction(v))
  exact = {g: [sum(cells[(g, d)], Fraction(0)) / len(cells[(g, d)]) if (g, d) in cells else Fraction(0) for d in dates] for g in table}
  means = {g: sum(exact[g], Fraction(0)) / len(dates) for g in table}
  if len(set(means.values())) != len(means):
    out.count(None)
    return
  order = sorted(table, key=lambda g: -means[g])
  facts = {'call': 'TBRMMData', 'elig_kind': inst['elig_kind'], 'id_type': inst['id_type']}
  frame = se.build_frame(inst, id_type=inst['id_type'])
  frame0 = frame.copy(deep=True)
  elig_obj = se.build_elig(inst)
  elig0 = elig_obj.data.copy(deep=True) if elig_obj is not None else None
  if elig_obj is not None and inst.get('elig_reused_first') and len(table) > 1:
    # the caller's eligibility object was first used with a smaller panel (fewer geos); it must come back unchanged
    keep = sorted(table)[:max(1, len(table) // 2)]
    try:
      tbrmmdata.TBRMMData(frame[frame['geo'].astype(str).isin(keep)].copy(), 'response', elig_obj)
    except ValueError:
      pass
  try:
    data = tbrmmdata.TBRMMData(frame, 'response', elig_obj)
    err = None
  except Exception as e:
    data, err = None, type(e).__name__
  if elig_obj is not None and not elig_obj.data.equals(elig0):
    out.oracle_violation(dict(facts, symptom='eligibility-mutated'), case, 'the caller\'s eligibility object was modified')
    return
  # reconciliation rule
  el = inst['elig']
  missing_bad = el is not None and any(g not in table and c[2] != 1 for g, c in el.items())
  if missing_bad:
    if err != 'ValueError':
      out.oracle_violation(dict(facts, symptom='reconcile', exception=err), case,
                           f'an eligibility row for a geo absent from the data that may not be excluded must give ValueError, got {err or "acceptance"}')
    out.count(('reject', json.dumps(el, sort_keys=True)))
    if model_lines is not None:
      if not any(l.strip() == 'err ValueError' for l in model_lines):
        out.mismatch('data', case, 'model does not reject the eligibility table, implementation raises ' + str(err))
    return
  if err is not None:
    out.oracle_violation(dict(facts, symptom='exception', exception=err), case, f'TBRMMData raised {err} on a valid frame / eligibility table ({inst["elig_kind"]})')
    return
  if not frame.equals(frame0):
    out.oracle_violation(dict(facts, symptom='frame-mutated'), case, 'the caller\'s frame was modified')
    return
  # canonical table laws
  df = data.df
  prob = None
  if [str(g) for g in df.index] != order or not all(isinstance(g, str) for g in df.index):
    prob = f'rows {list(df.index)} are not the geos (as strings) by decreasing mean {order}'
  elif list(df.columns) != [pd.Timestamp('2020-01-01') + pd.Timedelta(days=int(d)) for d in dates]:
    prob = 'columns are not the distinct dates in chronological order'
  else:
    for g in order:
      if [Fraction(float(v)) for v in df.loc[g].values] != exact[g]:
        prob = f'row of geo {g} is {list(df.loc[g].values)[:6]}…, expected cell means / zeros {[float(x) for x in exact[g]][:6]}…'
        break
  if prob is None:
    tot = sum(means.values(), Fraction(0))
    for g in order:
      if tot != 0 and not math.isclose(float(data.geo_share[g]), float(means[g] / tot), rel_tol=1e-12, abs_tol=1e-15):
        prob = f'share of {g} is {float(data.geo_share[g])}, mean / sum of means is {float(means[g] / tot)}'
        break
  if prob is None:
    cls = {g: (se.CLS_CODE[tuple(el[g])] if el is not None and g in el else ('ctx' if el is None else 'absent')) for g in table}
    want_assignable = {g for g in table if cls[g] not in ('absent', 'xFixed')}
    if set(data.assignable) != want_assignable:
      prob = f'assignable {sorted(data.assignable)} != eligible geos in the data minus must-exclude {sorted(want_assignable)}'
    elif set(data.geos_in_data) != set(table):
      prob = 'geos_in_data is not the set of geos in the frame'
    elif el is not None and set(data.geo_eligibility.data.index) != {g for g in el if g in table}:
      prob = 'the reconciled eligibility table is not the input table restricted to the geos in the data'
  if prob:
    out.oracle_violation(dict(facts, symptom='table'), case, prob)
    return
  # geo index: several orders in a row on the same object (the arrays must follow the latest order)
  agg_real = []
  cur = None
  n_trunc = None
  for q in queries:
    if q[0] == 'trunc':
      n_trunc = q[1]
      data.df = data.df.iloc[:, -n_trunc:]
      agg_real.append('trunc')
      continue
    if q[0] == 'setindex':
      try:
        data.geo_index = tuple(q[1]) if (len(q) > 2 and q[2] == 'tuple') else list(q[1])      # both are the documented type
        cur = list(q[1])
        agg_real.append('ok')
        if any(g not in data.assignable for g in q[1]):
          out.oracle_violation(dict(facts, call='geo_index', symptom='accepted-unassignable'), dict(case, index=q[1]), f'geo index {q[1]} contains a non-assignable geo but was accepted')
          return
        ga = data.geo_assignments
        for i, g in enumerate(cur):
          c = cls[g]
          if (i in ga.c) != (c in se.CAN_C) or (i in ga.t) != (c in se.CAN_T) or (i in ga.x) != (c in se.CAN_X):
            out.oracle_violation(dict(facts, call='geo_index', symptom='assignments'), dict(case, index=q[1]), f'index assignments do not refer to positions in {cur}')
            return
      except Exception as e:
        agg_real.append('err ' + type(e).__name__)
        if all(g in data.assignable for g in q[1]) or type(e).__name__ != 'ValueError':
          out.oracle_violation(dict(facts, call='geo_index', symptom='exception', exception=type(e).__name__), dict(case, index=q[1]),
                               f'setting geo index {q[1]} raised {type(e).__name__}')
          return
    else:
      ser = data.aggregate_time_series(set(q[2]))
      shr = float(data.aggregate_geo_share(set(q[2])))
      cols = list(range(len(dates))) if n_trunc is None else list(range(len(dates)))[-n_trunc:]
      want = [sum((exact[q[1][i]][j] for i in q[2]), Fraction(0)) for j in cols]
      wshr = float(sum((means[q[1][i]] for i in q[2]), Fraction(0)) / tot) if tot else float('nan')
      if [Fraction(float(v)) for v in np.atleast_1d(ser)] != want if q[2] else not np.allclose(ser, 0):
        out.oracle_violation(dict(facts, call='aggregate_time_series', symptom='aggregate'), dict(case, index=q[1], sel=q[2]),
                             f'aggregate over indices {q[2]} of geo index {q[1]} is not the sum of the rows of {[q[1][i] for i in q[2]]}')
        return
      if tot and not math.isclose(shr, wshr, rel_tol=1e-12, abs_tol=1e-15):      # shares are undefined when the means sum to zero (§13.8)
        out.oracle_violation(dict(facts, call='aggregate_geo_share', symptom='aggregate'), dict(case, index=q[1], sel=q[2]),
                             f'aggregate share {shr} over indices {q[2]} of {q[1]} != {wshr}')
        return
      agg_real.append((ser, shr))
  case['queries'] = queries
  if model_lines is not None:
    ml = list(model_lines)
    try:
      g_line, d_line = ml[0], ml[1]
      n = len(order)
      rows = ml[2:2 + n]
      sh = ml[2 + n]
      rest = ml[3 + n:]
      ok = g_line.split()[1:] == order and [int(x) for x in d_line.split()[1:]] == dates
      ok = ok and all(fr_list(r[4:]) == exact[g] for r, g in zip(rows, order))
      ok = ok and all(math.isclose(float(a), float(data.geo_share[g]), rel_tol=1e-12, abs_tol=1e-15) for a, g in zip(fr_list(sh[6:]), order)) if tot else ok
      if not ok:
        out.mismatch('data-table', case, f'canonical table differs: model geos {g_line} dates {d_line[:60]}')
        return
      rec = rest[0]
      kept = {g for g in (el or {g: 0 for g in table}) if g in table}
      if set(rec.split()[1:]) != kept or set(rest[1].split()[1:]) != set(data.assignable):
        out.mismatch('data-elig', case, f'reconciliation/assignable differ: model "{rec}" / "{rest[1]}", implementation kept {sorted(kept)} assignable {sorted(data.assignable)}')
        return
      pos = 2
      for q, r in zip(queries, agg_real):
        if q[0] == 'trunc':
          keep = dates[-q[1]:]
          if [int(x) for x in rest[pos].split()[1:]] != keep:
            out.mismatch('data-truncate', case, f'analysis window for n={q[1]}: model {rest[pos][:80]}, expected dates {keep}')
            return
          pos += 1 + len(order)
          continue
        if q[0] == 'setindex':
          if rest[pos].strip() != r:
            out.mismatch('data-index', case, f'geo index {q[1]}: implementation {r}, model {rest[pos]}')
            return
          pos += 1
        else:
          mser = fr_list(rest[pos][7:])
          mshr = fr_list(rest[pos + 1][6:])[0]
          if mser != [Fraction(float(v)) for v in np.atleast_1d(r[0])] or not math.isclose(float(mshr), r[1], rel_tol=1e-12, abs_tol=1e-15):
            out.mismatch('data-aggregate', case, f'aggregate {q[1]} {q[2]}: implementation {list(np.atleast_1d(r[0]))[:4]} / {r[1]}, model {[float(x) for x in mser][:4]} / {float(mshr)}')
            return
          pos += 2
    except (IndexError, ValueError) as e:
      out.mismatch('data-protocol', case, f'cannot read the model output: {e}')
      return
  out.count((inst['elig_kind'], inst['id_type'], tuple(order), len(dates)))


def run(out, tier, model_ok=True):
  rng = core.rng_for(PROP)
  n = 200 if tier == 'quick' else 5000
  cases = [gen_case(rng) for _ in range(n)]
  # the queries are generated inside check_case (they depend on the real assignable set), so the model is run per case:
  # to keep one driver start we pre-generate with a cloned generator
  model_out = {}
  if model_ok:
    lines, spans = [], []
    pre_rng = core.rng_for(PROP, 'queries')
    plans = []
    for c in cases:
      q = plan_queries(pre_rng, c)
      plans.append(q)
      w = wire(c, q)
      lines += w
    outl = core.run_driver('Data.lean', lines)
    # split by counting expected lines per case
    pos = 0
    for c, q in zip(cases, plans):
      n_geo = len(se.pivot(c)[1])
      exp = 2 + n_geo + 1 + 1 + 1 + sum(1 if x[0] == 'setindex' else (1 + n_geo if x[0] == 'trunc' else 2) for x in q)
      # a rejected reconcile prints "err ValueError" and the following lines still appear
      model_out[id(c)] = (outl[pos:pos + exp], q)
      pos += exp
  cdir = os.path.join(core.VERIF, 'corpus', 'C15')
  for fn in sorted(os.listdir(cdir)) if os.path.isdir(cdir) else []:      # past failures run first (oracle only)
    with open(os.path.join(cdir, fn)) as f:
      cc = json.load(f)
    check_case_with_plan(out, cc['inst'], None, [tuple(x) for x in cc['queries']])
  kinds = {}
  for c in cases:
    kinds[c['elig_kind']] = kinds.get(c['elig_kind'], 0) + 1
    ml, q = model_out.get(id(c), (None, None))
    check_case_with_plan(out, c, ml, q if q is not None else plan_queries(core.rng_for(PROP, 'queries2'), c))
  out.rule = (f'{n} generated long-format frames (1-6 geos, shuffled rows, int/str IDs, missing cells, duplicate rows) x eligibility tables '
              '(none / subset / equal / superset with excludable ghosts / superset with a non-excludable ghost / neither subset nor superset), positive, mixed-sign and all-negative responses; per case: canonical table '
              'laws, shares, reconciliation accept/reject, assignable set, three geo-index installations in a row (re-orderings of the '
              'same set included) with aggregates over random index subsets, rejection of a non-assignable index, truncation to the most recent n dates followed by another installation and aggregate; compared with the Lean '
              'model; non-trivial/distinct by (eligibility kind, ID dtype, geo order, number of dates)')
  out.extra.update({'cases': n, 'eligibility_kinds': kinds})
  out.sample({'geos': cases[0]['geos'], 'elig': cases[0]['elig'], 'elig_kind': cases[0]['elig_kind'], 'rows': cases[0]['rows'][:5]})


def plan_queries(rng, inst):
  """geo-index / aggregate queries, generated from the raw instance only"""
  dates, table = se.pivot(inst)
  el = inst['elig']
  cls = {g: (se.CLS_CODE[tuple(el[g])] if el is not None and g in el else ('ctx' if el is None else 'absent')) for g in table}
  assignable = sorted(g for g in table if cls[g] not in ('absent', 'xFixed'))
  queries = []
  last = None
  for _ in range(3):
    if not assignable:
      break
    if last is not None and rng.random() < 0.4:
      idx = list(last)
      rng.shuffle(idx)
    else:
      idx = rng.sample(assignable, rng.randint(1, len(assignable)))
    last = idx
    queries.append(('setindex', idx, rng.choice(['list', 'list', 'tuple'])))
    queries.append(('agg', idx, sorted(rng.sample(range(len(idx)), rng.randint(0, len(idx))))))
  bad = [g for g in table if g not in assignable]
  if bad:
    queries.append(('setindex', [bad[0]] + assignable[:1]))
  if assignable and rng.random() < 0.3:
    queries.append(('setindex', assignable[:1] + [rng.choice([7, 2.5])]))      # an ID that is not even a string: unassignable
  if assignable:
    # what TBRMatchedMarkets.__init__ does: keep the most recent n dates, then install an index and aggregate
    n = rng.randint(1, len(dates) + 2)
    idx = rng.sample(assignable, rng.randint(1, len(assignable)))
    queries.append(('trunc', n))
    queries.append(('setindex', idx))
    queries.append(('agg', idx, sorted(rng.sample(range(len(idx)), rng.randint(1, len(idx))))))
  return queries


def check_case_with_plan(out, inst, model_lines, queries):
  check_case(out, inst, model_lines, queries)


def replay(out, path, model_ok=True):
  with open(path) as f:
    rp = json.load(f)
  case = (rp.get('violation') or (rp.get('correspondence_mismatches') or [{}])[0]).get('case')
  inst = case['inst']
  q = [tuple(x) for x in case.get('queries', [])] or plan_queries(core.rng_for(PROP, 'replay'), inst)
  check_case_with_plan(out, inst, None, q)
  out.count(('replay', 1)); out.count(('replay', 2))
