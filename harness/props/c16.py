"""C16: eligibility tables are validated and partitioned correctly."""
import itertools
import json
import os
import core

PROP = 'C16'
LEAN_TARGETS = ['MM.Props.C16', 'MM.Audit.C16', 'MM.Driver.Wire']
THEOREMS = ['MM.Elig.' + n for n in (
    'C16_accept_iff', 'C16_reject_valueError', 'C16_validate_total', 'C16_formulas', 'C16_partition',
    'C16_class_of_row', 'C16_columns', 'C16_all_geos', 'C16_indices_need_geos', 'C16_empty_subset', 'C16_unknown_geo')]
TRUSTED_BASE = [
    'Lean 4.33.0 kernel; axioms propext, Classical.choice, Quot.sound (audited per theorem)',
    'translator T2 (harness/translate.py): set algebra of GeoAssignments.__init__ -> pointwise Boolean formulas '
    '(union/intersection/difference of sets are pointwise or/and/and-not)',
    'pandas frame handling inside GeoEligibility.__init__ (reset_index, duplicated, astype(str), loc) is modelled by the '
    'abstract Table record; the harness derives that record from the recipe that built the frame',
    'correspondence harness harness/props/c16.py, driver lean/drivers/Elig.lean',
]
CODES = list(itertools.product([0, 1], repeat=3))   # (c, t, x): eight rows, (0,0,0) illegal
CLASS_OF = {(1, 0, 0): 'c_fixed', (0, 1, 0): 't_fixed', (0, 0, 1): 'x_fixed', (1, 1, 0): 'ct',
            (1, 0, 1): 'cx', (1, 1, 1): 'ctx', (0, 1, 1): 'tx'}
ATTRS = ['all', 'c', 't', 'x', 'c_fixed', 't_fixed', 'x_fixed', 'ct', 'cx', 'ctx', 'tx']


def cell_class(v):
  try:
    if v == 0 and hash(v) == hash(0):
      return '0'
    if v == 1 and hash(v) == hash(1):
      return '1'
  except Exception:
    pass
  return 'o'


def spell(rng, bit):
  """different Python spellings of 0 / 1 that `v in {0, 1}` accepts"""
  return rng.choice([bit, bit, bit, float(bit), bool(bit)])


def gen_recipe(rng, kind):
  """A recipe is JSON: how to build the frame + the abstract table the model sees."""
  n = rng.choice([1, 2, 3, 4, 4, 5, 6])
  ids = rng.sample(['a', 'b', 'c2', '10', '2', 'x_y', 'Q', 'geo', '007', '33', 'zz'], n)
  rows = []
  for g in ids:
    code = rng.choice([c for c in CODES if c != (0, 0, 0)])
    rows.append([g] + [spell(rng, b) for b in code])
  rec = {'kind': kind, 'rows': rows, 'geo_as_index': rng.random() < 0.3, 'hasGeo': True, 'dupCols': False,
         'missing': [], 'int_ids': False}
  # columns the class has no business with (the documentation allows them): a numeric one that is never zero, a text one
  rec['extra_cols'] = rng.choice([[], [], ['num'], ['num', 'txt'], ['txt']])
  if kind == 'zero_row':
    rows[rng.randrange(n)][1:] = [0, 0, 0]
  elif kind == 'bad_value':
    rows[rng.randrange(n)][rng.randint(1, 3)] = rng.choice([2, -1, float('nan'), '1', '0', 0.5, None, 'x'])
  elif kind == 'dup_id':
    rows.append(list(rows[0]) if rng.random() < 0.5 else [rows[0][0]] + rows[-1][1:])
  elif kind == 'missing_col':
    rec['missing'] = rng.sample(['control', 'treatment', 'exclude'], rng.randint(1, 2))
  elif kind == 'dup_col':
    rec['dupCols'] = True
  elif kind == 'no_geo':
    rec['hasGeo'] = False
    rec['geo_as_index'] = False
  elif kind == 'int_str_dup':
    rows[:] = [r for r in rows if r[0] not in ('10', '2', '33')]
    rows.append([10, 1, 1, 1])
    rows.append(['10', 1, 0, 1])
    rec['int_ids'] = True
  return rec


def build_df(rec):
  import pandas as pd
  rows = rec['rows']
  data = {'geo': [r[0] for r in rows], 'control': [r[1] for r in rows], 'treatment': [r[2] for r in rows],
          'exclude': [r[3] for r in rows]}
  if any(isinstance(v, (str, type(None), bool)) for r in rows for v in r[1:]):
    df = pd.DataFrame({k: pd.Series(v, dtype=object) if k != 'geo' else v for k, v in data.items()})
  else:
    df = pd.DataFrame(data)
  for c in rec.get('extra_cols') or []:
    df['population' if c == 'num' else 'name'] = [(i + 1) * 1000 if c == 'num' else f'n{i}' for i in range(len(rows))]
  for m in rec['missing']:
    del df[m]
  if not rec['hasGeo']:
    del df['geo']
  elif rec['geo_as_index']:
    df = df.set_index('geo')
  if rec['dupCols']:
    extra = df[[c for c in df.columns if c != 'geo'][:1]]
    df = pd.concat([df, extra], axis=1)
  return df


def wire_table(rec):
  L = [f'table {int(rec["hasGeo"])} {int(rec["dupCols"])} {int(bool(rec["missing"]))}']
  for r in rec['rows']:
    L.append(f'row {str(r[0])} ' + ' '.join(cell_class(v) for v in r[1:]))
  return L


def expected_accept(rec):
  """the documented acceptance condition, stated on the recipe"""
  if not rec['hasGeo'] or rec['dupCols'] or rec['missing']:
    return False
  ids = [str(r[0]) for r in rec['rows']]
  if len(set(ids)) != len(ids):
    return False
  for r in rec['rows']:
    cs = [cell_class(v) for v in r[1:]]
    if 'o' in cs or cs == ['0', '0', '0']:
      return False
  return True


def fmt_assign(a, indices):
  def refs(s):
    return ','.join(sorted(('i%d' % v) if indices else ('s' + str(v)) for v in s))
  return 'ok ' + ';'.join(f'{k}={refs(getattr(a, k))}' for k in ATTRS)


def oracle_partition(rec, gs, indices, a):
  """the property's sentence, independently: seven classes partition the subset, class = row code, positions"""
  rows = {str(r[0]): tuple(int(v) for v in r[1:]) for r in rec['rows']}
  names = list(rows) if gs is None else gs
  refs = list(range(len(names))) if indices else names
  seven = ['c_fixed', 't_fixed', 'x_fixed', 'ct', 'cx', 'ctx', 'tx']
  if set(a.all) != set(refs):
    return f'all = {sorted(a.all, key=str)} but the selected geos are {refs}'
  for ref, g in zip(refs, names):
    inn = [k for k in seven if ref in getattr(a, k)]
    if inn != [CLASS_OF[rows[g]]]:
      return f'geo {g} (row {rows[g]}) is in classes {inn}, expected exactly [{CLASS_OF[rows[g]]}]'
    for col, k in zip(rows[g], ['c', 't', 'x']):
      if (ref in getattr(a, k)) != (col == 1):
        return f'geo {g}: membership in {k} disagrees with its column value {col}'
  if sum(len(getattr(a, k)) for k in seven) != len(refs):
    return 'the seven classes are not a partition of the selected geos'
  return None


def check_case(out, rec, queries, model_lines):
  from matched_markets.methodology import geoeligibility
  want_lines = []
  exp = expected_accept(rec)
  try:
    ge = geoeligibility.GeoEligibility(build_df(rec))
    got = 'ok'
  except Exception as e:
    ge = None
    got = 'err ' + type(e).__name__
  want_lines.append(got)
  if (got == 'ok') != exp or (got != 'ok' and got != 'err ValueError'):
    out.oracle_violation({'call': 'GeoEligibility', 'symptom': 'accept-reject', 'kind': rec['kind']}, {'recipe': rec},
                         f'table kind={rec["kind"]} rows={rec["rows"]}: expected {"accept" if exp else "ValueError"}, got {got}')
    return
  if ge is not None:
    for gs, indices in queries:
      try:
        a = ge.get_eligible_assignments(None if gs is None else list(gs), indices=indices)
        want_lines.append(fmt_assign(a, indices))
        known = gs is None or all(g in [str(r[0]) for r in rec['rows']] for g in gs)
        if known:
          prob = oracle_partition(rec, gs, indices, a)
          if prob:
            out.oracle_violation({'call': 'get_eligible_assignments', 'symptom': 'partition',
                                  'empty_subset': gs is not None and len(gs) == 0},
                                 {'recipe': rec, 'geos': gs, 'indices': indices}, prob)
            return
      except Exception as e:
        want_lines.append('err ' + type(e).__name__)
        if gs is None and indices:
          if type(e).__name__ != 'ValueError':
            out.oracle_violation({'call': 'get_eligible_assignments', 'symptom': 'exception'}, {'recipe': rec},
                                 f'indices without geos raised {type(e).__name__}')
        elif gs is not None and all(g in [str(r[0]) for r in rec['rows']] for g in gs):
          out.oracle_violation({'call': 'get_eligible_assignments', 'symptom': 'exception',
                                'empty_subset': len(gs) == 0},
                               {'recipe': rec, 'geos': gs, 'indices': indices},
                               f'subset {gs} indices={indices} raised {type(e).__name__}: {e}')
          return
  if model_lines is not None and model_lines[:len(want_lines)] != want_lines:
    j = next(i for i in range(len(want_lines)) if i >= len(model_lines) or model_lines[i] != want_lines[i])
    out.mismatch('elig', {'recipe': rec, 'queries': queries},
                 f'kind={rec["kind"]} line {j}: implementation "{want_lines[j][:150]}" model "{(model_lines[j] if j < len(model_lines) else "")[:150]}"')


def gen_queries(rng, rec):
  ids = [str(r[0]) for r in rec['rows']]
  qs = [(None, False), (None, True), ([], False), ([], True)]
  for _ in range(4):
    k = rng.randint(1, len(ids))
    sub = rng.sample(ids, k)
    qs.append((sub, rng.random() < 0.6))
  if rng.random() < 0.3:
    qs.append((ids[:1] + ['nope'], False))
  return qs


def wire_queries(qs):
  L = []
  for gs, ind in qs:
    g = 'none' if gs is None else ('empty' if not gs else ','.join(gs))
    L.append(f'assign {int(ind)} {g}')
  return L


def all_tables(max_geos):
  """every table over the seven legal + one illegal row with up to max_geos geos (exhaustive stream)"""
  names = ['p', 'q', 'r', 's']
  for n in range(1, max_geos + 1):
    for codes in itertools.product(CODES, repeat=n):
      rows = [[names[i]] + list(c) for i, c in enumerate(codes)]
      kind = 'zero_row' if (0, 0, 0) in codes else 'ok'
      yield {'kind': kind, 'rows': rows, 'geo_as_index': False, 'hasGeo': True, 'dupCols': False, 'missing': [],
             'int_ids': False}


def run(out, tier, model_ok=True):
  rng = core.rng_for(PROP)
  max_exh = 3 if tier == 'quick' else 4
  n_rand, n_bad = (150, 300) if tier == 'quick' else (3000, 6000)
  cases = []
  cdir = os.path.join(core.CORPUS, PROP)
  if os.path.isdir(cdir):
    for fn in sorted(os.listdir(cdir)):
      with open(os.path.join(cdir, fn)) as f:
        c = json.load(f)
        cases.append((c['recipe'], [tuple(q) for q in c['queries']]))
  n_exh = 0
  for rec in all_tables(max_exh):
    ids = [r[0] for r in rec['rows']]
    qs = [(None, False), (list(reversed(ids)), True), (ids[:1], True), ([], True), ([], False)]
    cases.append((rec, qs))
    n_exh += 1
  for _ in range(n_rand):
    rec = gen_recipe(rng, 'ok')
    cases.append((rec, gen_queries(rng, rec)))
  kinds = ['zero_row', 'bad_value', 'dup_id', 'missing_col', 'dup_col', 'no_geo', 'int_str_dup']
  for i in range(n_bad):
    rec = gen_recipe(rng, kinds[i % len(kinds)])
    cases.append((rec, gen_queries(rng, rec) if expected_accept(rec) else []))
  model_out = None
  if model_ok:
    lines, spans = [], []
    for rec, qs in cases:
      L = wire_table(rec) + ['validate'] + (wire_queries(qs) if expected_accept(rec) else [])
      spans.append(1 + (len(qs) if expected_accept(rec) else 0))
      lines += L
    model_out = core.run_driver('Elig.lean', lines)
  pos = 0
  hist = {}
  for i, (rec, qs) in enumerate(cases):
    ml = None
    if model_out is not None:
      ml = model_out[pos:pos + spans[i]]
      pos += spans[i]
    check_case(out, rec, qs if expected_accept(rec) else [], ml)
    hist[rec['kind']] = hist.get(rec['kind'], 0) + 1
    out.count((rec['kind'], json.dumps(rec['rows'], default=str), rec['geo_as_index']) if len(rec['rows']) >= 2 or rec['kind'] != 'ok' else None)
  out.rule = ('(a) every table over the eight possible rows with <= %d geos (exhaustive), (b) random accepted tables with '
              'int/float/bool spellings of 0/1 and geo as column or index, queried with None / empty / random ordered '
              'subsets by ID and by index, (c) malformed variants (zero row, bad value incl. NaN/strings/2/-1, duplicate id, '
              'int-vs-str duplicate id, missing/duplicate column, no geo); non-trivial = >= 2 geos or malformed; distinct by recipe' % max_exh)
  out.extra.update({'tables': len(cases), 'exhaustive_tables': n_exh, 'kinds': hist, 'exhaustive_upto_geos': max_exh})
  out.sample({'recipe': cases[n_exh][0], 'queries': cases[n_exh][1]} if len(cases) > n_exh else {})
  out.sample({'recipe': cases[-1][0]})


def replay(out, path, model_ok=True):
  with open(path) as f:
    rp = json.load(f)
  case = (rp.get('violation') or (rp.get('correspondence_mismatches') or [{}])[0]).get('case')
  rec = case['recipe']
  qs = [tuple(q) for q in case.get('queries', [])] or ([(case.get('geos'), case.get('indices', False))] if 'geos' in case else [])
  check_case(out, rec, qs, None)
  out.count(('replay', 1)); out.count(('replay', 2))
