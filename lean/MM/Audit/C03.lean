import MM.Props.Exhaustive
import MM.Props.SearchTie
import MM.Props.ScoreTie
#print axioms MM.Search.C03_sound
#print axioms MM.Search.C03_complete
#print axioms MM.Search.C03_nodup
#print axioms MM.Search.C03_topk
#print axioms MM.Search.C03_optimal
#print axioms MM.Search.exhaustive_spec
#print axioms MM.Search.designLt_strictWeak_on_nanFree
#print axioms MM.Search.tie_share
#print axioms MM.Search.tie_budget_screen
#print axioms MM.Search.tie_volume
#print axioms MM.Search.tie_score_fields
#print axioms MM.Search.tie_score_exprs
#print axioms MM.Search.tie_score_order
