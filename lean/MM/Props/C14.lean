/-
C14: `HeapDict` keeps, per key, exactly the `size` largest items pushed under that key,
reports them in descending order, reports keys in first-push order, and `get_result`
is a pure read.

Model: `MM/Model/HeapDict.lean`.  Helper lemmas: `MM/Proofs/HeapDict.lean`.
-/
import MM.Proofs.HeapDict

namespace MM.HeapDict
variable {κ α : Type} [BEq κ] [LawfulBEq κ]

/-- `lt` is a strict weak order (what Python's `<` is on NaN-free score tuples). -/
structure StrictWeak (lt : α → α → Bool) : Prop where
  irrefl : ∀ a, lt a a = false
  trans : ∀ a b c, lt a b = true → lt b c = true → lt a c = true
  negTrans : ∀ a b c, lt a c = true → lt a b = true ∨ lt b c = true

/-- the items pushed under key `k`, in push order -/
def pushedFor (k : κ) (ops : List (κ × α)) : List α := (ops.filter (fun o => o.1 == k)).map (·.2)

/-- the queue under `k` after `ops` is the single-queue fold over the items pushed under `k` -/
theorem lookup_pushAll_init (lt : α → α → Bool) (size : Nat) (ops : List (κ × α)) (k : κ) :
    lookup k (pushAll lt (init size) ops).qs = foldQ lt size [] (pushedFor k ops) :=
  lookup_pushAll lt (init size) ops k

/-- the single-queue invariant holds for every key of `pushAll lt (init size) ops` -/
theorem qinv_pushAll (lt : α → α → Bool) (h : StrictWeak lt) (size : Nat) (ops : List (κ × α))
    (k : κ) :
    ∃ dropped, QInv lt size (pushedFor k ops) (lookup k (pushAll lt (init size) ops).qs) dropped := by
  rw [lookup_pushAll_init]
  simpa using (QInv.init lt size).fold h.irrefl h.trans h.negTrans (pushedFor k ops)

/-- descending: no item is strictly smaller than a later one -/
theorem C14_sorted (lt : α → α → Bool) (h : StrictWeak lt) (size : Nat) (ops : List (κ × α)) (k : κ) :
    (resultFor (pushAll lt (init size) ops) k).Pairwise (fun a b => lt a b = false) := by
  obtain ⟨dropped, hq⟩ := qinv_pushAll lt h size ops k
  unfold resultFor
  rw [List.pairwise_reverse]
  exact hq.sorted

theorem C14_length (lt : α → α → Bool) (size : Nat) (ops : List (κ × α)) (k : κ) :
    (resultFor (pushAll lt (init size) ops) k).length = min size (pushedFor k ops).length := by
  unfold resultFor
  rw [List.length_reverse, lookup_pushAll_init,
    length_foldQ lt size [] (pushedFor k ops) 0 (by simp)]
  simp

/-- exactly the `size` largest as a multiset, in tie-agnostic form: kept ++ dropped is a
permutation of what was pushed and nothing dropped is strictly larger than anything kept -/
theorem C14_topk (lt : α → α → Bool) (h : StrictWeak lt) (size : Nat) (ops : List (κ × α)) (k : κ) :
    ∃ dropped : List α,
      (resultFor (pushAll lt (init size) ops) k ++ dropped).Perm (pushedFor k ops) ∧
      ∀ d ∈ dropped, ∀ x ∈ resultFor (pushAll lt (init size) ops) k, lt x d = false := by
  obtain ⟨dropped, hq⟩ := qinv_pushAll lt h size ops k
  refine ⟨dropped, ?_, ?_⟩
  · unfold resultFor
    exact ((List.reverse_perm _).append_right dropped).trans hq.perm
  · intro d hd x hx
    unfold resultFor at hx
    exact hq.dom d hd x (List.mem_reverse.mp hx)

/-- the keys reported are exactly the keys pushed, in first-push order, even with capacity 0 -/
theorem C14_keys (lt : α → α → Bool) (size : Nat) (ops : List (κ × α)) :
    (getResult (pushAll lt (init size) ops)).map (·.1) = (ops.map (·.1)).eraseDups := by
  rw [keys_getResult, keys_pushAll_loop]
  rfl

/-- a history machine with reads: reading never changes what later reads/pushes see -/
inductive Op (κ α : Type)
  | push (k : κ) (x : α)
  | get

def run (lt : α → α → Bool) (s : State κ α) : List (Op κ α) → State κ α × List (List (κ × List α))
  | [] => (s, [])
  | .push k x :: ops => run lt (push lt s k x) ops
  | .get :: ops => let r := run lt s ops; (r.1, getResult s :: r.2)

omit [LawfulBEq κ] in
theorem C14_get_pure (lt : α → α → Bool) (s : State κ α) (ops : List (Op κ α)) :
    (run lt s ops).1 = pushAll lt s (ops.filterMap fun | .push k x => some (k, x) | .get => none) := by
  induction ops generalizing s with
  | nil => rfl
  | cons o ops ih =>
    cases o with
    | push k x => simp only [run, List.filterMap_cons, pushAll_cons, ih]
    | get => simp only [run, List.filterMap_cons, ih]

/-- the pushes among `ops`, in order (the same function as in `C14_get_pure`) -/
def pushesOf (ops : List (Op κ α)) : List (κ × α) :=
  ops.filterMap fun | .push k x => some (k, x) | .get => none

def Op.isGet : Op κ α → Bool
  | .get => true
  | .push _ _ => false

omit [LawfulBEq κ] in
/-- `run` emits one output per `get` -/
theorem C14_get_count (lt : α → α → Bool) (s : State κ α) (ops : List (Op κ α)) :
    (run lt s ops).2.length = (ops.filter Op.isGet).length := by
  induction ops generalizing s with
  | nil => rfl
  | cons o ops ih =>
    cases o with
    | push k x => simp only [run, Op.isGet, List.filter_cons, ih]; simp
    | get => simp only [run, Op.isGet, List.filter_cons, List.length_cons, ih]; simp

omit [LawfulBEq κ] in
/-- and every read returns the result for exactly the pushes that precede it: for every way
of splitting the history at a `get` (`pre ++ get :: post`), that `get` is read number
`#gets in pre`, and its output is `getResult` of the state built from the pushes in `pre`
(earlier reads in `pre` and everything in `post` are irrelevant). With `C14_get_count`
this covers every output of `run`. -/
theorem C14_get_prefix (lt : α → α → Bool) (s : State κ α) (pre post : List (Op κ α)) :
    (run lt s (pre ++ Op.get :: post)).2[(pre.filter Op.isGet).length]?
      = some (getResult (pushAll lt s (pushesOf pre))) := by
  induction pre generalizing s with
  | nil => simp [run, pushesOf]
  | cons o pre ih =>
    cases o with
    | push k x =>
      simp only [List.cons_append, run, List.filter_cons, Op.isGet, pushesOf,
        List.filterMap_cons, pushAll_cons]
      exact ih (push lt s k x)
    | get =>
      simp only [List.cons_append, run, List.filter_cons, Op.isGet, pushesOf,
        List.filterMap_cons, if_true, List.length_cons, List.getElem?_cons_succ]
      exact ih s

omit [BEq κ] [LawfulBEq κ] in
/-- every index below the number of `get`s is the position of some `get` -/
theorem exists_split_of_lt (ops : List (Op κ α)) (i : Nat)
    (h : i < (ops.filter Op.isGet).length) :
    ∃ pre post, ops = pre ++ Op.get :: post ∧ (pre.filter Op.isGet).length = i := by
  induction ops generalizing i with
  | nil => simp at h
  | cons o ops ih =>
    cases o with
    | push k x =>
      have h' : i < (ops.filter Op.isGet).length := by
        simpa [List.filter_cons, Op.isGet] using h
      obtain ⟨pre, post, e, hc⟩ := ih i h'
      exact ⟨Op.push k x :: pre, post, by rw [e]; rfl, by simpa [List.filter_cons, Op.isGet] using hc⟩
    | get =>
      cases i with
      | zero => exact ⟨[], ops, rfl, rfl⟩
      | succ j =>
        have h' : j < (ops.filter Op.isGet).length := by
          simpa [List.filter_cons, Op.isGet] using h
        obtain ⟨pre, post, e, hc⟩ := ih j h'
        exact ⟨Op.get :: pre, post, by rw [e]; rfl, by simpa [List.filter_cons, Op.isGet] using hc⟩

omit [LawfulBEq κ] in
/-- index form: the `i`-th output of `run` is the result for the pushes before the `i`-th `get` -/
theorem C14_get_prefix_idx (lt : α → α → Bool) (s : State κ α) (ops : List (Op κ α)) (i : Nat)
    (h : i < (run lt s ops).2.length) :
    ∃ pre post, ops = pre ++ Op.get :: post ∧ (pre.filter Op.isGet).length = i ∧
      (run lt s ops).2[i] = getResult (pushAll lt s (pushesOf pre)) := by
  obtain ⟨pre, post, e, hc⟩ := exists_split_of_lt ops i (by rwa [C14_get_count] at h)
  refine ⟨pre, post, e, hc, ?_⟩
  have := C14_get_prefix lt s pre post
  rw [hc, ← e, List.getElem?_eq_getElem h] at this
  exact Option.some.inj this

/-! ### non-vacuity -/

/-- `<` on `Nat` is a strict weak order -/
example : StrictWeak (fun a b : Nat => decide (a < b)) where
  irrefl := by intro a; simp
  trans := by intro a b c; simp only [decide_eq_true_eq]; omega
  negTrans := by intro a b c; simp only [decide_eq_true_eq]; omega

/-- capacity 2: the two largest of `5,3,9,3` under key `1`, descending; key `2` is separate -/
example : resultFor (pushAll (fun a b : Nat => decide (a < b)) (init 2)
    [(1,5),(1,3),(1,9),(2,4),(1,3)]) 1 = [9,5] := by decide

example : getResult (pushAll (fun a b : Nat => decide (a < b)) (init 2)
    [(1,5),(1,3),(1,9),(2,4),(1,3)]) = [(1,[9,5]),(2,[4])] := by decide

/-- capacity 0: every key is reported, every queue is empty -/
example : getResult (pushAll (fun a b : Nat => decide (a < b)) (init 0)
    [(7,5),(3,3),(7,9)]) = [(7,[]),(3,[])] := by decide

example : resultFor (pushAll (fun a b : Nat => decide (a < b)) (init 0)
    [(7,5),(3,3),(7,9)]) 7 = [] := by decide

/-- ties: with a key-only comparison, the kept item among tied ones is model detail, the
order keys are not -/
example : (resultFor (pushAll (fun a b : Nat × Nat => decide (a.1 < b.1)) (init 1)
    [(0,(1,10)),(0,(1,20)),(0,(0,30))]) 0).map (·.1) = [1] := by decide

/-- reads interleaved with pushes -/
example : (run (fun a b : Nat => decide (a < b)) (init 1)
    [.push 1 5, .get, .push 1 7, .push 2 1, .get]).2
      = [[(1,[5])], [(1,[7]),(2,[1])]] := by decide

end MM.HeapDict
