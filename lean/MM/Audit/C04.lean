import MM.Props.Exhaustive
import MM.Props.Greedy
import MM.Props.C04Series
#print axioms MM.Search.C04_score_of_design
#print axioms MM.Search.C04_greedy_score
#print axioms MM.Search.exhaustive_sub_evaluated
#print axioms MM.Data.C04_series
#print axioms MM.Data.C04_series_length
#print axioms MM.Data.C04_window
