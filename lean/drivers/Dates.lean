/- Driver for the C20 model.  Input: one case per line, `case <entry>|<entry>|...`; `case0` = the empty list. -/
import MM.Model.Dates
import MM.Driver.Wire
open MM MM.Dates

def insertSorted (a : Nat) : List Nat → List Nat
  | [] => [a]
  | b :: l => if a ≤ b then a :: b :: l else b :: insertSorted a l

def handle (line : String) : IO Unit := do
  let body := (line.dropEnd 1 |>.toString)   -- strip the newline only; blanks inside entries matter
  let entries := if body == "case0" then [] else ((body.drop 5).toString).splitOn "|"
  match pipeline entries with
  | .ok ds => IO.println ("ok " ++ " ".intercalate ((ds.foldr insertSorted []).map toString))
  | .error e => IO.println ("err " ++ e.name)

def main : IO Unit := do Wire.forLines (← IO.getStdin) handle
