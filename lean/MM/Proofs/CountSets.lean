/-
GeoSet (strictly increasing `List Nat`) lemmas, size-range facts and a set-theoretic
characterisation of the two group generators.  Used by C11 (B), (C).
-/
import MM.Proofs.Combos
import Mathlib.Data.List.Sort
import Mathlib.Data.List.Nodup

namespace MM

/-- strictly increasing. -/
abbrev SSorted (l : List Nat) : Prop := l.Pairwise (· < ·)

theorem SSorted.eq_of_mem_iff {s t : List Nat} (h1 : SSorted s) (h2 : SSorted t)
    (h : ∀ a, a ∈ s ↔ a ∈ t) : s = t := List.Pairwise.eq_of_mem_iff h1 h2 h

theorem SSorted.nodup {s : List Nat} (h : SSorted s) : s.Nodup :=
  h.imp (fun hab => Nat.ne_of_lt hab)

theorem mem_insertSet {a x : Nat} {l : GeoSet} : x ∈ insertSet a l ↔ x = a ∨ x ∈ l := by
  induction l with
  | nil => simp [insertSet]
  | cons b l ih =>
    simp only [insertSet]
    split_ifs with h1 h2
    · simp
    · subst h2; simp
    · simp only [List.mem_cons, ih]; tauto

theorem sorted_insertSet {a : Nat} {l : GeoSet} (h : SSorted l) : SSorted (insertSet a l) := by
  induction l with
  | nil => simp [insertSet, SSorted]
  | cons b l ih =>
    have hb := List.pairwise_cons.1 h
    simp only [insertSet]
    split_ifs with h1 h2
    · refine List.pairwise_cons.2 ⟨?_, h⟩
      intro x hx
      rcases List.mem_cons.1 hx with rfl | hx
      · exact h1
      · exact Nat.lt_trans h1 (hb.1 x hx)
    · exact h
    · refine List.pairwise_cons.2 ⟨?_, ih hb.2⟩
      intro x hx
      rcases mem_insertSet.1 hx with rfl | hx
      · omega
      · exact hb.1 x hx

theorem length_insertSet {a : Nat} {l : GeoSet} (h : a ∉ l) :
    (insertSet a l).length = l.length + 1 := by
  induction l with
  | nil => simp [insertSet]
  | cons b l ih =>
    simp only [List.mem_cons, not_or] at h
    simp only [insertSet]
    split_ifs with h1 h2
    · simp
    · exact absurd h2 h.1
    · simp [ih h.2]

theorem mem_unionSet {a b : GeoSet} {x : Nat} : x ∈ unionSet a b ↔ x ∈ a ∨ x ∈ b := by
  induction a with
  | nil => simp [unionSet]
  | cons y a ih =>
    have : unionSet (y :: a) b = insertSet y (unionSet a b) := rfl
    rw [this, mem_insertSet, ih, List.mem_cons]; tauto

theorem sorted_unionSet {a b : GeoSet} (h : SSorted b) : SSorted (unionSet a b) := by
  induction a with
  | nil => exact h
  | cons y a ih => exact sorted_insertSet ih

theorem length_unionSet {a b : GeoSet} (ha : a.Nodup) (hd : ∀ x ∈ a, x ∉ b) :
    (unionSet a b).length = a.length + b.length := by
  induction a with
  | nil => simp [unionSet]
  | cons y a ih =>
    have : unionSet (y :: a) b = insertSet y (unionSet a b) := rfl
    rw [List.nodup_cons] at ha
    rw [this, length_insertSet, ih ha.2 (fun x hx => hd x (List.mem_cons_of_mem _ hx))]
    · simp; omega
    · rw [mem_unionSet]; rintro (h | h)
      · exact ha.1 h
      · exact hd y List.mem_cons_self h

theorem unionSet_nil {a : GeoSet} (h : SSorted a) : unionSet a [] = a :=
  SSorted.eq_of_mem_iff (sorted_unionSet List.Pairwise.nil) h (fun x => by simp [mem_unionSet])

theorem mem_diffSet {a b : GeoSet} {x : Nat} : x ∈ diffSet a b ↔ x ∈ a ∧ x ∉ b := by
  simp [diffSet]

theorem sorted_diffSet {a b : GeoSet} (h : SSorted a) : SSorted (diffSet a b) :=
  List.Pairwise.filter _ h

/-! ### the generic group generator -/

/-- common shape of `treatment_group_generator(n)` and of one size of
`control_group_generator`. -/
def genGroups (F V : GeoSet) (n : Nat) : List GeoSet :=
  if n < F.length then [] else
  let r := n - F.length
  if r == 0 then (if F.isEmpty then [] else [F]) else (combos r V).map (unionSet F)

theorem genGroups_def (F V : GeoSet) (n : Nat) :
    genGroups F V n = if n < F.length then [] else
      if n - F.length = 0 then (if F = [] then [] else [F])
      else (combos (n - F.length) V).map (unionSet F) := by
  simp only [genGroups, beq_iff_eq, List.isEmpty_iff]

theorem genGroups_eq_map {F V : GeoSet} {n : Nat} (hF : SSorted F) (hn : 1 ≤ n) :
    genGroups F V n
      = if n < F.length then [] else (combos (n - F.length) V).map (unionSet F) := by
  rw [genGroups_def]
  split_ifs with h1 h2 h3
  · rfl
  · subst h3; simp at h2; omega
  · rw [h2]; simp [combos, unionSet_nil hF]
  · rfl

section gen
variable {F V : GeoSet} (hF : SSorted F) (hV : SSorted V) (hd : ∀ x ∈ F, x ∉ V)
include hF hV hd

omit hV in
theorem length_of_mem_genGroups {n : Nat} {X : GeoSet} (h : X ∈ genGroups F V n) :
    X.length = n := by
  rw [genGroups_def] at h
  split_ifs at h with h1 h2 h3
  · simp at h
  · simp at h
  · simp at h; subst h; omega
  · simp only [List.mem_map] at h
    obtain ⟨S, hS, rfl⟩ := h
    rw [length_unionSet hF.nodup (fun x hx hxS => hd x hx (subset_of_mem_combos hS hxS)),
      length_of_mem_combos hS]
    omega

theorem mem_genGroups {n : Nat} (hn : 1 ≤ n) {X : GeoSet} :
    X ∈ genGroups F V n ↔
      SSorted X ∧ (∀ x ∈ F, x ∈ X) ∧ (∀ x ∈ X, x ∈ F ∨ x ∈ V) ∧ X.length = n := by
  constructor
  · intro h
    have hlen := length_of_mem_genGroups hF hd h
    rw [genGroups_eq_map hF hn] at h
    split_ifs at h with h1
    · simp at h
    · simp only [List.mem_map] at h
      obtain ⟨S, hS, rfl⟩ := h
      refine ⟨sorted_unionSet (sorted_of_mem_combos hS hV), ?_, ?_, hlen⟩
      · intro x hx; exact mem_unionSet.2 (Or.inl hx)
      · intro x hx
        rcases mem_unionSet.1 hx with h | h
        · exact Or.inl h
        · exact Or.inr (subset_of_mem_combos hS h)
  · rintro ⟨hX, hFX, hXV, hlen⟩
    rw [genGroups_eq_map hF hn]
    have hle : F.length ≤ X.length :=
      (List.subperm_of_subset hF.nodup (fun x hx => hFX x hx)).length_le
    rw [if_neg (by omega)]
    have hSs : SSorted (V.filter (fun x => decide (x ∈ X))) := List.Pairwise.filter _ hV
    have hXeq : X = unionSet F (V.filter (fun x => decide (x ∈ X))) := by
      refine SSorted.eq_of_mem_iff hX (sorted_unionSet hSs) (fun x => ?_)
      simp only [mem_unionSet, List.mem_filter, decide_eq_true_eq]
      constructor
      · intro hx
        rcases hXV x hx with h | h
        · exact Or.inl h
        · exact Or.inr ⟨h, hx⟩
      · rintro (h | h)
        · exact hFX x h
        · exact h.2
    have hl : X.length = F.length + (V.filter (fun x => decide (x ∈ X))).length := by
      conv_lhs => rw [hXeq]
      exact length_unionSet hF.nodup (fun x hx hxS => hd x hx (List.mem_filter.1 hxS).1)
    rw [List.mem_map]
    refine ⟨V.filter (fun x => decide (x ∈ X)), ?_, hXeq.symm⟩
    rw [mem_combos]
    exact ⟨List.filter_sublist, by omega⟩

omit hF in
theorem nodup_genGroups (n : Nat) : (genGroups F V n).Nodup := by
  rw [genGroups_def]
  split_ifs with h1 h2 h3
  · exact List.nodup_nil
  · exact List.nodup_nil
  · exact List.nodup_singleton _
  · refine List.Nodup.map_on ?_ (nodup_combos _ hV.nodup)
    intro S1 hS1 S2 hS2 heq
    have key : ∀ (A B : GeoSet), A ∈ combos (n - F.length) V → unionSet F A = unionSet F B →
        ∀ x ∈ A, x ∈ B := by
      intro A B hA hAB x hx
      have : x ∈ unionSet F B := by rw [← hAB]; exact mem_unionSet.2 (Or.inr hx)
      rcases mem_unionSet.1 this with h | h
      · exact absurd (subset_of_mem_combos hA hx) (hd x h)
      · exact h
    exact SSorted.eq_of_mem_iff (sorted_of_mem_combos hS1 hV) (sorted_of_mem_combos hS2 hV)
      (fun x => ⟨key S1 S2 hS1 heq x, key S2 S1 hS2 heq.symm x⟩)

end gen

end MM
