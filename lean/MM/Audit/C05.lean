import MM.Props.C05C06
#print axioms MM.Numeric.C05_sigma
#print axioms MM.Numeric.C05_calibration
#print axioms MM.Numeric.C05_lower_bound
#print axioms MM.Numeric.C05_homogeneous
#print axioms MM.Numeric.C05_shift_invariant
#print axioms MM.Numeric.C05_corr_invariant
#print axioms MM.Numeric.C05_antitone_partial
#print axioms MM.Numeric.C05_antitone_fails
#print axioms MM.Numeric.C06_closed_form
#print axioms MM.Numeric.C06_design_side
