/-
C11 (B), (C): the pairs listed by the two generators are exactly the legal
(eligibility-respecting, size-admissible) pairs, without repetition.
-/
import MM.Proofs.CountSets

namespace MM.Search
open MM

/-! ### size ranges -/

theorem mem_natRangeIncl {lo hi : Int} (hlo : 0 ≤ lo) {x : Nat} :
    x ∈ natRangeIncl lo hi ↔ lo ≤ (x : Int) ∧ (x : Int) ≤ hi := by
  simp only [natRangeIncl, pyRangeIncl, List.map_map, List.mem_map, List.mem_range,
    Function.comp]
  constructor
  · rintro ⟨i, hi, rfl⟩; omega
  · rintro ⟨h1, h2⟩; exact ⟨(x - lo).toNat, by omega, by omega⟩

theorem nodup_natRangeIncl {lo hi : Int} (hlo : 0 ≤ lo) : (natRangeIncl lo hi).Nodup := by
  simp only [natRangeIncl, pyRangeIncl, List.map_map]
  refine List.Nodup.map_on ?_ List.nodup_range
  intro a _ b _ h
  simp only [Function.comp] at h
  omega

theorem trtSizeRange_spec (p : Params) (e : Env) :
    ∃ lo hi : Int, 1 ≤ lo ∧ trtSizeRange p e = natRangeIncl lo hi := by
  unfold trtSizeRange
  cases p.trtRange with
  | none => exact ⟨_, _, by omega, rfl⟩
  | some ab =>
    obtain ⟨a, b⟩ := ab
    exact ⟨_, _, by omega, rfl⟩

theorem ctlSizes_spec (p : Params) (e : Env) (t : Nat) :
    ∃ lo hi : Int, 1 ≤ lo ∧ (ctlSizes p e t).Sublist (natRangeIncl lo hi) := by
  unfold ctlSizes
  cases p.ctlRange with
  | none =>
    refine ⟨max 1 (e.cFixed.length : Int), (e.canC.length : Int), by omega, ?_⟩
    cases p.geoTol with
    | none => exact List.Sublist.refl _
    | some τ => exact List.filter_sublist
  | some ab =>
    obtain ⟨a, b⟩ := ab
    refine ⟨max a (max 1 (e.cFixed.length : Int)), min b (e.canC.length : Int), by omega, ?_⟩
    cases p.geoTol with
    | none => exact List.Sublist.refl _
    | some τ => exact List.filter_sublist

theorem pos_of_mem_trtSizeRange {p : Params} {e : Env} {n : Nat} (h : n ∈ trtSizeRange p e) :
    1 ≤ n := by
  obtain ⟨lo, hi, hlo, heq⟩ := trtSizeRange_spec p e
  rw [heq, mem_natRangeIncl (by omega)] at h
  omega

theorem nodup_trtSizeRange (p : Params) (e : Env) : (trtSizeRange p e).Nodup := by
  obtain ⟨lo, hi, hlo, heq⟩ := trtSizeRange_spec p e
  rw [heq]; exact nodup_natRangeIncl (by omega)

theorem pos_of_mem_ctlSizes {p : Params} {e : Env} {t m : Nat} (h : m ∈ ctlSizes p e t) :
    1 ≤ m := by
  obtain ⟨lo, hi, hlo, hsub⟩ := ctlSizes_spec p e t
  have := hsub.subset h
  rw [mem_natRangeIncl (by omega)] at this
  omega

theorem nodup_ctlSizes (p : Params) (e : Env) (t : Nat) : (ctlSizes p e t).Nodup := by
  obtain ⟨lo, hi, hlo, hsub⟩ := ctlSizes_spec p e t
  exact (nodup_natRangeIncl (by omega)).sublist hsub

/-! ### index sets -/

theorem mem_idx {e : Env} {pr : GeoClass → Bool} {i : Nat} :
    i ∈ e.idx pr ↔ ∃ g, e.cls[i]? = some g ∧ pr g = true := by
  unfold Env.idx
  rw [List.mem_filter, List.mem_range]
  cases h : e.cls[i]? with
  | none => simp
  | some g =>
    have : i < e.cls.length := (List.getElem?_eq_some_iff.1 h).1
    simp [this]

theorem mem_idx_some {e : Env} {pr : GeoClass → Bool} {i : Nat} {g : GeoClass}
    (h : e.cls[i]? = some g) : i ∈ e.idx pr ↔ pr g = true := by
  rw [mem_idx, h]; simp

theorem not_mem_idx_none {e : Env} {pr : GeoClass → Bool} {i : Nat}
    (h : e.cls[i]? = none) : i ∉ e.idx pr := by
  rw [mem_idx, h]; simp

theorem sorted_idx (e : Env) (pr : GeoClass → Bool) : SSorted (e.idx pr) :=
  List.Pairwise.filter _ List.pairwise_lt_range

theorem mem_fixedCtl {e : Env} {T : GeoSet} {x : Nat} :
    x ∈ fixedCtl e T ↔ x ∈ e.cFixed ∨ (x ∈ e.ct ∧ x ∉ T) := by
  simp only [fixedCtl, mem_unionSet, mem_diffSet]

theorem mem_varyCtl {e : Env} {T : GeoSet} {x : Nat} :
    x ∈ varyCtl e T ↔ (x ∈ e.canC ∧ x ∉ T) ∧ x ∉ fixedCtl e T := by
  simp only [varyCtl, mem_diffSet]

theorem sorted_fixedCtl (e : Env) (T : GeoSet) : SSorted (fixedCtl e T) :=
  sorted_unionSet (sorted_diffSet (sorted_idx _ _))

theorem sorted_varyCtl (e : Env) (T : GeoSet) : SSorted (varyCtl e T) :=
  sorted_diffSet (sorted_diffSet (sorted_idx _ _))

theorem trtGroups_eq (e : Env) (n : Nat) :
    trtGroups e n = genGroups e.tFixed (diffSet e.canT e.tFixed) n := rfl

theorem ctlGroups_eq (p : Params) (e : Env) (T : GeoSet) :
    ctlGroups p e T
      = (ctlSizes p e T.length).flatMap (genGroups (fixedCtl e T) (varyCtl e T)) := rfl

/-- eligibility-respecting pair of groups: increasing index lists such that every admitted geo
sits in a group its class allows (T, C, or neither) and no geo is in both. -/
def Legal (cls : List GeoClass) (T C : GeoSet) : Prop :=
  SSorted T ∧ SSorted C ∧
  (∀ i, cls[i]? = none → i ∉ T ∧ i ∉ C) ∧
  (∀ i g, cls[i]? = some g →
    (i ∈ T → i ∉ C ∧ g.canT = true) ∧ (i ∈ C → g.canC = true) ∧
    (i ∉ T → i ∉ C → g.canX = true))

theorem tFixed_sub_canT {e : Env} {x : Nat} (h : x ∈ e.tFixed) : x ∈ e.canT := by
  simp only [Env.tFixed, Env.canT, mem_idx] at *
  obtain ⟨g, hg, hp⟩ := h
  exact ⟨g, hg, by cases g <;> simp_all [GeoClass.canT]⟩

theorem mem_trtGroups {e : Env} {n : Nat} (hn : 1 ≤ n) {T : GeoSet} :
    T ∈ trtGroups e n ↔
      SSorted T ∧ (∀ x ∈ e.tFixed, x ∈ T) ∧ (∀ x ∈ T, x ∈ e.canT) ∧ T.length = n := by
  have hF : SSorted e.tFixed := sorted_idx _ _
  have hV : SSorted (diffSet e.canT e.tFixed) := sorted_diffSet (sorted_idx _ _)
  rw [trtGroups_eq, mem_genGroups hF hV (fun x hx h => (mem_diffSet.1 h).2 hx) hn]
  refine and_congr_right fun _ => and_congr_right fun _ => and_congr_left fun _ => ?_
  refine forall_congr' fun x => imp_congr_right fun _ => ?_
  rw [mem_diffSet]
  constructor
  · rintro (h | h)
    · exact tFixed_sub_canT h
    · exact h.1
  · intro h
    by_cases h' : x ∈ e.tFixed
    · exact Or.inl h'
    · exact Or.inr ⟨h, h'⟩

theorem length_of_mem_trtGroups {e : Env} {n : Nat} {T : GeoSet} (h : T ∈ trtGroups e n) :
    T.length = n :=
  length_of_mem_genGroups (F := e.tFixed) (V := diffSet e.canT e.tFixed) (sorted_idx _ _)
    (fun _ hx h => (mem_diffSet.1 h).2 hx) h

theorem nodup_trtGroups (e : Env) (n : Nat) : (trtGroups e n).Nodup :=
  nodup_genGroups (F := e.tFixed) (V := diffSet e.canT e.tFixed)
    (sorted_diffSet (sorted_idx _ _)) (fun _ hx h => (mem_diffSet.1 h).2 hx) n

theorem mem_ctlGroups {p : Params} {e : Env} {T C : GeoSet} :
    C ∈ ctlGroups p e T ↔
      C.length ∈ ctlSizes p e T.length ∧ SSorted C ∧ (∀ x ∈ fixedCtl e T, x ∈ C) ∧
        (∀ x ∈ C, x ∈ fixedCtl e T ∨ x ∈ varyCtl e T) := by
  rw [ctlGroups_eq, List.mem_flatMap]
  have hd : ∀ x ∈ fixedCtl e T, x ∉ varyCtl e T := fun x hx h => (mem_varyCtl.1 h).2 hx
  constructor
  · rintro ⟨m, hm, hC⟩
    rw [mem_genGroups (sorted_fixedCtl e T) (sorted_varyCtl e T) hd (pos_of_mem_ctlSizes hm)] at hC
    obtain ⟨h1, h2, h3, h4⟩ := hC
    exact ⟨h4 ▸ hm, h1, h2, h3⟩
  · rintro ⟨hm, h1, h2, h3⟩
    refine ⟨C.length, hm, ?_⟩
    rw [mem_genGroups (sorted_fixedCtl e T) (sorted_varyCtl e T) hd (pos_of_mem_ctlSizes hm)]
    exact ⟨h1, h2, h3, rfl⟩

theorem nodup_ctlGroups (p : Params) (e : Env) (T : GeoSet) : (ctlGroups p e T).Nodup := by
  have hd : ∀ x ∈ fixedCtl e T, x ∉ varyCtl e T := fun x hx h => (mem_varyCtl.1 h).2 hx
  rw [ctlGroups_eq, List.nodup_flatMap]
  refine ⟨fun m _ => nodup_genGroups (sorted_varyCtl e T) hd m, ?_⟩
  refine (nodup_ctlSizes p e T.length).imp ?_
  intro m m' hne X h1 h2
  have e1 := length_of_mem_genGroups (sorted_fixedCtl e T) hd h1
  have e2 := length_of_mem_genGroups (sorted_fixedCtl e T) hd h2
  exact hne (e1.symm.trans e2)

/-- the generators list exactly the legal pairs with admissible sizes. -/
theorem mem_designsListing {p : Params} {e : Env} {T C : GeoSet} :
    (T, C) ∈ designsListing p e ↔
      Legal e.cls T C ∧ T.length ∈ trtSizeRange p e ∧ C.length ∈ ctlSizes p e T.length := by
  unfold designsListing
  simp only [List.mem_flatMap, List.mem_map, Prod.mk.injEq]
  constructor
  · rintro ⟨n, hn, T', hT', C', hC', rfl, rfl⟩
    have hpos := pos_of_mem_trtSizeRange hn
    obtain ⟨hTs, hTF, hTsub, hlen⟩ := (mem_trtGroups hpos).1 hT'
    obtain ⟨hm, hCs, hCF, hCsub⟩ := mem_ctlGroups.1 hC'
    refine ⟨⟨hTs, hCs, ?_, ?_⟩, hlen ▸ hn, hm⟩
    · intro i hi
      constructor
      · intro h; exact not_mem_idx_none hi (hTsub i h)
      · intro h
        rcases hCsub i h with h' | h'
        · rcases mem_fixedCtl.1 h' with h'' | h''
          · exact not_mem_idx_none hi h''
          · exact not_mem_idx_none hi h''.1
        · exact not_mem_idx_none hi (mem_varyCtl.1 h').1.1
    · intro i g hg
      have a1 := hTsub i
      have a2 := hTF i
      have a3 := hCF i
      have a4 := hCsub i
      simp only [mem_fixedCtl, mem_varyCtl, Env.canT, Env.canC, Env.tFixed, Env.cFixed, Env.ct,
        mem_idx_some hg] at a1 a2 a3 a4
      clear hTsub hTF hCF hCsub hT' hC' hm hn
      by_cases hT : i ∈ T' <;> by_cases hC : i ∈ C' <;>
        cases g <;> simp_all [GeoClass.canT, GeoClass.canC, GeoClass.canX]
  · rintro ⟨⟨hTs, hCs, hnone, hsome⟩, hn, hm⟩
    have hpos := pos_of_mem_trtSizeRange hn
    have hcanT : ∀ x ∈ T, x ∈ e.canT := by
      intro x hx
      cases hg : e.cls[x]? with
      | none => exact absurd hx (hnone x hg).1
      | some g => exact (mem_idx_some hg).2 ((hsome x g hg).1 hx).2
    refine ⟨T.length, hn, T, ?_, C, ?_, rfl, rfl⟩
    · rw [mem_trtGroups hpos]
      refine ⟨hTs, ?_, hcanT, rfl⟩
      intro x hx
      obtain ⟨g, hg, hp⟩ := mem_idx.1 hx
      have hgeq : g = .tFixed := by simpa using hp
      subst hgeq
      by_contra hxT
      have hxC : x ∉ C := fun h => by simpa [GeoClass.canC] using (hsome x _ hg).2.1 h
      simpa [GeoClass.canX] using (hsome x _ hg).2.2 hxT hxC
    · rw [mem_ctlGroups]
      refine ⟨hm, hCs, ?_, ?_⟩
      · intro x hx
        rcases mem_fixedCtl.1 hx with h | ⟨h, hxT⟩
        · obtain ⟨g, hg, hp⟩ := mem_idx.1 h
          have hgeq : g = .cFixed := by simpa using hp
          subst hgeq
          by_contra hxC
          have hxT : x ∉ T := fun h => by simpa [GeoClass.canT] using ((hsome x _ hg).1 h).2
          simpa [GeoClass.canX] using (hsome x _ hg).2.2 hxT hxC
        · obtain ⟨g, hg, hp⟩ := mem_idx.1 h
          have hgeq : g = .ct := by simpa using hp
          subst hgeq
          by_contra hxC
          simpa [GeoClass.canX] using (hsome x _ hg).2.2 hxT hxC
      · intro x hx
        by_cases hf : x ∈ fixedCtl e T
        · exact Or.inl hf
        · refine Or.inr (mem_varyCtl.2 ⟨⟨?_, ?_⟩, hf⟩)
          · cases hg : e.cls[x]? with
            | none => exact absurd hx (hnone x hg).2
            | some g => exact (mem_idx_some hg).2 ((hsome x g hg).2.1 hx)
          · intro hxT
            cases hg : e.cls[x]? with
            | none => exact absurd hx (hnone x hg).2
            | some g => exact ((hsome x g hg).1 hxT).1 hx

theorem nodup_designsListing (p : Params) (e : Env) : (designsListing p e).Nodup := by
  unfold designsListing
  rw [List.nodup_flatMap]
  constructor
  · intro n _
    rw [List.nodup_flatMap]
    constructor
    · intro T _
      exact (nodup_ctlGroups p e T).map (fun C C' h => (Prod.mk.inj h).2)
    · refine (nodup_trtGroups e n).imp ?_
      intro T T' hne X h1 h2
      obtain ⟨C, _, rfl⟩ := List.mem_map.1 h1
      obtain ⟨C', _, h⟩ := List.mem_map.1 h2
      exact hne (Prod.mk.inj h).1.symm
  · refine (nodup_trtSizeRange p e).imp ?_
    intro n n' hne X h1 h2
    obtain ⟨T, hT, hX⟩ := List.mem_flatMap.1 h1
    obtain ⟨C, _, rfl⟩ := List.mem_map.1 hX
    obtain ⟨T', hT', hX'⟩ := List.mem_flatMap.1 h2
    obtain ⟨C', _, h⟩ := List.mem_map.1 hX'
    have := (Prod.mk.inj h).1
    subst this
    exact hne ((length_of_mem_trtGroups hT).symm.trans (length_of_mem_trtGroups hT'))

/-! ### (C) the exhaustive search pushes at most one design per listed pair -/

theorem length_designsListing_eq_sum (p : Params) (e : Env) :
    (designsListing p e).length
      = ((trtSizeRange p e).map fun n =>
          ((trtGroups e n).map fun T => (ctlGroups p e T).length).sum).sum := by
  simp [designsListing, List.length_flatMap]

theorem stepTrt_length (p : Params) (e : Env) (b : Bool) (st : ExhState) (T : GeoSet) :
    (stepTrt p e b st T).2.length ≤ st.2.length + (ctlGroups p e T).length := by
  unfold stepTrt
  split
  · exact Nat.le_add_right _ _
  · exact Nat.le_add_right _ _
  · simp only [List.length_append, List.length_map]
    exact Nat.add_le_add_left (List.length_filter_le _ _) _

theorem foldl_stepTrt_length (p : Params) (e : Env) (b : Bool) (Ts : List GeoSet)
    (st : ExhState) :
    (Ts.foldl (stepTrt p e b) st).2.length
      ≤ st.2.length + (Ts.map fun T => (ctlGroups p e T).length).sum := by
  induction Ts generalizing st with
  | nil => simp
  | cons T Ts ih =>
    have h1 := ih (stepTrt p e b st T)
    have h2 := stepTrt_length p e b st T
    simp only [List.foldl_cons, List.map_cons, List.sum_cons]
    omega

theorem foldl_stepSize_length (p : Params) (e : Env) (last : Nat) (ns : List Nat)
    (st : ExhState) :
    (ns.foldl (stepSize p e last) st).2.length
      ≤ st.2.length + (ns.map fun n =>
          ((trtGroups e n).map fun T => (ctlGroups p e T).length).sum).sum := by
  induction ns generalizing st with
  | nil => simp
  | cons n ns ih =>
    have h1 := ih (stepSize p e last st n)
    have h2 : (stepSize p e last st n).2.length ≤ _ :=
      foldl_stepTrt_length p e (n == last) (trtGroups e n) st
    simp only [List.foldl_cons, List.map_cons, List.sum_cons]
    omega

theorem evaluatedRaw_length_le (p : Params) (e : Env) :
    (evaluatedRaw p e).length ≤ (designsListing p e).length := by
  rw [length_designsListing_eq_sum]
  have key : ∀ o : Option Nat,
      (match o with
        | none => ([] : List Design)
        | some last => ((trtSizeRange p e).foldl (stepSize p e last) ([], [])).2).length
      ≤ ((trtSizeRange p e).map fun n =>
          ((trtGroups e n).map fun T => (ctlGroups p e T).length).sum).sum := by
    intro o
    cases o with
    | none => exact Nat.zero_le _
    | some last =>
      have := foldl_stepSize_length p e last (trtSizeRange p e) ([], [])
      simpa using this
  exact key _

end MM.Search
