import MM.Props.Exhaustive
import MM.Props.Greedy
#print axioms MM.Search.evaluated_sub_listing
#print axioms MM.Search.C01_exhaustive_evaluated
#print axioms MM.Search.C01_exhaustive
#print axioms MM.Search.C01_greedy
