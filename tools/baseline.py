#!/usr/bin/env python3
"""Run the repository's pinned test suite (command from /root/.vp/BASELINE.json) and
compare the set of passing tests with the baseline's stable_pass list.
Exit 0 iff every stable_pass test passes."""
import json, os, subprocess, sys, tempfile, xml.etree.ElementTree as ET

def main():
    base = json.load(open('/root/.vp/BASELINE.json'))
    with tempfile.TemporaryDirectory(prefix='mm_baseline_', dir=os.environ.get('VERIF_SCRATCH', '/var/tmp')) as d:
        out = os.path.join(d, 'junit.xml')
        cmd = base['cmd'].replace('<file>', out)
        env = dict(os.environ)
        env.pop('MATCHED_MARKETS_VERIF', None)
        subprocess.run(cmd, shell=True, env=env, stdout=subprocess.DEVNULL, stderr=subprocess.DEVNULL)
        passed = set()
        for tc in ET.parse(out).getroot().iter('testcase'):
            if not any(ch.tag in ('failure', 'error', 'skipped') for ch in tc):
                passed.add(tc.get('classname') + '::' + tc.get('name'))
    missing = [t for t in base['stable_pass'] if t not in passed]
    print(f'stable_pass={len(base["stable_pass"])} passed_now={len(passed)} missing={len(missing)}')
    for t in missing:
        print('MISSING', t)
    return 1 if missing else 0

if __name__ == '__main__':
    sys.exit(main())
