/-
The real-number instance of the numeric layer and the basic bridges to Mathlib's list sums.
-/
import MM.Model.Numeric
import Mathlib.Analysis.SpecialFunctions.Pow.Real
import Mathlib.Algebra.BigOperators.Group.List.Basic
import Mathlib.Tactic.Ring
import Mathlib.Tactic.FieldSimp
import Mathlib.Tactic.Linarith
namespace MM.Numeric

noncomputable instance : HasSqrt ℝ := ⟨Real.sqrt⟩
noncomputable instance : HasAbs ℝ := ⟨fun x => |x|⟩

@[simp] theorem sqrt_real (x : ℝ) : HasSqrt.sqrt x = Real.sqrt x := rfl
@[simp] theorem abs_real (x : ℝ) : HasAbs.abs x = |x| := rfl
@[simp] theorem nat_real (n : Nat) : (nat n : ℝ) = (n : ℝ) := rfl

theorem foldl_add_eq (l : List ℝ) (a : ℝ) : l.foldl (· + ·) a = a + l.sum := by
  induction l generalizing a with
  | nil => simp
  | cons x l ih => simp [List.foldl, ih, add_assoc]

@[simp] theorem sum_real (l : List ℝ) : sum l = l.sum := by
  simp [sum, foldl_add_eq]

theorem mean_real (l : List ℝ) : mean l = l.sum / (l.length : ℝ) := by
  simp [mean]

end MM.Numeric
