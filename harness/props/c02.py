"""C02: returned designs satisfy every user-specified numeric constraint."""
import core
import engines.search as se
from props._searchprop import SEARCH_TARGETS, SEARCH_TRUST, run_search_prop, replay_search

PROP = 'C02'
LEAN_TARGETS = SEARCH_TARGETS
THEOREMS = ['MM.Search.' + n for n in ('notSat_false_iff', 'C02_exhaustive_evaluated', 'C02_exhaustive', 'C02_greedy', 'C02_none_imposes_nothing', 'tie_share', 'tie_budget_screen', 'tie_volume', 'tie_geo_ratio')]
TRUSTED_BASE = SEARCH_TRUST + ['theorems are stated for well-formed inputs (positive shares, finite impacts, iroas > 0); NaN/zero-share behaviour is compared by the correspondence only']


SUPPORTS_DEEPEN = True


def run(out, tier, model_ok=True, deepen=False):
  out.rule = 'oracle: every returned design is re-checked against all specified constraints from the raw frame (shares recomputed by the harness; either share reading accepted; bounds inclusive, 1e-9 tolerance); non-trivial = some constraint specified and designs evaluated/returned'
  run_search_prop(out, PROP, se.judge_c02, tier, model_ok, deepen=deepen)


def replay(out, path, model_ok=True):
  replay_search(out, path, se.judge_c02)
