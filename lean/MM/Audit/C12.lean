import MM.Props.C12
import MM.Props.C15

#print axioms MM.Search.C12_evaluated_scale
#print axioms MM.Search.C12_exhaustive_scale
#print axioms MM.Search.C12_exhaustive_scale_len
#print axioms MM.Search.C12_greedy_scale
#print axioms MM.Search.C12_greedy_scale_len
#print axioms MM.Search.C12_greedy_loop_scale
#print axioms MM.Search.C12_rename

#print axioms MM.Data.C12_cell_perm
#print axioms MM.Data.C12_dates_perm
#print axioms MM.Data.C12_mean_perm
#print axioms MM.Data.C12_pivot_perm
#print axioms MM.Data.C12_pivot_dates
#print axioms MM.Data.C12_pivot_scale
