import MM.Props.C08
import MM.Props.MemoTie

#print axioms MM.DiagCache.C08_obligation_clears
#print axioms MM.DiagCache.C08_obligation_y
#print axioms MM.DiagCache.C08_cache_all_complete
#print axioms MM.DiagCache.C08_clears_every
#print axioms MM.DiagCache.Coherent_iff_Coh
#print axioms MM.DiagCache.C08_init_coherent
#print axioms MM.DiagCache.C08_step_coherent
#print axioms MM.DiagCache.C08_read_fresh
#print axioms MM.DiagCache.specRunWith_gen
#print axioms MM.DiagCache.C08_no_stale_from
#print axioms MM.DiagCache.C08_no_stale
#print axioms MM.DiagCache.C08_setY_clears_x
#print axioms MM.DiagCache.C08_setX_new_version
#print axioms MM.DiagCache.C08_setY_new_version
#print axioms MM.DiagCache.C08_clearX_xv
#print axioms MM.DiagCache.runWith_gen
#print axioms MM.DiagCache.runWith_spec
#print axioms MM.Memo.tie_memoised
