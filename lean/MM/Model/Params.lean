/-
Model of TBRMMDesignParameters construction and equality (C17), instantiated with the
check table generated from the source.
-/
import MM.Model.ParamsCore
import MM.Generated.ParamsGen
namespace MM.Params
open MM

abbrev Obj := Field → PyVal

def runCheck (o : Obj) : Check Field → Py Unit
  | .vsThreshold a op b => testVsThreshold a.optional (o a) op b
  | .withinBounds lo op1 a op2 hi => testWithinBounds a.optional lo op1 (o a) op2 hi
  | .range lo op1 a op3 op2 hi => testRange a.optional lo op1 (o a) op3 op2 hi

/-- `__post_init__`: the checks in source order, first failure wins. -/
def postInit (o : Obj) : Py Unit := checks.forM (runCheck o)

/-- keyword arguments → object: dataclass defaults for omitted fields; a required field
that is omitted is a `TypeError` from the generated `__init__`. -/
def fill (args : Field → Option PyVal) : Py Obj :=
  if Field.all.any (fun f => (args f).isNone && (Field.default f).isNone) then .error .typeError
  else .ok fun f => match args f with
    | some v => v
    | none => (Field.default f).getD .none

def construct (args : Field → Option PyVal) : Py Obj := do
  let o ← fill args
  postInit o
  pure o

/-- Python `==` on accepted field values (ints, floats, bools, None, pairs). -/
def pyEq : PyVal → PyVal → Bool
  | .none, .none => true
  | .tuple [a, b], .tuple [c, d] => a.isNum && b.isNum && c.isNum && d.isNum &&
      PyFloat.beq a.num c.num && PyFloat.beq b.num d.num
  | a, b => a.isNum && b.isNum && PyFloat.beq a.num b.num

/-- `__eq__` between two instances: `asdict(self) == asdict(other)`. -/
def objEq (a b : Obj) : Bool := Field.all.all fun f => pyEq (a f) (b f)

end MM.Params
