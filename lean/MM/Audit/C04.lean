import MM.Props.Exhaustive
import MM.Props.Greedy
#print axioms MM.Search.C04_score_of_design
#print axioms MM.Search.C04_greedy_score
#print axioms MM.Search.exhaustive_sub_evaluated
