import MM.Props.Exhaustive
import MM.Props.Greedy
#print axioms MM.Search.C09_exhaustive_total
#print axioms MM.Search.C09_greedy_total
#print axioms MM.Search.greedy_fuel_mono
#print axioms MM.Search.C09_greedy_terminates
#print axioms MM.Search.C09_greedy_terminates_partial
#print axioms MM.Search.C09_greedy_terminates_original_false
