import MM.Props.C12

#print axioms MM.Search.C12_evaluated_scale
#print axioms MM.Search.C12_exhaustive_scale
#print axioms MM.Search.C12_exhaustive_scale_len
#print axioms MM.Search.C12_greedy_scale
#print axioms MM.Search.C12_greedy_scale_len
#print axioms MM.Search.C12_greedy_loop_scale
#print axioms MM.Search.C12_rename
