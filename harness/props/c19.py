"""C19: post-analysis data screening removes exactly what it reports."""
import json
import os
import math
import warnings
from fractions import Fraction
import numpy as np
import pandas as pd
import core

warnings.filterwarnings('ignore')
PROP = 'C19'
LEAN_TARGETS = ['MM.Props.C19', 'MM.Driver.Wire', 'MM.Model.Screen', 'MM.Props.Outliers', 'MM.Props.OutliersTie']
THEOREMS = ['MM.Screen.' + n for n in (
    'C19_data', 'C19_analysis', 'C19_reports', 'C19_totals', 'C19_totals_perm', 'C19_totals_other_groups',
    'C19_totals_split', 'C19_perm_invariant', 'C19_total_fn')]
THEOREMS = list(THEOREMS) + ['MM.Outliers.' + n for n in ('step_progress', 'loop_terminates', 'loop_reports_dates', 'original_does_not_terminate', 'repaired_stops_on_perfectFit', 'tie_outlier_loop')]
TRUSTED_BASE = [
    'Lean 4.33.0 kernel; axioms propext, Classical.choice, Quot.sound (audited per theorem)',
    'hand model MM/Model/Screen.lean of the orchestration of TBRDiagnostics.fit; the two detectors (noisy geos, outlier dates) are '
    'uninterpreted parameters: in the correspondence they are instantiated with what the real run reported',
    'pinned environment: fit() raises TypeError for int/float-dtype group columns (pandas 3 refuses to write strings into them); the '
    'property speaks about the state after a successful fit, so frames carry an object-dtype group column (integer or string labels)',
    'correspondence harness harness/props/c19.py, driver lean/drivers/Screen.lean; values are integer-valued so totals are exact',
]


def gen_frame(rng):
  n_c, n_t = rng.choice([1, 2, 2, 3, 4, 4, 6, 8]), rng.choice([1, 2, 2, 3, 4, 4, 6, 8])      # below four geos in all, noisy-geo detection is off
  n_un = rng.choice([0, 0, 1])
  n_pre, n_test = rng.choice([10, 14, 20, 30]), rng.choice([3, 5, 7])
  T = n_pre + n_test
  base = [rng.randint(80, 160)]
  for _ in range(T - 1):
    base.append(max(20, base[-1] + rng.randint(-20, 20)))
  labels = rng.choice([(1, 2, -1), (1, 2, -1), ('ctl', 'trt', 'none'), (10, 20, 0)])
  names = {'geo': 'geo', 'date': 'date', 'period': 'period', 'group': 'group', 'response': 'response'}
  if rng.random() < 0.3:
    names.update({'geo': 'market', 'group': 'assignment', 'response': 'sales'})
  if rng.random() < 0.3:
    names.update({'date': 'day', 'period': 'phase'})
  noisy_planted = rng.random() < 0.5
  outlier_planted = rng.random() < 0.5
  out_day = rng.randrange(T) if outlier_planted else None
  out_size = rng.choice([60, 90, 150, 300])
  rows = []
  geos = [(f'c{i}', labels[0]) for i in range(n_c)] + [(f't{i}', labels[1]) for i in range(n_t)] + [(f'u{i}', labels[2]) for i in range(n_un)]
  noisy_geo = rng.choice([g for g, _ in geos[:n_c + n_t]]) if noisy_planted else None
  tie = rng.random() < 0.3      # two geos of a group reporting identical numbers (counts, rounded values)
  long_feed = rng.random() < 0.4
  # some dates between pre-test and test carry the 'unassigned' period label (an excluded week)
  gap_days = set(range(n_pre - 2, n_pre)) if rng.random() < 0.25 else set()
  for gi, (g, grp) in enumerate(geos):
    w = rng.randint(1, 6)
    if tie and g in ('c1', 't1'):
      w = w_prev
    for d in range(T):
      if g == noisy_geo:
        v = rng.choice([rng.randint(0, 900), 500 - 3 * base[d]]) if rng.random() < 0.8 else 7
      else:
        v = w * base[d] + (0 if (tie and g in ('c0', 'c1', 't0', 't1')) else rng.randint(-6, 6))
      if out_day is not None and d == out_day and g == 't0':
        v += out_size
      rows.append([g, d, grp, (-1 if d in gap_days else (0 if d < n_pre else 1)), int(v)])
    if grp == labels[2] and long_feed:
      for d in range(T, T + 5):      # the unassigned geo's feed runs on after the experiment
        rows.append([g, d, grp, 1, int(w * base[-1] + rng.randint(-6, 6))])
    w_prev = w
  rng.shuffle(rows)
  return {'rows': rows, 'dup_index': rng.choice([None, None, 7, 50]), 'labels': list(labels), 'names': names, 'n_pre': n_pre, 'noisy_planted': noisy_geo, 'outlier_planted': out_day}


def to_df(fr, rows=None):
  rows = fr['rows'] if rows is None else rows
  nm = fr['names']
  d0 = pd.Timestamp('2022-01-03')
  df = pd.DataFrame({nm['geo']: [r[0] for r in rows], nm['date']: [d0 + pd.Timedelta(days=int(r[1])) for r in rows],
                       nm['group']: pd.Series([r[2] for r in rows], dtype=object), nm['period']: [int(r[3]) for r in rows],
                       nm['response']: [float(r[4]) for r in rows]})
  if fr.get('dup_index'):
    df.index = [i % fr['dup_index'] for i in range(len(df))]     # e.g. extracts concatenated without ignore_index
  return df


class FitTimeout(Exception):
  pass


def _alarm(signum, frame):
  raise FitTimeout('fit did not terminate within the time limit')


def real_fit(fr, rows=None):
  import signal
  old = signal.signal(signal.SIGALRM, _alarm)
  signal.alarm(30)          # a fit that hangs is reported, not waited for
  try:
    return _real_fit(fr, rows)
  finally:
    signal.alarm(0)
    signal.signal(signal.SIGALRM, old)


def _real_fit(fr, rows=None):
  from matched_markets.methodology import tbrdiagnostics
  nm = fr['names']
  df = to_df(fr, rows)
  df0 = df.copy(deep=True)
  d = tbrdiagnostics.TBRDiagnostics()
  d.fit(df, target=nm['response'], key_geo=nm['geo'], key_date=nm['date'], key_period=nm['period'], key_group=nm['group'],
        key_response=nm['response'], group_control=fr['labels'][0], group_treatment=fr['labels'][1], group_unassigned=fr['labels'][2])
  res = d.get_test_results()
  d0 = pd.Timestamp('2022-01-03')
  noisy = sorted(res['noisy_geos'] or [])
  outl = sorted(int((pd.Timestamp(x) - d0).days) for x in (res['outlier_dates'] or []))
  data = d.get_data()
  kept = [(str(a), int((pd.Timestamp(b) - d0).days)) for a, b in zip(data[nm['geo']], data[nm['date']])]
  ad = d.get_analysis_data()
  x = {int((pd.Timestamp(i) - d0).days): float(v) for i, v in ad['x'].items()}
  y = {int((pd.Timestamp(i) - d0).days): float(v) for i, v in ad['y'].items()}
  return {'noisy': noisy, 'outliers': outl, 'kept': kept, 'x': x, 'y': y, 'frame_same': df.equals(df0),
          'data_vals': [float(v) for v in data[nm['response']]]}


def expected(fr, noisy, outl, rows=None):
  rows = fr['rows'] if rows is None else rows
  kept = [r for r in rows if r[0] not in noisy and r[1] not in outl]
  x, y = {}, {}
  for r in kept:
    if r[2] == fr['labels'][0]:
      x[r[1]] = x.get(r[1], 0) + r[4]
    elif r[2] == fr['labels'][1]:
      y[r[1]] = y.get(r[1], 0) + r[4]
  return kept, x, y


def wire(fr, noisy, outl):
  L = ['new']
  code = {fr['labels'][0]: 1, fr['labels'][1]: 2, fr['labels'][2]: -1}
  for r in fr['rows']:
    L.append(f'row {r[0]} {r[1]} {code[r[2]]} {r[3]} {r[4]}/1')
  L.append('noisy ' + (','.join(noisy) if noisy else '-'))
  L.append('outliers ' + (','.join(str(d) for d in outl) if outl else '-'))
  L.append('fit 1 2')
  return L


def check_frame(out, rng, fr, model_lines):
  case = {'frame': fr}
  facts = {'call': 'TBRDiagnostics.fit', 'labels': str(fr['labels'])}
  try:
    r = real_fit(fr)
  except Exception as e:
    single = {g for g in (fr['labels'][0], fr['labels'][1]) if len({r[0] for r in fr['rows'] if r[2] == g}) == 1}
    if isinstance(e, ValueError) and 'must be present' in str(e) and single:
      # the only geo of a group was screened out as noisy: no experiment is left, and the class says so (both the code
      # and the model answer ValueError); outside the quantifier "frames with both groups present"
      out.count(None)
      return
    out.oracle_violation(dict(facts, symptom='exception', exception=type(e).__name__), case, f'fit raised {type(e).__name__}: {str(e)[:150]}')
    return
  kept, x, y = expected(fr, r['noisy'], r['outliers'])
  prob = None
  if not r['frame_same']:
    prob = "the caller's frame was modified"
  elif r['kept'] != [(q[0], q[1]) for q in kept] or r['data_vals'] != [float(q[4]) for q in kept]:
    prob = (f'screened data has {len(r["kept"])} rows; input minus reported noisy geos {r["noisy"]} minus reported outlier dates '
            f'{r["outliers"]} has {len(kept)} rows (or they differ)')
  elif set(r['x']) != set(x) or any(r['x'][d] != float(x[d]) for d in x) or set(r['y']) != set(y) or any(r['y'][d] != float(y[d]) for d in y):
    prob = 'aggregated analysis series are not the per-date control / treatment totals of the screened data'
  if prob:
    out.oracle_violation(dict(facts, symptom='screening'), case, prob)
    return
  # row-order independence
  sh = list(fr['rows'])
  rng.shuffle(sh)
  try:
    r2 = real_fit(fr, sh)
  except Exception as e:
    out.oracle_violation(dict(facts, symptom='exception', exception=type(e).__name__), case, f'fit on the shuffled frame raised {type(e).__name__}')
    return
  if r2['noisy'] != r['noisy'] or r2['outliers'] != r['outliers'] or r2['x'] != r['x'] or r2['y'] != r['y'] or sorted(r2['kept']) != sorted(r['kept']):
    out.oracle_violation(dict(facts, symptom='order-dependent'), case,
                         f'results change with row order: noisy {r["noisy"]} vs {r2["noisy"]}, outlier dates {r["outliers"]} vs {r2["outliers"]}')
    return
  if model_lines is not None:
    ok = model_lines[0].strip() == f'ok {len(kept)}'
    if ok:
      mk = [tuple(t.split('@')) for t in model_lines[1].split()[1:]]
      ok = [(a, int(b)) for a, b in mk] == r['kept']
      mx = {int(t.split(':')[0]): float(Fraction(t.split(':')[1])) for t in model_lines[2].split()[1:]}
      my = {int(t.split(':')[0]): float(Fraction(t.split(':')[1])) for t in model_lines[3].split()[1:]}
      ok = ok and mx == r['x'] and my == r['y']
    if not ok:
      out.mismatch('screen', case, f'model and implementation disagree: model "{model_lines[0]}", implementation keeps {len(r["kept"])} rows, '
                   f'noisy {r["noisy"]}, outliers {r["outliers"]}')
      return
  out.count((tuple(r['noisy']), tuple(r['outliers']), len(kept), str(fr['labels'])) if (r['noisy'] or r['outliers']) else
            ('clean', len(kept), str(fr['labels']), fr['n_pre']))
  return r


def run(out, tier, model_ok=True):
  rng = core.rng_for(PROP)
  n = 60 if tier == 'quick' else 1500
  frames = []
  cdir = os.path.join(core.VERIF, 'corpus', 'C19')
  for fn in sorted(os.listdir(cdir)) if os.path.isdir(cdir) else []:      # past failures run first
    with open(os.path.join(cdir, fn)) as f:
      frames.append(json.load(f)['frame'])
  frames += [gen_frame(rng) for _ in range(n)]
  model_out = None
  spans = []
  if model_ok:
    lines = []
    pre = []
    for fr in frames:
      try:
        r = real_fit(fr)
        lines += wire(fr, r['noisy'], r['outliers'])
        pre.append(4)
      except Exception:
        pre.append(0)
    outl = core.run_driver('Screen.lean', lines)
    model_out, pos = [], 0
    for k in pre:
      model_out.append(outl[pos:pos + k] if k else None)
      pos += k
  n_noisy = n_out = 0
  for i, fr in enumerate(frames):
    r = check_frame(out, rng, fr, model_out[i] if model_out is not None else None)
    if r:
      n_noisy += bool(r['noisy'])
      n_out += bool(r['outliers'])
  out.rule = (f'{n} generated experiment frames: 2-4 geos per group (+ unassigned geos), integer responses, object-dtype group column with '
              'integer or string labels, default and custom column names, unique or repeated index labels, a planted noisy geo in half of them and a planted outlier date '
              'in half; per frame: screened data = input minus reported geos minus reported dates (row by row), analysis series = per-date '
              'totals, caller frame untouched, second run on shuffled rows gives the same reports; model fed with the reported sets; '
              'non-trivial/distinct by (reported geos, reported dates, rows kept, labels)')
  out.extra.update({'frames': n, 'frames_with_noisy_geos_reported': n_noisy, 'frames_with_outlier_dates_reported': n_out})
  out.sample({k: (v[:5] if k == 'rows' else v) for k, v in frames[0].items()})


def replay(out, path, model_ok=True):
  with open(path) as f:
    rp = json.load(f)
  case = (rp.get('violation') or (rp.get('correspondence_mismatches') or [{}])[0]).get('case')
  fr = case['frame']
  fr['rows'] = [list(r) for r in fr['rows']]
  check_frame(out, core.rng_for(PROP, 'replay'), fr, None)
  out.count(('replay', 1)); out.count(('replay', 2))
