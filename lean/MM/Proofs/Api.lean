/-
Helper lemmas for C10 (`MM/Props/C10.lean`): one-step facts about the state machine of
`MM/Model/Api.lean`, and `run` over appended histories.  No Mathlib imports.
-/
import MM.Model.Api
namespace MM.Api
open MM MM.Search MM.Admit

/-- state reached after a list of calls -/
def after (w : World) (s : State) (ops : List Op) : State :=
  ops.foldl (fun s op => (step w s op).1) s

@[simp] theorem after_nil (w : World) (s : State) : after w s [] = s := rfl
@[simp] theorem after_cons (w : World) (s : State) (op : Op) (ops : List Op) :
    after w s (op :: ops) = after w (step w s op).1 ops := rfl

theorem after_append (w : World) (s : State) (a b : List Op) :
    after w s (a ++ b) = after w (after w s a) b := by
  simp [after, List.foldl_append]

/-! ### one step -/

/-- every call leaves the parameter object as it found it -/
theorem step_params (w : World) (s : State) (op : Op) : (step w s op).1.params = s.params := by
  cases op <;> simp only [step, install]
  case exhaustive => split <;> rfl
  case greedy f => split <;> rfl
  case results => split <;> rfl

/-- the answer of a non-retrieval call is a function of the parameter object alone -/
theorem step_out_congr (w : World) (s s' : State) (hp : s.params = s'.params) (op : Op)
    (hop : op ≠ .results) : (step w s op).2 = (step w s' op).2 := by
  cases op
  case results => exact absurd rfl hop
  case exhaustive => simp only [step, install, hp]; split <;> rfl
  case greedy f => simp only [step, install, hp]; split <;> rfl
  all_goals (simp only [step, install, hp] <;> rfl)

/-- the geo-index slot is either left alone or holds the admitted geos -/
theorem step_geoIndex (w : World) (s : State) (op : Op) :
    (step w s op).1.geoIndex = s.geoIndex ∨
      (step w s op).1.geoIndex = some (admitted w s.params) := by
  cases op
  case withinConstraints => exact .inl rfl
  case exhaustive => simp only [step, install]; split <;> exact .inr rfl
  case greedy f => simp only [step, install]; split <;> exact .inr rfl
  case results => simp only [step]; split <;> exact .inl rfl
  all_goals exact .inr rfl

/-- the retrieval call does not change the state -/
theorem step_results_state (w : World) (s : State) : (step w s .results).1 = s := by
  simp only [step]; split <;> rfl

theorem ite_err_groups_ne_designs (c : Prop) [Decidable c] (e : PyErr) (g : List GeoSet)
    (l : List (List Nat × List Nat × Score)) :
    (if c then Out.err e else Out.groups g) ≠ .designs l := by
  by_cases hc : c
  · rw [if_pos hc]; intro h; cases h
  · rw [if_neg hc]; intro h; cases h

/-- a call that is not a retrieval answers `designs` only when it is a search -/
theorem step_designs_isSearch (w : World) (s : State) (op : Op) (hop : op ≠ .results)
    (l : List (List Nat × List Nat × Score)) (h : (step w s op).2 = .designs l) :
    op = .exhaustive ∨ ∃ f, op = .greedy f := by
  cases op
  case exhaustive => exact .inl rfl
  case greedy f => exact .inr ⟨f, rfl⟩
  case results => exact absurd rfl hop
  case trtGroups n =>
    exact absurd h (ite_err_groups_ne_designs _ _ _ l)
  case ctlGroups T =>
    exact absurd h (ite_err_groups_ne_designs _ _ _ l)
  all_goals (simp only [step, install] at h; cases h)

/-- what a call does to the stored results: either it stores the designs it returns (then it
is a search, it has installed the admitted geos and its answer shows exactly the stored
designs), or it leaves the slot alone and (unless it is the retrieval) does not answer
with designs. -/
theorem step_store (w : World) (s : State) (op : Op) :
    (∃ ds, (step w s op).1.results = some ds ∧
        (step w s op).1.geoIndex = some (admitted w s.params) ∧
        (step w s op).2 = showDesigns (admitted w s.params) ds ∧
        (op = .exhaustive ∨ ∃ f, op = .greedy f)) ∨
    ((step w s op).1.results = s.results ∧
        (op = .results ∨ ∀ l, (step w s op).2 ≠ .designs l)) := by
  cases op
  case exhaustive =>
    simp only [step, install]
    split
    · exact .inl ⟨_, rfl, rfl, rfl, .inl trivial⟩
    · exact .inr ⟨rfl, .inr fun l h => by cases h⟩
  case greedy f =>
    simp only [step, install]
    split
    · exact .inr ⟨rfl, .inr fun l h => by cases h⟩
    · exact .inl ⟨_, rfl, rfl, rfl, .inr ⟨f, rfl⟩⟩
    · exact .inr ⟨rfl, .inr fun l h => by cases h⟩
  case results =>
    refine .inr ⟨?_, .inl rfl⟩
    rw [step_results_state]
  case trtGroups n =>
    refine .inr ⟨rfl, .inr fun l h => ?_⟩
    exact ite_err_groups_ne_designs _ _ _ l h
  case ctlGroups T =>
    refine .inr ⟨rfl, .inr fun l h => ?_⟩
    exact ite_err_groups_ne_designs _ _ _ l h
  all_goals exact .inr ⟨rfl, .inr fun l h => by simp only [step, install] at h; cases h⟩

/-- the retrieval call: the stored designs shown through the installed index -/
theorem step_results_out (w : World) (s : State) :
    (step w s .results).2 =
      match s.results, s.geoIndex with
      | some ds, some idx => showDesigns idx ds
      | _, _ => .err .attributeError := by
  cases hr : s.results <;> cases hi : s.geoIndex <;> simp [step, hr, hi]

/-! ### runs -/

@[simp] theorem run_nil (w : World) (s : State) : run w s [] = [] := rfl
@[simp] theorem run_cons (w : World) (s : State) (op : Op) (ops : List Op) :
    run w s (op :: ops) = (step w s op).2 :: run w (step w s op).1 ops := rfl

theorem run_length (w : World) (s : State) (ops : List Op) : (run w s ops).length = ops.length := by
  induction ops generalizing s with
  | nil => rfl
  | cons op ops ih => simp [ih]

theorem run_append (w : World) (s : State) (a b : List Op) :
    run w s (a ++ b) = run w s a ++ run w (after w s a) b := by
  induction a generalizing s with
  | nil => rfl
  | cons op a ih => simp [ih]

/-- the answer of the `i`-th call after a prefix `a` -/
theorem run_append_getElem? (w : World) (s : State) (a b : List Op) (i : Nat) :
    (run w s (a ++ b))[a.length + i]? = (run w (after w s a) b)[i]? := by
  rw [run_append, List.getElem?_append_right (by rw [run_length]; omega), run_length]
  congr 1; omega

end MM.Api
