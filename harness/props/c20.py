"""C20: expansion of excluded days is exact."""
import datetime
import json
import os
import core

PROP = 'C20'
LEAN_TARGETS = ['MM.Props.C20', 'MM.Audit.C20', 'MM.Driver.Wire']
THEOREMS = ['MM.Dates.' + n for n in (
    'C20_mem', 'C20_nodup', 'C20_set_invariant', 'C20_perm_invariant', 'C20_dup_invariant', 'C20_pipeline_perm',
    'C20_total', 'C20_reject_reversed', 'C20_reject_parts', 'C20_reject_bad_token', 'C20_parse_valid',
    'C20_bad_entry_fails', 'C20_succ_valid', 'C20_ordinal_succ', 'C20_ordinal_strictMono', 'C20_ordinal_injective')]
TRUSTED_BASE = [
    'Lean 4.33.0 kernel; axioms propext, Classical.choice, Quot.sound (audited per theorem)',
    'pandas.Timestamp string parsing and pandas.date_range are modelled as strict YYYY/MM/DD parsing and ordinal ranges '
    '(correspondence on generated strings, years 1700-2200); lenient pandas parses of undocumented formats are outside the claim',
    'String.splitOn / trimAscii / toNat? of Lean core (used by the executable parser only)',
    'correspondence harness harness/props/c20.py, driver lean/drivers/Dates.lean',
]

DIM = [31, 28, 31, 30, 31, 30, 31, 31, 30, 31, 30, 31]


def fmt(d):
  return f'{d.year:04d}/{d.month:02d}/{d.day:02d}'


def gen_date(rng):
  r = rng.random()
  if r < 0.35:   # boundaries: month ends, leap days, century years
    y = rng.choice([1700, 1800, 1899, 1900, 1904, 1999, 2000, 2001, 2019, 2020, 2023, 2024, 2096, 2100, 2200])
    m = rng.choice([1, 2, 2, 2, 3, 12, rng.randint(1, 12)])
    leap = y % 4 == 0 and (y % 100 != 0 or y % 400 == 0)
    dim = 29 if (m == 2 and leap) else DIM[m - 1]
    d = rng.choice([1, dim, dim, max(1, dim - 1)])
    return datetime.date(y, m, d)
  return datetime.date(1700, 1, 1) + datetime.timedelta(days=rng.randint(0, 182000))


PY_SPACES = ['\t', '\x0b', '\x0c', '\x1c', '\x1f', '\xa0', '\u2003', '\u3000', '  ']


def pad(rng, s):
  """blanks around a day are stripped by the parser (str.strip: any Unicode white space)"""
  if rng.random() < 0.1:
    s = rng.choice(PY_SPACES) + s
  if rng.random() < 0.1:
    s = s + rng.choice(PY_SPACES)
  return s


def gen_entry(rng, anchor):
  """-> (string, (lo, hi) ordinals)"""
  base = anchor + datetime.timedelta(days=rng.randint(-40, 40)) if rng.random() < 0.7 else gen_date(rng)
  if rng.random() < 0.4:
    return pad(rng, fmt(base)), (base.toordinal(), base.toordinal())
  span = rng.choice([0, 1, 2, 5, 30, 31, 45, 70, 366, 400]) if rng.random() < 0.9 else rng.randint(0, 800)
  end = base + datetime.timedelta(days=span)
  sep = rng.choice([' - ', '-', ' -', '- ', '  -  '])
  return pad(rng, fmt(base)) + sep + pad(rng, fmt(end)), (base.toordinal(), end.toordinal())


MALFORMED = [
    lambda rng, a: fmt(a) + ' - ' + fmt(a) + ' - ' + fmt(a),                        # three parts
    lambda rng, a: fmt(a + datetime.timedelta(days=rng.randint(1, 50))) + ' - ' + fmt(a),  # reversed range
    lambda rng, a: f'{a.year:04d}/13/01',
    lambda rng, a: f'{a.year:04d}/02/30',
    lambda rng, a: f'{a.year | 1:04d}/02/29',                                         # Feb 29 of an odd year
    lambda rng, a: f'{a.year:04d}/04/31',
    lambda rng, a: 'notadate',
    lambda rng, a: '',
    lambda rng, a: fmt(a) + ' - ' + 'xx/yy/zz',
    lambda rng, a: f'{a.year:04d}/00/10',
    # more than one '-' in an entry: three or more parts, whatever the pieces look like
    lambda rng, a: fmt(a) + ' - ' + (a + datetime.timedelta(days=rng.randint(0, 9))).isoformat(),
    lambda rng, a: fmt(a) + ' -- ' + fmt(a + datetime.timedelta(days=rng.randint(0, 9))),
    lambda rng, a: fmt(a) + ' - ' + fmt(a + datetime.timedelta(days=rng.randint(0, 9))) + ' -',
    lambda rng, a: fmt(a) + ' - ' + f'{a.year:04d}/{a.month:02d}-{min(a.day + 1, 28):02d}',
    lambda rng, a: a.isoformat(),
    # spellings outside the documented format that a general date parser would still read as some day
    lambda rng, a: f'{a.year:04d}/{a.month:02d}',                                     # day missing
    lambda rng, a: f'{a.year:04d}{a.month:02d}{a.day:02d}',                           # no separators
    lambda rng, a: fmt(a) + ' 00:00',                                                 # time of day appended
    lambda rng, a: fmt(a) + 'T12',
    lambda rng, a: fmt(a) + '.',
    lambda rng, a: f'{a.year % 100:02d}/{a.month:02d}/{a.day:02d}',                   # two-digit year
    lambda rng, a: '0' + fmt(a),
    lambda rng, a: fmt(a) + rng.choice(['x', '5', ' ' + fmt(a), '/01']),              # trailing garbage, stray digit, dash forgotten
    lambda rng, a: rng.choice(['x', '+', '~']) + fmt(a),
    lambda rng, a: f'{a.year:04d}/{a.month:02d}/{rng.choice([32, 40, 99])}',
    lambda rng, a: fmt(a) + ' - ' + f'{a.year + 1:04d}/{a.month:02d}/32',
    lambda rng, a: fmt(a) + ' - ' + fmt(a + datetime.timedelta(days=3)) + ' ' + fmt(a + datetime.timedelta(days=9)),
    lambda rng, a: f'{a.year:04d}/ {a.month % 10}/ {a.day % 10 or 1}',
    # words a date parser understands, and fields that are not two digits wide
    lambda rng, a: rng.choice(['today', 'now', 'Today', fmt(a) + ' - now', 'today - ' + fmt(a + datetime.timedelta(days=40000))]),
    lambda rng, a: f'{a.year:04d}/{a.month % 9 + 1}/{a.day:02d}',
    lambda rng, a: f'{a.year:04d}/{a.month:02d}/{a.day % 9 + 1}',
    lambda rng, a: f'{a.year:04d}/{a.month:02d}/ {a.day % 9 + 1}',
    lambda rng, a: fmt(a) + ' - ' + f'{a.year + 1:04d}/{a.month % 9 + 1}/{a.day % 9 + 1}',
    lambda rng, a: rng.choice([f'{a.year // 100:02d}_{a.year % 10}/{a.month:02d}/{a.day:02d}', f'{a.year:04d}/0_/{a.day:02d}',
                               f'{a.year:04d}/{a.month:02d}/+{a.day % 9 + 1}', f'{a.year:04d}/{a.month:02d}/{a.day % 9 + 1}.']),
]


PREV = {'entry': None}


def gen_case(rng, malformed):
  anchor = gen_date(rng)
  n = rng.choice([0, 1, 1, 2, 3, 5, 8, 12]) if not malformed else rng.choice([0, 1, 2, 4])
  entries, windows = [], []
  if not malformed and PREV['entry'] is not None and rng.random() < 0.3:
    entries.append(PREV['entry'][0])      # an entry of the previous call comes again, in other company
    windows.append(PREV['entry'][1])
  for _ in range(n):
    s, w = gen_entry(rng, anchor)
    if windows and rng.random() < 0.15:
      # same first day as an earlier entry, another last day (the longer one need not come last)
      lo = windows[rng.randrange(len(windows))][0]
      hi = lo + rng.choice([0, 1, 3, 9, 40])
      s = fmt(datetime.date.fromordinal(lo)) + ((' - ' + fmt(datetime.date.fromordinal(hi))) if hi > lo or rng.random() < 0.5 else '')
      w = (lo, hi)
    entries.append(s)
    windows.append(w)
    if rng.random() < 0.2:       # exact duplicate
      entries.append(s)
      windows.append(w)
  kind = None
  if malformed:
    k = rng.randrange(len(MALFORMED))
    entries.insert(rng.randint(0, len(entries)), MALFORMED[k](rng, anchor))
    kind = k
  else:
    if entries:
      PREV['entry'] = (entries[0], windows[0])
    rng.shuffle(entries)
  return {'entries': entries, 'windows': windows, 'malformed': kind}


def run_real(entries):
  from matched_markets.methodology import utils
  try:
    ws = utils.find_days_to_exclude(entries)
    days = utils.expand_time_windows(ws)
  except Exception as e:
    return ('err', type(e).__name__, str(e)[:120])
  return ('ok', [d.toordinal() for d in days])


def oracle(case, real):
  """independent statement: every covered day exactly once, nothing else; malformed -> ValueError"""
  if case['malformed'] is not None:
    if real[0] != 'err' or real[1] != 'ValueError':
      return 'malformed', f'malformed entry list {case["entries"]} gave {real[:2]} instead of ValueError'
    return None
  if real[0] == 'err':
    return 'rejected-valid', f'well-formed list {case["entries"]} raised {real[1]}: {real[2]}'
  want = set()
  for lo, hi in case['windows']:
    want.update(range(lo, hi + 1))
  got = real[1]
  if len(got) != len(set(got)):
    return 'duplicate-day', f'a day is listed twice for {case["entries"]}'
  if set(got) != want:
    missing, extra = sorted(want - set(got))[:3], sorted(set(got) - want)[:3]
    return 'wrong-days', f'{case["entries"]}: missing ordinals {missing}, extra {extra}'
  return None


def check(out, cases, model_lines):
  for i, case in enumerate(cases):
    real = run_real(case['entries'])
    prob = oracle(case, real)
    if prob:
      out.oracle_violation({'call': 'find_days_to_exclude+expand_time_windows', 'symptom': prob[0]}, case, prob[1])
      continue
    if model_lines is not None:
      want = ('ok ' + ' '.join(str(x) for x in sorted(real[1]))) if real[0] == 'ok' else 'err ' + real[1]
      if model_lines[i].strip() != want.strip():
        out.mismatch('dates', case, f'{case["entries"]}: implementation "{want[:80]}" model "{model_lines[i][:80]}"')


def run(out, tier, model_ok=True):
  rng = core.rng_for(PROP)
  n_ok, n_bad = (400, 150) if tier == 'quick' else (20000, 5000)
  cases = []
  cdir = os.path.join(core.CORPUS, PROP)
  if os.path.isdir(cdir):
    for fn in sorted(os.listdir(cdir)):
      with open(os.path.join(cdir, fn)) as f:
        cases.append(json.load(f))
  cases += [gen_case(rng, False) for _ in range(n_ok)] + [gen_case(rng, True) for _ in range(n_bad)]
  lines = None
  if model_ok:
    lines = core.run_driver('Dates.lean', [('case ' + '|'.join(c['entries'])) if c['entries'] else 'case0' for c in cases])
    if len(lines) != len(cases):
      raise core.DriverError(f'driver returned {len(lines)} lines for {len(cases)} cases')
  check(out, cases, lines)
  overl = 0
  for c in cases:
    ws = c['windows']
    o = any(a[0] <= b[1] and b[0] <= a[1] for i, a in enumerate(ws) for b in ws[i + 1:])
    overl += o
    key = (tuple(c['entries']),) if (len(c['entries']) >= 2 or c['malformed'] is not None) else None
    out.count(key)
  out.rule = ('generated lists of day / range strings (YYYY/MM/DD, years 1700-2200, month/leap/century boundaries, '
              'overlaps, duplicates, shuffled, 5 separator spellings) and a malformed stream (34 kinds, incl. spellings outside the documented format that a general date parser accepts); '
              'non-trivial = at least two entries or a malformed entry; distinct by entry list')
  out.extra.update({'well_formed_cases': n_ok, 'malformed_cases': n_bad, 'cases_with_overlap': overl,
                    'malformed_kinds': len(MALFORMED)})
  out.sample(cases[0] if cases else {})
  out.sample(cases[-1] if cases else {})


def replay(out, path, model_ok=True):
  with open(path) as f:
    rp = json.load(f)
  case = (rp.get('violation') or (rp.get('correspondence_mismatches') or [{}])[0]).get('case')
  lines = core.run_driver('Dates.lean', [('case ' + '|'.join(case['entries'])) if case['entries'] else 'case0']) if model_ok else None
  check(out, [case], lines)
  out.count(('replay', 1)); out.count(('replay', 2))
