#!/usr/bin/env python3
"""Writes MANIFEST.json from the table below (kept in one place so the manifest stays valid)."""
import json, os
V = os.path.dirname(os.path.dirname(os.path.abspath(__file__)))
PY = '/venv/bin/python'

CLAIMED = {
  'C12': ('pivot invariant under row permutation (distinct means), monotone date relabelling and scaling (C12_pivot_perm/_dates/_scale, with a proved counterexample when means tie); both searches scale-equivariant (C12_evaluated_scale, C12_exhaustive_scale, C12_greedy_scale); renaming = injective relabelling of index sets (C12_rename); paired real runs over five transformations x both searches',
          'Lean proof on the data and search models + metamorphic paired real runs',
          'int-vs-str ID dtype handling and exactness of 2^k scaling in floats are carried by the paired runs (partial)', '7/C12'),
  'C19': ('fit result: screened data = input rows minus rows of reported geos and dates, analysis = per-date totals of the screened data, reports are what the detectors said, totals invariant under permutation / other groups / splitting a geo, perm-invariance of the whole fit given perm-invariant detectors (9 theorems); the outlier-date loop terminates (loop_terminates, about the loop shape regenerated from source, T11); correspondence row by row with the real reports fed to the model; every real fit under a 30 s watchdog',
          'Lean proof with uninterpreted detectors + differential frames + paired runs on shuffled rows',
          'detectors uninterpreted; object-dtype group column (pinned environment cannot fit int-dtype group columns)', '7/C19'),
  'C10': ('state-machine model of one TBRMatchedMarkets object (caller parameters, data.geo_index, stored results): for every call history every non-retrieval call answers as on a fresh object, retrieval answers with the last stored search, parameters unchanged (C10_history_free, C10_params_unchanged, C10_results_idempotent); negative witnesses for the two repaired defects; history correspondence with fresh-object oracle and deep snapshots',
          'Lean proof by invariant over call histories + differential call histories against fresh objects',
          'object aliasing/deep copies are runtime behaviour (snapshots); design_within_constraints is outside the property op list', '7/C10'),
  'C15': ('canonical table laws (one row per geo, sorted distinct dates, cell = mean or 0, rows by decreasing mean), shares = mean/sum and add to 1, aggregation = sums in geo-index order (perm-invariant), truncation, reconciliation accept/reject rule, assignable set, index setter (18 theorems); correspondence incl. repeated geo-index installations',
          'Lean proof over an exact-rational data model + differential frames x eligibility tables',
          'pandas pivot/sort/loc and numpy indexing modelled on lists; ties in geo means outside the comparison', '7/C15'),
  'C05': ('required impact = (tq_sig + tq_pow) x the analysis-side posterior scale at the planning displacement (C05_calibration with C06_closed_form), sigma identity, lower-bound consequence, homogeneity, shift invariance, strict antitonicity in |rho| under tq_sig + tq_pow > 0 (partial; the unrestricted claim is refuted by C05_antitone_fails and recorded as a known finding); three-way correspondence design code / analysis code / model',
          'Lean/Mathlib proof over ℝ of the algebraic identities + Float differential run against numpy/scipy/statsmodels',
          'floating point, scipy quantiles and numpy/statsmodels algorithms are outside the theorems; Float correspondence to 1e-9 on well-conditioned data', '7/C05'),
  'C06': ('variance propagation through the 2x2 OLS covariance = Kerman eq. 5 for every day (C06_closed_form, C06_posterior_scale/_loc/_df), design side = analysis side (C06_design_side), summary-row laws under an explicit quantile condition with the failing region proved (C06_summary_order / _fails); layout invariance by paired real runs',
          'Lean/Mathlib proof over ℝ + Float differential run + metamorphic real runs',
          'groupby aggregation modelled as per-date totals computed by the harness; tails=1 & level<1/2 is a recorded finding', '7/C06'),
  'C07': ('fixed-cost report = response summary / cost, incremental-response bounds = iROAS bounds x cost, order laws, unit equivariance (C07_fixed_*), scenario threshold (C07_scenario); variable-cost scenario only by paired real runs (determinism, equivariance) - partial',
          'Lean/Mathlib proof over ℝ (fixed-cost) + Float differential run + paired real runs (variable-cost: partial)',
          'simulation-based variable-cost report (scipy rvs, numpy percentile) not modelled; its order law is a recorded finding', '7/C07'),
  'C18': ('cumulative bands ordered; pointwise bands ordered iff-style: ordered when the scale is non-decreasing (C18_pointwise_order_partial) and a proved counterexample otherwise (C18_pointwise_order_fails, recorded finding); counterfactual + difference = observed, telescoping, last-date identities; correspondence of all nine band series',
          'Lean/Mathlib proof over ℝ + Float differential run against the real effect-series report',
          'pandas alignment inside the report not modelled; takes the cumulative posterior (C06) as input', '7/C18'),
  'C01': ('every design evaluated or returned by the exhaustive search (C01_exhaustive) and by the greedy search for any fuel (C01_greedy, loop invariant) is a legal assignment with non-empty groups over the admitted geos; correspondence of admitted set, generators, push log and both results with the real searches; oracle from the raw eligibility table',
          'Lean proof (membership in generators, greedy loop invariant) + differential search runs',
          'search model parametric in data tables; admitted-set model (Admit.lean) tied by correspondence only', '7/C01'),
  'C02': ('all six constraints hold (inclusive bounds) for every exhaustive design (reading A) and every greedy design (reading B); unspecified constraints impose nothing; `_constraint_not_satisfied` regenerated from source; oracle recomputes every quantity from the raw frame',
          'Lean proof over a generated predicate + differential search runs',
          'theorems under WF (positive shares, finite impacts, iroas > 0)', '7/C02'),
  'C03': ('evaluated set is sound and complete up to the documented budget-pruning omission (C03_sound, C03_complete), duplicate-free, result = top-k best first with nothing evaluated-but-dropped above anything kept (C03_topk), headline optimality C03_optimal; brute-force oracle over all 3^n assignments',
          'Lean proof (fold invariants + bounded-queue theorems) + brute-force differential oracle',
          'NaN-free scores; feasibility over the admitted geos', '7/C03'),
  'C04': ('the score attached to each stored design is that of its own groups with the documented last entry (C04_score_of_design, C04_greedy_score); oracle rebuilds series and diagnostics from the raw frame for every returned design and checks for shared diagnostics objects',
          'Lean proof (model fragment) + independent recomputation oracle; aliasing/date-window clauses carried by the oracle (partial)',
          'series aggregation, date window and deep copies are runtime behaviour checked by oracle and push-log correspondence', '7/C04'),
  'C09': ('exhaustive search never raises (C09_exhaustive_total), greedy never raises and terminates within an explicit fuel bound on NaN-free scores (C09_greedy_total, C09_greedy_terminates); exception-class correspondence and oracle on degenerate inputs',
          'Lean proof (totality, termination measure) + exception-class differential runs',
          'exceptions raised inside pandas/numpy/scipy are outside the model (partial)', '7/C09'),
  'C13': ('without budget/share constraints every greedy design is an evaluated design of the exhaustive search with the same score (C13_greedy_in_evaluated), hence not above the optimum (C13_not_better) and empty when exhaustive is empty (C13_empty); both real searches compared',
          'Lean proof (greedy invariant + characterisation of the evaluated set; design_within_constraints regenerated from the source, T8 / tie_within) + paired real runs',
          'NaN-free scores for the order statement', '7/C13'),
  'C08': ('DiagCache state machine; theorem C08_no_stale (every read in every history = fresh value) proved for arbitrary invalidation lists under two obligations discharged by `decide` on lists regenerated from the source (translator T3); history correspondence against fresh objects',
          'Lean proof over a generated fragment + differential histories',
          'abstracts numeric values to (x version, y version) stamps; read logic of the nine properties hand-modelled; numpy/scipy not modelled', '7/C08'),
  'C11': ('countMaxDesigns = number of eligibility-respecting assignments with admissible sizes (C11_count_eq_spec), generators list exactly that many distinct pairs (C11_listing_nodup/_length), upper bound on the evaluated designs; exhaustive correspondence over all class-count vectors',
          'Lean proof (operator/Pascal argument + bijection) + exhaustive differential sweep',
          'hand model of count_max_designs and the generators; scipy comb, itertools.combinations, set iteration order of small ints trusted', '7/C11'),
  'C14': ('bounded queue: for every push history and key, result sorted, length = min(k, n), kept ++ dropped is a permutation of the pushes with nothing dropped above anything kept, keys = pushed keys, reads pure; correspondence on random histories',
          'Lean proof by invariant over push histories, about push/get_result regenerated from the source (T7, tie theorems tie_heap_*) + differential histories',
          'heapq primitives abstracted to an ascending list; order theorems assume a strict weak order (NaN-free scores); ties compared by key only', '7/C14'),
  'C16': ('validate accepts iff WellFormed else ValueError; for the generated set-algebra formulas the seven classes partition any ordered subset, each geo in the class of its row, indices are positions; correspondence incl. all tables with <= 3 geos',
          'Lean proof over generated formulas (T2) + exhaustive/random differential tables',
          'pandas frame handling abstracted to a Table record derived from the construction recipe', '7/C16'),
  'C17': ('postInit o = ok iff InDomain o (spec written from the docstring), otherwise ValueError; defaults; equality; proved about the check table regenerated from the source (T1); boundary-grid correspondence',
          'Lean proof over a generated validation table + boundary-grid differential run',
          'three helper methods and __eq__ hand-modelled; Python numeric comparison semantics as PyFloat', '7/C17'),
  'C20': ('day in expansion iff covered by a window; Nodup; permutation/duplication/overlap invariance; reject rules; calendar successor and injectivity of the ordinal; correspondence against pandas on generated strings',
          'Lean proof (list + calendar arithmetic) + differential run against pandas',
          'pandas Timestamp parsing/date_range modelled as strict YYYY/MM/DD parsing; years 1700-2200', '7/C20'),
}
NOT_YET = {
  'C01': 'check under construction in this commit series (theorems proved in MM/Props/Exhaustive.lean, Greedy.lean; registration pending)',
  'C02': 'check under construction (theorems proved; registration pending)',
  'C03': 'check under construction (theorems proved; registration pending)',
  'C04': 'check under construction',
  'C05': 'numeric layer not built yet',
  'C06': 'numeric layer not built yet',
  'C07': 'numeric layer not built yet',
  'C09': 'check under construction (theorems proved; registration pending)',
  'C10': 'API history model not built yet',
  'C12': 'metamorphic engine not built yet',
  'C13': 'check under construction (theorems proved; registration pending)',
  'C15': 'data model not built yet',
  'C18': 'numeric layer not built yet',
  'C19': 'screening model not built yet',
}


def main():
  checks = []
  for pid, (text, tech, note, ref) in sorted(CLAIMED.items()):
    checks.append({
      'property_id': pid,
      'quick_cmd': f'{PY} harness/vcheck.py {pid} --tier quick',
      'thorough_cmd': f'{PY} harness/vcheck.py {pid} --tier thorough',
      'evidence_file': f'/verif/evidence/{pid}.json',
      'replay_cmd_template': f'{PY} harness/vcheck.py {pid} --replay {{path}}',
      'engine': 'lean4-proof+correspondence',
      'level_claimed': {'category': 'proof', 'text': text, 'design_ref': 'DESIGN.md §' + ref},
      'level_note': note + '; Lean 4.33 kernel with axioms propext, Classical.choice, Quot.sound only (audited every run); translators and Python harness trusted',
      'technique': tech,
    })
  m = {
    'version': 1,
    'setup_cmd': 'python3 harness/setup.py',
    'hooks': {'guard': 'MATCHED_MARKETS_VERIF', 'enable': 'no source hooks: the harness wraps methods at run time inside its own process (MATCHED_MARKETS_VERIF=1 is set but unused by /repo)',
              'baseline_off_cmd': 'python3 tools/baseline.py', 'source_commits': [], 'add_only': True},
    'engines': [
      {'name': 'lean4-proof+correspondence', 'path': 'harness/vcheck.py', 'serves_properties': sorted(CLAIMED),
       'kind_free_text': 'Lean 4 theorems about executable models (lean/MM), models tied to /repo by AST translators (harness/translate.py) and line-protocol differential runs (lean/drivers/*.lean), independent oracles on the real code for failing-input search'},
    ],
    'checks': checks,
    'not_applicable': [{'property_id': k, 'reason': v} for k, v in sorted(NOT_YET.items()) if k not in CLAIMED],
    'notes': 'See DESIGN.md. Every check re-runs the translators and lake build, audits axioms, then runs corpus, correspondence and oracle. Exit 2 = infrastructure error (never a violation).',
  }
  with open(os.path.join(V, 'MANIFEST.json'), 'w') as f:
    json.dump(m, f, indent=1)
  print('claimed', sorted(CLAIMED), 'not claimed', sorted(k for k in NOT_YET if k not in CLAIMED))


if __name__ == '__main__':
  main()
