/-
The order / queue part of the exhaustive search: Python's tuple `<` on NaN-free scores is the
lexicographic order on lists of rationals, a strict weak order.  `Design.lt` is *not* a strict
weak order on all designs (NaN entries), so the C14 queue theorems (which take a global
`StrictWeak lt`) are transferred through a totalised comparison `ltTot` that agrees with
`Design.lt` on NaN-free scores; the queue functions only ever compare pushed items.
-/
import MM.Proofs.Exhaustive
import MM.Props.C14

namespace MM.Search
open MM MM.HeapDict

/-! ### lexicographic order on lists of rationals -/

def ratLexLt : List Rat → List Rat → Bool
  | [], [] => false
  | [], _ :: _ => true
  | _ :: _, [] => false
  | a :: as, b :: bs => if a = b then ratLexLt as bs else decide (a < b)

theorem ratLexLt_irrefl (l : List Rat) : ratLexLt l l = false := by
  induction l with
  | nil => rfl
  | cons a l ih => simp [ratLexLt, ih]

theorem ratLexLt_trans (a b c : List Rat) :
    ratLexLt a b = true → ratLexLt b c = true → ratLexLt a c = true := by
  induction a generalizing b c with
  | nil =>
    cases b with
    | nil => simp [ratLexLt]
    | cons y b => cases c <;> simp [ratLexLt]
  | cons x a ih =>
    cases b with
    | nil => simp [ratLexLt]
    | cons y b =>
      cases c with
      | nil => simp [ratLexLt]
      | cons z c =>
        simp only [ratLexLt]
        by_cases hxy : x = y
        · subst hxy
          by_cases hxz : x = z
          · subst hxz; simpa using ih b c
          · simp [hxz]
        · by_cases hyz : y = z
          · subst hyz; simp only [hxy, if_false, if_true, decide_eq_true_eq]; exact fun h _ => h
          · have hxy' := hxy; have hyz' := hyz
            simp only [hxy, hyz, if_false, decide_eq_true_eq]
            intro h1 h2
            have h3 : x < z := lt_trans h1 h2
            have h4 : x ≠ z := ne_of_lt h3
            simp [h4, h3]

theorem ratLexLt_negTrans (a b c : List Rat) :
    ratLexLt a c = true → ratLexLt a b = true ∨ ratLexLt b c = true := by
  induction a generalizing b c with
  | nil =>
    cases c with
    | nil => simp [ratLexLt]
    | cons z c => cases b <;> simp [ratLexLt]
  | cons x a ih =>
    cases c with
    | nil => simp [ratLexLt]
    | cons z c =>
      cases b with
      | nil => simp [ratLexLt]
      | cons y b =>
        simp only [ratLexLt]
        by_cases hxz : x = z
        · subst hxz
          by_cases hxy : x = y
          · subst hxy; simpa using ih b c
          · have hyx : ¬ y = x := fun h => hxy h.symm
            simp only [hxy, hyx, if_true, if_false, decide_eq_true_eq]
            intro _
            rcases lt_trichotomy x y with h | h | h
            · exact Or.inl h
            · exact absurd h hxy
            · exact Or.inr h
        · simp only [hxz, if_false, decide_eq_true_eq]
          intro hlt
          by_cases hxy : x = y
          · subst hxy; simp [hxz, hlt]
          · simp only [hxy, if_false, decide_eq_true_eq]
            rcases lt_trichotomy x y with h | h | h
            · exact Or.inl h
            · exact absurd h hxy
            · have hyz : y < z := lt_trans h hlt
              have : ¬ y = z := ne_of_lt hyz
              simp [this, hyz]

/-- a score as a list of rationals (NaN read as 0; irrelevant on NaN-free scores) -/
def scoreKey (s : Score) : List Rat := s.map (·.getD 0)

theorem scoreLt_eq_ratLexLt (s t : Score) (hs : scoreNaNFree s = true)
    (ht : scoreNaNFree t = true) : scoreLt s t = ratLexLt (scoreKey s) (scoreKey t) := by
  induction s generalizing t with
  | nil => cases t <;> simp [scoreLt, ratLexLt, scoreKey]
  | cons a s ih =>
    cases t with
    | nil => simp [scoreLt, ratLexLt, scoreKey]
    | cons b t =>
      simp only [scoreNaNFree, List.all_cons, Bool.and_eq_true] at hs ht
      obtain ⟨x, rfl⟩ := Option.isSome_iff_exists.1 hs.1
      obtain ⟨y, rfl⟩ := Option.isSome_iff_exists.1 ht.1
      have := ih t hs.2 ht.2
      simp only [scoreKey] at this
      simp only [scoreLt, entryEq, entryLt, scoreKey, List.map_cons, Option.getD_some, ratLexLt,
        beq_iff_eq, this]

/-- the totalised comparison of designs -/
def ltTot (a b : Design) : Bool := ratLexLt (scoreKey a.score) (scoreKey b.score)

theorem strictWeak_ltTot : StrictWeak ltTot where
  irrefl _ := ratLexLt_irrefl _
  trans _ _ _ := ratLexLt_trans _ _ _
  negTrans _ _ _ := ratLexLt_negTrans _ _ _

/-- designs with a NaN-free score -/
def GoodScore (d : Design) : Prop := scoreNaNFree d.score = true

theorem lt_eq_ltTot {a b : Design} (ha : GoodScore a) (hb : GoodScore b) :
    Design.lt a b = ltTot a b := scoreLt_eq_ratLexLt _ _ ha hb

/-- `Design.lt` is a strict weak order on designs with NaN-free scores -/
theorem strictWeak_designLt_restricted :
    (∀ a, GoodScore a → Design.lt a a = false) ∧
    (∀ a b c, GoodScore a → GoodScore b → GoodScore c →
      Design.lt a b = true → Design.lt b c = true → Design.lt a c = true) ∧
    (∀ a b c, GoodScore a → GoodScore b → GoodScore c →
      Design.lt a c = true → Design.lt a b = true ∨ Design.lt b c = true) := by
  refine ⟨?_, ?_, ?_⟩
  · intro a ha; rw [lt_eq_ltTot ha ha]; exact strictWeak_ltTot.irrefl a
  · intro a b c ha hb hc
    rw [lt_eq_ltTot ha hb, lt_eq_ltTot hb hc, lt_eq_ltTot ha hc]
    exact strictWeak_ltTot.trans a b c
  · intro a b c ha hb hc
    rw [lt_eq_ltTot ha hb, lt_eq_ltTot hb hc, lt_eq_ltTot ha hc]
    exact strictWeak_ltTot.negTrans a b c

/-! ### the queue functions only compare pushed items -/

section congr
variable {α : Type} {lt lt' : α → α → Bool} {P : α → Prop}
  (h : ∀ a b, P a → P b → lt a b = lt' a b)
include h

theorem insertAsc_congr {x : α} (hx : P x) {q : List α} (hq : ∀ y ∈ q, P y) :
    insertAsc lt x q = insertAsc lt' x q := by
  induction q with
  | nil => rfl
  | cons y ys ih =>
    simp only [insertAsc]
    rw [h x y hx (hq y List.mem_cons_self), ih (fun z hz => hq z (List.mem_cons_of_mem _ hz))]

theorem pushQueue_congr (size : Nat) {x : α} (hx : P x) {q : List α} (hq : ∀ y ∈ q, P y) :
    pushQueue lt size x q = pushQueue lt' size x q := by
  unfold pushQueue
  rw [insertAsc_congr h hx hq]
  cases q with
  | nil => rfl
  | cons m rest =>
    simp only
    rw [h m x (hq m List.mem_cons_self) hx,
      insertAsc_congr h hx (fun z hz => hq z (List.mem_cons_of_mem _ hz))]

omit h in
theorem mem_pushQueue (lt : α → α → Bool) (size : Nat) (x a : α) (q : List α)
    (ha : a ∈ pushQueue lt size x q) : a = x ∨ a ∈ q := by
  unfold pushQueue at ha
  split at ha
  · exact (mem_insertAsc lt x a q).1 ha
  · cases q with
    | nil => simp at ha
    | cons m rest =>
      simp only at ha
      split at ha
      · rcases (mem_insertAsc lt x a rest).1 ha with h' | h'
        · exact Or.inl h'
        · exact Or.inr (List.mem_cons_of_mem _ h')
      · exact Or.inr ha

theorem foldQ_congr (size : Nat) (xs : List α) (hxs : ∀ x ∈ xs, P x) (q : List α)
    (hq : ∀ y ∈ q, P y) : foldQ lt size q xs = foldQ lt' size q xs := by
  induction xs generalizing q with
  | nil => rfl
  | cons x xs ih =>
    have hx := hxs x List.mem_cons_self
    rw [foldQ_cons, foldQ_cons, pushQueue_congr h size hx hq]
    refine ih (fun z hz => hxs z (List.mem_cons_of_mem _ hz)) _ ?_
    intro y hy
    rcases mem_pushQueue lt' size x y q hy with rfl | hy
    · exact hx
    · exact hq y hy

end congr

/-! ### `topK` -/

theorem pushedFor_zero (ds : List Design) :
    pushedFor (0 : Nat) (ds.map fun d => ((0 : Nat), d)) = ds := by
  induction ds with
  | nil => rfl
  | cons d ds ih =>
    simp only [pushedFor, List.map_cons, List.filter_cons, beq_self_eq_true, if_true] at ih ⊢
    rw [ih]

theorem topK_eq (k : Nat) (ds : List Design) :
    topK k ds = (foldQ Design.lt k [] ds).reverse := by
  unfold topK resultFor
  rw [lookup_pushAll_init, pushedFor_zero]

/-- what the bounded queue keeps of a list of designs with NaN-free scores -/
theorem topK_spec (k : Nat) (ds : List Design) (hg : ∀ d ∈ ds, GoodScore d) :
    ∃ dropped : List Design,
      (topK k ds ++ dropped).Perm ds ∧
      (topK k ds).length = min k ds.length ∧
      (topK k ds).Pairwise (fun a b => Design.lt a b = false) ∧
      ∀ d ∈ dropped, ∀ x ∈ topK k ds, Design.lt x d = false := by
  have hcongr : foldQ Design.lt k [] ds = foldQ ltTot k [] ds :=
    foldQ_congr (P := GoodScore) (fun a b ha hb => lt_eq_ltTot ha hb) k ds hg [] (by simp)
  obtain ⟨dropped, hq⟩ :=
    (QInv.init ltTot k).fold strictWeak_ltTot.irrefl strictWeak_ltTot.trans
      strictWeak_ltTot.negTrans ds
  simp only [List.nil_append] at hq
  rw [topK_eq, hcongr]
  have hmemq : ∀ x ∈ foldQ ltTot k [] ds, GoodScore x := fun x hx =>
    hg x (hq.perm.mem_iff.1 (List.mem_append_left _ hx))
  have hmemd : ∀ x ∈ dropped, GoodScore x := fun x hx =>
    hg x (hq.perm.mem_iff.1 (List.mem_append_right _ hx))
  refine ⟨dropped, ?_, ?_, ?_, ?_⟩
  · exact ((List.reverse_perm _).append_right dropped).trans hq.perm
  · rw [List.length_reverse]; exact hq.len
  · rw [List.pairwise_reverse]
    refine hq.sorted.imp_of_mem ?_
    intro a b ha hb hab
    rw [lt_eq_ltTot (hmemq b hb) (hmemq a ha)]; exact hab
  · intro d hd x hx
    rw [List.mem_reverse] at hx
    rw [lt_eq_ltTot (hmemq x hx) (hmemd d hd)]
    exact hq.dom d hd x hx

end MM.Search
