/-
Set (`GeoSet`) and association-list (`dictGet`/`dictSet`/`dictPop`) lemmas used by the
greedy-search proofs.
-/
import MM.Model.Search
import MM.Proofs.CountListing

namespace MM
open MM

theorem mem_interSet {a b : GeoSet} {x : Nat} : x ∈ interSet a b ↔ x ∈ a ∧ x ∈ b := by
  simp [interSet]

theorem sorted_interSet {a b : GeoSet} (h : SSorted a) : SSorted (interSet a b) :=
  List.Pairwise.filter _ h

theorem interSet_isEmpty {a b : GeoSet} (h : ∀ x ∈ a, x ∉ b) : (interSet a b).isEmpty = true := by
  rw [List.isEmpty_iff, interSet, List.filter_eq_nil_iff]
  intro x hx
  simpa using h x hx

theorem toggleSet_of_mem {s : GeoSet} {g : Nat} (h : g ∈ s) :
    toggleSet s g = s.filter (· != g) := by
  simp [toggleSet, h]

theorem toggleSet_of_not_mem {s : GeoSet} {g : Nat} (h : g ∉ s) :
    toggleSet s g = insertSet g s := by
  simp [toggleSet, h]

theorem mem_toggleSet {s : GeoSet} {g x : Nat} :
    x ∈ toggleSet s g ↔ (x ∈ s ∧ x ≠ g) ∨ (x = g ∧ g ∉ s) := by
  by_cases h : g ∈ s
  · rw [toggleSet_of_mem h]
    simp only [List.mem_filter, bne_iff_ne, ne_eq]
    constructor
    · intro h'; exact Or.inl h'
    · rintro (h' | h')
      · exact h'
      · exact absurd h h'.2
  · rw [toggleSet_of_not_mem h, mem_insertSet]
    constructor
    · rintro (rfl | h')
      · exact Or.inr ⟨rfl, h⟩
      · exact Or.inl ⟨h', fun hx => h (hx ▸ h')⟩
    · rintro (h' | h')
      · exact Or.inr h'.1
      · exact Or.inl h'.1

theorem sorted_toggleSet {s : GeoSet} {g : Nat} (h : SSorted s) : SSorted (toggleSet s g) := by
  by_cases hg : g ∈ s
  · rw [toggleSet_of_mem hg]; exact List.Pairwise.filter _ h
  · rw [toggleSet_of_not_mem hg]; exact sorted_insertSet h

/-- a strictly increasing list all of whose members are below `n` is a sub-list of `range n` -/
theorem sublist_range_of_sorted {s : GeoSet} {n : Nat} (hs : SSorted s) (hlt : ∀ x ∈ s, x < n) :
    s.Sublist (List.range n) := by
  have : s = (List.range n).filter (fun x => decide (x ∈ s)) := by
    refine SSorted.eq_of_mem_iff hs (List.Pairwise.filter _ List.pairwise_lt_range) (fun x => ?_)
    simp only [List.mem_filter, List.mem_range, decide_eq_true_eq]
    exact ⟨fun h => ⟨hlt x h, h⟩, fun h => h.2⟩
  rw [this]
  exact List.filter_sublist

/-- inclusion of strictly increasing lists bounds the length -/
theorem g_length_le_of_subset {s t : GeoSet} (hs : SSorted s) (h : ∀ x ∈ s, x ∈ t) :
    s.length ≤ t.length :=
  (List.subperm_of_subset hs.nodup h).length_le

/-- a proper inclusion bounds the length strictly -/
theorem length_lt_of_subset_of_not_mem {s t : GeoSet} (hs : SSorted s) (h : ∀ x ∈ s, x ∈ t)
    {c : Nat} (hct : c ∈ t) (hcs : c ∉ s) : s.length < t.length := by
  have h1 : SSorted (insertSet c s) := sorted_insertSet hs
  have h2 : (insertSet c s).length ≤ t.length :=
    g_length_le_of_subset h1 (fun x hx => by
      rcases mem_insertSet.1 hx with rfl | hx
      · exact hct
      · exact h x hx)
  rw [length_insertSet hcs] at h2
  omega

namespace Search

/-! ### association lists -/

theorem dictGet_of_mem {d : List (Nat × GeoSet)} {k : Nat} {v : GeoSet} (h : (k, v) ∈ d) :
    (k, dictGet d k) ∈ d := by
  unfold dictGet
  cases hf : d.find? (·.1 == k) with
  | none =>
    have := List.find?_eq_none.1 hf (k, v) h
    simp at this
  | some kv =>
    obtain ⟨k', v'⟩ := kv
    have h1 := List.find?_some hf
    have h2 := List.mem_of_find?_eq_some hf
    simp only [beq_iff_eq] at h1
    subst h1
    exact h2

theorem dictGet_ne_nil_mem {d : List (Nat × GeoSet)} {k : Nat} (h : dictGet d k ≠ []) :
    (k, dictGet d k) ∈ d := by
  unfold dictGet at h ⊢
  cases hf : d.find? (·.1 == k) with
  | none => rw [hf] at h; exact absurd rfl h
  | some kv =>
    obtain ⟨k', v'⟩ := kv
    have h1 := List.find?_some hf
    have h2 := List.mem_of_find?_eq_some hf
    simp only [beq_iff_eq] at h1
    subst h1
    exact h2

theorem mem_dictSet {d : List (Nat × GeoSet)} {k : Nat} {v : GeoSet} {x : Nat × GeoSet}
    (h : x ∈ dictSet d k v) : x = (k, v) ∨ (x ∈ d ∧ x.1 ≠ k) := by
  unfold dictSet at h
  split at h
  · rw [List.mem_map] at h
    obtain ⟨kv, hkv, rfl⟩ := h
    by_cases hk : kv.1 = k
    · simp [hk]
    · simp [hk, hkv]
  · rename_i hany
    rcases List.mem_append.1 h with h | h
    · refine Or.inr ⟨h, ?_⟩
      intro hx
      apply hany
      rw [List.any_eq_true]
      exact ⟨x, h, by simp [hx]⟩
    · simp at h; exact Or.inl h

theorem mem_dictSet_self (d : List (Nat × GeoSet)) (k : Nat) (v : GeoSet) :
    (k, v) ∈ dictSet d k v := by
  by_cases hany : d.any (·.1 == k) = true
  · unfold dictSet; rw [if_pos hany]
    obtain ⟨kv, hkv, hk⟩ := List.any_eq_true.1 hany
    exact List.mem_map.2 ⟨kv, hkv, by rw [if_pos hk]⟩
  · unfold dictSet; rw [if_neg hany]
    exact List.mem_append.2 (Or.inr (List.mem_singleton.2 rfl))

theorem dictGet_nil (k : Nat) : dictGet [] k = [] := rfl

theorem dictGet_cons (kv : Nat × GeoSet) (d : List (Nat × GeoSet)) (k : Nat) :
    dictGet (kv :: d) k = if kv.1 = k then kv.2 else dictGet d k := by
  by_cases h : kv.1 = k
  · simp [dictGet, h]
  · simp [dictGet, h]

theorem dictGet_append_of_not_any {d : List (Nat × GeoSet)} {k : Nat}
    (h : ¬ d.any (·.1 == k) = true) (d' : List (Nat × GeoSet)) :
    dictGet (d ++ d') k = dictGet d' k := by
  induction d with
  | nil => rfl
  | cons kv d ih =>
    have hk : ¬ kv.1 = k := by intro hk; apply h; simp [hk]
    have h' : ¬ d.any (·.1 == k) = true := by
      intro h'; apply h; simp only [List.any_cons, h', Bool.or_true]
    rw [List.cons_append, dictGet_cons, if_neg hk, ih h']

theorem dictGet_append_ne (d : List (Nat × GeoSet)) {k k' : Nat} (v : GeoSet) (hne : k' ≠ k) :
    dictGet (d ++ [(k, v)]) k' = dictGet d k' := by
  induction d with
  | nil => rw [List.nil_append, dictGet_cons, if_neg (fun h => hne h.symm)]
  | cons kv d ih => rw [List.cons_append, dictGet_cons, dictGet_cons, ih]

theorem dictGet_map_self {d : List (Nat × GeoSet)} {k : Nat} (v : GeoSet)
    (h : d.any (·.1 == k) = true) :
    dictGet (d.map (fun kv => if kv.1 == k then (k, v) else kv)) k = v := by
  induction d with
  | nil => simp at h
  | cons kv d ih =>
    rw [List.map_cons, dictGet_cons]
    by_cases hk : kv.1 = k
    · simp [hk]
    · have h' : d.any (·.1 == k) = true := by simpa [hk] using h
      have e : (if (kv.1 == k) = true then (k, v) else kv) = kv := by simp [hk]
      rw [e, if_neg hk]
      exact ih h'

theorem dictGet_map_ne (d : List (Nat × GeoSet)) {k k' : Nat} (v : GeoSet) (hne : k' ≠ k) :
    dictGet (d.map (fun kv => if kv.1 == k then (k, v) else kv)) k' = dictGet d k' := by
  induction d with
  | nil => rfl
  | cons kv d ih =>
    rw [List.map_cons, dictGet_cons, dictGet_cons, ih]
    by_cases hk : kv.1 = k
    · have hk' : ¬ kv.1 = k' := fun h => hne (h.symm.trans hk)
      have hkk : ¬ k = k' := fun h => hne h.symm
      simp [hk, hkk]
    · simp [hk]

theorem dictGet_dictSet_self (d : List (Nat × GeoSet)) (k : Nat) (v : GeoSet) :
    dictGet (dictSet d k v) k = v := by
  unfold dictSet
  split
  · rename_i hany; exact dictGet_map_self v hany
  · rename_i hany
    rw [dictGet_append_of_not_any hany, dictGet_cons, if_pos rfl]

theorem dictGet_dictSet_ne (d : List (Nat × GeoSet)) {k k' : Nat} (v : GeoSet) (hne : k' ≠ k) :
    dictGet (dictSet d k v) k' = dictGet d k' := by
  unfold dictSet
  split
  · exact dictGet_map_ne d v hne
  · exact dictGet_append_ne d v hne

theorem mem_dictPop {d : List (Nat × GeoSet)} {k : Nat} {x : Nat × GeoSet} :
    x ∈ dictPop d k ↔ x ∈ d ∧ x.1 ≠ k := by
  simp [dictPop]

theorem dictGet_dictPop (d : List (Nat × GeoSet)) (k k' : Nat) :
    dictGet (dictPop d k) k' = [] ∨ dictGet (dictPop d k) k' = dictGet d k' := by
  by_cases hkk : k' = k
  · left
    by_contra h
    exact (mem_dictPop.1 (dictGet_ne_nil_mem h)).2 hkk
  · right
    induction d with
    | nil => rfl
    | cons kv d ih =>
      by_cases hk : kv.1 = k
      · have hk' : ¬ kv.1 = k' := fun h' => hkk (h'.symm.trans hk)
        have e1 : dictPop (kv :: d) k = dictPop d k := by simp [dictPop, hk]
        rw [e1, ih, dictGet_cons, if_neg hk']
      · have e1 : dictPop (kv :: d) k = kv :: dictPop d k := by simp [dictPop, hk]
        rw [e1, dictGet_cons, dictGet_cons, ih]

/-- every entry is the one `dictGet` finds (no shadowed duplicates) -/
def DictFn (d : List (Nat × GeoSet)) : Prop := ∀ kv ∈ d, kv.2 = dictGet d kv.1

theorem DictFn.dictSet {d : List (Nat × GeoSet)} (h : DictFn d) (k : Nat) (v : GeoSet) :
    DictFn (dictSet d k v) := by
  intro kv hkv
  rcases mem_dictSet hkv with rfl | ⟨hm, hne⟩
  · exact (dictGet_dictSet_self d k v).symm
  · rw [dictGet_dictSet_ne d v hne]
    exact h kv hm

theorem dictFn_singleton (k : Nat) (v : GeoSet) : DictFn [(k, v)] := by
  intro kv hkv
  simp only [List.mem_singleton] at hkv
  subst hkv
  simp [dictGet]

end Search
end MM
