/-
Order facts for the greedy/exhaustive comparison: Python's tuple `<` on NaN-free scores is the
lexicographic order on `List Rat`, a strict weak (indeed total) order; a totalised comparison
`Design.ltT` agrees with `Design.lt` on NaN-free designs; the bounded queue gives the same
result for two comparisons that agree on the pushed items.
-/
import MM.Model.Search
import MM.Props.C14
import Mathlib.Algebra.Order.Ring.Rat

namespace MM.Search
open MM MM.HeapDict

/-- lexicographic `<` on lists of rationals (a proper prefix is smaller). -/
def lexLt : List Rat → List Rat → Bool
  | [], [] => false
  | [], _ :: _ => true
  | _ :: _, [] => false
  | a :: as, b :: bs => if a == b then lexLt as bs else decide (a < b)

theorem lexLt_irrefl (a : List Rat) : lexLt a a = false := by
  induction a with
  | nil => rfl
  | cons x xs ih => simp [lexLt, ih]

theorem lexLt_cons (x y : Rat) (xs ys : List Rat) :
    lexLt (x :: xs) (y :: ys) = true ↔ x < y ∨ (x = y ∧ lexLt xs ys = true) := by
  simp only [lexLt]
  by_cases h : x = y
  · subst h; simp
  · simp [h]

theorem lexLt_trans : ∀ a b c : List Rat, lexLt a b = true → lexLt b c = true → lexLt a c = true := by
  intro a
  induction a with
  | nil =>
    intro b c h1 h2
    cases b with
    | nil => simp [lexLt] at h1
    | cons y ys =>
      cases c with
      | nil => simp [lexLt] at h2
      | cons z zs => rfl
  | cons x xs ih =>
    intro b c h1 h2
    cases b with
    | nil => simp [lexLt] at h1
    | cons y ys =>
      cases c with
      | nil => simp [lexLt] at h2
      | cons z zs =>
        rw [lexLt_cons] at h1 h2 ⊢
        rcases h1 with h1 | ⟨rfl, h1⟩
        · rcases h2 with h2 | ⟨rfl, h2⟩
          · exact Or.inl (lt_trans h1 h2)
          · exact Or.inl h1
        · rcases h2 with h2 | ⟨rfl, h2⟩
          · exact Or.inl h2
          · exact Or.inr ⟨rfl, ih _ _ h1 h2⟩

theorem lexLt_negTrans : ∀ a b c : List Rat, lexLt a c = true →
    lexLt a b = true ∨ lexLt b c = true := by
  intro a
  induction a with
  | nil =>
    intro b c h
    cases c with
    | nil => simp [lexLt] at h
    | cons z zs =>
      cases b with
      | nil => exact Or.inr rfl
      | cons y ys => exact Or.inl rfl
  | cons x xs ih =>
    intro b c h
    cases c with
    | nil => simp [lexLt] at h
    | cons z zs =>
      cases b with
      | nil => exact Or.inr rfl
      | cons y ys =>
        rw [lexLt_cons] at h
        rw [lexLt_cons, lexLt_cons]
        rcases lt_trichotomy x y with hxy | rfl | hxy
        · exact Or.inl (Or.inl hxy)
        · rcases h with h | ⟨rfl, h⟩
          · exact Or.inr (Or.inl h)
          · rcases ih ys zs h with h' | h'
            · exact Or.inl (Or.inr ⟨rfl, h'⟩)
            · exact Or.inr (Or.inr ⟨rfl, h'⟩)
        · rcases h with h | ⟨rfl, h⟩
          · exact Or.inr (Or.inl (lt_trans hxy h))
          · exact Or.inr (Or.inl hxy)

/-- NaN entries replaced by 0 -/
def cleanScore (s : Score) : List Rat := s.map (·.getD 0)

theorem scoreLt_eq_lexLt : ∀ s t : Score, scoreNaNFree s = true → scoreNaNFree t = true →
    scoreLt s t = lexLt (cleanScore s) (cleanScore t) := by
  intro s
  induction s with
  | nil =>
    intro t _ _
    cases t <;> rfl
  | cons a as ih =>
    intro t hs ht
    cases t with
    | nil => rfl
    | cons b bs =>
      simp only [scoreNaNFree, List.all_cons, Bool.and_eq_true] at hs ht
      cases a with
      | none => simp at hs
      | some a =>
        cases b with
        | none => simp at ht
        | some b =>
          have := ih bs hs.2 ht.2
          simp only [scoreLt, entryEq, entryLt, cleanScore, List.map_cons, Option.getD_some, lexLt]
          simp only [cleanScore] at this
          rw [this]
          rfl

theorem scoreLt_irrefl {s : Score} (hs : scoreNaNFree s = true) : scoreLt s s = false := by
  rw [scoreLt_eq_lexLt s s hs hs, lexLt_irrefl]

theorem scoreLt_trans {s t u : Score} (hs : scoreNaNFree s = true) (ht : scoreNaNFree t = true)
    (hu : scoreNaNFree u = true) (h1 : scoreLt s t = true) (h2 : scoreLt t u = true) :
    scoreLt s u = true := by
  rw [scoreLt_eq_lexLt _ _ hs ht] at h1
  rw [scoreLt_eq_lexLt _ _ ht hu] at h2
  rw [scoreLt_eq_lexLt _ _ hs hu]
  exact lexLt_trans _ _ _ h1 h2

/-- the totalised comparison of designs -/
def Design.ltT (a b : Design) : Bool := lexLt (cleanScore a.score) (cleanScore b.score)

theorem strictWeak_ltT : StrictWeak Design.ltT where
  irrefl := fun _ => lexLt_irrefl _
  trans := fun _ _ _ => lexLt_trans _ _ _
  negTrans := fun _ _ _ => lexLt_negTrans _ _ _

theorem Design.lt_eq_ltT {a b : Design} (ha : scoreNaNFree a.score = true)
    (hb : scoreNaNFree b.score = true) : Design.lt a b = Design.ltT a b :=
  scoreLt_eq_lexLt _ _ ha hb

/-! ### the queue only looks at comparisons between pushed items -/

section Queue
variable {α : Type}

theorem g_insertAsc_congr {lt lt' : α → α → Bool} {x : α} {q : List α}
    (h : ∀ y ∈ q, lt x y = lt' x y) : insertAsc lt x q = insertAsc lt' x q := by
  induction q with
  | nil => rfl
  | cons y ys ih =>
    unfold insertAsc
    rw [h y List.mem_cons_self, ih (fun z hz => h z (List.mem_cons_of_mem _ hz))]

theorem g_mem_pushQueue {lt : α → α → Bool} {size : Nat} {x a : α} {q : List α}
    (h : a ∈ pushQueue lt size x q) : a = x ∨ a ∈ q := by
  unfold pushQueue at h
  split at h
  · exact (mem_insertAsc lt x a q).1 h
  · cases q with
    | nil => simp at h
    | cons m rest =>
      dsimp only at h
      split at h
      · rcases (mem_insertAsc lt x a rest).1 h with h | h
        · exact Or.inl h
        · exact Or.inr (List.mem_cons_of_mem _ h)
      · exact Or.inr h

theorem g_pushQueue_congr {lt lt' : α → α → Bool} {size : Nat} {x : α} {q : List α}
    (h : ∀ a ∈ x :: q, ∀ b ∈ x :: q, lt a b = lt' a b) :
    pushQueue lt size x q = pushQueue lt' size x q := by
  unfold pushQueue
  split
  · exact g_insertAsc_congr (fun y hy => h x List.mem_cons_self y (List.mem_cons_of_mem _ hy))
  · cases q with
    | nil => rfl
    | cons m rest =>
      dsimp only
      rw [h m (by simp) x (by simp)]
      split
      · exact g_insertAsc_congr (fun y hy => h x List.mem_cons_self y (by simp [hy]))
      · rfl

theorem mem_foldQ {lt : α → α → Bool} {size : Nat} {a : α} {q xs : List α}
    (h : a ∈ foldQ lt size q xs) : a ∈ q ∨ a ∈ xs := by
  induction xs generalizing q with
  | nil => exact Or.inl h
  | cons x xs ih =>
    rw [foldQ_cons] at h
    rcases ih h with h | h
    · rcases g_mem_pushQueue h with rfl | h
      · exact Or.inr List.mem_cons_self
      · exact Or.inl h
    · exact Or.inr (List.mem_cons_of_mem _ h)

theorem g_foldQ_congr {lt lt' : α → α → Bool} (G : α → Prop)
    (hG : ∀ a b, G a → G b → lt a b = lt' a b) {size : Nat} {q xs : List α}
    (hq : ∀ a ∈ q, G a) (hxs : ∀ a ∈ xs, G a) : foldQ lt size q xs = foldQ lt' size q xs := by
  induction xs generalizing q with
  | nil => rfl
  | cons x xs ih =>
    have hx : G x := hxs x List.mem_cons_self
    have hall : ∀ a ∈ x :: q, G a := by
      intro a ha
      rcases List.mem_cons.1 ha with rfl | ha
      · exact hx
      · exact hq a ha
    rw [foldQ_cons, foldQ_cons,
      g_pushQueue_congr (lt := lt) (lt' := lt') (fun a ha b hb => hG a b (hall a ha) (hall b hb))]
    refine ih ?_ (fun a ha => hxs a (List.mem_cons_of_mem _ ha))
    intro a ha
    rcases g_mem_pushQueue ha with rfl | ha
    · exact hx
    · exact hq a ha

end Queue

/-! ### `topK` -/

/-- `topK` with the totalised comparison -/
def topKT (k : Nat) (ds : List Design) : List Design :=
  HeapDict.resultFor (HeapDict.pushAll Design.ltT (HeapDict.init k) (ds.map fun d => ((0 : Nat), d))) 0

theorem g_pushedFor_zero (ds : List Design) :
    pushedFor (0 : Nat) (ds.map fun d => ((0 : Nat), d)) = ds := by
  induction ds with
  | nil => rfl
  | cons d ds ih =>
    simp only [pushedFor, List.map_cons, List.filter_cons, beq_self_eq_true, if_true] at ih ⊢
    rw [ih]

theorem g_topK_eq (k : Nat) (ds : List Design) : topK k ds = (foldQ Design.lt k [] ds).reverse := by
  unfold topK resultFor
  rw [lookup_pushAll_init, g_pushedFor_zero]

theorem topKT_eq (k : Nat) (ds : List Design) : topKT k ds = (foldQ Design.ltT k [] ds).reverse := by
  unfold topKT resultFor
  rw [lookup_pushAll_init, g_pushedFor_zero]

theorem mem_topK {k : Nat} {ds : List Design} {d : Design} (h : d ∈ topK k ds) : d ∈ ds := by
  rw [g_topK_eq, List.mem_reverse] at h
  rcases mem_foldQ h with h | h
  · simp at h
  · exact h

theorem topK_eq_topKT {k : Nat} {ds : List Design}
    (h : ∀ d ∈ ds, scoreNaNFree d.score = true) : topK k ds = topKT k ds := by
  rw [g_topK_eq, topKT_eq,
    g_foldQ_congr (fun d : Design => scoreNaNFree d.score = true)
      (fun a b ha hb => Design.lt_eq_ltT ha hb) (by simp) h]

theorem length_topK_le (k : Nat) (ds : List Design) : (topK k ds).length ≤ k := by
  unfold topK
  rw [C14_length]
  exact Nat.min_le_left _ _

/-- best first: no design is strictly below a later one -/
theorem topK_sorted {k : Nat} {ds : List Design}
    (h : ∀ d ∈ ds, scoreNaNFree d.score = true) :
    (topK k ds).Pairwise (fun a b => Design.lt a b = false) := by
  have hs : (topKT k ds).Pairwise (fun a b => Design.ltT a b = false) :=
    C14_sorted Design.ltT strictWeak_ltT k _ 0
  rw [← topK_eq_topKT h] at hs
  refine hs.imp_of_mem ?_
  intro a b ha hb hab
  rw [Design.lt_eq_ltT (h a (mem_topK ha)) (h b (mem_topK hb))]
  exact hab

/-- nothing pushed is strictly above the head of the result -/
theorem topK_head_max {k : Nat} {ds : List Design}
    (h : ∀ d ∈ ds, scoreNaNFree d.score = true) {best : Design} {rest : List Design}
    (hk : topK k ds = best :: rest) {g : Design} (hg : g ∈ ds) : Design.lt best g = false := by
  have hbest : best ∈ ds := mem_topK (by rw [hk]; exact List.mem_cons_self)
  rw [Design.lt_eq_ltT (h best hbest) (h g hg)]
  have hkT : topKT k ds = best :: rest := by rw [← topK_eq_topKT h]; exact hk
  obtain ⟨dropped, hperm, hdom⟩ := C14_topk Design.ltT strictWeak_ltT k
    (ds.map fun d => ((0 : Nat), d)) 0
  have hs : (topKT k ds).Pairwise (fun a b => Design.ltT a b = false) :=
    C14_sorted Design.ltT strictWeak_ltT k _ 0
  rw [g_pushedFor_zero] at hperm
  change (topKT k ds ++ dropped).Perm ds at hperm
  change ∀ d ∈ dropped, ∀ x ∈ topKT k ds, Design.ltT x d = false at hdom
  rw [hkT] at hperm hdom hs
  have hg' : g ∈ (best :: rest) ++ dropped := hperm.symm.subset hg
  rcases List.mem_append.1 hg' with hg' | hg'
  · rcases List.mem_cons.1 hg' with rfl | hg'
    · exact strictWeak_ltT.irrefl _
    · exact (List.pairwise_cons.1 hs).1 g hg'
  · exact hdom g hg' best List.mem_cons_self

end MM.Search
