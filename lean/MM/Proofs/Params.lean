/-
Helper lemmas for C17 (TBRMMDesignParameters): characterisation of the three validation
helpers, of `List.forM` in the `Py` monad, of `notIntegral`, and of `pyEq`.
-/
import MM.Model.Params
namespace MM.Params
open MM

/-- decidable equality on results of `postInit` (for the concrete `example`s). -/
instance instDecidableEqPyUnit : DecidableEq (Py Unit)
  | .ok (), .ok () => isTrue rfl
  | .error a, .error b => if h : a = b then isTrue (by rw [h]) else isFalse (by intro h'; cases h'; exact h rfl)
  | .ok (), .error _ => isFalse (by intro h; cases h)
  | .error _, .ok () => isFalse (by intro h; cases h)

/-! ### `notIntegral` -/

theorem notIntegral_fin (q : Rat) : notIntegral (.fin q) = false ↔ ∃ z : Int, q = (z : Rat) := by
  simp only [notIntegral, decide_eq_false_iff_not, ne_eq, Classical.not_not]
  constructor
  · intro h; exact ⟨_, h⟩
  · rintro ⟨z, rfl⟩; rw [Rat.floor_intCast]

theorem notIntegral_false_iff (x : PyFloat) :
    notIntegral x = false ↔ ∃ z : Int, x = .fin (z : Rat) := by
  cases x with
  | fin q =>
    rw [notIntegral_fin]
    constructor
    · rintro ⟨z, rfl⟩; exact ⟨z, rfl⟩
    · rintro ⟨z, h⟩; cases h; exact ⟨z, rfl⟩
  | pinf => simp [notIntegral]
  | ninf => simp [notIntegral]
  | nan => simp [notIntegral]

/-! ### `forM` in the `Py` monad -/

theorem forM_ok_iff {α : Type} (f : α → Py Unit) (l : List α) :
    l.forM f = .ok () ↔ ∀ c ∈ l, f c = .ok () := by
  induction l with
  | nil => simp [pure, Except.pure]
  | cons a l ih =>
    rw [List.forM]
    cases h : f a with
    | error e => simp [bind, Except.bind, h]
    | ok u =>
      cases u
      simp only [bind, Except.bind, List.forall_mem_cons, h, true_and]
      exact ih

theorem forM_total {α : Type} (f : α → Py Unit) (l : List α)
    (h : ∀ c ∈ l, f c = .ok () ∨ f c = .error .valueError) :
    l.forM f = .ok () ∨ l.forM f = .error .valueError := by
  induction l with
  | nil => left; simp [pure, Except.pure]
  | cons a l ih =>
    rw [List.forM]
    rcases h a (by simp) with h1 | h1
    · simp only [h1, bind, Except.bind]
      exact ih (fun c hc => h c (by simp [hc]))
    · right; simp [h1, bind, Except.bind]

/-! ### the three helpers -/

theorem testVsThreshold_total (opt : Bool) (v : PyVal) (op : Op) (b : Bound) :
    testVsThreshold opt v op b = .ok () ∨ testVsThreshold opt v op b = .error .valueError := by
  unfold testVsThreshold
  split
  · split <;> simp
  · split
    · simp
    · split
      · simp
      · split <;> simp

theorem testWithinBounds_total (opt : Bool) (lo : Bound) (op1 : Op) (v : PyVal) (op2 : Op) (hi : Bound) :
    testWithinBounds opt lo op1 v op2 hi = .ok () ∨
      testWithinBounds opt lo op1 v op2 hi = .error .valueError := by
  unfold testWithinBounds
  split
  · split <;> simp
  · split
    · simp
    · split
      · simp
      · split <;> simp

theorem testRange_total (opt : Bool) (lo : Bound) (op1 : Op) (v : PyVal) (op3 op2 : Op) (hi : Bound) :
    testRange opt lo op1 v op3 op2 hi = .ok () ∨
      testRange opt lo op1 v op3 op2 hi = .error .valueError := by
  unfold testRange
  split
  · split <;> simp
  · split
    · simp
    · split
      · simp
      · split
        · simp
        · split <;> simp
  · simp

theorem testVsThreshold_ok_iff (opt : Bool) (v : PyVal) (op : Op) (b : Bound) :
    testVsThreshold opt v op b = .ok () ↔
      (v = .none ∧ opt = true) ∨
      (v.isNum = true ∧ op.test v.num b.num = true ∧
        (b.isInt = true → notIntegral v.num = false)) := by
  cases v <;> simp [testVsThreshold, PyVal.isNum] <;> grind

theorem testWithinBounds_ok_iff (opt : Bool) (lo : Bound) (op1 : Op) (v : PyVal) (op2 : Op) (hi : Bound) :
    testWithinBounds opt lo op1 v op2 hi = .ok () ↔
      (v = .none ∧ opt = true) ∨
      (v.isNum = true ∧ op1.test lo.num v.num = true ∧ op2.test v.num hi.num = true ∧
        (lo.isInt = true → notIntegral v.num = false)) := by
  cases v <;> simp [testWithinBounds, PyVal.isNum] <;> grind

theorem testRange_ok_iff (opt : Bool) (lo : Bound) (op1 : Op) (v : PyVal) (op3 op2 : Op) (hi : Bound) :
    testRange opt lo op1 v op3 op2 hi = .ok () ↔
      (v = .none ∧ opt = true) ∨
      ∃ a b, v = .tuple [a, b] ∧ a.isNum = true ∧ b.isNum = true ∧
        op1.test lo.num a.num = true ∧ op2.test b.num hi.num = true ∧ op3.test a.num b.num = true ∧
        (lo.isInt = true → notIntegral a.num = false ∧ notIntegral b.num = false) := by
  unfold testRange
  split
  · simp
  · simp
    grind
  · rename_i h1 h2
    simp
    done

end MM.Params
