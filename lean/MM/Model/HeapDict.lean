/-
Model of matched_markets/methodology/heapdict.py (C14).

`heapq` is abstracted: a queue is kept as an ascending list, the heap root is its
head.  Which of several *tied* minimal items the real binary heap evicts is CPython
detail; the model evicts the first.  All theorems are about order keys only.
-/
import MM.Model.Basic
namespace MM.HeapDict

variable {κ α : Type}

/-- insert `x` into an ascending list, after all items `y` with `¬ lt x y`. -/
def insertAsc (lt : α → α → Bool) (x : α) : List α → List α
  | [] => [x]
  | y :: ys => if lt x y then x :: y :: ys else y :: insertAsc lt x ys

structure State (κ α : Type) where
  size : Nat
  qs : List (κ × List α)        -- keys in first-push order; queues ascending

def init (size : Nat) : State κ α := { size := size, qs := [] }

def lookup [BEq κ] (k : κ) : List (κ × List α) → List α
  | [] => []
  | (k', q) :: rest => if k' == k then q else lookup k rest

def store [BEq κ] (k : κ) (q : List α) : List (κ × List α) → List (κ × List α)
  | [] => [(k, q)]
  | (k', q') :: rest => if k' == k then (k', q) :: rest else (k', q') :: store k q rest

/-- `heappush` when below capacity, otherwise `heappushpop`. -/
def pushQueue (lt : α → α → Bool) (size : Nat) (x : α) (q : List α) : List α :=
  if q.length < size then insertAsc lt x q
  else match q with
    | [] => []
    | m :: rest => if lt m x then insertAsc lt x rest else m :: rest

def push [BEq κ] (lt : α → α → Bool) (s : State κ α) (k : κ) (x : α) : State κ α :=
  { s with qs := store k (pushQueue lt s.size x (lookup k s.qs)) s.qs }

/-- `get_result`: every queue in descending order (a fresh value; the state is untouched). -/
def getResult (s : State κ α) : List (κ × List α) := s.qs.map fun (k, q) => (k, q.reverse)

/-! `heapq` primitives on the ascending-list representation, named as in the source so that the translator (T7) can
regenerate `push` / `get_result` over them. -/
def heapq_heappush (lt : α → α → Bool) (q : List α) (x : α) : List α := insertAsc lt x q

/-- push then pop the smallest: the root leaves only if it is smaller than the new item; on an empty heap the item itself leaves. -/
def heapq_heappushpop (lt : α → α → Bool) (q : List α) (x : α) : List α :=
  match q with
  | [] => []
  | m :: rest => if lt m x then insertAsc lt x rest else m :: rest

/-- the `n` largest, largest first -/
def heapq_nlargest (_lt : α → α → Bool) (n : Nat) (q : List α) : List α := q.reverse.take n

def pushAll [BEq κ] (lt : α → α → Bool) (s : State κ α) (ops : List (κ × α)) : State κ α :=
  ops.foldl (fun s (k, x) => push lt s k x) s

/-- what `get_result()[k]` is after the pushes (`[]` when the key is absent). -/
def resultFor [BEq κ] (s : State κ α) (k : κ) : List α := (lookup k s.qs).reverse

end MM.HeapDict
