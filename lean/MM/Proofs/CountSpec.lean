/-
C11 (B): an explicit duplicate-free enumeration `specList` of the legal pairs, by recursion on
the class list (index 0 first, the remaining indices shifted by one).
-/
import MM.Proofs.CountListing

namespace MM.Search
open MM

def shift (T : GeoSet) : GeoSet := T.map (· + 1)
def unshift (T : GeoSet) : GeoSet := (T.filter (· ≠ 0)).map (· - 1)

theorem mem_shift_succ {T : GeoSet} {i : Nat} : i + 1 ∈ shift T ↔ i ∈ T := by
  simp [shift]

theorem zero_not_mem_shift {T : GeoSet} : 0 ∉ shift T := by
  simp [shift]

theorem mem_unshift {T : GeoSet} {i : Nat} : i ∈ unshift T ↔ i + 1 ∈ T := by
  simp only [unshift, List.mem_map, List.mem_filter]
  constructor
  · rintro ⟨x, ⟨hx, h0⟩, rfl⟩
    have : x ≠ 0 := by simpa using h0
    have e : x - 1 + 1 = x := by omega
    rw [e]; exact hx
  · intro h; exact ⟨i + 1, ⟨h, by simp⟩, by simp⟩

theorem sorted_shift {T : GeoSet} (h : SSorted T) : SSorted (shift T) :=
  List.Pairwise.map _ (fun _ _ hab => Nat.succ_lt_succ hab) h

theorem sorted_cons_shift {T : GeoSet} (h : SSorted T) : SSorted (0 :: shift T) := by
  refine List.pairwise_cons.2 ⟨?_, sorted_shift h⟩
  intro x hx
  simp only [shift, List.mem_map] at hx
  obtain ⟨y, _, rfl⟩ := hx
  omega

theorem sorted_unshift {T : GeoSet} (h : SSorted T) : SSorted (unshift T) := by
  unfold unshift
  have h1 : (T.filter (· ≠ 0)).Pairwise (fun a b => a ≠ 0 ∧ a < b) := by
    refine (List.Pairwise.filter _ h).imp_of_mem ?_
    intro a b ha _ hab
    exact ⟨by simpa using (List.mem_filter.1 ha).2, hab⟩
  exact List.Pairwise.map _ (fun a b hab => by omega) h1

theorem shift_injective : Function.Injective shift :=
  List.map_injective_iff.2 (fun _ _ h => Nat.succ.inj h)

theorem unshift_shift (T : GeoSet) : unshift (shift T) = T := by
  induction T with
  | nil => rfl
  | cons a T ih => simpa [unshift, shift] using ih

theorem unshift_cons_zero (T : GeoSet) : unshift (0 :: T) = unshift T := by
  simp [unshift]

theorem eq_shift_unshift {T : GeoSet} (h : SSorted T) (h0 : 0 ∉ T) : T = shift (unshift T) := by
  refine SSorted.eq_of_mem_iff h (sorted_shift (sorted_unshift h)) (fun x => ?_)
  cases x with
  | zero => simp [h0, zero_not_mem_shift]
  | succ x => rw [mem_shift_succ, mem_unshift]

theorem eq_cons_shift_unshift {T : GeoSet} (h : SSorted T) (h0 : 0 ∈ T) :
    T = 0 :: shift (unshift T) := by
  refine SSorted.eq_of_mem_iff h (sorted_cons_shift (sorted_unshift h)) (fun x => ?_)
  cases x with
  | zero => simp [h0]
  | succ x => simp [mem_shift_succ, mem_unshift]

/-- all legal pairs of a class list, each exactly once. -/
def specList : List GeoClass → List (GeoSet × GeoSet)
  | [] => [([], [])]
  | g :: rest =>
    (if g.canT then (specList rest).map (fun TC => (0 :: shift TC.1, shift TC.2)) else []) ++
    (if g.canC then (specList rest).map (fun TC => (shift TC.1, 0 :: shift TC.2)) else []) ++
    (if g.canX then (specList rest).map (fun TC => (shift TC.1, shift TC.2)) else [])

theorem mem_ite_nil {α : Type} {c : Bool} {l : List α} {x : α} :
    x ∈ (if c = true then l else []) ↔ c = true ∧ x ∈ l := by
  cases c <;> simp

theorem Legal_nil {T C : GeoSet} : Legal [] T C ↔ T = [] ∧ C = [] := by
  constructor
  · rintro ⟨_, _, h, _⟩
    exact ⟨List.eq_nil_iff_forall_not_mem.2 fun i => (h i (by simp)).1,
      List.eq_nil_iff_forall_not_mem.2 fun i => (h i (by simp)).2⟩
  · rintro ⟨rfl, rfl⟩
    exact ⟨List.Pairwise.nil, List.Pairwise.nil, fun i _ => by simp, fun i g h => by simp at h⟩

theorem Legal_cons {g : GeoClass} {rest : List GeoClass} {T C : GeoSet} :
    Legal (g :: rest) T C ↔
      Legal rest (unshift T) (unshift C) ∧ SSorted T ∧ SSorted C ∧
        (0 ∈ T → 0 ∉ C ∧ g.canT = true) ∧ (0 ∈ C → g.canC = true) ∧
        (0 ∉ T → 0 ∉ C → g.canX = true) := by
  constructor
  · rintro ⟨hT, hC, hnone, hsome⟩
    refine ⟨⟨sorted_unshift hT, sorted_unshift hC, ?_, ?_⟩, hT, hC, ?_⟩
    · intro i hi
      simpa only [mem_unshift] using hnone (i + 1) (by simpa using hi)
    · intro i g' hi
      simpa only [mem_unshift] using hsome (i + 1) g' (by simpa using hi)
    · exact hsome 0 g (by simp)
  · rintro ⟨⟨_, _, hnone, hsome⟩, hT, hC, h0⟩
    refine ⟨hT, hC, ?_, ?_⟩
    · intro i hi
      cases i with
      | zero => simp at hi
      | succ i => simpa only [mem_unshift] using hnone i (by simpa using hi)
    · intro i g' hi
      cases i with
      | zero =>
        have : g = g' := by simpa using hi
        subst this; exact h0
      | succ i => simpa only [mem_unshift] using hsome i g' (by simpa using hi)

theorem mem_specList {cls : List GeoClass} {T C : GeoSet} :
    (T, C) ∈ specList cls ↔ Legal cls T C := by
  induction cls generalizing T C with
  | nil => simp [specList, Legal_nil]
  | cons g rest ih =>
    simp only [specList, List.mem_append, mem_ite_nil, List.mem_map, Prod.mk.injEq, Prod.exists]
    rw [Legal_cons]
    constructor
    · rintro ((⟨hg, T', C', hm, rfl, rfl⟩ | ⟨hg, T', C', hm, rfl, rfl⟩) | ⟨hg, T', C', hm, rfl, rfl⟩)
      · have hL := ih.1 hm
        simp only [unshift_cons_zero, unshift_shift]
        exact ⟨hL, sorted_cons_shift hL.1, sorted_shift hL.2.1,
          fun _ => ⟨zero_not_mem_shift, hg⟩, fun h => absurd h zero_not_mem_shift,
          fun h => absurd List.mem_cons_self h⟩
      · have hL := ih.1 hm
        simp only [unshift_cons_zero, unshift_shift]
        exact ⟨hL, sorted_shift hL.1, sorted_cons_shift hL.2.1,
          fun h => absurd h zero_not_mem_shift, fun _ => hg,
          fun _ h => absurd List.mem_cons_self h⟩
      · have hL := ih.1 hm
        simp only [unshift_shift]
        exact ⟨hL, sorted_shift hL.1, sorted_shift hL.2.1,
          fun h => absurd h zero_not_mem_shift, fun h => absurd h zero_not_mem_shift,
          fun _ _ => hg⟩
    · rintro ⟨hL, hT, hC, h1, h2, h3⟩
      have hm := ih.2 hL
      by_cases hT0 : 0 ∈ T
      · exact Or.inl (Or.inl ⟨(h1 hT0).2, _, _, hm, (eq_cons_shift_unshift hT hT0).symm,
          (eq_shift_unshift hC (h1 hT0).1).symm⟩)
      · by_cases hC0 : 0 ∈ C
        · exact Or.inl (Or.inr ⟨h2 hC0, _, _, hm, (eq_shift_unshift hT hT0).symm,
            (eq_cons_shift_unshift hC hC0).symm⟩)
        · exact Or.inr ⟨h3 hT0 hC0, _, _, hm, (eq_shift_unshift hT hT0).symm,
            (eq_shift_unshift hC hC0).symm⟩

theorem nodup_specList (cls : List GeoClass) : (specList cls).Nodup := by
  induction cls with
  | nil => simp [specList]
  | cons g rest ih =>
    have i1 : Function.Injective (fun TC : GeoSet × GeoSet => (0 :: shift TC.1, shift TC.2)) := by
      rintro ⟨a, b⟩ ⟨a', b'⟩ h
      simp only [Prod.mk.injEq, List.cons.injEq, true_and] at h
      rw [shift_injective h.1, shift_injective h.2]
    have i2 : Function.Injective (fun TC : GeoSet × GeoSet => (shift TC.1, 0 :: shift TC.2)) := by
      rintro ⟨a, b⟩ ⟨a', b'⟩ h
      simp only [Prod.mk.injEq, List.cons.injEq, true_and] at h
      rw [shift_injective h.1, shift_injective h.2]
    have i3 : Function.Injective (fun TC : GeoSet × GeoSet => (shift TC.1, shift TC.2)) := by
      rintro ⟨a, b⟩ ⟨a', b'⟩ h
      simp only [Prod.mk.injEq] at h
      rw [shift_injective h.1, shift_injective h.2]
    have n1 : (if g.canT = true then
        (specList rest).map (fun TC => (0 :: shift TC.1, shift TC.2)) else []).Nodup := by
      split
      · exact ih.map i1
      · exact List.nodup_nil
    have n2 : (if g.canC = true then
        (specList rest).map (fun TC => (shift TC.1, 0 :: shift TC.2)) else []).Nodup := by
      split
      · exact ih.map i2
      · exact List.nodup_nil
    have n3 : (if g.canX = true then
        (specList rest).map (fun TC => (shift TC.1, shift TC.2)) else []).Nodup := by
      split
      · exact ih.map i3
      · exact List.nodup_nil
    simp only [specList]
    refine List.Nodup.append (List.Nodup.append n1 n2 ?_) n3 ?_
    · intro X h1 h2
      obtain ⟨_, TC, _, rfl⟩ := (mem_ite_nil.trans (and_congr_right fun _ => List.mem_map)).1 h1
      obtain ⟨_, TC', _, h⟩ := (mem_ite_nil.trans (and_congr_right fun _ => List.mem_map)).1 h2
      have : 0 ∈ shift TC'.1 := by rw [(Prod.mk.inj h).1]; exact List.mem_cons_self
      exact zero_not_mem_shift this
    · intro X h1 h2
      obtain ⟨_, TC', _, rfl⟩ := (mem_ite_nil.trans (and_congr_right fun _ => List.mem_map)).1 h2
      rcases List.mem_append.1 h1 with h1 | h1
      · obtain ⟨_, TC, _, h⟩ := (mem_ite_nil.trans (and_congr_right fun _ => List.mem_map)).1 h1
        have : 0 ∈ shift TC'.1 := by rw [← (Prod.mk.inj h).1]; exact List.mem_cons_self
        exact zero_not_mem_shift this
      · obtain ⟨_, TC, _, h⟩ := (mem_ite_nil.trans (and_congr_right fun _ => List.mem_map)).1 h1
        have : 0 ∈ shift TC'.2 := by rw [← (Prod.mk.inj h).2]; exact List.mem_cons_self
        exact zero_not_mem_shift this

theorem length_shift (T : GeoSet) : (shift T).length = T.length := by simp [shift]

end MM.Search
