#!/venv/bin/python
"""Development tool: with a fix reverted in /repo (done by the caller), search generated instances for one on which
the given judge reports a violation; shrink nothing, just save it to corpus/search/<name>.json."""
import sys, os, json, random
sys.path.insert(0, '/verif/harness')
import core, engines.search as se
import multiprocessing as mp

def main():
  name, judge_name, n = sys.argv[1], sys.argv[2], int(sys.argv[3])
  force = json.loads(sys.argv[4]) if len(sys.argv) > 4 else None
  rng = random.Random('corpus-' + name)
  jobs = []
  for i in range(n):
    inst = se.gen_instance(rng, 'quick', max_admitted=5)
    if force:
      for k, v in force.get('params', {}).items():
        inst['params'][k] = v
      if force.get('need_tfixed') and not (inst['elig'] and any(tuple(v) == (0, 1, 0) for v in inst['elig'].values())):
        if inst['elig'] is None:
          inst['elig'] = {g: [1, 1, 1] for g in inst['geos']}
        g = rng.choice(list(inst['elig']))
        inst['elig'][g] = [0, 1, 0]
    jobs.append((f'c{i}', inst))
  with mp.Pool(16) as pool:
    recs = pool.map(se.process, jobs, chunksize=4)
  judge = getattr(se, judge_name)
  best = None
  for r in recs:
    out = core.Outcome('X', 'quick')
    try:
      judge(out, {'recs': [r]})
    except Exception as e:
      continue
    if out.violations:
      size = len(r['inst']['rows'])
      if best is None or size < best[0]:
        best = (size, r, out.violations[0]['text'])
  if best is None:
    print('nothing found'); return 1
  _, r, text = best
  with open(f'/verif/corpus/search/{name}.json', 'w') as f:
    json.dump({'note': text, 'inst': r['inst']}, f)
  print('saved', name, text[:200])
  return 0

if __name__ == '__main__':
  sys.exit(main())
