"""C04: diagnostics and score attached to a design belong to its reported geos."""
import core
import engines.search as se
from props._searchprop import SEARCH_TARGETS, SEARCH_TRUST, run_search_prop, replay_search

PROP = 'C04'
LEAN_TARGETS = SEARCH_TARGETS + ['MM.Props.C04Series', 'MM.Props.DiagTests', 'MM.Props.DiagTestsTie', 'MM.Model.DiagTests', 'MM.Model.Numeric']
THEOREMS = ['MM.Search.' + n for n in ('C04_score_of_design', 'C04_greedy_score', 'exhaustive_sub_evaluated')] + ['MM.Data.C04_series', 'MM.Data.C04_series_length', 'MM.Data.C04_window'] + ['MM.Numeric.corr_abs_le_one', 'MM.Numeric.dwStat_range', 'MM.Numeric.bbBounds_length', 'MM.Numeric.bbBounds_nonneg', 'MM.Numeric.bbBounds_symm', 'MM.Numeric.bbOk_scale', 'MM.Numeric.dwStat_scale', 'MM.Numeric.aaTest_contains_zero', 'MM.Numeric.aaTest_verdict', 'MM.Numeric.aaTest_interval', 'MM.Numeric.float_order_lt', 'MM.Numeric.tie_corr_test', 'MM.Numeric.tie_dw_test', 'MM.Numeric.tie_bb_test', 'MM.Numeric.tie_aa_test']
TRUSTED_BASE = SEARCH_TRUST + ['the comparisons deciding the four diagnostic tests (corr >= min_corr, dw_min < dw < dw_max, no |cum. residual| > bound, lower*upper < 0, prob <= threshold) are regenerated from tbrmmdiagnostics.py (T9) and proved to be those of the model (MM/Props/DiagTestsTie.lean)', 'aliasing of stored diagnostics objects (deepcopy) and float summation order are runtime behaviour: carried by the oracle and the push-log correspondence, not by a theorem (partial)']


SUPPORTS_DEEPEN = True


def tests_against_model(out, tier):
  """The four test outcomes in the score of returned designs vs the Lean model of the tests (MM/Model/DiagTests.lean at Float)."""
  import math
  from scipy import stats
  import engines.numeric as en
  res = se.get_results(tier)
  sess = en.ModelSession()
  pend = []
  for r in se.iter_results(res):
    p = r['resolved']
    n_test = int(p['n_test'])
    for which in ('exh', 'greedy'):
      for d in (r[which].get('result') or [])[:6]:
        if d['diag_x'] is None or len(pend) >= (300 if tier == 'quick' else 4000):
          continue
        x, y = d['diag_x'], d['diag_y']
        n = len(x)
        if n - n_test < 3 or any(math.isnan(v) for v in d['score']):
          continue
        tq = stats.t.ppf(p.get('sig_level', 0.9), n - n_test - 2)
        sess.set_series(x, y, [0.0], [0.0])
        rq = sess.req(f'tests {n_test} {en.bits(tq)} {en.bits(p.get("min_corr", 0.8))} {en.bits(3.0)} {en.bits(1.5)} {en.bits(2.5)}', 1)
        phi = stats.f.ppf(p.get('flevel', 0.9), 1, n - 1)
        tqs, tqp = stats.t.ppf(p.get('sig_level', 0.9), n - 2), stats.t.ppf(p.get('power_level', 0.8), n - 2)
        rd = sess.req(f'design {n_test} {en.bits(phi)} {en.bits(tqs)} {en.bits(tqp)} {en.bits(0.5)}', 1)
        pend.append((se.case_of(r, which), d, rq, n, n_test, tq, rd))
  if not pend:
    return
  outl = sess.run()
  n_cmp = 0
  for case, d, rq, n, n_test, tq, rd in pend:
    mcorr, mimp = en.parse_vals(outl[rd][0])[:2]
    if d['diag_corr'] is not None and abs(d['diag_corr']) < 0.99999 and not (
        en.close(mcorr, d['diag_corr'], 1e-9, 1.0) and en.close(mimp, d['diag_impact'], 1e-7)):
      out.mismatch('diag-impact', case, f'design T={d["Tids"]} C={d["Cids"]}: correlation / required impact held by the design '
                   f'({d["diag_corr"]}, {d["diag_impact"]}) differ from the model formula on its series ({mcorr}, {mimp})')
      continue
    dw, dw_ok, bb_ok, corr_ok, lo, up, has_p, pa, pb = en.parse_vals(outl[rq][0])
    if has_p:
      # recover the two standardised arguments from the probes (cdf z -> z and z -> z*z) and push them through scipy's cdf
      a1, b1 = pa - 1.0, pb - 1.0            # a1 = tq2 - tq1, b1 = tq2^2 - tq1^2
      ssum = b1 / a1 if a1 != 0 else float('nan')
      tq1, tq2 = (ssum - a1) / 2, (ssum + a1) / 2
      prob = 1 - stats.t.cdf(tq1, n - n_test - 2) + stats.t.cdf(tq2, n - n_test - 2)
      if abs(prob - 0.2) < 1e-6:
        continue                              # verdict on a knife edge: not compared
      aa_ok = prob <= 0.2
    else:
      aa_ok = True
    want = [float(corr_ok), float(aa_ok), float(bb_ok), float(dw_ok)]
    got = [float(v) for v in d['score'][:4]]
    # knife edges of the other tests
    if abs(dw - 1.5) < 1e-9 or abs(dw - 2.5) < 1e-9 or abs(d['diag_corr'] - case['resolved'].get('min_corr', 0.8)) < 1e-9:
      continue
    n_cmp += 1
    if want != got:
      out.mismatch('diag-tests', case, f'design T={d["Tids"]} C={d["Cids"]}: test outcomes in the score {got}, model of the tests gives {want} '
                   f'(dw={dw}, A/A interval [{lo}, {up}])')
  out.extra['test_outcomes_compared_with_model'] = n_cmp


def run(out, tier, model_ok=True, deepen=False):
  if model_ok:
    try:
      tests_against_model(out, tier)
    except core.DriverError as e:
      out.mismatch('diag-tests', None, 'numeric driver failed: ' + str(e)[-200:])
  out.rule = 'oracle: for every returned design at every list position the series held by its diagnostics are compared with the sums of the raw rows of the reported geo IDs over the last n_pretest_max dates, its score tuple / correlation / required impact with values recomputed by fresh diagnostics objects, and no two designs may share a diagnostics object'
  run_search_prop(out, PROP, se.judge_c04, tier, model_ok, deepen=deepen)


def replay(out, path, model_ok=True):
  replay_search(out, path, se.judge_c04)
