/-
C07 (fixed-cost iROAS report) and C18 (effect time series) over ℝ.

Model: `MM/Model/Numeric.lean` (`summaryRow`, `iroasFixed`, `diff0`, `cumulativeBand`,
`pointwiseBand`, `counterfactualBand`).  ℝ instance: `MM/Proofs/NumericReal.lean`.
Helpers: `MM/Proofs/NumericSeries.lean`.

Python sources: `tbr.py` (`TBR.summary`), `tbr_iroas.py` (`TBRiROAS.summary` fixed-cost branch,
`_is_fixed_cost_scenario`, `estimate_pointwise_and_cumulative_effect`), `common_classes.py`
(`EstimatedTimeSeriesWithConfidenceInterval` raises ValueError unless
lower ≤ estimate ≤ upper on every date).

All statements are proved as specified (no `_partial` weakening was necessary).  Notes:
* `x / 0 = 0` in Lean's ℝ; the statements that carry `cost ≠ 0` / `0 < cost` are the ones in which
  Python would otherwise divide by zero.  `C07_fixed_order` and `C07_fixed_equivariant` do not
  actually use `hc` (they hold under the total-division convention as well); the hypothesis is kept
  because the Python expression `1.0 / cost` is undefined there.
* `C07_fixed_columns`: the probability column of the iROAS report with threshold `thr` equals the
  probability column of the response report with threshold `thr * cost` (threshold in response
  units); this includes the degenerate `scale = 0` case by the same convention.
-/
import MM.Proofs.NumericSeries
import Mathlib.Tactic.Positivity

namespace MM.Numeric

/-- the external Student-t quantile/cdf, constrained only by what the properties use -/
structure QuantileBundle (q : ℝ → ℝ) (cdf : ℝ → ℝ) : Prop where
  mono : ∀ a b, 0 < a → a < b → b < 1 → q a < q b
  median : q (1 / 2) = 0
  symm : ∀ p, 0 < p → p < 1 → q (1 - p) = - q p
  cdf_q : ∀ p, 0 < p → p < 1 → cdf (q p) = p

theorem quantile_nonpos {q cdf : ℝ → ℝ} (h : QuantileBundle q cdf) (a : ℝ) (h0 : 0 < a)
    (h1 : a ≤ 1 / 2) : q a ≤ 0 := by
  rcases h1.eq_or_lt with heq | hlt
  · rw [heq, h.median]
  · have := h.mono a (1 / 2) h0 hlt (by norm_num)
    rw [h.median] at this
    exact this.le

theorem quantile_nonneg {q cdf : ℝ → ℝ} (h : QuantileBundle q cdf) (a : ℝ) (h0 : 1 / 2 ≤ a)
    (h1 : a < 1) : 0 ≤ q a := by
  rcases h0.eq_or_lt with heq | hlt
  · rw [← heq, h.median]
  · have := h.mono (1 / 2) a (by norm_num) hlt h1
    rw [h.median] at this
    exact this.le

/-! ## C07, fixed-cost scenario -/

/-- iROAS estimate and bounds = response-effect estimate and bounds divided by the incremental
cost; incremental-response bounds = iROAS bounds × cost (= the response bounds) -/
theorem C07_fixed_columns (loc scale cost qA : ℝ) (qU : Option ℝ) (cdf : ℝ → ℝ) (thr : ℝ)
    (hc : 0 < cost) :
    let r := iroasFixed loc scale cost qA qU cdf thr
    let resp := summaryRow loc scale qA qU cdf (thr * cost)
    r.estimate = resp.estimate / cost ∧ r.lower = resp.lower / cost ∧
    (∀ u, resp.upper = some u → r.upper = some (u / cost)) ∧ (resp.upper = none → r.upper = none) ∧
    r.incrementalResponseLower = resp.lower ∧
    (∀ u, resp.upper = some u → r.incrementalResponseUpper = some u) ∧
    r.incrementalResponse = resp.estimate ∧ r.incrementalCost = cost ∧
    r.probability = resp.probability := by
  have hc' : cost ≠ 0 := hc.ne'
  have habs : |1 / cost| = 1 / cost := abs_of_pos (by positivity)
  simp only [iroasFixed, summaryRow, nat_real, abs_real, Nat.cast_one, habs]
  refine ⟨?_, ?_, ?_, ?_, ?_, ?_, trivial, trivial, ?_⟩
  · ring
  · ring
  · intro u hu
    cases qU with
    | none => simp at hu
    | some x =>
      simp only [Option.map_some, Option.some.injEq] at hu ⊢
      rw [← hu]; ring
  · intro hu
    cases qU with
    | none => rfl
    | some x => simp at hu
  · field_simp
  · intro u hu
    cases qU with
    | none => simp at hu
    | some x =>
      simp only [Option.map_some, Option.some.injEq] at hu ⊢
      rw [← hu]; field_simp
  · have harg : (thr - 1 / cost * loc) / (1 / cost * scale) = (thr * cost - loc) / scale := by
      by_cases hs : scale = 0
      · simp [hs]
      · field_simp
    rw [harg]

theorem C07_fixed_order (loc scale cost qA : ℝ) (qU : Option ℝ) (cdf : ℝ → ℝ) (thr : ℝ)
    (hs : 0 ≤ scale) (hc : cost ≠ 0) (hA : qA ≤ 0) (hU : ∀ u, qU = some u → 0 ≤ u) :
    let r := iroasFixed loc scale cost qA qU cdf thr
    r.lower ≤ r.estimate ∧ (∀ u, r.upper = some u → r.estimate ≤ u) ∧
    r.precision = r.estimate - r.lower := by
  have _ := hc
  simp only [iroasFixed, summaryRow, nat_real, abs_real, Nat.cast_one]
  have hk : 0 ≤ |1 / cost| * scale := mul_nonneg (abs_nonneg _) hs
  have hle : |1 / cost| * scale * qA ≤ 0 := mul_nonpos_of_nonneg_of_nonpos hk hA
  refine ⟨by linarith, ?_, ?_⟩
  · intro u hu
    cases qU with
    | none => simp at hu
    | some x =>
      simp only [Option.map_some, Option.some.injEq] at hu
      have := mul_nonneg hk (hU x rfl)
      linarith
  · rw [add_sub_cancel_left, abs_of_nonpos hle]; ring

/-- unit equivariance: cost × a, response × b (a, b > 0), threshold × b/a  ⇒  iROAS figures × b/a,
probability unchanged -/
theorem C07_fixed_equivariant (loc scale cost qA : ℝ) (qU : Option ℝ) (cdf : ℝ → ℝ) (thr a b : ℝ)
    (ha : 0 < a) (hb : 0 < b) (hc : cost ≠ 0) :
    let r := iroasFixed loc scale cost qA qU cdf thr
    let r' := iroasFixed (b * loc) (b * scale) (a * cost) qA qU cdf (b / a * thr)
    r'.estimate = b / a * r.estimate ∧ r'.lower = b / a * r.lower ∧
    r'.precision = b / a * r.precision ∧
    (∀ u, r.upper = some u → r'.upper = some (b / a * u)) ∧ r'.probability = r.probability ∧
    r'.incrementalCost = a * r.incrementalCost ∧
    r'.incrementalResponse = b * r.incrementalResponse := by
  have _ := hc
  have ha' : a ≠ 0 := ha.ne'
  have hba : 0 < b / a := div_pos hb ha
  have hloc : 1 / (a * cost) * (b * loc) = b / a * (1 / cost * loc) := by
    rw [one_div, mul_inv, one_div]; ring
  have hscale : |1 / (a * cost)| * (b * scale) = b / a * (|1 / cost| * scale) := by
    rw [one_div, mul_inv, abs_mul, abs_of_pos (inv_pos.mpr ha), one_div]; ring
  simp only [iroasFixed, summaryRow, nat_real, abs_real, Nat.cast_one, hloc, hscale]
  refine ⟨trivial, by ring, ?_, ?_, ?_, trivial, trivial⟩
  · rw [add_sub_cancel_left, add_sub_cancel_left, mul_assoc (b / a), abs_mul, abs_of_pos hba]
  · intro u hu
    cases qU with
    | none => simp at hu
    | some x =>
      simp only [Option.map_some, Option.some.injEq] at hu ⊢
      rw [← hu]; ring
  · rw [← mul_sub, mul_div_mul_left _ _ hba.ne']

/-- scenario detection `float_order(total) < -10`, i.e. total < 1e-10, where `total` is the sum of the cost
*magnitudes* (repaired tree): if every cost is either 0 or at least 1e-10 in magnitude, the total is "small"
iff all costs are 0 — whatever their signs -/
theorem C07_scenario (costs : List ℝ) (h : ∀ c ∈ costs, c = 0 ∨ (1e-10 : ℝ) ≤ |c|) :
    (costs.map (fun c => |c|)).sum < 1e-10 ↔ ∀ c ∈ costs, c = 0 := by
  have hpos : (0 : ℝ) < 1e-10 := by norm_num
  constructor
  · intro hsum c hc
    rcases h c hc with h0 | hge
    · exact h0
    · exfalso
      have hnn : ∀ x ∈ costs.map (fun c => |c|), 0 ≤ x := by
        intro x hx
        obtain ⟨y, _, rfl⟩ := List.mem_map.1 hx
        exact abs_nonneg y
      have : |c| ≤ (costs.map (fun c => |c|)).sum :=
        List.single_le_sum hnn |c| (List.mem_map.2 ⟨c, hc, rfl⟩)
      linarith
  · intro hall
    have : ∀ x ∈ costs.map (fun c => |c|), x = 0 := by
      intro x hx
      obtain ⟨y, hy, rfl⟩ := List.mem_map.1 hx
      rw [hall y hy, abs_zero]
    rw [List.sum_eq_zero this]
    exact hpos

/-- the signed sum the original code used does not detect non-zero costs: +5 and −5 sum to zero
(the defect repaired in /repo commit 8480f7a) -/
theorem C07_scenario_signed_sum_fails :
    ∃ costs : List ℝ, (∀ c ∈ costs, c = 0 ∨ (1e-10 : ℝ) ≤ |c|) ∧ costs.sum < 1e-10 ∧ ¬ ∀ c ∈ costs, c = 0 := by
  refine ⟨[5, -5], ?_, ?_, ?_⟩
  · intro c hc
    simp only [List.mem_cons, List.not_mem_nil, or_false] at hc
    rcases hc with rfl | rfl <;> right <;> norm_num
  · norm_num
  · intro h
    have := h 5 (by simp)
    norm_num at this

/-! ## C18, effect series

`loc`/`scale` are the cumulative posterior locations/scales over the experiment dates,
`qLo = q(tail)`, `qHi = q(1 − tail)`. -/

theorem C18_cumulative_order (loc scale : List ℝ) (qLo qHi : ℝ) (hlen : loc.length = scale.length)
    (hs : ∀ s ∈ scale, 0 ≤ s) (hLo : qLo ≤ 0) (hHi : 0 ≤ qHi) (i : Nat) (hi : i < loc.length) :
    (cumulativeBand loc scale qLo qHi).lower[i]! ≤ (cumulativeBand loc scale qLo qHi).estimate[i]! ∧
    (cumulativeBand loc scale qLo qHi).estimate[i]! ≤ (cumulativeBand loc scale qLo qHi).upper[i]! := by
  have hi' : i < scale.length := hlen ▸ hi
  have hsi : (0 : ℝ) ≤ scale[i]! := by
    rw [getElem!_lt scale i hi']; exact hs _ (List.getElem_mem hi')
  simp only [cumulativeBand]
  rw [zipWith_getElem! _ loc scale i hi hi', zipWith_getElem! _ loc scale i hi hi']
  constructor
  · have := mul_nonpos_of_nonneg_of_nonpos hsi hLo
    linarith
  · have := mul_nonneg hsi hHi
    linarith

/-- pointwise bounds are ordered when the scale is non-decreasing over time (and non-negative at
the first date) -/
theorem C18_pointwise_order_partial (loc scale : List ℝ) (qLo qHi : ℝ)
    (hlen : loc.length = scale.length) (h0 : ∀ s, scale.head? = some s → 0 ≤ s)
    (hmono : scale.Pairwise (· ≤ ·)) (hLo : qLo ≤ 0) (hHi : 0 ≤ qHi) (i : Nat)
    (hi : i < loc.length) :
    (pointwiseBand loc scale qLo qHi).lower[i]! ≤ (pointwiseBand loc scale qLo qHi).estimate[i]! ∧
    (pointwiseBand loc scale qLo qHi).estimate[i]! ≤ (pointwiseBand loc scale qLo qHi).upper[i]! := by
  have hi' : i < scale.length := hlen ▸ hi
  simp only [pointwiseBand, cumulativeBand]
  have hzl : ∀ q : ℝ, (List.zipWith (fun l s => l + s * q) loc scale).length = loc.length := by
    intro q; rw [List.length_zipWith, ← hlen, Nat.min_self]
  cases i with
  | zero =>
    rw [diff0_getElem!_zero (List.zipWith (fun l s => l + s * qLo) loc scale) (by rw [hzl]; exact hi),
      diff0_getElem!_zero (List.zipWith (fun l s => l + s * qHi) loc scale) (by rw [hzl]; exact hi),
      diff0_getElem!_zero loc hi, zipWith_getElem! _ loc scale 0 hi hi',
      zipWith_getElem! _ loc scale 0 hi hi']
    have hs0 : (0 : ℝ) ≤ scale[0]! := by
      apply h0
      rw [getElem!_lt scale 0 hi', List.head?_eq_getElem?, List.getElem?_eq_getElem hi']
    constructor
    · have := mul_nonpos_of_nonneg_of_nonpos hs0 hLo
      linarith
    · have := mul_nonneg hs0 hHi
      linarith
  | succ j =>
    have hj : j < loc.length := by omega
    have hj' : j < scale.length := by omega
    rw [diff0_getElem!_succ (List.zipWith (fun l s => l + s * qLo) loc scale) j (by rw [hzl]; exact hi),
      diff0_getElem!_succ (List.zipWith (fun l s => l + s * qHi) loc scale) j (by rw [hzl]; exact hi),
      diff0_getElem!_succ loc j hi, zipWith_getElem! _ loc scale (j + 1) hi hi',
      zipWith_getElem! _ loc scale (j + 1) hi hi', zipWith_getElem! _ loc scale j hj hj',
      zipWith_getElem! _ loc scale j hj hj']
    have hsm : (0 : ℝ) ≤ scale[j + 1]! - scale[j]! := by
      rw [getElem!_lt scale _ hi', getElem!_lt scale _ hj', sub_nonneg]
      exact List.pairwise_iff_getElem.mp hmono j (j + 1) hj' hi' (by omega)
    constructor
    · have := mul_nonpos_of_nonneg_of_nonpos hsm hLo
      linarith
    · have := mul_nonneg hsm hHi
      linarith

/-- … and not otherwise: a decreasing scale with a negative lower quantile puts the pointwise
lower bound above the estimate (the series container then raises ValueError) -/
theorem C18_pointwise_order_fails : ∃ (loc scale : List ℝ) (qLo qHi : ℝ), qLo < 0 ∧ 0 < qHi ∧
    (∀ s ∈ scale, 0 < s) ∧
    (pointwiseBand loc scale qLo qHi).estimate[1]! < (pointwiseBand loc scale qLo qHi).lower[1]! := by
  refine ⟨[0, 0], [2, 1], -1, 1, by norm_num, by norm_num, ?_, ?_⟩
  · intro s hs
    simp only [List.mem_cons, List.not_mem_nil, or_false] at hs
    rcases hs with rfl | rfl <;> norm_num
  · simp only [pointwiseBand, cumulativeBand]
    rw [diff0_getElem!_succ ([0, 0] : List ℝ) 0 (by simp),
      diff0_getElem!_succ (List.zipWith (fun l s => l + s * (-1 : ℝ)) [0, 0] [2, 1]) 0 (by simp)]
    simp

/-- counterfactual + pointwise difference = observed -/
theorem C18_counterfactual_sum (obs : List ℝ) (pw : Band ℝ) (hl : obs.length = pw.estimate.length)
    (i : Nat) (hi : i < obs.length) :
    (counterfactualBand obs pw).estimate[i]! + pw.estimate[i]! = obs[i]! := by
  simp only [counterfactualBand]
  rw [zipWith_getElem! _ obs pw.estimate i hi (hl ▸ hi)]
  ring

/-- counterfactual ordered if pointwise ordered -/
theorem C18_counterfactual_order (obs : List ℝ) (pw : Band ℝ) (h1 : obs.length = pw.estimate.length)
    (h2 : pw.lower.length = pw.estimate.length) (h3 : pw.upper.length = pw.estimate.length)
    (i : Nat) (hi : i < obs.length)
    (hord : pw.lower[i]! ≤ pw.estimate[i]! ∧ pw.estimate[i]! ≤ pw.upper[i]!) :
    (counterfactualBand obs pw).lower[i]! ≤ (counterfactualBand obs pw).estimate[i]! ∧
    (counterfactualBand obs pw).estimate[i]! ≤ (counterfactualBand obs pw).upper[i]! := by
  simp only [counterfactualBand]
  rw [zipWith_getElem! _ obs pw.estimate i hi (by omega),
    zipWith_getElem! _ obs pw.upper i hi (by omega),
    zipWith_getElem! _ obs pw.lower i hi (by omega)]
  constructor <;> linarith [hord.1, hord.2]

/-- (extra) … and only if: the counterfactual band is ordered iff the pointwise band is -/
theorem C18_counterfactual_order_iff (obs : List ℝ) (pw : Band ℝ)
    (h1 : obs.length = pw.estimate.length) (h2 : pw.lower.length = pw.estimate.length)
    (h3 : pw.upper.length = pw.estimate.length) (i : Nat) (hi : i < obs.length) :
    ((counterfactualBand obs pw).lower[i]! ≤ (counterfactualBand obs pw).estimate[i]! ∧
      (counterfactualBand obs pw).estimate[i]! ≤ (counterfactualBand obs pw).upper[i]!) ↔
    (pw.lower[i]! ≤ pw.estimate[i]! ∧ pw.estimate[i]! ≤ pw.upper[i]!) := by
  simp only [counterfactualBand]
  rw [zipWith_getElem! _ obs pw.estimate i hi (by omega),
    zipWith_getElem! _ obs pw.upper i hi (by omega),
    zipWith_getElem! _ obs pw.lower i hi (by omega)]
  constructor
  · rintro ⟨ha, hb⟩; constructor <;> linarith
  · rintro ⟨ha, hb⟩; constructor <;> linarith

/-- the pointwise estimates telescope to the cumulative estimate -/
theorem C18_pointwise_telescopes (loc scale : List ℝ) (qLo qHi : ℝ) (i : Nat) (hi : i < loc.length) :
    (((pointwiseBand loc scale qLo qHi).estimate).take (i + 1)).sum = loc[i]! := by
  simp only [pointwiseBand]
  exact diff0_take_sum loc i hi

/-- on the last date the cumulative band is the posterior's location and quantiles -/
theorem C18_last_date (loc scale : List ℝ) (qLo qHi : ℝ) (hlen : loc.length = scale.length)
    (hne : loc ≠ []) :
    (cumulativeBand loc scale qLo qHi).estimate.getLast? = loc.getLast? ∧
    (cumulativeBand loc scale qLo qHi).lower.getLast? = some (loc.getLast! + scale.getLast! * qLo) ∧
    (cumulativeBand loc scale qLo qHi).upper.getLast? = some (loc.getLast! + scale.getLast! * qHi) := by
  simp only [cumulativeBand]
  exact ⟨trivial, zipWith_getLast? _ loc scale hlen hne, zipWith_getLast? _ loc scale hlen hne⟩

/-! ## Corollaries tying the quantile bundle to the order theorems (extras) -/

/-- with a symmetric, strictly increasing quantile function and `tail ∈ (0, 1/2]`
(`tail = (1 − level) / 2`), the cumulative band is ordered on every date -/
theorem C18_cumulative_order_bundle {q cdf : ℝ → ℝ} (hq : QuantileBundle q cdf) (loc scale : List ℝ)
    (tail : ℝ) (ht0 : 0 < tail) (ht1 : tail ≤ 1 / 2) (hlen : loc.length = scale.length)
    (hs : ∀ s ∈ scale, 0 ≤ s) (i : Nat) (hi : i < loc.length) :
    (cumulativeBand loc scale (q tail) (q (1 - tail))).lower[i]! ≤
      (cumulativeBand loc scale (q tail) (q (1 - tail))).estimate[i]! ∧
    (cumulativeBand loc scale (q tail) (q (1 - tail))).estimate[i]! ≤
      (cumulativeBand loc scale (q tail) (q (1 - tail))).upper[i]! :=
  C18_cumulative_order loc scale _ _ hlen hs (quantile_nonpos hq tail ht0 ht1)
    (quantile_nonneg hq (1 - tail) (by linarith) (by linarith)) i hi

/-- `TBR.summary` two-tailed at `level ∈ [0, 1)`: `alpha = (1 − level)/2 ∈ (0, 1/2]`,
`pupper = 1 − alpha`; the fixed-cost iROAS row is ordered -/
theorem C07_fixed_order_bundle {q cdf : ℝ → ℝ} (hq : QuantileBundle q cdf) (loc scale cost alpha thr : ℝ)
    (hs : 0 ≤ scale) (hc : cost ≠ 0) (ha0 : 0 < alpha) (ha1 : alpha ≤ 1 / 2) :
    let r := iroasFixed loc scale cost (q alpha) (some (q (1 - alpha))) cdf thr
    r.lower ≤ r.estimate ∧ (∀ u, r.upper = some u → r.estimate ≤ u) ∧
    r.precision = r.estimate - r.lower :=
  C07_fixed_order loc scale cost (q alpha) (some (q (1 - alpha))) cdf thr hs hc
    (quantile_nonpos hq alpha ha0 ha1)
    (fun u hu => by
      rw [← Option.some.inj hu]
      exact quantile_nonneg hq (1 - alpha) (by linarith) (by linarith))

/-! ## Non-vacuity -/

/-- a concrete 3-date series with increasing scale satisfies the hypotheses of
`C18_pointwise_order_partial` -/
example :
    let loc : List ℝ := [1, 3, 2]
    let scale : List ℝ := [1, 2, 4]
    loc.length = scale.length ∧ (∀ s, scale.head? = some s → 0 ≤ s) ∧ scale.Pairwise (· ≤ ·) ∧
      ((-2 : ℝ) ≤ 0) ∧ ((0 : ℝ) ≤ 2) ∧ 2 < loc.length := by
  refine ⟨rfl, ?_, ?_, by norm_num, by norm_num, by simp⟩
  · intro s hs
    simp only [List.head?_cons, Option.some.injEq] at hs
    rw [← hs]; norm_num
  · simp only [List.pairwise_cons, List.mem_cons, List.not_mem_nil, or_false, forall_eq_or_imp,
      forall_eq, IsEmpty.forall_iff, implies_true, List.Pairwise.nil, and_true]
    norm_num

/-- … and the conclusion instantiated on it (all three dates) -/
example (i : Nat) (hi : i < 3) :
    (pointwiseBand ([1, 3, 2] : List ℝ) [1, 2, 4] (-2) 2).lower[i]! ≤
      (pointwiseBand ([1, 3, 2] : List ℝ) [1, 2, 4] (-2) 2).estimate[i]! ∧
    (pointwiseBand ([1, 3, 2] : List ℝ) [1, 2, 4] (-2) 2).estimate[i]! ≤
      (pointwiseBand ([1, 3, 2] : List ℝ) [1, 2, 4] (-2) 2).upper[i]! := by
  apply C18_pointwise_order_partial [1, 3, 2] [1, 2, 4] (-2) 2 rfl
  · intro s hs
    simp only [List.head?_cons, Option.some.injEq] at hs
    rw [← hs]; norm_num
  · simp only [List.pairwise_cons, List.mem_cons, List.not_mem_nil, or_false, forall_eq_or_imp,
      forall_eq, IsEmpty.forall_iff, implies_true, List.Pairwise.nil, and_true]
    norm_num
  · norm_num
  · norm_num
  · simpa using hi

/-- a concrete bundle-free instance of `C07_fixed_columns`: response effect 100 ± (scale 10),
cost 50, `qA = −2`, `qU = 2`, cdf the constant 1/2, threshold 1 -/
example :
    let r := iroasFixed (100 : ℝ) 10 50 (-2) (some 2) (fun _ => 1 / 2) 1
    r.estimate = 2 ∧ r.lower = 8 / 5 ∧ r.upper = some (12 / 5) ∧
      r.incrementalResponseLower = 80 ∧ r.incrementalResponseUpper = some 120 ∧
      r.incrementalResponse = 100 ∧ r.incrementalCost = 50 ∧ r.probability = 1 / 2 := by
  have h := C07_fixed_columns 100 10 50 (-2) (some 2) (fun _ => 1 / 2) 1 (by norm_num)
  obtain ⟨h1, h2, h3, -, h5, h6, h7, h8, h9⟩ := h
  refine ⟨?_, ?_, ?_, ?_, ?_, ?_, ?_, ?_⟩
  · rw [h1]; simp only [summaryRow]; norm_num
  · rw [h2]; simp only [summaryRow]; norm_num
  · rw [h3 (100 + 10 * 2) rfl]; norm_num
  · rw [h5]; simp only [summaryRow]; norm_num
  · rw [h6 (100 + 10 * 2) rfl]; norm_num
  · rw [h7]; simp only [summaryRow]
  · exact h8
  · rw [h9]; simp only [summaryRow, nat_real]; norm_num

end MM.Numeric
