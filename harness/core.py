"""Shared machinery of the checks: Lean build + audit, driver I/O, evidence, verdicts.

Runs under /venv/bin/python (the interpreter that has matched_markets' dependencies).
"""
import contextlib
import fcntl
import json
import os
import random
import re
import subprocess
import sys
import time

HERE = os.path.dirname(os.path.abspath(__file__))
VERIF = os.path.dirname(HERE)
LEAN = os.path.join(VERIF, 'lean')
REPO = os.environ.get('MM_REPO', '/repo')
EVIDENCE = os.path.join(VERIF, 'evidence')
REPLAYS = os.path.join(VERIF, 'replays')
CORPUS = os.path.join(VERIF, 'corpus')
ALLOWED_AXIOMS = {'propext', 'Classical.choice', 'Quot.sound'}
FORBIDDEN = re.compile(r'\b(sorry|admit|native_decide|bv_decide|implemented_by|unsafe)\b|^\s*axiom\s|maxHeartbeats\s+0')

if REPO not in sys.path:
  sys.path.insert(0, REPO)
if HERE not in sys.path:
  sys.path.insert(0, HERE)

os.environ.setdefault('MATCHED_MARKETS_VERIF', '1')


def seed():
  try:
    return int(os.environ.get('VERIF_SEED', '0'))
  except ValueError:
    return 0


def rng_for(prop, salt=0):
  """All random choices of a check derive from this one generator."""
  return random.Random(f'{seed()}/{prop}/{salt}')


@contextlib.contextmanager
def build_lock():
  os.makedirs(os.path.join(LEAN, '.lake'), exist_ok=True)
  with open(os.path.join(LEAN, '.lake', 'verif-build.lock'), 'w') as f:
    fcntl.flock(f, fcntl.LOCK_EX)
    try:
      yield
    finally:
      fcntl.flock(f, fcntl.LOCK_UN)


class BuildResult:
  def __init__(self):
    self.translate = {}        # T1.. -> path or error string
    self.ok = True
    self.log = ''
    self.failed_targets = []
    self.axioms = {}           # theorem -> list of axioms
    self.audit_problems = []   # strings
    self.wall_s = 0.0
    self.model_ok = True
    self.leanchecker = None

  @property
  def proof_ok(self):
    return self.ok and not self.audit_problems


def _run(cmd, cwd=None, timeout=3600, input_text=None):
  p = subprocess.run(cmd, cwd=cwd, stdout=subprocess.PIPE, stderr=subprocess.STDOUT,
                     text=True, timeout=timeout, input=input_text)
  return p.returncode, p.stdout


def _import_closure(targets):
  """files under lean/ (MM.* modules and drivers) reachable from the targets by `import MM...`"""
  seen, todo = set(), []
  for t in targets:
    todo.append(os.path.join(LEAN, *t.split('.')) + '.lean')
  while todo:
    p = todo.pop()
    if p in seen or not os.path.exists(p):
      continue
    seen.add(p)
    with open(p) as f:
      for ln in f:
        m = re.match(r'\s*import\s+(MM(\.\w+)+)', ln)
        if m:
          todo.append(os.path.join(LEAN, *m.group(1).split('.')) + '.lean')
  return seen


def lean_build(targets, audit_file=None, expected_theorems=(), recheck=False):
  """Regenerate the model fragments from /repo, build the targets, audit axioms."""
  import translate
  res = BuildResult()
  t0 = time.time()
  with build_lock():
    tr = translate.run_all()
    for k, v in tr.items():
      res.translate[k] = str(v)
      if isinstance(v, Exception):
        res.ok = False
        res.audit_problems.append(f'translator {k} cannot regenerate its fragment: {v}')
    # the executable model first (it can still serve the correspondence when a proof no longer checks)
    model_targets = [t for t in targets if t.startswith(('MM.Model.', 'MM.Driver.'))] + ['MM']
    rc, out = _run(['lake', 'build'] + model_targets, cwd=LEAN)
    res.model_ok = rc == 0
    res.log = out
    rc, out = _run(['lake', 'build'] + list(targets), cwd=LEAN)
    res.log += out
    if rc != 0:
      res.ok = False
      res.failed_targets = re.findall(r'^- (\S+)$', out, flags=re.M) or list(targets)
    if res.ok and audit_file:
      rc, out = _run(['lake', 'env', 'lean', audit_file], cwd=LEAN)
      res.log += '\n' + out
      for m in re.finditer(r"'([^']+)' depends on axioms: \[([^\]]*)\]", out):
        res.axioms[m.group(1)] = [a.strip() for a in m.group(2).split(',') if a.strip()]
      for m in re.finditer(r"'([^']+)' does not depend on any axioms", out):
        res.axioms[m.group(1)] = []
      if rc != 0:
        res.audit_problems.append('audit file does not elaborate: ' + out[-400:])
      for thm, axs in res.axioms.items():
        bad = [a for a in axs if a not in ALLOWED_AXIOMS]
        if bad:
          res.audit_problems.append(f'{thm} depends on non-standard axioms {bad}')
      for thm in expected_theorems:
        if thm not in res.axioms:
          res.audit_problems.append(f'expected theorem {thm} missing from the audit')
  if recheck and res.ok:
    # thorough tier: replay the compiled property modules through Lean's independent re-checker
    mods = [t for t in targets if t.startswith('MM.Props.')]
    with build_lock():
      rc, out = _run(['lake', 'env', 'leanchecker'] + mods, cwd=LEAN, timeout=3600)
    res.leanchecker = {'modules': mods, 'rc': rc}
    if rc != 0:
      res.audit_problems.append('leanchecker rejects ' + ' '.join(mods) + ': ' + out[-300:])
  # forbidden tokens in the Lean sources the targets depend on (comments stripped)
  for path in sorted(_import_closure(targets)):
    with open(path) as f:
      txt = f.read()
    txt = re.sub(r'/-.*?-/', '', txt, flags=re.S)
    for ln in txt.splitlines():
      code = ln.split('--')[0]
      if FORBIDDEN.search(code):
        res.audit_problems.append(f'forbidden token in {os.path.relpath(path, LEAN)}: {ln.strip()[:80]}')
  res.wall_s = time.time() - t0
  return res


def run_driver(driver, lines, timeout=3600):
  """Pipe protocol lines to a Lean driver (interpreted), return its output lines."""
  text = '\n'.join(lines) + '\n'
  with build_lock():
    pass  # make sure no build is rewriting .olean files underneath us
  rc, out = _run(['lake', 'env', 'lean', '--run', os.path.join('drivers', driver)], cwd=LEAN,
                 timeout=timeout, input_text=text)
  if rc != 0:
    raise DriverError(out[-2000:])
  return out.splitlines()


class DriverError(Exception):
  pass


# ----------------------------------------------------------------------------
# numbers on the wire
# ----------------------------------------------------------------------------
def rat(x):
  """Exact wire form of a Python number: 'num/den', or nan/inf/-inf."""
  import math
  if isinstance(x, bool):
    x = int(x)
  if isinstance(x, int):
    return f'{x}/1'
  x = float(x)
  if math.isnan(x):
    return 'nan'
  if math.isinf(x):
    return 'inf' if x > 0 else '-inf'
  n, d = x.as_integer_ratio()
  return f'{n}/{d}'


def parse_rat(s):
  from fractions import Fraction
  if s in ('nan', 'inf', '-inf'):
    return float(s)
  n, d = s.split('/')
  return Fraction(int(n), int(d))


# ----------------------------------------------------------------------------
# known findings
# ----------------------------------------------------------------------------
_CMP = {
    '==': lambda a, b: a == b, '!=': lambda a, b: a != b,
    '<': lambda a, b: a < b, '<=': lambda a, b: a <= b,
    '>': lambda a, b: a > b, '>=': lambda a, b: a >= b,
    'in': lambda a, b: a in b,
}


def load_findings():
  p = os.path.join(VERIF, 'known_findings.json')
  if not os.path.exists(p):
    return []
  with open(p) as f:
    return json.load(f)['findings']


def match_finding(prop, facts, findings=None):
  """facts: dict with at least 'call' and 'symptom'. Returns the matching *known* entry or None."""
  for e in (findings if findings is not None else load_findings()):
    if e.get('status') != 'known' or e['property'] != prop:
      continue
    if e.get('call') != facts.get('call') or e.get('symptom') != facts.get('symptom'):
      continue
    ok = True
    for key, op, val in e.get('where', []):
      if key not in facts:
        ok = False
        break
      try:
        if not _CMP[op](facts[key], val):
          ok = False
          break
      except TypeError:
        ok = False
        break
    if ok:
      return e
  return None


# ----------------------------------------------------------------------------
# verdicts and evidence
# ----------------------------------------------------------------------------
class RealCodeTimeout(Exception):
  """the implementation did not come back within the time limit (reported as a violation, never waited for)"""


import contextlib


@contextlib.contextmanager
def time_limit(seconds):
  import signal

  def _alarm(signum, frame):
    raise RealCodeTimeout(f'no answer within {seconds} s')
  old = signal.signal(signal.SIGALRM, _alarm)
  signal.alarm(seconds)
  try:
    yield
  finally:
    signal.alarm(0)
    signal.signal(signal.SIGALRM, old)


class Outcome:
  """Collected by a property check; turned into exit code + evidence by finish()."""

  def __init__(self, prop, tier):
    self.prop = prop
    self.tier = tier
    self.t0 = time.time()
    self.evaluations = 0
    self.nontrivial = set()
    self.samples = []
    self.rule = ''
    self.violations = []       # dicts: {'kind': 'oracle', 'facts':…, 'case':…, 'text':…}
    self.mismatches = []       # correspondence disagreements (model vs implementation)
    self.known_hits = {}       # finding id -> count
    self.extra = {}
    self.assumptions = []
    self.infra_error = None

  def sample(self, case, limit=5):
    if len(self.samples) < limit:
      self.samples.append(case)

  def count(self, key=None, n=1):
    self.evaluations += n
    if key is not None:
      self.nontrivial.add(key)

  def oracle_violation(self, facts, case, text):
    f = match_finding(self.prop, facts)
    if f is not None:
      self.known_hits.setdefault(f['id'], [0, f, text])
      self.known_hits[f['id']][0] += 1
      return False
    self.violations.append({'kind': 'oracle', 'facts': facts, 'case': case, 'text': text})
    return True

  def mismatch(self, stream, case, text):
    self.mismatches.append({'kind': 'correspondence', 'stream': stream, 'case': case, 'text': text})


def _json_default(o):
  try:
    import numpy as np
    if isinstance(o, (np.integer,)):
      return int(o)
    if isinstance(o, (np.floating,)):
      return float(o)
    if isinstance(o, np.ndarray):
      return o.tolist()
    if isinstance(o, np.bool_):
      return bool(o)
  except ImportError:
    pass
  if isinstance(o, (set, frozenset)):
    return sorted(o, key=str)
  return repr(o)


def write_replay(prop, payload):
  os.makedirs(REPLAYS, exist_ok=True)
  path = os.path.join(REPLAYS, f'{prop}-seed{seed()}-{int(time.time())}-{os.getpid()}.json')
  with open(path, 'w') as f:
    json.dump(payload, f, indent=1, default=_json_default)
  return path


def finish(out, build, theorems, trusted_base, level='proof', checker_cmd=None):
  """Print verdict lines, write evidence, return the exit code."""
  prop = out.prop
  for fid, (n, f, text) in sorted(out.known_hits.items()):
    print(f'KNOWN-FINDING: property={prop} {f["text"]} [{fid}; reproduced {n}x this run; e.g. {text}]')
  code = 0
  if out.infra_error:
    print(f'INFRASTRUCTURE-ERROR property={prop}: {out.infra_error}')
    code = 2
  broken = []
  if build is not None and not build.proof_ok:
    if not build.ok:
      broken.append('lake build failed for ' + ', '.join(build.failed_targets))
    broken += build.audit_problems
  if out.violations:
    v = out.violations[0]
    path = write_replay(prop, {'property': prop, 'kind': 'failing-input', 'seed': seed(), 'tier': out.tier,
                               'violation': v, 'n_violations': len(out.violations),
                               'broken_obligations': broken,
                               'correspondence_mismatches': out.mismatches[:3]})
    print(f'VIOLATION property={prop} replay={path}')
    print(f'  {v["text"]}')
    code = 1
  elif (broken or out.mismatches) and code == 0:
    path = write_replay(prop, {'property': prop, 'kind': 'no-failing-input-found', 'seed': seed(),
                               'tier': out.tier, 'broken_obligations': broken,
                               'unchecked': ([f'theorems of {prop}: ' + ', '.join(theorems)] if broken else []) +
                                            [f'correspondence stream {m["stream"]}' for m in out.mismatches[:5]],
                               'correspondence_mismatches': out.mismatches[:5],
                               'build_log_tail': (build.log[-3000:] if build is not None and broken else '')})
    what = '; '.join(broken[:2] + [m['text'] for m in out.mismatches[:2]])
    print(f'  no longer checks: {what[:600]}')
    print(f'VIOLATION property={prop} replay={path} no-failing-input-found')
    code = 1
  n_thm = len(theorems)
  discharged = 0
  if build is not None:
    discharged = sum(1 for t in theorems if t in build.axioms and set(build.axioms[t]) <= ALLOWED_AXIOMS) \
        if build.proof_ok else 0
  cov = {
      'obligations': max(n_thm, 1),
      'discharged': discharged if discharged else (0 if n_thm else 0),
      'checker_cmd': checker_cmd or 'cd /verif/lean && lake build <targets> && lake env lean MM/Audit/%s.lean' % prop,
      'trusted_base': trusted_base,
      'theorems': {t: (build.axioms.get(t) if build is not None else None) for t in theorems},
      'translators': build.translate if build is not None else {},
      'leanchecker': build.leanchecker if build is not None else None,
      'evaluations': max(out.evaluations, 1),
      'distinct_nontrivial': len(out.nontrivial),
      'rule': out.rule,
      'samples': out.samples or ['(no sample recorded)'],
      'traces_validated_against_impl': out.evaluations,
      'correspondence_mismatches': len(out.mismatches),
      'known_findings_reproduced': {k: v[0] for k, v in out.known_hits.items()},
  }
  cov.update(out.extra)
  if cov['discharged'] < 1:
    cov['discharged'] = 0
  ev = {
      'property_id': prop, 'tier': out.tier, 'seed': seed(), 'level': level,
      'coverage': cov, 'assumptions': out.assumptions, 'wall_s': round(time.time() - out.t0, 2),
      'violations': len(out.violations) + (1 if (code == 1 and not out.violations) else 0),
  }
  if level == 'proof' and cov['discharged'] < 1:
    # a proof-level evidence file needs discharged >= 1; when the proof is broken we say so as 'other'
    ev['level'] = 'other'
    cov['explanation'] = 'proof obligations did not check on this run: ' + '; '.join(broken)[:500]
  os.makedirs(EVIDENCE, exist_ok=True)
  with open(os.path.join(EVIDENCE, f'{prop}.json'), 'w') as f:
    json.dump(ev, f, indent=1, default=_json_default)
  if code == 0:
    print(f'OK property={prop} tier={out.tier} seed={seed()} theorems={discharged}/{n_thm} '
          f'evaluations={out.evaluations} distinct_nontrivial={len(out.nontrivial)} '
          f'wall={ev["wall_s"]}s')
  return code
