-- Root of the `MM` library: models, proofs, property theorems, audits.
import MM.Model.Basic
import MM.Model.HeapDict
import MM.Model.Search
import MM.Model.Admit
import MM.Model.Dates
import MM.Model.Elig
import MM.Model.Params
import MM.Model.DiagCache
import MM.Driver.Wire
