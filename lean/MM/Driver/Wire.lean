/- Wire helpers shared by the drivers (parsing of the line protocol). -/
import MM.Model.Basic
namespace Wire
open MM

def parseInt (s : String) : Option Int := s.toInt?

/-- "num/den" -/
def parseRat (s : String) : Option Rat :=
  match s.splitOn "/" with
  | [n, d] => match n.toInt?, d.toNat? with
    | some n, some d => if d == 0 then none else some (mkRat n d)
    | _, _ => none
  | [n] => n.toInt?.map fun z => (z : Rat)
  | _ => none

def parsePyFloat (s : String) : Option PyFloat :=
  if s == "nan" then some .nan else if s == "inf" then some .pinf else if s == "-inf" then some .ninf
  else (parseRat s).map .fin

/-- score entry: "nan" -> none -/
def parseEntry (s : String) : Option (Option Rat) :=
  if s == "nan" then some none else (parseRat s).map some

/-- "1,2,3" or "" (empty set, written "-") -/
def parseSet (s : String) : List Nat :=
  if s == "-" || s == "" then [] else (s.splitOn ",").filterMap String.toNat?

def showSet (s : List Nat) : String :=
  if s.isEmpty then "-" else ",".intercalate (s.map toString)

def showRat (q : Rat) : String := s!"{q.num}/{q.den}"
def showPyFloat : PyFloat → String
  | .fin q => showRat q | .pinf => "inf" | .ninf => "-inf" | .nan => "nan"
def showEntry : Option Rat → String
  | some q => showRat q | none => "nan"

def words (line : String) : List String :=
  (line.trimAscii.toString.splitOn " ").filter (· ≠ "")

partial def forLines (h : IO.FS.Stream) (f : String → IO Unit) : IO Unit := do
  let line ← h.getLine
  if line.isEmpty then return ()
  f line
  forLines h f

end Wire
