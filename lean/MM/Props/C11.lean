/-
C11: `count_max_designs` counts exactly the eligibility-respecting assignments with
admissible group sizes, the generators list exactly that many pairs, and the exhaustive
search evaluates at most that many.
-/
import MM.Proofs.Count

namespace MM.Search

inductive Slot | T | C | X deriving DecidableEq, Repr

/-- the groups a geo of each eligibility class may be put in (X = neither) -/
def choices : GeoClass → List Slot
  | .tFixed => [.T] | .cFixed => [.C] | .ct => [.T, .C]
  | .tx => [.T, .X] | .cx => [.C, .X] | .ctx => [.T, .C, .X]

/-- number of ways to put each geo of `cls` into T, C or neither respecting its class such
that the final (t, c) group sizes satisfy `ok` -/
def specCount (ok : Nat → Nat → Bool) : List GeoClass → Nat → Nat → Nat
  | [], t, c => if ok t c then 1 else 0
  | g :: rest, t, c => ((choices g).map fun s => match s with
      | .T => specCount ok rest (t+1) c | .C => specCount ok rest t (c+1)
      | .X => specCount ok rest t c).sum

def sizesOk (p : Params) (e : Env) (t c : Nat) : Bool :=
  (trtSizeRange p e).contains t && (ctlSizes p e t).contains c

theorem specCount_eq_opList (ok : Nat → Nat → Bool) (cls : List GeoClass) (t c : Nat) :
    specCount ok cls t c = opList cls (W0 ok) t c := by
  induction cls generalizing t c with
  | nil => rfl
  | cons g rest ih =>
    cases g <;> simp [specCount, choices, opList, op, shT, shC, ih, Nat.add_assoc]

/-- (A) the fast count is the number of eligibility-respecting assignments with admissible sizes -/
theorem C11_count_eq_spec (p : Params) (e : Env) :
    countMaxDesigns p e = specCount (sizesOk p e) e.cls 0 0 := by
  rw [specCount_eq_opList, opList_eq_opCounts, ← countAux_eq_opCounts, countMaxDesigns_eq_countAux]
  rfl

end MM.Search
