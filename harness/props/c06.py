"""C06: TBR posterior of the cumulative effect equals the closed-form model."""
import json
import math
import os
import numpy as np
from scipy import stats
import core
import engines.numeric as en

PROP = 'C06'
LEAN_TARGETS = ['MM.Props.C05C06', 'MM.Driver.Wire', 'MM.Model.Numeric', 'MM.Props.MemoTie']
THEOREMS = ['MM.Numeric.' + n for n in (
    'C06_closed_form', 'C06_posterior_scale', 'C06_posterior_loc', 'C06_posterior_df', 'C06_design_side',
    'C06_summary_order', 'C06_summary_order_fails', 'C06_summary_probability', 'ols_resid_sum', 'ols_rss')]
THEOREMS = list(THEOREMS) + ['MM.Memo.tie_memoised']
TRUSTED_BASE = [
    'Lean 4.33.0 kernel + Mathlib (real analysis); axioms propext, Classical.choice, Quot.sound (audited per theorem)',
    'generic numeric model MM/Model/Numeric.lean: theorems at ℝ, correspondence at Float (IEEE double, Lean Float = C double) '
    'to relative 1e-9 on well-conditioned generated frames; rounding and summation order are not modelled',
    'statsmodels OLS = textbook normal equations; scipy Student-t ppf/cdf are external functions (values supplied by scipy '
    'to the Float run; arbitrary functions in the theorems); pandas groupby-sum = per-(group, date) totals computed by the harness',
    'correspondence harness harness/props/c06.py + engines/numeric.py, driver lean/drivers/Numeric.lean',
]
LEVELS = [0.9, 0.8, 0.95, 0.5, 0.6, 0.3]


def variants(rng, fr):
  """frames that must give the same posterior: shuffled rows, one geo split in two, extra unassigned geos / dates"""
  rows = fr['rows']
  out = {}
  sh = list(rows)
  rng.shuffle(sh)
  out['shuffled'] = sh
  g = rng.choice(sorted({r[0] for r in rows if r[2] in (1, 2)}))
  w = rng.choice([0.25, 0.5, 0.75])
  sp = []
  for r in rows:
    if r[0] == g:
      sp.append([g + 'a', r[1], r[2], r[3], r[4] * w, r[5] * w])
      sp.append([g + 'b', r[1], r[2], r[3], r[4] - r[4] * w, r[5] - r[5] * w])
    else:
      sp.append(r)
  out['split_geo'] = sp
  dates = sorted({r[1] for r in rows})
  ex = list(rows)
  for d in dates:
    ex.append(['zz', d, -1, next(r[3] for r in rows if r[1] == d), rng.uniform(0, 900), 1.0])
  for d in (max(dates) + 1, max(dates) + 2):       # unassigned period after the experiment
    for g2 in sorted({r[0] for r in rows}):
      grp = next(r[2] for r in rows if r[0] == g2)
      ex.append([g2, d, grp, -1, rng.uniform(0, 900), 1.0])
  out['extra_unassigned'] = ex
  return out


def check_frame(out, rng, fr, sess, pending):
  use_cool = fr.get('use_cooldown', True)
  px, py, tx, ty = en.series(fr, use_cool)
  case = {'frame': fr}
  facts = {'call': 'TBR', 'n_pre': fr['n_pre'], 'df': fr['n_pre'] - 2}
  try:
    m = en.real_tbr(fr, use_cooldown=use_cool)
  except Exception as e:
    out.oracle_violation(dict(facts, symptom='exception', exception=type(e).__name__), case,
                         f'TBR.fit raised {type(e).__name__}: {e}')
    return
  cond = en.conditioned(px, py)
  rescales = [1.0, rng.choice([0.5, 2.0, 0.125, -1.0, -0.25])]
  try:
    en.real_posterior(m, 1.0)
    m.summary(report='all')
  except Exception as e:
    out.oracle_violation(dict(facts, symptom='exception', exception=type(e).__name__), case,
                         f'posterior / summary raised {type(e).__name__}: {str(e)[:150]} (integer-valued columns: {fr.get("int_values")})')
    return
  for rs in rescales:
    loc, scale, df = en.real_posterior(m, rs)
    kl, ks, kdf = en.kerman(px, py, tx, ty, rs)
    if cond and not (en.all_close(loc, kl, 1e-8) and en.all_close(scale, ks, 1e-8) and df == kdf):
      out.oracle_violation(dict(facts, symptom='not-closed-form', rescale=rs), case,
                           f'posterior (rescale={rs}) differs from Kerman eq. 5: loc {loc[:3]} vs {kl[:3]}, scale {scale[:3]} vs {ks[:3]}, df {df} vs {kdf}')
      return
  loc, scale, df = en.real_posterior(m, 1.0)
  if not np.all(scale > 0) or not np.all(np.isfinite(scale)):
    # zero residual variance (e.g. three pre-period points on a line): the posterior scale is 0, there is no Student-t
    # distribution to summarise; outside the claim
    out.count(None)
    return
  # layout independence
  if cond:
    for name, rows in variants(rng, fr).items():
      try:
        l2, s2, d2 = en.real_posterior(en.real_tbr(fr, use_cooldown=use_cool, rows=rows), 1.0)
      except Exception as e:
        out.oracle_violation(dict(facts, symptom='layout-exception', variant=name), dict(case, variant=name),
                             f'{name}: TBR raised {type(e).__name__}: {e}')
        return
      if not (en.all_close(l2, loc, 1e-9) and en.all_close(s2, scale, 1e-9) and d2 == df):
        out.oracle_violation(dict(facts, symptom='layout-dependent', variant=name), dict(case, variant=name),
                             f'posterior changes under "{name}": loc {loc[:2]} -> {l2[:2]}, scale {scale[:2]} -> {s2[:2]}')
        return
  # summary rows
  level = rng.choice(LEVELS)
  tails = rng.choice([1, 2])
  thr = rng.choice([0.0, 0.0, float(np.round(loc[-1], 1)), 10.0, -5.0])
  rs = rng.choice([1.0, 1.0, 0.5, -2.0])
  sm = m.summary(level=level, threshold=thr, tails=tails, report='all', rescale=rs)
  # the 'last' report mode is the last row of the 'all' report
  sml = m.summary(level=level, threshold=thr, tails=tails, report='last', rescale=rs)
  cols = ['estimate', 'precision', 'lower', 'upper', 'scale', 'probability']
  a_last, b_last = [float(sm[c].iloc[-1]) for c in cols], [float(sml[c].iloc[0]) for c in cols]
  if len(sml) != 1 or any(not (x == y or (math.isnan(x) and math.isnan(y))) for x, y in zip(a_last, b_last)):
    out.oracle_violation(dict(facts, call='TBR.summary', symptom='report-modes'), dict(case, level=level, tails=tails, thr=thr, rescale=rs),
                         f"summary(report='last') {b_last} is not the last row of summary(report='all') {a_last}")
    return
  rl, rsc, _ = en.real_posterior(m, rs)
  alpha = (1 - level) / tails
  sfacts = dict(facts, call='TBR.summary', tails=tails, level=level, rescale=rs)
  for i in range(len(sm)):
    est, prec, lo, up, sc, prob = (float(sm[c].iloc[i]) for c in ('estimate', 'precision', 'lower', 'upper', 'scale', 'probability'))
    tol = 1e-9 * max(1.0, abs(est), abs(sc))
    if not en.close(est, rl[i], 1e-9, abs(rsc[i])):
      out.oracle_violation(dict(sfacts, symptom='estimate-not-location'), dict(case, level=level, tails=tails, thr=thr, rescale=rs),
                           f'summary estimate {est} is not the posterior location {rl[i]} (day {i}, n_pre={fr["n_pre"]})')
      return
    if any(math.isnan(v) for v in (est, lo, up, prob)):
      out.oracle_violation(dict(sfacts, symptom='nan-summary'), dict(case, level=level, tails=tails, thr=thr, rescale=rs),
                           f'summary row {i} contains NaN: estimate {est} lower {lo} upper {up} probability {prob}')
      return
    if lo > est + tol or up < est - tol:
      out.oracle_violation(dict(sfacts, symptom='lower>estimate' if lo > est + tol else 'upper<estimate'),
                           dict(case, level=level, tails=tails, thr=thr, rescale=rs),
                           f'summary row {i}: lower {lo} estimate {est} upper {up} (level={level}, tails={tails})')
      return
    if abs(prec - (est - lo)) > tol:
      out.oracle_violation(dict(sfacts, symptom='precision'), dict(case, level=level, tails=tails, thr=thr, rescale=rs),
                           f'summary row {i}: precision {prec} != estimate - lower {est - lo}')
      return
    want_p = 1.0 - stats.t.cdf((thr - rl[i]) / rsc[i], df)
    if abs(prob - want_p) > 1e-9:
      out.oracle_violation(dict(sfacts, symptom='probability'), dict(case, level=level, tails=tails, thr=thr, rescale=rs),
                           f'summary row {i}: probability {prob} != P(effect > threshold) = {want_p}')
      return
  # design side = analysis side
  if cond and len(tx) >= 1:
    from matched_markets.methodology import tbrmmdiagnostics, tbrmmdesignparameters
    par = tbrmmdesignparameters.TBRMMDesignParameters(n_test=len(tx), iroas=1.0, sig_level=max(level, 0.5 + 1e-9) if level < 1 else 0.9)
    d = tbrmmdiagnostics.TBRMMDiagnostics(py, par)
    d.x = px
    f = d.tbrfit(float(tx.mean()), float(ty.mean()))
    sm1 = m.summary(level=par.sig_level, tails=1, report='last')
    if not (en.close(f.estimate, loc[-1], 1e-8, abs(scale[-1])) and en.close(f.cihw, float(sm1['precision'].iloc[0]), 1e-8) and
            en.close(f.scale, scale[-1], 1e-8)):
      out.oracle_violation(dict(facts, symptom='design-vs-analysis'), case,
                           f'design-side fit (estimate {f.estimate}, half-width {f.cihw}, scale {f.scale}) differs from the analysis '
                           f'(estimate {loc[-1]}, precision {float(sm1["precision"].iloc[0])}, scale {scale[-1]})')
      return
    if fr.get('int_values') and float(np.abs(np.concatenate([px, py])).max()) * 1000 < 2 ** 31:
      # count-like data in thousands, the control series handed over as a 32-bit integer array: the unit change is exact
      k = 1000.0
      d_big = tbrmmdiagnostics.TBRMMDiagnostics(py * k, par)
      d_big.x = (px * k).astype(np.int32)
      fb = d_big.tbrfit(float(tx.mean()) * k, float(ty.mean()) * k)
      if not (en.close(fb.estimate, k * f.estimate, 1e-8, abs(k * f.scale)) and en.close(fb.cihw, k * f.cihw, 1e-8) and en.close(fb.scale, k * f.scale, 1e-8)):
        out.oracle_violation(dict(facts, symptom='design-int32'), case,
                             f'design-side fit on the same data in thousands with an int32 control series: (estimate, half-width, scale) = '
                             f'({fb.estimate}, {fb.cihw}, {fb.scale}), expected 1000 x ({f.estimate}, {f.cihw}, {f.scale})')
        return
  # model requests (Float correspondence) on well-conditioned frames
  if sess is not None and cond:
    sess.set_series(px, py, tx, ty)
    r1 = sess.req('posterior ' + en.bits(rs), 4)
    qA = stats.t.ppf(alpha, df)
    qU = stats.t.ppf(1 - alpha, df) if tails == 2 else None
    i = len(sm) - 1
    r2 = sess.req(f'summary {en.bits(rl[i])} {en.bits(rsc[i])} {en.bits(qA)} {en.bits(qU) if qU is not None else "none"} {en.bits(thr)}', 1)
    pending.append(('c06', case, r1, r2, dict(loc=rl, scale=rsc, df=df, row=[float(sm[c].iloc[i]) for c in ('estimate', 'precision', 'lower', 'upper', 'probability')],
                                             level=level, tails=tails, thr=thr, rescale=rs)))
  out.count((fr['n_pre'], fr['n_test'], fr['n_cool'], round(float(loc[-1]), 6)) if cond else None)


def compare_model(out, pending, results):
  for (_, case, r1, r2, real) in pending:
    L = results[r1]
    mloc, msc = en.parse_vals(L[0], 1), en.parse_vals(L[1], 1)
    mdf = int(L[2].split()[1])
    mk = en.parse_vals(L[3], 1)
    sc = float(max(np.abs(real['scale']).max(), 1e-300))
    if not (en.all_close(mloc, real['loc'], 1e-8, sc) and en.all_close(msc, real['scale'], 1e-8) and mdf == real['df']
            and en.all_close(mk, real['scale'], 1e-8)):
      out.mismatch('numeric-posterior', case, f'posterior: implementation loc {list(real["loc"][:3])} scale {list(real["scale"][:3])} df {real["df"]}; '
                   f'model loc {mloc[:3]} scale {msc[:3]} df {mdf} kerman {mk[:3]}')
      continue
    v = en.parse_vals(results[r2][0])
    est, prec, lo, up, z = v
    want = real['row']
    prob = 1.0 - stats.t.cdf(z, real['df'])
    if not (en.close(est, want[0], 1e-9, sc) and en.close(prec, want[1], 1e-8, sc) and en.close(lo, want[2], 1e-8, sc)
            and en.close(up, want[3], 1e-8, sc) and abs(prob - want[4]) < 1e-8):
      out.mismatch('numeric-summary', case, f'summary row: implementation {want}; model {[est, prec, lo, up, prob]} '
                   f'(level={real["level"]}, tails={real["tails"]}, thr={real["thr"]}, rescale={real["rescale"]})')


def corpus_frames():
  d = os.path.join(core.CORPUS, PROP)
  out = []
  if os.path.isdir(d):
    for fn in sorted(os.listdir(d)):
      with open(os.path.join(d, fn)) as f:
        out.append(json.load(f)['frame'])
  return out


def run(out, tier, model_ok=True):
  rng = core.rng_for(PROP)
  n = 150 if tier == 'quick' else 4000
  frames = corpus_frames()
  for i in range(n):
    fr = en.gen_frame(rng, n_pre=(3 if i % 15 == 0 else None), spike=(i % 11 == 0), flat_test=(i % 13 == 6))
    fr['use_cooldown'] = rng.random() < 0.7
    if i % 4 == 1 and frames and 'refit_after' not in frames[-1]:
      fr['refit_after'] = {k: v for k, v in frames[-1].items() if k != 'refit_after'}      # one analysis object, two experiments in a row
    frames.append(fr)
  sess = en.ModelSession() if model_ok else None
  pending = []
  for fr in frames:
    check_frame(out, rng, fr, sess, pending)
  if sess is not None and pending:
    compare_model(out, pending, sess.run())
  out.rule = ('generated experiment frames: 1-4 geos per group, n_pre 3-20 (every 15th frame n_pre = 3), 1-8 test days, 0-4 cooldown days, every fourth frame fitted on an object that had already analysed the previous frame, '
              'leading unassigned dates and unassigned geos, shuffled rows, with/without cooldown; per frame: closed-form check for two '
              'rescale factors (incl. negative), three layout variants, a summary with random level/tails/threshold/rescale on all days, '
              'design-side vs analysis-side; model correspondence on well-conditioned frames; non-trivial = well-conditioned frame; '
              'distinct by (n_pre, n_test, n_cool, final location)')
  out.extra.update({'frames': len(frames), 'model_compared': len(pending)})
  fr0 = frames[len(frames) // 2]
  out.sample({k: (v[:6] if k == 'rows' else v) for k, v in fr0.items()})


def replay(out, path, model_ok=True):
  with open(path) as f:
    rp = json.load(f)
  case = (rp.get('violation') or (rp.get('correspondence_mismatches') or [{}])[0]).get('case')
  rng = core.rng_for(PROP, 'replay')
  check_frame(out, rng, case['frame'], None, [])
  out.count(('replay', 1)); out.count(('replay', 2))
