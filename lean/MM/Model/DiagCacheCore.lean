/- Cache attributes of TBRMMDiagnostics (C08). -/
namespace MM.DiagCache
inductive Cache | corr | required_impact | pretestfit | aatest | bbtest | dwtest | tests_ok
deriving DecidableEq, Repr
def Cache.all : List Cache := [.corr, .required_impact, .pretestfit, .aatest, .bbtest, .dwtest, .tests_ok]
end MM.DiagCache
