/-
Core types of the model of TBRMMDesignParameters (C17): Python values, bounds,
comparison operators and the three validation helpers.  The check table, field
list, optionality and defaults are generated from the source (MM.Generated.ParamsGen).
-/
import MM.Model.Basic
namespace MM.Params
open MM

/-- Python values a caller may pass for a field. -/
inductive PyVal
  | int (z : Int)
  | float (f : PyFloat)
  | bool (b : Bool)          -- `isinstance(True, int)` holds in Python
  | none
  | tuple (l : List PyVal)
  | other                    -- str, list, ... : neither int, float, tuple nor None
deriving Repr, Inhabited

/-- `isinstance(v, int) or isinstance(v, float)` -/
def PyVal.isNum : PyVal → Bool
  | .int _ | .float _ | .bool _ => true
  | _ => false

/-- numeric value used by Python's mixed int/float comparisons (exact). -/
def PyVal.num : PyVal → PyFloat
  | .int z => .fin (z : Rat)
  | .bool b => .fin (if b then 1 else 0)
  | .float f => f
  | _ => .nan

inductive Bound
  | int (z : Int)
  | float (f : PyFloat)
deriving Repr

def Bound.num : Bound → PyFloat
  | .int z => .fin (z : Rat)
  | .float f => f
/-- `isinstance(bound, int)` -/
def Bound.isInt : Bound → Bool
  | .int _ => true
  | .float _ => false

inductive Op | gt | lt | le | ge
deriving DecidableEq, Repr

/-- `_test_functions[op](a, b)` -/
def Op.test : Op → PyFloat → PyFloat → Bool
  | .lt, a, b => PyFloat.lt a b
  | .gt, a, b => PyFloat.lt b a
  | .le, a, b => PyFloat.le a b
  | .ge, a, b => PyFloat.le b a

/-- `value % 1 != 0` for a numeric value (repaired tree; `inf % 1` is NaN, and NaN != 0). -/
def notIntegral : PyFloat → Bool
  | .fin q => decide (q ≠ (q.floor : Rat))
  | _ => true

inductive Check (F : Type)
  | vsThreshold (attr : F) (op : Op) (bound : Bound)
  | withinBounds (lower : Bound) (op1 : Op) (attr : F) (op2 : Op) (upper : Bound)
  | range (lower : Bound) (op1 : Op) (attr : F) (op3 : Op) (op2 : Op) (upper : Bound)
deriving Repr

/-- `_test_value_vs_threshold` -/
def testVsThreshold (optional : Bool) (v : PyVal) (op : Op) (bound : Bound) : Py Unit :=
  match v with
  | .none => if optional then .ok () else .error .valueError
  | v =>
    if !v.isNum then .error .valueError
    else if !op.test v.num bound.num then .error .valueError
    else if bound.isInt && notIntegral v.num then .error .valueError
    else .ok ()

/-- `_test_value_within_bounds` -/
def testWithinBounds (optional : Bool) (lower : Bound) (op1 : Op) (v : PyVal) (op2 : Op) (upper : Bound) : Py Unit :=
  match v with
  | .none => if optional then .ok () else .error .valueError
  | v =>
    if !v.isNum then .error .valueError
    else if !(op1.test lower.num v.num && op2.test v.num upper.num) then .error .valueError
    else if lower.isInt && notIntegral v.num then .error .valueError
    else .ok ()

/-- `_test_range` -/
def testRange (optional : Bool) (lower : Bound) (op1 : Op) (v : PyVal) (op3 op2 : Op) (upper : Bound) : Py Unit :=
  match v with
  | .none => if optional then .ok () else .error .valueError
  | .tuple [a, b] =>
    if !(a.isNum && b.isNum) then .error .valueError
    else if !(op1.test lower.num a.num && op2.test b.num upper.num) then .error .valueError
    else if !op3.test a.num b.num then .error .valueError
    else if lower.isInt && (notIntegral a.num || notIntegral b.num) then .error .valueError
    else .ok ()
  | _ => .error .valueError

end MM.Params
