/-
Helper lemmas for C20 (date windows): `eraseDups`, `mapM` over `Except`, and the
proleptic-Gregorian calendar arithmetic.  Core Lean only.
-/
import MM.Model.Dates

namespace MM.Dates
open MM

/-! ### `eraseDups` -/

theorem nodup_eraseDups_aux {α : Type} [BEq α] [LawfulBEq α] :
    ∀ (n : Nat) (l : List α), l.length ≤ n → l.eraseDups.Nodup := by
  intro n
  induction n with
  | zero =>
    intro l hl
    have : l = [] := List.eq_nil_of_length_eq_zero (by omega)
    subst this; simp
  | succ n ih =>
    intro l hl
    cases l with
    | nil => simp
    | cons a as =>
      rw [List.eraseDups_cons, List.nodup_cons]
      refine ⟨?_, ?_⟩
      · rw [List.mem_eraseDups, List.mem_filter]
        simp
      · apply ih
        have := List.length_filter_le (fun b => !b == a) as
        simp only [List.length_cons] at hl
        omega

theorem nodup_eraseDups {α : Type} [BEq α] [LawfulBEq α] (l : List α) : l.eraseDups.Nodup :=
  nodup_eraseDups_aux l.length l (Nat.le_refl _)

/-! ### windows -/

theorem mem_windowDays (w : Window) (n : Nat) : n ∈ windowDays w ↔ w.1 ≤ n ∧ n ≤ w.2 := by
  unfold windowDays
  rw [List.mem_range'_1]
  omega

theorem mem_expand (ws : List Window) (n : Nat) :
    n ∈ expand ws ↔ ∃ w ∈ ws, w.1 ≤ n ∧ n ≤ w.2 := by
  unfold expand
  rw [List.mem_eraseDups, List.mem_flatMap]
  constructor
  · rintro ⟨w, hw, hn⟩
    exact ⟨w, hw, (mem_windowDays w n).1 hn⟩
  · rintro ⟨w, hw, hn⟩
    exact ⟨w, hw, (mem_windowDays w n).2 hn⟩

theorem nodup_expand (ws : List Window) : (expand ws).Nodup := nodup_eraseDups _

theorem expand_perm_of_mem_iff (ws ws' : List Window)
    (h : ∀ n, n ∈ expand ws ↔ n ∈ expand ws') : (expand ws).Perm (expand ws') :=
  (List.perm_ext_iff_of_nodup (nodup_expand ws) (nodup_expand ws')).2 h

/-! ### parsing: only `ValueError` -/

theorem entryOfParts_total (parts : List String) :
    (∃ w, entryOfParts parts = .ok w) ∨ entryOfParts parts = .error .valueError := by
  unfold entryOfParts
  split
  · split
    · exact Or.inl ⟨_, rfl⟩
    · exact Or.inr rfl
  · split
    · split
      · exact Or.inr rfl
      · exact Or.inl ⟨_, rfl⟩
    · exact Or.inr rfl
  · exact Or.inr rfl

theorem parseEntry_total (s : String) :
    (∃ w, parseEntry s = .ok w) ∨ parseEntry s = .error .valueError :=
  entryOfParts_total _

theorem findDays_nil : findDays [] = .ok [] := rfl

theorem findDays_cons (e : String) (es : List String) :
    findDays (e :: es) =
      (match parseEntry e with
       | .error err => .error err
       | .ok w => match findDays es with
         | .error err => .error err
         | .ok ws => .ok (w :: ws)) := by
  unfold findDays
  rw [List.mapM_cons]
  cases parseEntry e with
  | error err => rfl
  | ok w =>
    cases List.mapM parseEntry es with
    | error err => rfl
    | ok ws => rfl

theorem findDays_total (es : List String) :
    (∃ ws, findDays es = .ok ws) ∨ findDays es = .error .valueError := by
  induction es with
  | nil => exact Or.inl ⟨[], rfl⟩
  | cons e es ih =>
    rw [findDays_cons]
    rcases parseEntry_total e with ⟨w, hw⟩ | hw
    · rw [hw]
      rcases ih with ⟨ws, hws⟩ | hws
      · rw [hws]; exact Or.inl ⟨_, rfl⟩
      · rw [hws]; exact Or.inr rfl
    · rw [hw]; exact Or.inr rfl

theorem findDays_bad (es : List String) (e : String) (he : e ∈ es)
    (hbad : parseEntry e = .error .valueError) : findDays es = .error .valueError := by
  induction es with
  | nil => cases he
  | cons e' es ih =>
    rw [findDays_cons]
    rcases List.mem_cons.1 he with rfl | he'
    · rw [hbad]
    · rcases parseEntry_total e' with ⟨w, hw⟩ | hw
      · rw [hw, ih he']
      · rw [hw]

theorem findDays_cons_ok (e : String) (es : List String) (ws : List Window)
    (h : findDays (e :: es) = .ok ws) :
    ∃ w ws₀, parseEntry e = .ok w ∧ findDays es = .ok ws₀ ∧ ws = w :: ws₀ := by
  rw [findDays_cons] at h
  cases hw : parseEntry e with
  | error err => rw [hw] at h; cases h
  | ok w =>
    rw [hw] at h
    cases hws : findDays es with
    | error err => rw [hws] at h; cases h
    | ok ws₀ =>
      rw [hws] at h
      exact ⟨w, ws₀, rfl, rfl, by cases h; rfl⟩

theorem findDays_of_ok (e : String) (es : List String) (w : Window) (ws : List Window)
    (hw : parseEntry e = .ok w) (hws : findDays es = .ok ws) :
    findDays (e :: es) = .ok (w :: ws) := by
  rw [findDays_cons, hw, hws]

theorem findDays_perm (es es' : List String) (h : es.Perm es') :
    ∀ ws, findDays es = .ok ws → ∃ ws', findDays es' = .ok ws' ∧ ws.Perm ws' := by
  induction h with
  | nil => intro ws h; exact ⟨ws, h, List.Perm.refl _⟩
  | cons e _ ih =>
    intro ws h
    obtain ⟨w, ws₀, hw, hws₀, rfl⟩ := findDays_cons_ok _ _ _ h
    obtain ⟨ws', h', hp⟩ := ih ws₀ hws₀
    exact ⟨w :: ws', findDays_of_ok _ _ _ _ hw h', hp.cons w⟩
  | swap e₁ e₂ l =>
    intro ws h
    obtain ⟨w₂, ws₁, hw₂, h₁, rfl⟩ := findDays_cons_ok _ _ _ h
    obtain ⟨w₁, ws₀, hw₁, h₀, rfl⟩ := findDays_cons_ok _ _ _ h₁
    exact ⟨w₁ :: w₂ :: ws₀,
      findDays_of_ok _ _ _ _ hw₁ (findDays_of_ok _ _ _ _ hw₂ h₀), List.Perm.swap _ _ _⟩
  | trans _ _ ih₁ ih₂ =>
    intro ws h
    obtain ⟨ws₁, h₁, hp₁⟩ := ih₁ ws h
    obtain ⟨ws₂, h₂, hp₂⟩ := ih₂ ws₁ h₁
    exact ⟨ws₂, h₂, hp₁.trans hp₂⟩

theorem pipeline_eq (es : List String) :
    pipeline es = (match findDays es with
      | .error err => .error err
      | .ok ws => .ok (expand ws)) := by
  unfold pipeline
  cases findDays es with
  | error err => rfl
  | ok ws => rfl

/-! ### calendar -/

theorem isLeap_iff (y : Nat) :
    isLeap y = true ↔ y % 4 = 0 ∧ (y % 100 ≠ 0 ∨ y % 400 = 0) := by
  simp [isLeap]

theorem valid_iff (dt : Date) :
    dt.valid = true ↔ 1 ≤ dt.y ∧ 1 ≤ dt.m ∧ dt.m ≤ 12 ∧ 1 ≤ dt.d ∧ dt.d ≤ daysInMonth dt.y dt.m := by
  simp [Date.valid, and_assoc]

theorem daysInMonth_bounds (y m : Nat) : 28 ≤ daysInMonth y m ∧ daysInMonth y m ≤ 31 := by
  unfold daysInMonth
  split
  · split <;> omega
  · split <;> omega

theorem daysInMonth_pos (y m : Nat) : 1 ≤ daysInMonth y m := by
  have := (daysInMonth_bounds y m).1; omega

theorem daysBeforeMonth_succ (y m : Nat) (hm : 1 ≤ m) :
    daysBeforeMonth y (m + 1) = daysBeforeMonth y m + daysInMonth y m := by
  cases m with
  | zero => omega
  | succ k => rfl

/-- the end of month `m₁` is no later than the start of any later month -/
theorem daysBeforeMonth_lt (y m₁ m₂ : Nat) (h1 : 1 ≤ m₁) (h : m₁ < m₂) :
    daysBeforeMonth y m₁ + daysInMonth y m₁ ≤ daysBeforeMonth y m₂ := by
  induction m₂ with
  | zero => omega
  | succ k ih =>
    have hk : 1 ≤ k := by omega
    rw [daysBeforeMonth_succ y k hk]
    by_cases hlt : m₁ < k
    · have := ih hlt; omega
    · have : m₁ = k := by omega
      subst this; omega

theorem daysBeforeMonth_13 (y : Nat) :
    daysBeforeMonth y 13 = if isLeap y then 366 else 365 := by
  have e : ∀ m, 1 ≤ m → daysBeforeMonth y (m + 1) = daysBeforeMonth y m + daysInMonth y m :=
    daysBeforeMonth_succ y
  have e1 : daysBeforeMonth y 1 = 0 := rfl
  rw [e 12 (by omega), e 11 (by omega), e 10 (by omega), e 9 (by omega), e 8 (by omega),
    e 7 (by omega), e 6 (by omega), e 5 (by omega), e 4 (by omega), e 3 (by omega),
    e 2 (by omega), e 1 (by omega), e1]
  have d1 : daysInMonth y 1 = 31 := by simp [daysInMonth]
  have d2 : daysInMonth y 2 = if isLeap y then 29 else 28 := by simp [daysInMonth]
  have d3 : daysInMonth y 3 = 31 := by simp [daysInMonth]
  have d4 : daysInMonth y 4 = 30 := by simp [daysInMonth]
  have d5 : daysInMonth y 5 = 31 := by simp [daysInMonth]
  have d6 : daysInMonth y 6 = 30 := by simp [daysInMonth]
  have d7 : daysInMonth y 7 = 31 := by simp [daysInMonth]
  have d8 : daysInMonth y 8 = 31 := by simp [daysInMonth]
  have d9 : daysInMonth y 9 = 30 := by simp [daysInMonth]
  have d10 : daysInMonth y 10 = 31 := by simp [daysInMonth]
  have d11 : daysInMonth y 11 = 30 := by simp [daysInMonth]
  have d12 : daysInMonth y 12 = 31 := by simp [daysInMonth]
  rw [d1, d2, d3, d4, d5, d6, d7, d8, d9, d10, d11, d12]
  cases isLeap y <;> simp

theorem div_facts (z : Nat) :
    z / 100 ≤ z / 4 ∧ (z + 1) / 100 ≤ (z + 1) / 4 ∧
    ((z + 1) / 4 = z / 4 + if (z + 1) % 4 = 0 then 1 else 0) ∧
    ((z + 1) / 100 = z / 100 + if (z + 1) % 100 = 0 then 1 else 0) ∧
    ((z + 1) / 400 = z / 400 + if (z + 1) % 400 = 0 then 1 else 0) := by
  refine ⟨?_, ?_, ?_, ?_, ?_⟩
  · omega
  · omega
  · split <;> omega
  · split <;> omega
  · split <;> omega

theorem daysBeforeYear_succ (y : Nat) (hy : 1 ≤ y) :
    daysBeforeYear (y + 1) = daysBeforeYear y + (if isLeap y then 366 else 365) := by
  obtain ⟨z, rfl⟩ : ∃ z, y = z + 1 := ⟨y - 1, by omega⟩
  unfold daysBeforeYear
  simp only [Nat.add_sub_cancel]
  obtain ⟨l1, l2, e4, e100, e400⟩ := div_facts z
  have m1 : (z + 1) % 100 = 0 → (z + 1) % 4 = 0 := by omega
  have m2 : (z + 1) % 400 = 0 → (z + 1) % 100 = 0 := by omega
  generalize (z + 1) / 4 = a' at *
  generalize (z + 1) / 100 = b' at *
  generalize (z + 1) / 400 = c' at *
  generalize z / 4 = a at *
  generalize z / 100 = b at *
  generalize z / 400 = c at *
  by_cases hl : isLeap (z + 1) = true
  · rw [if_pos hl]
    rw [isLeap_iff] at hl
    generalize (z + 1) % 4 = r4 at *
    generalize (z + 1) % 100 = r100 at *
    generalize (z + 1) % 400 = r400 at *
    split at e4 <;> split at e100 <;> split at e400 <;> omega
  · rw [if_neg hl]
    rw [isLeap_iff] at hl
    generalize (z + 1) % 4 = r4 at *
    generalize (z + 1) % 100 = r100 at *
    generalize (z + 1) % 400 = r400 at *
    split at e4 <;> split at e100 <;> split at e400 <;> omega
theorem daysBeforeYear_succ' (y : Nat) (hy : 1 ≤ y) :
    daysBeforeYear (y + 1) = daysBeforeYear y + daysBeforeMonth y 13 := by
  rw [daysBeforeYear_succ y hy, daysBeforeMonth_13]

theorem daysBeforeYear_mono (y₁ y₂ : Nat) (h1 : 1 ≤ y₁) (h : y₁ ≤ y₂) :
    daysBeforeYear y₁ ≤ daysBeforeYear y₂ := by
  induction y₂ with
  | zero => omega
  | succ k ih =>
    by_cases hk : y₁ ≤ k
    · have := ih hk
      rw [daysBeforeYear_succ k (by omega)]
      omega
    · have : y₁ = k + 1 := by omega
      subst this; omega

/-- a valid date lies within its year -/
theorem ordinal_lt_next_year (dt : Date) (h : dt.valid = true) :
    ordinal dt ≤ daysBeforeYear (dt.y + 1) := by
  rw [valid_iff] at h
  obtain ⟨hy, hm1, hm12, _, hd⟩ := h
  rw [daysBeforeYear_succ' dt.y hy]
  have := daysBeforeMonth_lt dt.y dt.m 13 hm1 (by omega)
  unfold ordinal
  omega

theorem succDay_valid (d : Date) (h : d.valid = true) : (succDay d).valid = true := by
  rw [valid_iff] at h
  obtain ⟨hy, hm1, hm12, hd1, hd⟩ := h
  unfold succDay
  split
  · rw [valid_iff]; simp only; omega
  · split
    · rw [valid_iff]; simp only
      have := daysInMonth_pos d.y (d.m + 1)
      omega
    · rw [valid_iff]; simp only
      have := daysInMonth_pos (d.y + 1) 1
      omega

theorem ordinal_succDay (d : Date) (h : d.valid = true) :
    ordinal (succDay d) = ordinal d + 1 := by
  rw [valid_iff] at h
  obtain ⟨hy, hm1, hm12, hd1, hd⟩ := h
  unfold succDay
  split
  · unfold ordinal; simp only; omega
  · split
    · unfold ordinal; simp only
      rw [daysBeforeMonth_succ d.y d.m hm1]
      omega
    · have hm : d.m = 12 := by omega
      unfold ordinal; simp only
      rw [daysBeforeYear_succ' d.y hy, daysBeforeMonth_succ d.y 12 (by omega)]
      have : daysBeforeMonth (d.y + 1) 1 = 0 := rfl
      have e1 : daysInMonth d.y d.m = daysInMonth d.y 12 := by rw [hm]
      have e2 : daysBeforeMonth d.y d.m = daysBeforeMonth d.y 12 := by rw [hm]
      omega

theorem ordinal_strictMono (d1 d2 : Date) (h1 : d1.valid = true) (h2 : d2.valid = true)
    (hlt : d1.y < d2.y ∨ (d1.y = d2.y ∧ (d1.m < d2.m ∨ (d1.m = d2.m ∧ d1.d < d2.d)))) :
    ordinal d1 < ordinal d2 := by
  rcases hlt with hy | ⟨hy, hm | ⟨hm, hd⟩⟩
  · have a := ordinal_lt_next_year d1 h1
    rw [valid_iff] at h1 h2
    have b := daysBeforeYear_mono (d1.y + 1) d2.y (by omega) (by omega)
    have : daysBeforeYear d2.y < ordinal d2 := by unfold ordinal; omega
    omega
  · rw [valid_iff] at h1 h2
    have := daysBeforeMonth_lt d2.y d1.m d2.m h1.2.1 hm
    unfold ordinal
    rw [hy] at h1 ⊢
    omega
  · unfold ordinal
    rw [hy, hm]
    omega

theorem ordinal_injective (d1 d2 : Date) (h1 : d1.valid = true) (h2 : d2.valid = true)
    (h : ordinal d1 = ordinal d2) : d1 = d2 := by
  by_cases hy : d1.y = d2.y
  · by_cases hm : d1.m = d2.m
    · by_cases hd : d1.d = d2.d
      · cases d1; cases d2; simp_all
      · rcases Nat.lt_or_gt_of_ne hd with hd | hd
        · have := ordinal_strictMono d1 d2 h1 h2 (Or.inr ⟨hy, Or.inr ⟨hm, hd⟩⟩); omega
        · have := ordinal_strictMono d2 d1 h2 h1 (Or.inr ⟨hy.symm, Or.inr ⟨hm.symm, hd⟩⟩); omega
    · rcases Nat.lt_or_gt_of_ne hm with hm | hm
      · have := ordinal_strictMono d1 d2 h1 h2 (Or.inr ⟨hy, Or.inl hm⟩); omega
      · have := ordinal_strictMono d2 d1 h2 h1 (Or.inr ⟨hy.symm, Or.inl hm⟩); omega
  · rcases Nat.lt_or_gt_of_ne hy with hy | hy
    · have := ordinal_strictMono d1 d2 h1 h2 (Or.inl hy); omega
    · have := ordinal_strictMono d2 d1 h2 h1 (Or.inl hy); omega

/-! ### `parseDate` only yields valid dates -/

theorem parseDate_valid (a : String) (d : Date) (h : parseDate a = some d) : d.valid = true := by
  unfold parseDate at h
  split at h
  · split at h
    · split at h
      · dsimp only at h
        split at h
        · cases h; assumption
        · cases h
      · cases h
    · cases h
  · cases h

end MM.Dates
