/-
Helpers for C07 / C18: indexing into `zipWith` and `diff0` over ℝ, telescoping of `diff0`,
and the last element of a `zipWith`.
-/
import MM.Proofs.NumericReal
import Mathlib.Tactic.NormNum
namespace MM.Numeric

/-! ### `l[i]!` on ℝ lists -/

theorem getElem!_lt (l : List ℝ) (i : Nat) (h : i < l.length) : l[i]! = l[i] :=
  getElem!_pos l i h

theorem zipWith_getElem! (f : ℝ → ℝ → ℝ) (a b : List ℝ) (i : Nat)
    (ha : i < a.length) (hb : i < b.length) :
    (List.zipWith f a b)[i]! = f a[i]! b[i]! := by
  have hz : i < (List.zipWith f a b).length := by
    rw [List.length_zipWith]; omega
  rw [getElem!_lt _ i hz, getElem!_lt a i ha, getElem!_lt b i hb, List.getElem_zipWith]

/-! ### `diff0` -/

@[simp] theorem diff0_length (l : List ℝ) : (diff0 l).length = l.length := by
  cases l with
  | nil => rfl
  | cons a l => simp [diff0]

theorem diff0_getElem_zero (l : List ℝ) (h : 0 < l.length) :
    (diff0 l)[0]'(by rw [diff0_length]; exact h) = l[0] := by
  cases l with
  | nil => simp at h
  | cons a l => simp [diff0]

theorem diff0_getElem_succ (l : List ℝ) (i : Nat) (h : i + 1 < l.length) :
    (diff0 l)[i + 1]'(by rw [diff0_length]; exact h) = l[i + 1] - l[i] := by
  cases l with
  | nil => simp at h
  | cons a l => simp [diff0]

theorem diff0_getElem!_zero (l : List ℝ) (h : 0 < l.length) : (diff0 l)[0]! = l[0]! := by
  rw [getElem!_lt _ 0 (by rw [diff0_length]; exact h), getElem!_lt l 0 h, diff0_getElem_zero l h]

theorem diff0_getElem!_succ (l : List ℝ) (i : Nat) (h : i + 1 < l.length) :
    (diff0 l)[i + 1]! = l[i + 1]! - l[i]! := by
  rw [getElem!_lt _ (i + 1) (by rw [diff0_length]; exact h), getElem!_lt l (i + 1) h,
    getElem!_lt l i (by omega), diff0_getElem_succ l i h]

/-- the first differences telescope -/
theorem diff0_take_sum (l : List ℝ) (i : Nat) (h : i < l.length) :
    ((diff0 l).take (i + 1)).sum = l[i]! := by
  induction i with
  | zero =>
    rw [List.sum_take_succ _ _ (by rw [diff0_length]; exact h), diff0_getElem_zero l h,
      getElem!_lt l 0 h]
    simp
  | succ i ih =>
    rw [List.sum_take_succ _ _ (by rw [diff0_length]; exact h), ih (by omega),
      diff0_getElem_succ l i h, getElem!_lt l i (by omega), getElem!_lt l (i + 1) h]
    ring

/-! ### last element -/

theorem getLast!_eq_getElem! (l : List ℝ) (h : l ≠ []) : l.getLast! = l[l.length - 1]! := by
  have hl : 0 < l.length := List.length_pos_iff.mpr h
  rw [getElem!_lt l _ (by omega)]
  cases l with
  | nil => exact absurd rfl h
  | cons a l => simp [List.getLast!, List.getLast_eq_getElem]

theorem zipWith_getLast? (f : ℝ → ℝ → ℝ) (a b : List ℝ) (hlen : a.length = b.length) (h : a ≠ []) :
    (List.zipWith f a b).getLast? = some (f a.getLast! b.getLast!) := by
  have ha : 0 < a.length := List.length_pos_iff.mpr h
  have hb : b ≠ [] := by
    intro hb; rw [hb] at hlen; simp at hlen; exact h hlen
  rw [List.getLast?_eq_getElem?, List.length_zipWith, ← hlen, Nat.min_self,
    getLast!_eq_getElem! a h, getLast!_eq_getElem! b hb, ← hlen,
    getElem!_lt a _ (by omega), getElem!_lt b _ (by omega)]
  have h1 : a.length - 1 < a.length := by omega
  have h2 : a.length - 1 < b.length := by omega
  rw [List.getElem?_zipWith, List.getElem?_eq_getElem h1, List.getElem?_eq_getElem h2]

end MM.Numeric
