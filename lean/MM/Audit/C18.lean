import MM.Props.C07C18
import MM.Props.MemoTie
#print axioms MM.Numeric.C18_cumulative_order
#print axioms MM.Numeric.C18_pointwise_order_partial
#print axioms MM.Numeric.C18_pointwise_order_fails
#print axioms MM.Numeric.C18_counterfactual_sum
#print axioms MM.Numeric.C18_counterfactual_order
#print axioms MM.Numeric.C18_counterfactual_order_iff
#print axioms MM.Numeric.C18_pointwise_telescopes
#print axioms MM.Numeric.C18_last_date
#print axioms MM.Numeric.C18_cumulative_order_bundle
#print axioms MM.Numeric.quantile_nonpos
#print axioms MM.Numeric.quantile_nonneg
#print axioms MM.Memo.tie_memoised
