#!/bin/bash
# Applies each behaviour-preserving refactoring of seeded/harmless to /repo, runs the checks of the properties it touches,
# reverts. Every line must say OK: an alarm here is a false alarm (or, for a translator that cannot regenerate its
# fragment, the documented `no-failing-input-found` verdict - see DESIGN.md 13.6).
cd "$(dirname "$0")/.."
for spec in "1 C14 C03" "2 C02 C03 C13" "3 C13 C10 C02" "4 C02 C03" "5 C13 C09 C01" "6 C17" "7 C16 C01" "8 C08 C04" "9 C03 C14" "10 C15 C04" "11 C20" "12 C06 C18"; do
  set -- $spec; n=$1; shift
  echo "=== harmless refactoring $n"
  tools/try_mutant.sh "$PWD/seeded/harmless/patch$n.diff" "$@" 2>&1 | grep -v "^WARNING" | grep -E "^\[|apply|uncommitted"
done
