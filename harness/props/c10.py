"""C10: search API has no hidden state: answers do not depend on call history."""
import copy
import dataclasses
import hashlib
import json
import math
import multiprocessing as mp
import os
import warnings
import numpy as np
import core
import engines.search as se

warnings.filterwarnings('ignore')
PROP = 'C10'
LEAN_TARGETS = ['MM.Props.C10', 'MM.Driver.Wire', 'MM.Model.Api', 'MM.Props.MemoTie']
THEOREMS = ['MM.Api.' + n for n in (
    'C10_init_inv', 'C10_step_inv', 'C10_params_unchanged', 'C10_call_history_free', 'C10_history_free',
    'C10_results_idempotent', 'C10_results_after_search')]
THEOREMS = list(THEOREMS) + ['MM.Memo.tie_memoised']
TRUSTED_BASE = [
    'Lean 4.33.0 kernel; axioms propext, Classical.choice, Quot.sound (audited per theorem)',
    'hand model MM/Model/Api.lean of the mutable state of one TBRMatchedMarkets object (caller parameters, data.geo_index, stored '
    'results) over the search model; Python object aliasing / deep copies are runtime behaviour: tied by the history correspondence '
    'and by deep snapshots of the parameter object and the input frame after every call',
    'correspondence harness harness/props/c10.py via lean/drivers/Search.lean (api ops); oracle: the same call on an object freshly '
    'built from pristine copies',
]
# design_within_constraints(T, C) is deliberately not in the op set: the property lists constraint sets, assignments, size
# range, design count, group listings, searches and result retrieval; that helper needs a geo index installed first
# (on a fresh object it raises TypeError), which the property does not speak about.
QUERIES = ['geos_over_budget', 'geos_too_large', 'geos_must_include', 'geos_within_constraints', 'assignments', 'sizeRange',
           'count', 'trt', 'ctl', 'exhaustive', 'greedy', 'results', 'results']


def canon(v):
  from matched_markets.methodology import geoeligibility
  if isinstance(v, geoeligibility.GeoAssignments):
    return {k: sorted(getattr(v, k)) for k in ('all', 'c', 't', 'x', 'c_fixed', 't_fixed', 'x_fixed', 'ct', 'cx', 'ctx', 'tx')}
  if isinstance(v, (set, frozenset)):
    return sorted(v, key=str)
  if isinstance(v, range):
    return list(v)
  if isinstance(v, (bool, np.bool_)):
    return bool(v)
  if isinstance(v, (int, np.integer)):
    return int(v)
  if isinstance(v, list) and v and hasattr(v[0], 'treatment_geos'):
    return [(sorted(d.treatment_geos), sorted(d.control_geos), [float(x) for x in d.score.score]) for d in v]
  if isinstance(v, list):
    return [canon(x) for x in v]
  return v


def call(mm, op):
  """-> ('ok', canonical answer) | ('err', class name)"""
  try:
    k = op[0]
    if k in ('geos_over_budget', 'geos_too_large', 'geos_must_include', 'geos_within_constraints'):
      v = getattr(mm, k)
      ans = canon(v)
      if isinstance(v, set) and len(op) > 1 and op[1] == 'consume':
        v.clear()      # what the caller does with the answer it was given is its own business: later answers must not change
      return ('ok', ans)
    if k == 'assignments':
      return ('ok', canon(mm.geo_assignments))
    if k == 'sizeRange':
      return ('ok', canon(mm.treatment_group_size_range()))
    if k == 'count':
      return ('ok', canon(mm.count_max_designs()))
    if k == 'trt':
      return ('ok', [sorted(g) for g in mm.treatment_group_generator(op[1])])
    if k == 'ctl':
      return ('ok', [sorted(g) for g in mm.control_group_generator(set(op[1]))])
    if k == 'ok':
      return ('ok', canon(mm.design_within_constraints(set(op[1]), set(op[2]))))
    if k == 'exhaustive':
      with core.time_limit(60):
        return ('ok', canon(mm.exhaustive_search()))
    if k == 'greedy':
      with core.time_limit(60):
        return ('ok', canon(mm.greedy_search()))
    if k == 'results':
      return ('ok', canon(mm.search_results()))
    raise KeyError(k)
  except Exception as e:
    return ('err', type(e).__name__)


def same_answer(a, b):
  def eq(x, y):
    if isinstance(x, float) and isinstance(y, float):
      return x == y or (math.isnan(x) and math.isnan(y))
    if isinstance(x, (list, tuple)) and isinstance(y, (list, tuple)):
      return len(x) == len(y) and all(eq(p, q) for p, q in zip(x, y))
    if isinstance(x, dict) and isinstance(y, dict):
      return x.keys() == y.keys() and all(eq(x[k], y[k]) for k in x)
    return x == y
  return eq(a, b)


def build(inst, resolved):
  from matched_markets.methodology import tbrmmdata, tbrmatchedmarkets
  par = se.build_params(inst, resolved)
  frame = se.build_frame(inst)
  data = tbrmmdata.TBRMMData(frame, 'response', se.build_elig(inst))
  return tbrmatchedmarkets.TBRMatchedMarkets(data, par), par, frame, data


def frame_sig(df):
  # values, column types and index: an in-place type conversion of a column is a modification too
  return hashlib.sha256((df.to_csv() + repr(list(df.dtypes)) + repr(list(df.index[:3]))).encode()).hexdigest()


def gen_ops(rng, n_adm):
  ops = []
  for _ in range(rng.randint(3, 12)):
    k = rng.choice(QUERIES)
    if k == 'trt':
      ops.append(('trt', rng.randint(0, max(1, n_adm))))
    elif k == 'ctl':
      ops.append(('ctl', sorted(rng.sample(range(max(1, n_adm)), rng.randint(0, min(2, max(1, n_adm)))))))
    elif k == 'ok':
      idx = list(range(max(2, n_adm)))
      rng.shuffle(idx)
      a = rng.randint(0, min(2, len(idx) - 1))
      ops.append(('ok', sorted(idx[:a]), sorted(idx[a:a + rng.randint(0, 2)])))
    elif k == 'count' and rng.random() < 0.5:
      ops.append(('sibling', rng.choice(['count', 'assignments', 'exhaustive', 'sizeRange'])))
      ops.append((k,))
    elif k.startswith('geos_') and rng.random() < 0.4:
      ops.append((k, 'consume'))      # the caller empties the set it was handed
    else:
      ops.append((k,))
  if rng.random() < 0.5:
    ops += [rng.choice([('exhaustive',), ('greedy',)]), ('results',), ('results',)]
  return ops


def history(job):
  iid, inst, ops, extras = job
  rec = se.process((iid, inst))
  out = {'iid': iid, 'inst': inst, 'ops': ops, 'extras': extras, 'resolved': rec.get('resolved'), 'steps': [],
         'harness_error': rec.get('harness_error')}
  if rec.get('no_data_object') or rec.get('harness_error') or 'tables' not in rec:
    out['skipped'] = True
    return out
  resolved = rec['resolved']
  t = rec['tables']
  out['idx_ids'] = [t['order'][i] for i in t['idx']]
  out['order'] = t['order']
  out['n_adm'] = t['n']
  out['margin'] = rec.get('margin')
  out['model_comparable'] = bool(t['distinct_means'] and not t['table_exceptions'])
  out['wire'] = rec.get('wire')
  try:
    mm, par, frame, data = build(inst, resolved)
    par0 = dataclasses.asdict(par)
    sig0 = frame_sig(frame)
    last_search = None
    results_undefined = False
    cur_resolved = dict(resolved)
    sib = [None]
    for i, op in enumerate(ops):
      if op[0] == 'setparam':                 # the user reconfigures the object between calls
        setattr(mm.parameters, op[1], tuple(op[2]) if isinstance(op[2], list) else op[2])
        cur_resolved[op[1]] = op[2]
        par0 = dataclasses.asdict(mm.parameters)
        out['steps'].append({'op': op, 'kind': 'setparam'})
        # results stored before a reconfiguration hold geo *indices* of the old configuration; what retrieving them
        # afterwards should give is not something the property speaks about: not compared until the next search
        results_undefined = last_search is not None
        continue
      if op[0] == 'sibling':
        # a second matched-markets object on the SAME data object (another n_geos_max) is used in between; what it does
        # is not judged, but this object's later answers must not change (stored results are not compared until the
        # next search, as after a reconfiguration: they are index sets read through the shared data object)
        try:
          if sib[0] is None:
            from matched_markets.methodology import tbrmatchedmarkets
            sib[0] = tbrmatchedmarkets.TBRMatchedMarkets(data, se.build_params(inst, dict({k: v for k, v in cur_resolved.items() if v is not None}, n_geos_max=2)))
          call(sib[0], (op[1],))
        except Exception:
          pass
        out['steps'].append({'op': op, 'kind': 'setparam'})
        results_undefined = last_search is not None
        continue
      got = call(mm, op)
      if got == ('err', 'RealCodeTimeout'):
        out['steps'].append({'op': op, 'got': got, 'want': ('ok', 'an answer'), 'params_same': True, 'frame_same': True})
        break      # a call that does not come back is a failure whatever a fresh object does
      fresh_mm, _, _, _ = build(inst, {k: v for k, v in cur_resolved.items() if v is not None})
      if op[0] == 'results':
        want = last_search if last_search is not None else call(fresh_mm, op)
      else:
        want = call(fresh_mm, op)
      if op[0] in ('exhaustive', 'greedy') and got[0] == 'ok':
        last_search = got
        results_undefined = False
      if op[0] == 'results' and results_undefined:
        out['steps'].append({'op': op, 'kind': 'setparam'})     # recorded, not judged
        continue
      out['steps'].append({'op': op, 'got': got, 'want': want,
                           'params_same': dataclasses.asdict(mm.parameters) == par0 and dataclasses.asdict(par) == par0,
                           'frame_same': frame_sig(frame) == sig0})
  except Exception as e:
    import traceback
    out['harness_error'] = traceback.format_exc()[-1500:]
  return out


def model_answer(line, idx_ids, order):
  """canonical form of a model `api-out` line, in the same vocabulary as `call`"""
  kind, _, rest = line[len('api-out '):].partition(' ')
  ps = lambda x: [] if x in ('-', '') else [int(i) for i in x.split(',')]
  if kind == 'err':
    return ('err', rest.strip())
  if kind == 'geos':
    return ('ok', sorted(order[i] for i in ps(rest.strip())))
  if kind == 'sizes':
    return ('ok', ps(rest.strip()))
  if kind == 'num':
    return ('ok', int(rest))
  if kind == 'bool':
    return ('ok', rest.strip() == 'true')
  if kind == 'groups':
    return ('ok', [ps(g) for g in rest.strip().split(';')] if rest.strip() else [])
  if kind == 'designs':
    res = []
    for d in (rest.strip().split(';') if rest.strip() else []):
      T, C, sc = d.split('|')
      res.append((sorted(order[i] for i in ps(T)), sorted(order[i] for i in ps(C)), [float(core.parse_rat(x)) for x in sc.split()]))
    return ('ok', res)
  if kind == 'classes':
    return ('classes', rest.split())
  return ('other', line)


def wire_op(op):
  k = op[0]
  if k == 'sibling':
    return None
  if k in ('geos_over_budget', 'geos_too_large', 'geos_must_include'):
    return None
  if k == 'geos_within_constraints':
    return 'api withinConstraints'
  if k == 'trt':
    return f'api trt {op[1]}'
  if k == 'ctl':
    return 'api ctl ' + se.sset(op[1])
  if k == 'ok':
    return 'api ok ' + se.sset(op[1]) + ' ' + se.sset(op[2])
  return 'api ' + k


def run(out, tier, model_ok=True):
  rng = core.rng_for(PROP)
  n = 60 if tier == 'quick' else 1500
  jobs = []
  for i in range(n):
    inst = se.gen_instance(rng, tier, max_admitted=5, theme=rng.choice(['default', 'default', 'default', 'tfixed_budget', 'share_lo']))
    if rng.random() < 0.5:
      inst['params']['n_designs'] = rng.choice([2, 3, 5])
    forced_twin = i % 10 == 3
    if forced_twin:
      # every tenth history: two geos only, one the twin of the other, nothing constrained: any search must compare them
      inst['geos'] = inst['geos'][:1]
      inst['rows'] = [r for r in inst['rows'] if r[0] == inst['geos'][0]]
      inst['elig'] = None
      inst['params'] = {k: v for k, v in inst['params'].items() if k in ('n_test', 'iroas', 'n_designs', 'n_pretest_max')}
    if (rng.random() < 0.15 or forced_twin) and len(inst['geos']) >= 1:
      # a market reported twice under two IDs: perfectly correlated candidates make a search raise ValueError
      src = rng.choice(inst['geos'])
      inst['rows'] += [['twin', d, v] for g, d, v in inst['rows'] if g == src]
      inst['geos'] = inst['geos'] + ['twin']
      if inst['elig'] is not None and src in inst['elig']:
        inst['elig']['twin'] = list(inst['elig'][src])
      for k in ('treatment_geos_range', 'control_geos_range'):
        if rng.random() < 0.7:
          inst['params'].pop(k, None)
    ops = gen_ops(rng, min(5, len(inst['geos'])))
    if forced_twin:
      ops = [o for o in ops if o[0] != 'sibling'] + [('greedy',), ('results',), ('exhaustive',), ('results',)]
    extras = {}
    if i % 10 == 7:
      # every tenth history: designs are enumerated, the size / ratio constraints are changed, designs are enumerated again
      field, val = rng.choice([('control_geos_range', [1, 1]), ('control_geos_range', [1, 2]), ('geo_ratio_tolerance', 0.25),
                               ('geo_ratio_tolerance', 1.0), ('treatment_geos_range', [1, 1])])
      for k in ('budget_range', 'treatment_share_range', 'n_geos_max'):
        inst['params'].pop(k, None)
      ops = [('exhaustive',), ('ctl', [0]), ('setparam', field, val), ('ctl', [0]), ('count',), ('exhaustive',), ('results',), ('greedy',)]
    elif rng.random() < 0.45:       # reconfiguration of the object between calls
      field, val = rng.choice([('n_designs', 2), ('geo_ratio_tolerance', 1.0), ('geo_ratio_tolerance', 0.25),
                               ('control_geos_range', [1, 2]), ('control_geos_range', [1, 1]), ('treatment_geos_range', [1, 1]),
                               ('treatment_geos_range', [2, 3]), ('volume_ratio_tolerance', None), ('budget_range', None),
                               ('treatment_share_range', None)])
      pos = rng.randint(1, len(ops))
      # something that enumerates designs happens before the reconfiguration, and again after it
      before = [rng.choice([('exhaustive',), ('count',), ('ctl', [0]), ('greedy',)])]
      ops = ops[:pos] + before + [('setparam', field, val)] + ops[pos:] + [('count',), ('exhaustive',), ('results',)]
    jobs.append((f'h{i}', inst, ops, extras))
  with mp.Pool(min(16, os.cpu_count() or 4)) as pool:
    hs = pool.map(history, jobs, chunksize=2)
  # model
  model_lines = {}
  if model_ok:
    lines = []
    plan = []
    for h in hs:
      if h.get('skipped') or h.get('harness_error') or not h.get('wire'):
        continue
      cut = next((i for i, o in enumerate(h['ops']) if o[0] == 'setparam'), len(h['ops']))
      wl = [(i, wire_op(o)) for i, o in enumerate(h['ops'][:cut])]
      wl = [(i, w) for i, w in wl if w]
      lines += [l for l in h['wire'] if l != 'run'] + ['api-init'] + [w for _, w in wl]
      plan.append((h['iid'], [i for i, _ in wl]))
    outl = [l for l in core.run_driver('Search.lean', lines) if l.startswith('api-out')]
    pos = 0
    for iid, idxs in plan:
      model_lines[iid] = dict(zip(idxs, outl[pos:pos + len(idxs)]))
      pos += len(idxs)
  n_steps = 0
  for h in hs:
    if h.get('harness_error'):
      out.infra_error = 'harness error in C10 history: ' + h['harness_error'][-300:]
      continue
    if h.get('skipped'):
      out.count(None)
      continue
    case = {'inst': h['inst'], 'resolved': h['resolved'], 'ops': h['ops']}
    bad = False
    for i, st in enumerate(h['steps']):
      if st.get('kind') == 'setparam':
        continue
      n_steps += 1
      op = st['op']
      facts = {'call': op[0], 'position': i, 'n_admitted': h['n_adm'], 'after_setparam': any(s.get('kind') == 'setparam' for s in h['steps'][:i])}
      if not st['params_same']:
        out.oracle_violation(dict(facts, symptom='parameters-mutated'), case, f'after call #{i} {op} the caller\'s parameter object differs from what it was before the call')
        bad = True
        break
      if not st['frame_same']:
        out.oracle_violation(dict(facts, symptom='frame-mutated'), case, f'after call #{i} {op} the input frame is modified')
        bad = True
        break
      if not (st['got'][0] == st['want'][0] and same_answer(st['got'][1], st['want'][1])):
        out.oracle_violation(dict(facts, symptom='history-dependent' if st['got'][0] == 'ok' else 'exception',
                                  exception=st['got'][1] if st['got'][0] == 'err' else None), case,
                             f'call #{i} {op} answered {str(st["got"])[:160]} but on a freshly built object {"(last search) " if op[0] == "results" else ""}it answers {str(st["want"])[:160]}')
        bad = True
        break
      ml = model_lines.get(h['iid'], {}).get(i)
      if ml is not None and h.get('model_comparable') and (h.get('margin') or math.inf) >= se.GUARD:
        ma = model_answer(ml, h['idx_ids'], h['order'])
        got = st['got']
        if ma[0] == 'classes':
          continue
        if op[0] in ('exhaustive', 'greedy', 'results') and ma[0] == 'ok' and got[0] == 'ok':
          agree = [x[2] for x in ma[1]] == [x[2] for x in got[1]] or same_answer(ma[1], got[1])
          agree = agree and sorted(map(str, [(x[0], x[1]) for x in ma[1]])) == sorted(map(str, [(x[0], x[1]) for x in got[1]])) or same_answer(ma[1], got[1])
        elif op[0] in ('trt', 'ctl') and ma[0] == 'ok' and got[0] == 'ok':
          agree = ma[1] == got[1]
        else:
          agree = ma[0] == got[0] and same_answer(ma[1], got[1])
        if not agree:
          out.mismatch('api-history', case, f'call #{i} {op}: implementation {str(got)[:200]} model {str(ma)[:200]}')
          bad = True
          break
    searches = sum(1 for o in h['ops'] if o[0] in ('exhaustive', 'greedy'))
    out.count((h['iid'], json.dumps(h['ops'])) if (searches >= 1 and len(h['ops']) >= 4) else None)
  out.rule = (f'{n} call histories (3-15 calls) on one TBRMatchedMarkets object over generated search instances: the four constraint sets, '
              'geo_assignments, size range, design count, both generators (incl. invalid arguments), design_within_constraints, both '
              'searches, result retrieval (repeated), and in 45% of histories a reconfiguration of the parameter object between calls; '
              'after every call: answer vs the same call on an object freshly built from pristine copies, deep snapshot of the parameter '
              'object and checksum of the input frame; answers also against the Lean Api model; non-trivial = a history with a search '
              'and at least 4 calls; distinct by (instance, op sequence)')
  out.extra.update({'histories': len(hs), 'calls_checked': n_steps})
  for h in hs:
    if not h.get('skipped') and not h.get('harness_error'):
      out.sample({'ops': h['ops'], 'params': h['resolved'], 'geos': h['inst']['geos']})
      break


def replay(out, path, model_ok=True):
  with open(path) as f:
    rp = json.load(f)
  case = (rp.get('violation') or (rp.get('correspondence_mismatches') or [{}])[0]).get('case')
  ops = [tuple(o) for o in case['ops']]
  h = history(('replay', case['inst'], ops, {}))
  for i, st in enumerate(h['steps']):
    if st.get('kind') == 'setparam':
      continue
    ok = st['params_same'] and st['frame_same'] and st['got'][0] == st['want'][0] and same_answer(st['got'][1], st['want'][1])
    print(i, st['op'], 'OK' if ok else f'DIFFERS: got {str(st["got"])[:150]} want {str(st["want"])[:150]}')
    if not ok:
      out.oracle_violation({'call': st['op'][0], 'symptom': 'history-dependent'}, case, f'replayed: call #{i} {st["op"]} differs from a fresh object')
      break
  out.count(('replay', 1)); out.count(('replay', 2))
