/-
Model of the lazy caches of TBRMMDiagnostics (C08) as a state machine.

Values are abstracted to *stamps*: the pair (x version, y version) of the series a
value was computed from.  A value computed from a cached dependency inherits a stale
stamp if the dependency is stale.  The invalidation performed by the setters is
generated from the source (MM.Generated.DiagGen).
-/
import MM.Model.DiagCacheCore
import MM.Generated.DiagGen
namespace MM.DiagCache

abbrev Stamp := Nat × Nat

structure St where
  xv : Option Nat                 -- version of the current control series (`none` = None)
  yv : Nat                        -- version of the current treatment series
  yShort : Bool                   -- len(y) - n_test < 3: the A/A test returns an uncached placeholder
  next : Nat                      -- next fresh version number
  cache : Cache → Option Stamp

def init (yShort : Bool) : St :=
  { xv := none, yv := 0, yShort := yShort, next := 1, cache := fun _ => none }

/-- readable quantities -/
inductive Q | corr | required_impact | pretestfit | bbtest | dwtest | aatest | corr_test | tbrfit
  | tests_ok (nConj : Nat)   -- how many conjuncts of the `and` chain get evaluated (1..4)
deriving DecidableEq, Repr

inductive Op | setX | clearX | setY (short : Bool) | read (q : Q)
deriving DecidableEq, Repr

def clear (cs : List Cache) (cache : Cache → Option Stamp) : Cache → Option Stamp :=
  fun c => if cs.contains c then none else cache c

def setCache (cache : Cache → Option Stamp) (c : Cache) (s : Stamp) : Cache → Option Stamp :=
  fun c' => if c' = c then some s else cache c'

/-- the x setter: store the series (or None), reset the listed caches. -/
def assignX (s : St) (v : Option Nat) : St :=
  { s with xv := v, cache := clear xSetterClears s.cache }

/-- stamp of a value computed now from the current series and the given dependency values -/
def combine (cur : Stamp) (deps : List Stamp) : Stamp :=
  match deps.find? (· != cur) with
  | some stale => stale
  | none => cur

def readCorr (s : St) : St × Option Stamp :=
  match s.xv with
  | none => (s, none)
  | some x =>
    match s.cache .corr with
    | some v => (s, some v)
    | none => ({ s with cache := setCache s.cache .corr (x, s.yv) }, some (x, s.yv))

def readPretestfit (s : St) : St × Option Stamp :=
  match s.xv with
  | none => (s, none)
  | some x =>
    match s.cache .pretestfit with
    | some v => (s, some v)
    | none => ({ s with cache := setCache s.cache .pretestfit (x, s.yv) }, some (x, s.yv))

def cur (s : St) (x : Nat) : Stamp := (x, s.yv)

def readRequiredImpact (s : St) : St × Option Stamp :=
  match s.cache .required_impact with
  | some v => (s, some v)
  | none =>
    let (s1, c) := readCorr s
    match c, s1.xv with
    | some cv, some x =>
      let v := combine (cur s1 x) [cv]
      ({ s1 with cache := setCache s1.cache .required_impact v }, some v)
    | _, _ => (s1, none)

def readBbtest (s : St) : St × Option Stamp :=
  match s.xv with
  | none => (s, none)
  | some x =>
    match s.cache .bbtest with
    | some v => (s, some v)
    | none =>
      let (s1, pf) := readPretestfit s
      match pf with
      | some p =>
        let v := combine (cur s1 x) [p]
        ({ s1 with cache := setCache s1.cache .bbtest v }, some v)
      | none => (s1, none)

def readDwtest (s : St) : St × Option Stamp :=
  match s.cache .dwtest with
  | some v => (s, some v)
  | none =>
    let (s1, pf) := readPretestfit s
    match pf, s1.xv with
    | some p, some x =>
      let v := combine (cur s1 x) [p]
      ({ s1 with cache := setCache s1.cache .dwtest v }, some v)
    | _, _ => (s1, none)

def readAatest (s : St) : St × Option Stamp :=
  match s.cache .aatest with
  | some v => (s, some v)
  | none =>
    match s.xv with
    | none => (s, none)
    | some x =>
      if s.yShort then (s, some (cur s x))          -- AATestResult(None, None, None), not cached
      else ({ s with cache := setCache s.cache .aatest (cur s x) }, some (cur s x))

def readCorrTest (s : St) : St × Option Stamp :=
  let (s1, c) := readCorr s
  match c, s1.xv with
  | some cv, some x => (s1, some (combine (cur s1 x) [cv]))
  | _, _ => (s1, none)

def readTbrfit (s : St) : St × Option Stamp :=
  let (s1, pf) := readPretestfit s
  match pf, s1.xv with
  | some p, some x => (s1, some (combine (cur s1 x) [p]))
  | _, _ => (s1, none)

/-- `tests_ok`: `corr_test and bbtest.test_ok and dwtest.test_ok and aatest.test_ok`,
evaluated left to right, stopping after `nConj` conjuncts. -/
def readTestsOk (s : St) (nConj : Nat) : St × Option Stamp :=
  match s.cache .tests_ok with
  | some v => (s, some v)
  | none =>
    let (s1, ct) := readCorrTest s
    match ct, s1.xv with
    | some c, some x =>
      let (s2, d2) := if nConj ≥ 2 then (readBbtest s1) else (s1, none)
      let (s3, d3) := if nConj ≥ 3 then (readDwtest s2) else (s2, none)
      let (s4, d4) := if nConj ≥ 4 then (readAatest s3) else (s3, none)
      let deps := [c] ++ d2.toList ++ d3.toList ++ d4.toList
      let v := combine (cur s4 x) deps
      ({ s4 with cache := setCache s4.cache .tests_ok v }, some v)
    | _, _ => (s1, none)     -- `None and ...` is None; `_tests_ok` stays None

def readQ (s : St) : Q → St × Option Stamp
  | .corr => readCorr s
  | .required_impact => readRequiredImpact s
  | .pretestfit => readPretestfit s
  | .bbtest => readBbtest s
  | .dwtest => readDwtest s
  | .aatest => readAatest s
  | .corr_test => readCorrTest s
  | .tbrfit => readTbrfit s
  | .tests_ok n => readTestsOk s n

def step (s : St) : Op → St × Option (Option Stamp)
  | .setX => (assignX { s with next := s.next + 1 } (some s.next), none)
  | .clearX => (assignX s none, none)
  | .setY short =>
    let s1 := { s with yv := s.next, yShort := short, next := s.next + 1 }
    (if ySetterClearsX then assignX s1 none else s1, none)
  | .read q => let r := readQ s q; (r.1, some r.2)

def run (s : St) : List Op → List (Option (Option Stamp))
  | [] => []
  | op :: ops => let r := step s op; r.2 :: run r.1 ops

/-- what a freshly built object holding the same current series reports -/
def fresh (s : St) : Option Stamp := s.xv.map fun x => (x, s.yv)

end MM.DiagCache
