/-
Model of tbrmmdata.py (C15; the pivot part also serves C12): canonical geo × date table of a
long-format frame, geo shares, aggregation over index sets, reconciliation of the eligibility table
with the geos in the data, assignable geos and the geo-index setter.  Values are exact rationals.
No Mathlib imports.
-/
import MM.Model.Basic
import MM.Model.Elig
namespace MM.Data
open MM

structure Obs where
  geo : String          -- geo ID after `astype(str)`
  date : Nat            -- day ordinal
  value : Rat
deriving Repr, DecidableEq

def insertNat (a : Nat) : List Nat → List Nat
  | [] => [a]
  | b :: l => if a < b then a :: b :: l else if a = b then b :: l else b :: insertNat a l

/-- the distinct dates, ascending (the columns) -/
def datesOf (rows : List Obs) : List Nat := rows.foldr (fun o acc => insertNat o.date acc) []

/-- the distinct geo IDs in order of first appearance -/
def geosOf (rows : List Obs) : List String := (rows.map (·.geo)).eraseDups

def sumQ (l : List Rat) : Rat := l.foldl (· + ·) 0

/-- `pivot_table(..., fill_value=0)` cell: mean of the matching values, 0 when there is none -/
def cell (rows : List Obs) (g : String) (d : Nat) : Rat :=
  let vs := (rows.filter fun o => o.geo == g && o.date == d).map (·.value)
  if vs.isEmpty then 0 else sumQ vs / (vs.length : Rat)

def rowOf (rows : List Obs) (g : String) : List Rat := (datesOf rows).map (cell rows g)

def meanOf (rows : List Obs) (g : String) : Rat :=
  let r := rowOf rows g
  if r.isEmpty then 0 else sumQ r / (r.length : Rat)

/-- insertion by decreasing mean (stable: among equal means, first-appearance order) -/
def insertByMean (rows : List Obs) (g : String) : List String → List String
  | [] => [g]
  | h :: t => if meanOf rows h < meanOf rows g then g :: h :: t else h :: insertByMean rows g t

/-- row order of the canonical table: decreasing mean response -/
def order (rows : List Obs) : List String := (geosOf rows).foldl (fun acc g => insertByMean rows g acc) []

structure Table where
  geos : List String          -- row labels, decreasing mean
  dates : List Nat            -- column labels, ascending
  cells : List (List Rat)     -- cells[i][j] = value of geos[i] on dates[j]
  share : List Rat            -- geo_share, aligned with geos
deriving Repr

def totalMean (rows : List Obs) : Rat := sumQ ((order rows).map (meanOf rows))

/-- `TBRMMData.__init__` up to the eligibility part -/
def mkTable (rows : List Obs) : Table :=
  let gs := order rows
  { geos := gs, dates := datesOf rows, cells := gs.map (rowOf rows),
    share := gs.map fun g => meanOf rows g / totalMean rows }

/-- `df.iloc[:, -n:]`: keep the most recent n dates -/
def truncate (t : Table) (n : Nat) : Table :=
  let k := t.dates.length - n
  { t with dates := t.dates.drop k, cells := t.cells.map (·.drop k) }

def addRows (a b : List Rat) : List Rat := List.zipWith (· + ·) a b
def zeros (n : Nat) : List Rat := List.replicate n 0

/-- position of a geo ID in the table -/
def posOf (t : Table) (g : String) : Option Nat := t.geos.idxOf? g

def seriesOf (t : Table) (g : String) : List Rat :=
  match posOf t g with | some i => t.cells.getD i (zeros t.dates.length) | none => zeros t.dates.length
def shareOfGeo (t : Table) (g : String) : Rat :=
  match posOf t g with | some i => t.share.getD i 0 | none => 0

/-- `aggregate_time_series(geo_indices)` for the installed geo index `idx` -/
def aggregateSeries (t : Table) (idx : List String) (s : List Nat) : List Rat :=
  s.foldl (fun acc i => addRows acc (seriesOf t (idx.getD i ""))) (zeros t.dates.length)

/-- `aggregate_geo_share(geo_indices)` -/
def aggregateShare (t : Table) (idx : List String) (s : List Nat) : Rat :=
  sumQ (s.map fun i => shareOfGeo t (idx.getD i ""))

/-! ### eligibility reconciliation -/

def mayBeExcluded (r : Elig.Row) : Bool := r.x == .one

/-- keep the eligibility rows of geos present in the data; a missing geo that may not be excluded is an error -/
def reconcile (elig : List Elig.Row) (dataGeos : List String) : Py (List Elig.Row) :=
  let missing := elig.filter fun r => !dataGeos.contains r.geo
  if missing.any (fun r => !mayBeExcluded r) then .error .valueError
  else .ok (elig.filter fun r => dataGeos.contains r.geo)

/-- must-exclude row: (control, treatment, exclude) = (0, 0, 1) -/
def isXFixed (r : Elig.Row) : Bool := r.c == .zero && r.t == .zero && r.x == .one

/-- `assignable`: eligible geos (in the data) minus the must-exclude ones -/
def assignable (elig : List Elig.Row) : List String := (elig.filter fun r => !isXFixed r).map (·.geo)

/-- the `geo_index` setter: every geo must be assignable -/
def setGeoIndex (elig : List Elig.Row) (geos : List String) : Py (List String) :=
  if geos.all (fun g => (assignable elig).contains g) then .ok geos else .error .valueError

end MM.Data
