/-
Scale equivariance of the searches (C12): definitions (`scaleF`, `scaleEnv`, `scaleParams`,
`scaleDesign`) and helper lemmas.

Multiplying every response by `c > 0` multiplies required impacts by `c`, leaves shares, the four
test outcomes and the correlation unchanged, divides `1/required_impact` by `c` and leaves
`budget/required_impact` unchanged when the budget range is multiplied by `c` too.

* numeric kit: `PyFloat.lt`, `pyDivF`, `notSat` under `scaleF`;
* the per-step functions of the exhaustive search commute with scaling;
* `scoreLt` is invariant under rescaling the last entry of equally long scores; the bounded queue
  commutes with a map that preserves the comparison on pushed items;
* the greedy loop state does not depend on the scale at all (`greedyStep_scale`).
-/
import MM.Proofs.ExhaustiveTopK
import Mathlib.Algebra.Order.Field.Basic

namespace MM.Search
open MM MM.HeapDict

/-! ### definitions -/

def scaleF (c : Rat) : PyFloat → PyFloat | .fin q => .fin (c * q) | x => x     -- c > 0 keeps ±inf, nan

def scaleEnv (c : Rat) (e : Env) : Env :=
  { e with optImpact := fun T => scaleF c (e.optImpact T), impact := fun T C => scaleF c (e.impact T C),
           invImpact := fun T C => (e.invImpact T C).map (· / c) }

def scaleParams (c : Rat) (p : Params) : Params :=
  { p with budgetRange := p.budgetRange.map fun r => (c * r.1, c * r.2) }

/-- the design with the impact-based score entry rescaled (only the `1/required_impact` entry
changes; the budget variant is scale-free) -/
def scaleDesign (c : Rat) (budget : Bool) (d : Design) : Design :=
  if budget then d else { d with score := d.score.dropLast ++ [(d.score.getLast?.getD none).map (· / c)] }

/-- a score with its last entry divided by `c` -/
def rescale (c : Rat) (s : Score) : Score := s.dropLast ++ [(s.getLast?.getD none).map (· / c)]

theorem scaleDesign_true (c : Rat) (d : Design) : scaleDesign c true d = d := rfl
theorem scaleDesign_false (c : Rat) (d : Design) :
    scaleDesign c false d = { d with score := rescale c d.score } := rfl
@[simp] theorem scaleDesign_T (c : Rat) (b : Bool) (d : Design) : (scaleDesign c b d).T = d.T := by
  cases b <;> rfl
@[simp] theorem scaleDesign_C (c : Rat) (b : Bool) (d : Design) : (scaleDesign c b d).C = d.C := by
  cases b <;> rfl

theorem rescale_concat (c : Rat) (s : Score) (x : Option Rat) :
    rescale c (s ++ [x]) = s ++ [x.map (· / c)] := by
  simp [rescale]

theorem rescale_cons_cons (c : Rat) (a b : Option Rat) (s : Score) :
    rescale c (a :: b :: s) = a :: rescale c (b :: s) := by
  simp [rescale, List.getLast?_cons_cons]

theorem rescale_singleton (c : Rat) (a : Option Rat) : rescale c [a] = [a.map (· / c)] := by
  simp [rescale]

theorem length_rescale (c : Rat) (s : Score) (h : s ≠ []) : (rescale c s).length = s.length := by
  cases s with
  | nil => exact absurd rfl h
  | cons a s => simp [rescale]

/-! ### numeric kit -/

section numeric
variable {c : Rat} (hc : 0 < c)
include hc

theorem scaleF_lt (x y : PyFloat) : PyFloat.lt (scaleF c x) (scaleF c y) = PyFloat.lt x y := by
  cases x <;> cases y <;> simp [scaleF, PyFloat.lt, Rat.mul_lt_mul_left hc]

theorem pyDiv_scale (q b : Rat) : pyDiv (c * q) b = scaleF c (pyDiv q b) := by
  unfold pyDiv
  by_cases hb : b = 0
  · simp only [hb, if_true, gt_iff_lt, Rat.mul_pos_iff_of_pos_left hc, Rat.mul_neg_iff_of_pos_left hc]
    split
    · rfl
    · split <;> rfl
  · simp only [hb, if_false, scaleF, mul_div_assoc]

theorem pyDivF_scale (x : PyFloat) (b : Rat) : pyDivF (scaleF c x) b = scaleF c (pyDivF x b) := by
  cases x with
  | fin q => exact pyDiv_scale hc q b
  | pinf => simp only [scaleF, pyDivF]; split <;> rfl
  | ninf => simp only [scaleF, pyDivF]; split <;> rfl
  | nan => rfl

theorem notSat_scale (v : PyFloat) (lo hi : Rat) :
    notSat (scaleF c v) (c * lo) (c * hi) = notSat v lo hi := by
  unfold notSat MM.Gen.Consts.constraintNotSatisfied
  rw [show PyFloat.fin (c * lo) = scaleF c (.fin lo) from rfl,
    show PyFloat.fin (c * hi) = scaleF c (.fin hi) from rfl, scaleF_lt hc, scaleF_lt hc]

theorem entryEq_div (a b : Option Rat) : entryEq (a.map (· / c)) (b.map (· / c)) = entryEq a b := by
  cases a <;> cases b <;> simp [entryEq, div_left_inj' (ne_of_gt hc)]

theorem entryLt_div (a b : Option Rat) : entryLt (a.map (· / c)) (b.map (· / c)) = entryLt a b := by
  cases a <;> cases b <;> simp [entryLt, div_lt_div_iff_of_pos_right hc]

/-- Python's tuple `<` does not see a rescaling of the last entry of two equally long tuples -/
theorem scoreLt_rescale : ∀ (s t : Score), s.length = t.length →
    scoreLt (rescale c s) (rescale c t) = scoreLt s t
  | [], [], _ => by simp [rescale, scoreLt, entryEq, entryLt]
  | [], _ :: _, h => by simp at h
  | _ :: _, [], h => by simp at h
  | [a], [b], _ => by
    simp only [rescale_singleton, scoreLt, entryEq_div hc, entryLt_div hc]
  | [_], _ :: _ :: _, h => by simp at h
  | _ :: _ :: _, [_], h => by simp at h
  | a :: a' :: s, b :: b' :: t, h => by
    rw [rescale_cons_cons, rescale_cons_cons]
    simp only [scoreLt]
    rw [scoreLt_rescale (a' :: s) (b' :: t) (by simpa using h)]
    simp only [scoreLt]

end numeric

/-! ### what does not depend on the scale at all -/

theorem trtSizeRange_scale (c : Rat) (p : Params) (e : Env) :
    trtSizeRange (scaleParams c p) (scaleEnv c e) = trtSizeRange p e := rfl

theorem trtGroups_scale (c : Rat) (e : Env) (n : Nat) : trtGroups (scaleEnv c e) n = trtGroups e n := rfl

theorem ctlGroups_scale (c : Rat) (p : Params) (e : Env) (T : GeoSet) :
    ctlGroups (scaleParams c p) (scaleEnv c e) T = ctlGroups p e T := rfl

theorem shareOf_scale (c : Rat) (e : Env) (s : GeoSet) : shareOf (scaleEnv c e) s = shareOf e s := rfl

theorem scaleF_fin (c q : Rat) : scaleF c (.fin q) = .fin (c * q) := rfl
theorem scaleEnv_optImpact (c : Rat) (e : Env) (T : GeoSet) :
    (scaleEnv c e).optImpact T = scaleF c (e.optImpact T) := rfl
theorem scaleEnv_impact (c : Rat) (e : Env) (T C : GeoSet) :
    (scaleEnv c e).impact T C = scaleF c (e.impact T C) := rfl

theorem isSome_budget_scale (c : Rat) (p : Params) :
    (scaleParams c p).budgetRange.isSome = p.budgetRange.isSome := by
  simp [scaleParams]

/-! ### the exhaustive search -/

section exhaustive
variable {c : Rat} (hc : 0 < c)
include hc

theorem trtVerdict_scale (p : Params) (e : Env) (b : Bool) (pats : List GeoSet) (T : GeoSet) :
    trtVerdict (scaleParams c p) (scaleEnv c e) b pats T = trtVerdict p e b pats T := by
  obtain ⟨tr, cr, gt, vt, sr, br, ir, nd⟩ := p
  cases br with
  | none => rfl
  | some r =>
    obtain ⟨lo, hi⟩ := r
    simp only [trtVerdict, scaleParams, Option.map_some, shareOf_scale, scaleEnv_optImpact,
      pyDivF_scale hc, ← scaleF_fin, scaleF_lt hc]
    rfl

theorem ctlOk_scale (p : Params) (e : Env) (T C : GeoSet) :
    ctlOk (scaleParams c p) (scaleEnv c e) T C = ctlOk p e T C := by
  obtain ⟨tr, cr, gt, vt, sr, br, ir, nd⟩ := p
  cases br with
  | none => rfl
  | some r =>
    obtain ⟨lo, hi⟩ := r
    simp only [ctlOk, scaleParams, Option.map_some, shareOf_scale, scaleEnv_impact,
      pyDivF_scale hc, notSat_scale hc]

omit hc in
theorem mkDesign_scale (p : Params) (e : Env) (T C : GeoSet) :
    mkDesign (scaleParams c p) (scaleEnv c e) T C
      = scaleDesign c p.budgetRange.isSome (mkDesign p e T C) := by
  unfold mkDesign
  rw [isSome_budget_scale]
  cases hb : p.budgetRange.isSome with
  | true => rfl
  | false =>
    rw [scaleDesign_false]
    simp only [Bool.false_eq_true, if_false, rescale_concat]
    rfl

/-- the search state with the push log mapped -/
def mapSt (f : Design → Design) (st : ExhState) : ExhState := (st.1, st.2.map f)

theorem stepTrt_scale (p : Params) (e : Env) (b : Bool) (st : ExhState) (T : GeoSet) :
    stepTrt (scaleParams c p) (scaleEnv c e) b (mapSt (scaleDesign c p.budgetRange.isSome) st) T
      = mapSt (scaleDesign c p.budgetRange.isSome) (stepTrt p e b st T) := by
  unfold stepTrt
  have hv : trtVerdict (scaleParams c p) (scaleEnv c e) b
      (mapSt (scaleDesign c p.budgetRange.isSome) st).1 T = trtVerdict p e b st.1 T :=
    trtVerdict_scale hc p e b st.1 T
  rw [hv]
  cases trtVerdict p e b st.1 T with
  | skip => rfl
  | record => rfl
  | go =>
    simp only [mapSt, ctlGroups_scale, List.map_append, List.map_map]
    have h1 : ctlOk (scaleParams c p) (scaleEnv c e) T = ctlOk p e T :=
      funext fun C => ctlOk_scale hc p e T C
    have h2 : mkDesign (scaleParams c p) (scaleEnv c e) T
        = scaleDesign c p.budgetRange.isSome ∘ mkDesign p e T :=
      funext fun C => mkDesign_scale p e T C
    rw [h1, h2]

theorem stepSize_scale (p : Params) (e : Env) (last : Nat) (st : ExhState) (n : Nat) :
    stepSize (scaleParams c p) (scaleEnv c e) last (mapSt (scaleDesign c p.budgetRange.isSome) st) n
      = mapSt (scaleDesign c p.budgetRange.isSome) (stepSize p e last st n) := by
  unfold stepSize
  rw [trtGroups_scale]
  induction trtGroups e n generalizing st with
  | nil => rfl
  | cons T l ih => rw [List.foldl_cons, List.foldl_cons, stepTrt_scale hc, ih]

theorem foldl_stepSize_scale (p : Params) (e : Env) (last : Nat) (sizes : List Nat) (st : ExhState) :
    sizes.foldl (stepSize (scaleParams c p) (scaleEnv c e) last)
        (mapSt (scaleDesign c p.budgetRange.isSome) st)
      = mapSt (scaleDesign c p.budgetRange.isSome) (sizes.foldl (stepSize p e last) st) := by
  induction sizes generalizing st with
  | nil => rfl
  | cons n l ih => rw [List.foldl_cons, List.foldl_cons, stepSize_scale hc, ih]

theorem evaluatedRaw_scale (p : Params) (e : Env) :
    evaluatedRaw (scaleParams c p) (scaleEnv c e)
      = (evaluatedRaw p e).map (scaleDesign c p.budgetRange.isSome) := by
  unfold evaluatedRaw
  simp only [trtSizeRange_scale]
  cases (trtSizeRange p e).getLast? with
  | none => rfl
  | some last =>
    have := foldl_stepSize_scale hc p e last (trtSizeRange p e) ([], [])
    simp only [mapSt, List.map_nil] at this
    simp only [this]

end exhaustive

/-! ### the bounded queue commutes with a comparison-preserving map -/

section queue
variable {α : Type} {lt : α → α → Bool} {f : α → α} {P : α → Prop}
  (h : ∀ a b, P a → P b → lt (f a) (f b) = lt a b)
include h

theorem insertAsc_map {x : α} (hx : P x) {q : List α} (hq : ∀ y ∈ q, P y) :
    insertAsc lt (f x) (q.map f) = (insertAsc lt x q).map f := by
  induction q with
  | nil => rfl
  | cons y ys ih =>
    simp only [List.map_cons, insertAsc]
    rw [h x y hx (hq y List.mem_cons_self), ih (fun z hz => hq z (List.mem_cons_of_mem _ hz))]
    split <;> rfl

theorem pushQueue_map (size : Nat) {x : α} (hx : P x) {q : List α} (hq : ∀ y ∈ q, P y) :
    pushQueue lt size (f x) (q.map f) = (pushQueue lt size x q).map f := by
  unfold pushQueue
  rw [List.length_map, insertAsc_map h hx hq]
  split
  · rfl
  · cases q with
    | nil => rfl
    | cons m rest =>
      simp only [List.map_cons]
      rw [h m x (hq m List.mem_cons_self) hx,
        insertAsc_map h hx (fun z hz => hq z (List.mem_cons_of_mem _ hz))]
      split <;> rfl

theorem foldQ_map (size : Nat) (xs : List α) (hxs : ∀ x ∈ xs, P x) (q : List α)
    (hq : ∀ y ∈ q, P y) : foldQ lt size (q.map f) (xs.map f) = (foldQ lt size q xs).map f := by
  induction xs generalizing q with
  | nil => rfl
  | cons x xs ih =>
    have hx := hxs x List.mem_cons_self
    rw [List.map_cons, foldQ_cons, foldQ_cons, pushQueue_map h size hx hq]
    refine ih (fun z hz => hxs z (List.mem_cons_of_mem _ hz)) _ ?_
    intro y hy
    rcases mem_pushQueue lt size x y q hy with rfl | hy
    · exact hx
    · exact hq y hy

end queue

theorem topK_map {f : Design → Design} {P : Design → Prop}
    (h : ∀ a b, P a → P b → Design.lt (f a) (f b) = Design.lt a b) (k : Nat) (ds : List Design)
    (hds : ∀ d ∈ ds, P d) : topK k (ds.map f) = (topK k ds).map f := by
  have := foldQ_map h k ds hds [] (by simp)
  simp only [List.map_nil] at this
  rw [topK_eq, topK_eq, this, List.map_reverse]

/-- designs whose score has six entries (`score5 ++ [x]`) -/
def Len6 (d : Design) : Prop := d.score.length = 6

theorem designLt_scale {c : Rat} (hc : 0 < c) (a b : Design) (ha : Len6 a) (hb : Len6 b) :
    Design.lt (scaleDesign c false a) (scaleDesign c false b) = Design.lt a b := by
  simp only [scaleDesign_false, Design.lt]
  exact scoreLt_rescale hc _ _ (ha.trans hb.symm)

theorem topK_scale {c : Rat} (hc : 0 < c) (budget : Bool) (k : Nat) (ds : List Design)
    (hds : ∀ d ∈ ds, Len6 d) :
    topK k (ds.map (scaleDesign c budget)) = (topK k ds).map (scaleDesign c budget) := by
  cases budget with
  | true =>
    have : scaleDesign c true = id := funext fun d => rfl
    simp [this]
  | false => exact topK_map (fun a b ha hb => designLt_scale hc a b ha hb) k ds hds

theorem all_ctorOk_scale (c : Rat) (b : Bool) (ds : List Design) :
    (ds.map (scaleDesign c b)).all (fun d => ctorOk d.T d.C) = ds.all (fun d => ctorOk d.T d.C) := by
  simp [List.all_map, Function.comp_def]

/-! ### the greedy search -/

theorem foldl_rel {α β γ : Type} (R : β → γ → Prop) (f : β → α → β) (g : γ → α → γ)
    (h : ∀ b c a, R b c → R (f b a) (g c a)) (l : List α) :
    ∀ b c, R b c → R (l.foldl f b) (l.foldl g c) := by
  induction l with
  | nil => intro b c hbc; exact hbc
  | cons a l ih => intro b c hbc; exact ih _ _ (h b c a hbc)

theorem greedyParams_scale (c : Rat) (p : Params) (e : Env) :
    greedyParams (scaleParams c p) (scaleEnv c e) = scaleParams c (greedyParams p e) := rfl

theorem withinConstraints_scale (c : Rat) (gp : Params) (e : Env) (T C : GeoSet) :
    withinConstraints (scaleParams c gp) (scaleEnv c e) T C = withinConstraints gp e T C := rfl

theorem gated_scale (c : Rat) (gp : Params) (e : Env) (k : Nat) (C : GeoSet) :
    gated (scaleParams c gp) (scaleEnv c e) k C = gated gp e k C := rfl

theorem fullScore_scale (c : Rat) (e : Env) (T C : GeoSet) :
    fullScore (scaleEnv c e) T C = rescale c (fullScore e T C) := by
  unfold fullScore
  rw [rescale_concat]
  rfl

theorem zeroScore_scale (c : Rat) : rescale c zeroScore = zeroScore := by
  simp [rescale, zeroScore]

section greedy
variable {c : Rat} (hc : 0 < c)
include hc

theorem budgetBad_scale (gp : Params) (e : Env) (T C : GeoSet) :
    budgetBad (scaleParams c gp) (scaleEnv c e) T C = budgetBad gp e T C := by
  obtain ⟨tr, cr, gt, vt, sr, br, ir, nd⟩ := gp
  cases br with
  | none => rfl
  | some r =>
    obtain ⟨lo, hi⟩ := r
    simp only [budgetBad, scaleParams, Option.map_some, scaleEnv_impact,
      pyDivF_scale hc, notSat_scale hc]

theorem candRejected_scale (gp : Params) (e : Env) (k : Nat) (T C : GeoSet) :
    candRejected (scaleParams c gp) (scaleEnv c e) k T C = candRejected gp e k T C := by
  unfold candRejected
  rw [budgetBad_scale hc, withinConstraints_scale, gated_scale]

variable {e : Env} (hlen : ∀ T C, (e.score5 T C).length = 5)
include hlen

omit hc in
theorem length_fullScore (T C : GeoSet) : (fullScore e T C).length = 6 := by
  simp [fullScore, hlen]

theorem matchPass_scale (gp : Params) (k : Nat) (T ctl : GeoSet) :
    matchPass (scaleParams c gp) (scaleEnv c e) k T ctl
        = ((matchPass gp e k T ctl).1, rescale c (matchPass gp e k T ctl).2) ∧
      (matchPass gp e k T ctl).2.length = 6 := by
  let R : GeoSet × Score → GeoSet × Score → Prop :=
    fun a' a => a' = (a.1, rescale c a.2) ∧ a.2.length = 6
  have key : R (matchPass (scaleParams c gp) (scaleEnv c e) k T ctl) (matchPass gp e k T ctl) := by
    unfold matchPass
    refine foldl_rel R _ _ ?_ _ _ _ ⟨by rw [fullScore_scale], length_fullScore hlen T ctl⟩
    rintro a' a g ⟨rfl, hl⟩
    simp only [candRejected_scale hc, fullScore_scale]
    split
    · exact ⟨rfl, hl⟩
    · rw [scoreLt_rescale hc _ _ (hl.trans (length_fullScore hlen _ _).symm)]
      split
      · exact ⟨rfl, length_fullScore hlen _ _⟩
      · exact ⟨rfl, hl⟩
  exact key

theorem addPass_scale (gp : Params) (k : Nat) (T Cstar ctl : GeoSet) :
    (addPass (scaleParams c gp) (scaleEnv c e) k T Cstar ctl).1 = (addPass gp e k T Cstar ctl).1 ∧
    (addPass (scaleParams c gp) (scaleEnv c e) k T Cstar ctl).2.1 = (addPass gp e k T Cstar ctl).2.1 := by
  let R : GeoSet × GeoSet × Score → GeoSet × GeoSet × Score → Prop :=
    fun a' a => a' = (a.1, a.2.1, rescale c a.2.2) ∧ a.2.2.length = 6
  have key : R (addPass (scaleParams c gp) (scaleEnv c e) k T Cstar ctl) (addPass gp e k T Cstar ctl) := by
    unfold addPass
    refine foldl_rel R _ _ ?_ _ _ _ ⟨by rw [zeroScore_scale], rfl⟩
    rintro a' a g ⟨rfl, hl⟩
    simp only [candRejected_scale hc, fullScore_scale]
    split
    · exact ⟨rfl, hl⟩
    · rw [scoreLt_rescale hc _ _ (hl.trans (length_fullScore hlen _ _).symm)]
      split
      · exact ⟨rfl, length_fullScore hlen _ _⟩
      · exact ⟨rfl, hl⟩
  obtain ⟨h1, _⟩ := key
  rw [h1]
  exact ⟨rfl, rfl⟩

/-- the loop state carries no score: one step is scale-free -/
theorem greedyStep_scale (gp : Params) (st : GState) :
    greedyStep (scaleParams c gp) (scaleEnv c e) st = greedyStep gp e st := by
  unfold greedyStep
  cases hn : st.needs with
  | true =>
    simp only [if_true]
    obtain ⟨h1, h2⟩ := matchPass_scale hc hlen gp st.k (dictGet st.starTrt st.k) st.ctl
    rw [h1]
    simp only [fullScore_scale]
    rw [scoreLt_rescale hc _ _ ((length_fullScore hlen _ _).trans h2.symm)]
  | false =>
    simp only [Bool.false_eq_true, if_false]
    obtain ⟨h1, h2⟩ := addPass_scale hc hlen gp st.k (dictGet st.starTrt st.k)
      (dictGet st.starCtl st.k) st.ctl
    generalize addPass (scaleParams c gp) (scaleEnv c e) st.k (dictGet st.starTrt st.k)
      (dictGet st.starCtl st.k) st.ctl = r' at h1 h2
    generalize addPass gp e st.k (dictGet st.starTrt st.k) (dictGet st.starCtl st.k) st.ctl = r at h1 h2
    obtain ⟨a', b', s'⟩ := r'
    obtain ⟨a, b, s⟩ := r
    simp only at h1 h2
    subst h1 h2
    rfl

theorem greedyLoop_scale (gp : Params) (fuel : Nat) (st : GState) :
    greedyLoop (scaleParams c gp) (scaleEnv c e) fuel st = greedyLoop gp e fuel st := by
  induction fuel generalizing st with
  | zero => rfl
  | succ n ih =>
    unfold greedyLoop
    rw [greedyStep_scale hc hlen, ih]
    rfl

omit hlen in
theorem greedyFinal_scale (gp : Params) (e : Env) (st : GState) :
    greedyFinal (scaleParams c gp) (scaleEnv c e) st
      = (greedyFinal gp e st).map (scaleDesign c false) := by
  unfold greedyFinal
  simp only [budgetBad_scale hc, withinConstraints_scale, List.map_map]
  refine List.map_congr_left fun kv _ => ?_
  simp only [Function.comp_def, scaleDesign_false, fullScore_scale]
  rfl

omit hc in
theorem len6_greedyFinal (gp : Params) (st : GState) : ∀ d ∈ greedyFinal gp e st, Len6 d := by
  intro d hd
  unfold greedyFinal at hd
  obtain ⟨kv, _, rfl⟩ := List.mem_map.mp hd
  exact length_fullScore hlen _ _

theorem greedyFuel_scale (p : Params) (fuel : Nat) :
    greedyFuel fuel (scaleParams c p) (scaleEnv c e)
      = (greedyFuel fuel p e).map (·.map (·.map (scaleDesign c false))) := by
  have hloop : greedyLoop (greedyParams (scaleParams c p) (scaleEnv c e)) (scaleEnv c e) fuel
      (greedyInit (scaleEnv c e)) = greedyLoop (greedyParams p e) e fuel (greedyInit e) :=
    greedyLoop_scale hc hlen (greedyParams p e) fuel (greedyInit e)
  simp only [greedyFuel, hloop]
  cases greedyLoop (greedyParams p e) e fuel (greedyInit e) with
  | none => rfl
  | some st =>
    have hfin : greedyFinal (greedyParams (scaleParams c p) (scaleEnv c e)) (scaleEnv c e) st
        = (greedyFinal (greedyParams p e) e st).map (scaleDesign c false) :=
      greedyFinal_scale hc (greedyParams p e) e st
    have hn : (scaleParams c p).nDesigns = p.nDesigns := rfl
    simp only [Option.map_some, hfin, all_ctorOk_scale, hn,
      topK_scale hc false _ _ (len6_greedyFinal hlen _ st)]
    split <;> rfl

end greedy

end MM.Search
