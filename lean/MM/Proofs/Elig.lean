/-
Helper lemmas for C16 (geoeligibility.py).  Everything here is generic in the Boolean
formula `f`; the generated formulas `MM.Gen.Elig.f_*` are only ever inspected in
`MM/Props/C16.lean` (`C16_formulas`, by case analysis + `decide`).
-/
import MM.Model.Elig

namespace MM.Elig
open MM

/-! ### validation -/

theorem any_bad_eq_false_iff (rows : List Row) :
    rows.any Row.bad = false ↔ ∀ r ∈ rows, r.c ≠ .other ∧ r.t ≠ .other ∧ r.x ≠ .other := by
  simp [List.any_eq_false, Row.bad, and_assoc]

theorem any_zero_eq_false_iff (rows : List Row) :
    rows.any Row.zero = false ↔ ∀ r ∈ rows, ¬ (r.c = .zero ∧ r.t = .zero ∧ r.x = .zero) := by
  simp [List.any_eq_false, Row.zero, and_assoc]

/-! ### generic list facts -/

theorem inj_of_nodup_map {α β : Type} (f : α → β) :
    ∀ {l : List α}, (l.map f).Nodup → ∀ {a b : α}, a ∈ l → b ∈ l → f a = f b → a = b
  | [], _, _, _, ha, _, _ => by cases ha
  | p :: l, h, a, b, ha, hb, hab => by
    rw [List.map_cons, List.nodup_cons] at h
    rcases List.mem_cons.1 ha with rfl | ha'
    · rcases List.mem_cons.1 hb with rfl | hb'
      · rfl
      · exact absurd (hab ▸ List.mem_map_of_mem (f := f) hb') h.1
    · rcases List.mem_cons.1 hb with rfl | hb'
      · exact absurd (hab ▸ List.mem_map_of_mem (f := f) ha') h.1
      · exact inj_of_nodup_map f h.2 ha' hb' hab

/-! ### row lookup (`df.loc[geos]`) -/

theorem find_geo (rows : List Row) (g : String) (hg : g ∈ rows.map (·.geo)) :
    ∃ r, rows.find? (·.geo == g) = some r ∧ r ∈ rows ∧ r.geo = g := by
  cases h : rows.find? (·.geo == g) with
  | some r =>
    refine ⟨r, rfl, List.mem_of_find?_eq_some h, ?_⟩
    simpa using List.find?_some h
  | none =>
    exfalso
    rw [List.find?_eq_none] at h
    obtain ⟨r, hr, rfl⟩ := List.mem_map.1 hg
    simpa using h r hr

/-- the row lookup of `select` -/
def lookupRow (rows : List Row) (g : String) : Py Row :=
  match rows.find? (·.geo == g) with
  | some r => .ok r
  | none => .error .keyError

theorem mapM_lookup (rows : List Row) :
    ∀ (gs : List String), (∀ g ∈ gs, g ∈ rows.map (·.geo)) →
      ∃ sel, gs.mapM (lookupRow rows) = .ok sel ∧ sel.map (·.geo) = gs ∧ ∀ r ∈ sel, r ∈ rows
  | [], _ => ⟨[], rfl, rfl, by simp⟩
  | g :: gs, h => by
    obtain ⟨sel, hm, hgeo, hin⟩ := mapM_lookup rows gs (fun g' hg' => h g' (List.mem_cons_of_mem _ hg'))
    obtain ⟨r, hf, hr, hrg⟩ := find_geo rows g (h g List.mem_cons_self)
    refine ⟨r :: sel, ?_, by simp [hrg, hgeo], ?_⟩
    · rw [List.mapM_cons, hm]
      simp only [lookupRow, hf]
      rfl
    · intro r' hr'
      rcases List.mem_cons.1 hr' with rfl | h'
      · exact hr
      · exact hin r' h'

theorem lookupRow_cases (rows : List Row) (g : String) :
    (∃ r, lookupRow rows g = .ok r ∧ g ∈ rows.map (·.geo)) ∨
    (lookupRow rows g = .error .keyError ∧ g ∉ rows.map (·.geo)) := by
  unfold lookupRow
  cases h : rows.find? (·.geo == g) with
  | some r =>
    refine Or.inl ⟨r, rfl, List.mem_map.2 ⟨r, List.mem_of_find?_eq_some h, ?_⟩⟩
    simpa using List.find?_some h
  | none =>
    refine Or.inr ⟨rfl, fun hg => ?_⟩
    obtain ⟨r, hf, _, _⟩ := find_geo rows g hg
    rw [h] at hf; cases hf

theorem mapM_lookup_err (rows : List Row) :
    ∀ (gs : List String), (∃ g ∈ gs, g ∉ rows.map (·.geo)) →
      gs.mapM (lookupRow rows) = .error .keyError
  | [], h => by obtain ⟨g, hg, _⟩ := h; cases hg
  | g :: gs, h => by
    rw [List.mapM_cons]
    rcases lookupRow_cases rows g with ⟨r, hr, hin⟩ | ⟨he, _⟩
    · have : ∃ g' ∈ gs, g' ∉ rows.map (·.geo) := by
        obtain ⟨g', hg', hn⟩ := h
        rcases List.mem_cons.1 hg' with rfl | hg''
        · exact absurd hin hn
        · exact ⟨g', hg'', hn⟩
      rw [hr, mapM_lookup_err rows gs this]
      rfl
    · rw [he]; rfl

/-- the references handed out for the ordered subset `gs` -/
def refs (indices : Bool) (gs : List String) : List Ref :=
  if indices then (List.range gs.length).map Ref.idx else gs.map Ref.id

theorem refs_length (indices : Bool) (gs : List String) : (refs indices gs).length = gs.length := by
  cases indices <;> simp [refs]

theorem refs_getElem (indices : Bool) (gs : List String) (i : Nat) (hi : i < gs.length) :
    (refs indices gs)[i]'(by rw [refs_length]; exact hi) = if indices then Ref.idx i else Ref.id gs[i] := by
  cases indices <;> simp [refs]

theorem refs_nodup (indices : Bool) (gs : List String) (h : gs.Nodup) : (refs indices gs).Nodup := by
  cases indices
  · simp only [refs, Bool.false_eq_true, if_false]
    exact List.pairwise_map.2 (h.imp fun hne heq => hne (by injection heq))
  · simp only [refs, if_true]
    exact List.pairwise_map.2 (List.nodup_range.imp fun hne heq => hne (by injection heq))

theorem select_none_false (rows : List Row) :
    select rows none false = .ok (rows.map fun r => (Ref.id r.geo, r)) := rfl

theorem select_none_true (rows : List Row) : select rows none true = .error .valueError := rfl

theorem zip_ids (sel : List Row) :
    ((sel.map (·.geo)).map Ref.id).zip sel = sel.map fun r => (Ref.id r.geo, r) := by
  induction sel with
  | nil => rfl
  | cons r sel ih => simp only [List.map_cons, List.zip_cons_cons, ih]

theorem select_some_eq (rows : List Row) (gs : List String) (indices : Bool) :
    select rows (some gs) indices = (gs.mapM (lookupRow rows) >>= fun sel =>
      if indices then pure (((List.range sel.length).zip sel).map fun (i, r) => (Ref.idx i, r))
      else pure (sel.map fun r => (Ref.id r.geo, r))) := rfl

theorem select_some_err (rows : List Row) (gs : List String) (indices : Bool)
    (h : ∃ g ∈ gs, g ∉ rows.map (·.geo)) : select rows (some gs) indices = .error .keyError := by
  rw [select_some_eq, mapM_lookup_err rows gs h]
  rfl

theorem select_some (rows : List Row) (gs : List String) (hsub : ∀ g ∈ gs, g ∈ rows.map (·.geo))
    (indices : Bool) :
    ∃ sel, sel.map (·.geo) = gs ∧ (∀ r ∈ sel, r ∈ rows) ∧
      select rows (some gs) indices = .ok ((refs indices gs).zip sel) := by
  obtain ⟨sel, hm, hgeo, hin⟩ := mapM_lookup rows gs hsub
  refine ⟨sel, hgeo, hin, ?_⟩
  rw [select_some_eq, hm]
  have hlen : sel.length = gs.length := by rw [← hgeo, List.length_map]
  cases indices
  · show Except.ok _ = _
    subst hgeo
    simp only [refs, Bool.false_eq_true, if_false, zip_ids]
  · show Except.ok _ = _
    simp only [refs, if_true, hlen]
    rw [List.zip_map_left]
    congr 1

/-! ### `pick` -/

/-- a formula applied to the three column tests of a row -/
abbrev app (f : Bool → Bool → Bool → Bool) (r : Row) : Bool := f (r.c == .one) (r.t == .one) (r.x == .one)

theorem mem_pick {f : Bool → Bool → Bool → Bool} {l : List (Ref × Row)} {ref : Ref} :
    ref ∈ pick f l ↔ ∃ r, (ref, r) ∈ l ∧ app f r = true := by
  simp [pick, app]

theorem pick_nil (f : Bool → Bool → Bool → Bool) : pick f [] = [] := rfl

theorem pick_sublist (f : Bool → Bool → Bool → Bool) (l : List (Ref × Row)) :
    (pick f l).Sublist (l.map (·.1)) :=
  List.Sublist.map _ List.filter_sublist

theorem pick_nodup (f : Bool → Bool → Bool → Bool) {l : List (Ref × Row)} (h : (l.map (·.1)).Nodup) :
    (pick f l).Nodup := (pick_sublist f l).nodup h

theorem pick_eq_all {f : Bool → Bool → Bool → Bool} {l : List (Ref × Row)}
    (h : ∀ p ∈ l, app f p.2 = true) : pick f l = l.map (·.1) := by
  unfold pick
  rw [List.filter_eq_self.2]
  intro p hp
  exact h p hp

/-- with distinct references, membership of a selected reference is the formula on its row -/
theorem mem_pick_iff {f : Bool → Bool → Bool → Bool} {l : List (Ref × Row)} (h : (l.map (·.1)).Nodup)
    {ref : Ref} {r : Row} (hr : (ref, r) ∈ l) : ref ∈ pick f l ↔ app f r = true := by
  rw [mem_pick]
  constructor
  · rintro ⟨r', hr', hf⟩
    have : (ref, r') = (ref, r) := inj_of_nodup_map (·.1) h hr' hr rfl
    cases this
    exact hf
  · exact fun hf => ⟨r, hr, hf⟩

/-- the answer built from the selected `(reference, row)` list -/
def ofSel (l : List (Ref × Row)) : Assignments :=
  { all := pick MM.Gen.Elig.f_all l, c := pick MM.Gen.Elig.f_c l, t := pick MM.Gen.Elig.f_t l,
    x := pick MM.Gen.Elig.f_x l, c_fixed := pick MM.Gen.Elig.f_c_fixed l,
    t_fixed := pick MM.Gen.Elig.f_t_fixed l, x_fixed := pick MM.Gen.Elig.f_x_fixed l,
    ct := pick MM.Gen.Elig.f_ct l, cx := pick MM.Gen.Elig.f_cx l, ctx := pick MM.Gen.Elig.f_ctx l,
    tx := pick MM.Gen.Elig.f_tx l }

theorem assignments_eq {rows : List Row} {geos : Option (List String)} {indices : Bool}
    {l : List (Ref × Row)} (h : select rows geos indices = .ok l) :
    assignments rows geos indices = .ok (ofSel l) := by
  unfold assignments
  rw [h]
  rfl

/-! ### the selected list for an ordered subset -/

theorem zip_fst {gs : List String} {indices : Bool} {sel : List Row} (hlen : sel.length = gs.length) :
    ((refs indices gs).zip sel).map (·.1) = refs indices gs := by
  apply List.map_fst_zip
  rw [refs_length, hlen]
  exact Nat.le_refl _

theorem zip_mem {gs : List String} {indices : Bool} {sel : List Row} (hlen : sel.length = gs.length)
    (i : Nat) (hi : i < gs.length) :
    ((if indices then Ref.idx i else Ref.id gs[i]), sel[i]'(hlen ▸ hi)) ∈ (refs indices gs).zip sel := by
  rw [← refs_getElem indices gs i hi]
  have hi' : i < ((refs indices gs).zip sel).length := by
    rw [List.length_zip, refs_length, hlen]; omega
  have := List.getElem_mem hi'
  rwa [List.getElem_zip] at this

end MM.Elig
