/-
C12: scale equivariance (and geo-renaming invariance) of the exhaustive and greedy searches.

Multiplying every response by `c > 0` multiplies required impacts by `c` (`scaleEnv`: `optImpact`,
`impact`), leaves shares, the four test outcomes and the correlation (`score5`) unchanged, divides
`1/required_impact` (`invImpact`) by `c`, and leaves `budget/required_impact` (`budgetInv`) unchanged
when the budget range is multiplied by `c` too (`scaleParams`).  The searches then return the same
groups in the same order, with only the `1/required_impact` score entry divided by `c`.

Model: `MM/Model/Search.lean`.  Definitions (`scaleF`, `scaleEnv`, `scaleParams`, `scaleDesign`) and
helper lemmas: `MM/Proofs/Equivariance.lean`.

Hypotheses.  `C12_evaluated_scale` needs nothing but `0 < c`.  `C12_exhaustive_scale` and
`C12_greedy_scale` take `ScoresNaNFree p e`, of which ONLY the clause `(e.score5 T C).length = 5` is
used (see the `_len` versions): Python's tuple `<` on tuples of different lengths would compare the
rescaled last entry of one with an unscaled entry of the other (example at the end).  NaN entries do
not obstruct anything (a NaN compares `False` before and after rescaling).  `C12_greedy_scale`
without such a hypothesis is false in the model.
-/
import MM.Proofs.Equivariance

namespace MM.Search
open MM MM.HeapDict

/-- the push log of the exhaustive search: same designs in the same order, score rescaled -/
theorem C12_evaluated_scale (c : Rat) (hc : 0 < c) (p : Params) (e : Env) :
    evaluatedRaw (scaleParams c p) (scaleEnv c e)
      = (evaluatedRaw p e).map (scaleDesign c p.budgetRange.isSome) :=
  evaluatedRaw_scale hc p e

/-- `C12_exhaustive_scale` under the only clause of `ScoresNaNFree` it uses -/
theorem C12_exhaustive_scale_len (c : Rat) (hc : 0 < c) (p : Params) (e : Env)
    (hlen : ∀ T C, (e.score5 T C).length = 5) :
    exhaustive (scaleParams c p) (scaleEnv c e)
      = (exhaustive p e).map (·.map (scaleDesign c p.budgetRange.isSome)) := by
  have h6 : ∀ d ∈ evaluatedRaw p e, Len6 d := by
    intro d hd
    have := (evaluatedRaw_sound p e d hd).2.2.1
    unfold Len6
    rw [this]
    simp [mkDesign, hlen]
  have hn : (scaleParams c p).nDesigns = p.nDesigns := rfl
  simp only [exhaustive, evaluated, evaluatedRaw_scale hc, all_ctorOk_scale, hn]
  split
  · simp only [bind, Except.bind, pure, Except.pure, Except.map]
    rw [topK_scale hc _ _ _ h6]
  · rfl

/-- same groups, same test outcomes and correlation, in the same order -/
theorem C12_exhaustive_scale (c : Rat) (hc : 0 < c) (p : Params) (e : Env) (hnan : ScoresNaNFree p e) :
    exhaustive (scaleParams c p) (scaleEnv c e)
      = (exhaustive p e).map (·.map (scaleDesign c p.budgetRange.isSome)) :=
  C12_exhaustive_scale_len c hc p e fun T C => (hnan T C).2.2

/-- `C12_greedy_scale` under the only clause of `ScoresNaNFree` it uses -/
theorem C12_greedy_scale_len (c : Rat) (hc : 0 < c) (p : Params) (e : Env)
    (hlen : ∀ T C, (e.score5 T C).length = 5) (fuel : Nat) :
    greedyFuel fuel (scaleParams c p) (scaleEnv c e)
      = (greedyFuel fuel p e).map (·.map (·.map (scaleDesign c false))) :=
  greedyFuel_scale hc hlen p fuel

/-- the greedy search: same groups in the same order (including running out of fuel and the
constructor's ValueError), the `1/required_impact` entry divided by `c`.
DEVIATION from the requested statement: the hypothesis `hnan` is added (only its length clause is
used); without it the statement is false in the model. -/
theorem C12_greedy_scale (c : Rat) (hc : 0 < c) (p : Params) (e : Env) (hnan : ScoresNaNFree p e)
    (fuel : Nat) :
    greedyFuel fuel (scaleParams c p) (scaleEnv c e)
      = (greedyFuel fuel p e).map (·.map (·.map (scaleDesign c false))) :=
  C12_greedy_scale_len c hc p e (fun T C => (hnan T C).2.2) fuel

/-- the greedy loop itself (its whole state: sizes, groups per size) does not see the scale -/
theorem C12_greedy_loop_scale (c : Rat) (hc : 0 < c) (p : Params) (e : Env)
    (hlen : ∀ T C, (e.score5 T C).length = 5) (fuel : Nat) :
    greedyLoop (greedyParams (scaleParams c p) (scaleEnv c e)) (scaleEnv c e) fuel (greedyInit (scaleEnv c e))
      = greedyLoop (greedyParams p e) e fuel (greedyInit e) :=
  greedyLoop_scale hc hlen (greedyParams p e) fuel (greedyInit e)

/-- renaming geos does not change anything the searches compute: results are functions of the tables
in geo-index order only, IDs enter through an injective relabelling at the very end -/
theorem C12_rename (ids ids' : List String) (hnd : ids.Nodup) (hnd' : ids'.Nodup)
    (hl : ids.length = ids'.length) (s : GeoSet) (hs : ∀ i ∈ s, i < ids.length) :
    (s.map fun i => ids'.getD i "") = (s.map fun i => ids.getD i "").map (fun g => ids'.getD (ids.idxOf g) "") := by
  rw [List.map_map]
  refine List.map_congr_left fun i hi => ?_
  have hi' := hs i hi
  simp only [Function.comp_def, List.getD_eq_getElem?_getD, List.getElem?_eq_getElem hi',
    Option.getD_some, hnd.idxOf_getElem i hi']

/-! ### non-vacuity -/

def eqShare : Nat → Rat
  | 0 => 3/20 | 1 => 1/10 | 2 => 1/4 | 3 => 1/5 | _ => 3/10

/-- 5 geos; the optimistic budget of `T` is the sum of its indices, the budget of `(T, C)` is that
plus a quarter of the sum of `C`; `budgetInv` is for the budget range `(2, 5)` -/
def eqEnv : Env where
  cls := [.ctx, .tFixed, .ct, .cx, .ctx]
  share := eqShare
  optImpact T := .fin (T.sum : Nat)
  impact T C := .fin ((T.sum : Nat) + ((C.sum : Nat) : Rat) / 4)
  score5 T C := [some 1, some (1/2), some 0, some 2, some (((T.length + 2 * C.sum : Nat) : Rat) / 10)]
  invImpact T C := some (1 / (1 + (T.sum : Nat) + ((C.sum : Nat) : Rat) / 4))
  budgetInv T C := some (5 / (1 + (T.sum : Nat) + ((C.sum : Nat) : Rat) / 4))

/-- with a budget range (scores end in `budget/required_impact`) -/
def eqParams : Params where
  budgetRange := some (2, 5)
  iroas := 1
  nDesigns := 3

/-- without (scores end in `1/required_impact`) -/
def eqParams0 : Params where
  nDesigns := 3

theorem eqNaNFree : ScoresNaNFree eqParams eqEnv := fun _ _ => ⟨rfl, rfl, rfl⟩
theorem eqNaNFree0 : ScoresNaNFree eqParams0 eqEnv := fun _ _ => ⟨rfl, rfl, rfl⟩

def okList : Py (List Design) → List Design | .ok ds => ds | .error _ => []

/-- the scaled tables really are different: budgets 7/2 times larger, `1/impact` 2/7 of the original -/
example : (scaleEnv (7/2) eqEnv).impact [1, 2] [0, 3] = .fin (105/8) ∧ eqEnv.impact [1, 2] [0, 3] = .fin (15/4) ∧
    (scaleEnv (7/2) eqEnv).invImpact [1, 2] [0, 3] = some (8/133) ∧ eqEnv.invImpact [1, 2] [0, 3] = some (4/19) ∧
    (scaleParams (7/2) eqParams).budgetRange = some (7, 35/2) := by decide +kernel

/-- the scaled search with the scaled budget range evaluates the same 10 designs … -/
example : ((evaluatedRaw (scaleParams (7/2) eqParams) (scaleEnv (7/2) eqEnv)).map fun d => (d.T, d.C)) =
    [([1, 2], [0]), ([1, 2], [3]), ([1, 2], [4]), ([1, 2], [0, 3]), ([1, 2], [0, 4]),
     ([1, 2], [3, 4]), ([1, 2], [0, 3, 4]), ([0, 1, 2], [3]), ([0, 1, 2], [4]),
     ([0, 1, 2], [3, 4])] := by decide +kernel

/-- … (with the unscaled budget range it would evaluate none: the constraint is not vacuous) -/
example : (evaluatedRaw eqParams (scaleEnv (7/2) eqEnv)).length = 0 := by decide +kernel

/-- … and returns exactly the unscaled result (budget variant: scores unchanged) -/
example : okList (exhaustive (scaleParams (7/2) eqParams) (scaleEnv (7/2) eqEnv)) = okList (exhaustive eqParams eqEnv) ∧
    (okList (exhaustive eqParams eqEnv)).map (fun d => (d.T, d.C))
      = [([0, 1, 2], [3, 4]), ([1, 2], [0, 3, 4]), ([1, 2], [3, 4])] := by
  rw [C12_exhaustive_scale (7/2) (by decide +kernel) eqParams eqEnv eqNaNFree]
  refine ⟨?_, by decide +kernel⟩
  have : scaleDesign (7/2) eqParams.budgetRange.isSome = id := funext fun d => rfl
  rw [this]
  cases exhaustive eqParams eqEnv <;> simp [Except.map, okList]

/-- without a budget range the last score entry is divided by `c`, everything else is unchanged -/
example : (okList (exhaustive (scaleParams (7/2) eqParams0) (scaleEnv (7/2) eqEnv))).map (fun d => (d.T, d.C, d.score.getLast?))
      = (okList (exhaustive eqParams0 eqEnv)).map (fun d => (d.T, d.C, d.score.getLast?.map (·.map (· / (7/2))))) ∧
    (okList (exhaustive eqParams0 eqEnv)).map (fun d => (d.T, d.C, d.score.getLast?))
      = [([0, 1], [2, 3, 4]), ([1], [0, 2, 3, 4]), ([1], [2, 3, 4])].map
          (fun tc => (tc.1, tc.2, some (eqEnv.invImpact tc.1 tc.2))) := by
  constructor <;> decide +kernel

/-- the greedy search on the example terminates, returns designs, and the scaled run returns the
same groups with the last score entry divided by `c` (computed, and as an instance of the theorem) -/
example : (match greedyFuel 100 eqParams0 eqEnv with | some (.ok ds) => decide (ds.length = 3) | _ => false) = true ∧
    (match greedyFuel 100 (scaleParams (7/2) eqParams0) (scaleEnv (7/2) eqEnv), greedyFuel 100 eqParams0 eqEnv with
      | some (.ok ds'), some (.ok ds) => decide (ds' = ds.map (scaleDesign (7/2) false) ∧ ds' ≠ ds)
      | _, _ => false) = true := by
  constructor <;> decide +kernel

example : greedyFuel 100 (scaleParams (7/2) eqParams) (scaleEnv (7/2) eqEnv)
    = (greedyFuel 100 eqParams eqEnv).map (·.map (·.map (scaleDesign (7/2) false))) :=
  C12_greedy_scale (7/2) (by decide +kernel) eqParams eqEnv eqNaNFree 100

/-- why the score-length clause is assumed: on tuples of different lengths Python's `<` compares the
rescaled last entry of one tuple with an unscaled entry of the other -/
example : scoreLt [some 2] [some 1, some 5] = false ∧
    scoreLt (rescale 4 [some 2]) (rescale 4 [some 1, some 5]) = true := by decide +kernel

/-- renaming: indices `[0, 2]` under two ID lists -/
example : ([0, 2].map fun i => ["x", "y", "z"].getD i "") =
    ([0, 2].map fun i => ["a", "b", "c"].getD i "").map (fun g => ["x", "y", "z"].getD (["a", "b", "c"].idxOf g) "") :=
  C12_rename ["a", "b", "c"] ["x", "y", "z"] (by decide) (by decide) rfl [0, 2] (by decide)

end MM.Search
