import MM.Props.Exhaustive
import MM.Props.Greedy
import MM.Props.C01Admit
import MM.Props.C01Ids
#print axioms MM.Search.evaluated_sub_listing
#print axioms MM.Search.C01_exhaustive_evaluated
#print axioms MM.Search.C01_exhaustive
#print axioms MM.Search.C01_greedy
#print axioms MM.Admit.admit_sorted
#print axioms MM.Admit.admit_must
#print axioms MM.Admit.admit_excluded
#print axioms MM.Admit.admit_optional
#print axioms MM.Admit.admit_all_candidates
#print axioms MM.Admit.admit_cap
#print axioms MM.Admit.admit_classes
#print axioms MM.Admit.ids_injective
#print axioms MM.Admit.C01_ids
#print axioms MM.Admit.C01_ids_exhaustive
#print axioms MM.Admit.C01_ids_greedy
