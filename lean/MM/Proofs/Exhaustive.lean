/-
Helper lemmas for the exhaustive search (C01, C02, C03, C04, C09 on `exhaustive`):
* `notSat_false_iff` – the ONE place where the generated `constraintNotSatisfied` is unfolded;
* numeric facts under `WF` (`pyDiv`, `pyDivF`, `shareOf`);
* membership in the two size ranges;
* structural consequences of `Legal`;
* the fold invariants of `stepTrt` / `stepSize` / `evaluatedRaw` (soundness, order, completeness).

The queue / order part (top-k) is in `MM/Proofs/ExhaustiveTopK.lean`.
-/
import MM.Proofs.CountListing
import MM.Props.SearchSpec
import Mathlib.Algebra.Order.Ring.Rat
import Mathlib.Tactic.Linarith

namespace MM.Search
open MM

/-! ### numeric kit -/

/-- the generated `_constraint_not_satisfied` on a finite value: both bounds are inclusive.
(The only place where `MM.Gen.Consts.constraintNotSatisfied` is unfolded.) -/
theorem notSat_false_iff (q lo hi : Rat) :
    notSat (.fin q) lo hi = false ↔ lo ≤ q ∧ q ≤ hi := by
  simp only [notSat, MM.Gen.Consts.constraintNotSatisfied, PyFloat.lt, Bool.or_eq_false_iff,
    decide_eq_false_iff_not, not_lt]

theorem pyDiv_fin {a b : Rat} (hb : b ≠ 0) : pyDiv a b = .fin (a / b) := by
  simp [pyDiv, hb]

theorem pyDivF_fin {a b : Rat} (hb : b ≠ 0) : pyDivF (.fin a) b = .fin (a / b) := by
  simp [pyDivF, pyDiv_fin hb]

theorem lt_fin_fin (a b : Rat) : PyFloat.lt (.fin a) (.fin b) = decide (a < b) := rfl

theorem pyDivF_impact {p : Params} {e : Env} (hwf : WF p e) (T C : GeoSet) :
    pyDivF (e.impact T C) p.iroas = .fin (impactQ e T C / p.iroas) := by
  obtain ⟨q, hq⟩ := hwf.impactFin T C
  have h0 : p.iroas ≠ 0 := ne_of_gt hwf.iroasPos
  simp only [impactQ, hq, pyDivF_fin h0]

theorem pyDivF_opt {p : Params} {e : Env} (hwf : WF p e) (T : GeoSet) :
    pyDivF (e.optImpact T) p.iroas = .fin (optQ e T / p.iroas) := by
  obtain ⟨q, hq⟩ := hwf.optFin T
  have h0 : p.iroas ≠ 0 := ne_of_gt hwf.iroasPos
  simp only [optQ, hq, pyDivF_fin h0]

theorem shareOf_cons (e : Env) (a : Nat) (l : GeoSet) :
    shareOf e (a :: l) = e.share a + shareOf e l := by
  simp [shareOf]

theorem shareOf_nonneg {e : Env} (hpos : ∀ i, i < e.cls.length → 0 < e.share i) (T : GeoSet)
    (hT : ∀ i ∈ T, i < e.cls.length) : 0 ≤ shareOf e T := by
  induction T with
  | nil => simp [shareOf]
  | cons a l ih =>
    rw [shareOf_cons]
    have h1 := hpos a (hT a List.mem_cons_self)
    have h2 := ih (fun i hi => hT i (List.mem_cons_of_mem _ hi))
    linarith

theorem shareOf_pos {e : Env} (hpos : ∀ i, i < e.cls.length → 0 < e.share i) {T : GeoSet}
    (hT : ∀ i ∈ T, i < e.cls.length) (hne : T ≠ []) : 0 < shareOf e T := by
  cases T with
  | nil => exact absurd rfl hne
  | cons a l =>
    rw [shareOf_cons]
    have h1 := hpos a (hT a List.mem_cons_self)
    have h2 := shareOf_nonneg hpos l (fun i hi => hT i (List.mem_cons_of_mem _ hi))
    linarith

/-! ### size ranges -/

/-- the structural upper bound of `treatment_group_size_range()` -/
def trtMax (e : Env) : Int :=
  if (e.idx fun c => c == .cx || c == .cFixed).isEmpty then (e.canT.length : Int) - 1
  else (e.canT.length : Int)

theorem mem_trtSizeRange_iff {p : Params} {e : Env} {n : Nat} :
    n ∈ trtSizeRange p e ↔
      (1 ≤ n ∧ e.tFixed.length ≤ n ∧ (n : Int) ≤ trtMax e) ∧
      ∀ r, p.trtRange = some r → r.1 ≤ (n : Int) ∧ (n : Int) ≤ r.2 := by
  unfold trtSizeRange trtMax
  cases h : p.trtRange with
  | none =>
    simp only [reduceCtorEq, false_imp_iff, implies_true, and_true]
    rw [mem_natRangeIncl (by omega)]
    omega
  | some ab =>
    obtain ⟨a, b⟩ := ab
    simp only [Option.some.injEq, forall_eq']
    rw [mem_natRangeIncl (by omega)]
    omega

theorem mem_ctlSizes_iff {p : Params} {e : Env} {t m : Nat} :
    m ∈ ctlSizes p e t ↔
      (1 ≤ m ∧ e.cFixed.length ≤ m ∧ m ≤ e.canC.length) ∧
      (∀ r, p.ctlRange = some r → r.1 ≤ (m : Int) ∧ (m : Int) ≤ r.2) ∧
      (∀ τ, p.geoTol = some τ →
        1 / (1 + τ) ≤ (m : Rat) / (t : Rat) ∧ (m : Rat) / (t : Rat) ≤ 1 + τ) := by
  unfold ctlSizes
  cases h : p.ctlRange with
  | none =>
    cases h' : p.geoTol with
    | none =>
      simp only [reduceCtorEq, false_imp_iff, implies_true, and_true]
      rw [mem_natRangeIncl (by omega)]
      omega
    | some τ =>
      simp only [reduceCtorEq, false_imp_iff, implies_true, true_and, Option.some.injEq,
        forall_eq', List.mem_filter, Bool.and_eq_true, decide_eq_true_eq, ge_iff_le]
      rw [mem_natRangeIncl (by omega)]
      constructor
      · rintro ⟨h1, h2⟩; exact ⟨by omega, h2⟩
      · rintro ⟨h1, h2⟩; exact ⟨by omega, h2⟩
  | some ab =>
    obtain ⟨a, b⟩ := ab
    cases h' : p.geoTol with
    | none =>
      simp only [reduceCtorEq, false_imp_iff, implies_true, and_true, Option.some.injEq,
        forall_eq']
      rw [mem_natRangeIncl (by omega)]
      omega
    | some τ =>
      simp only [Option.some.injEq, forall_eq', List.mem_filter, Bool.and_eq_true,
        decide_eq_true_eq, ge_iff_le]
      rw [mem_natRangeIncl (by omega)]
      constructor
      · rintro ⟨h1, h2⟩; exact ⟨by omega, by omega, h2⟩
      · rintro ⟨h1, h2, h3⟩; exact ⟨by omega, h3⟩

/-! ### consequences of `Legal` -/

theorem Legal.lt_length {cls : List GeoClass} {T C : GeoSet} (h : Legal cls T C) :
    (∀ i ∈ T, i < cls.length) ∧ (∀ i ∈ C, i < cls.length) := by
  obtain ⟨_, _, hnone, _⟩ := h
  constructor
  · intro i hi
    by_contra hlt
    exact (hnone i (List.getElem?_eq_none (by omega))).1 hi
  · intro i hi
    by_contra hlt
    exact (hnone i (List.getElem?_eq_none (by omega))).2 hi

theorem Legal.disjoint {cls : List GeoClass} {T C : GeoSet} (h : Legal cls T C) :
    ∀ i ∈ T, i ∉ C := by
  obtain ⟨_, _, hnone, hsome⟩ := h
  intro i hi
  cases hg : cls[i]? with
  | none => exact absurd hi (hnone i hg).1
  | some g => exact ((hsome i g hg).1 hi).1

theorem Legal.sub_canT {e : Env} {T C : GeoSet} (h : Legal e.cls T C) : ∀ x ∈ T, x ∈ e.canT := by
  obtain ⟨_, _, hnone, hsome⟩ := h
  intro x hx
  cases hg : e.cls[x]? with
  | none => exact absurd hx (hnone x hg).1
  | some g => exact (mem_idx_some hg).2 ((hsome x g hg).1 hx).2

theorem Legal.sub_canC {e : Env} {T C : GeoSet} (h : Legal e.cls T C) : ∀ x ∈ C, x ∈ e.canC := by
  obtain ⟨_, _, hnone, hsome⟩ := h
  intro x hx
  cases hg : e.cls[x]? with
  | none => exact absurd hx (hnone x hg).2
  | some g => exact (mem_idx_some hg).2 ((hsome x g hg).2.1 hx)

theorem Legal.tFixed_sub {e : Env} {T C : GeoSet} (h : Legal e.cls T C) :
    ∀ x ∈ e.tFixed, x ∈ T := by
  obtain ⟨_, _, hnone, hsome⟩ := h
  intro x hx
  obtain ⟨g, hg, hp⟩ := mem_idx.1 hx
  have hgeq : g = .tFixed := by simpa using hp
  subst hgeq
  by_contra hxT
  have hxC : x ∉ C := fun h => by simpa [GeoClass.canC] using (hsome x _ hg).2.1 h
  simpa [GeoClass.canX] using (hsome x _ hg).2.2 hxT hxC

theorem Legal.cFixed_sub {e : Env} {T C : GeoSet} (h : Legal e.cls T C) :
    ∀ x ∈ e.cFixed, x ∈ C := by
  obtain ⟨_, _, hnone, hsome⟩ := h
  intro x hx
  obtain ⟨g, hg, hp⟩ := mem_idx.1 hx
  have hgeq : g = .cFixed := by simpa using hp
  subst hgeq
  by_contra hxC
  have hxT : x ∉ T := fun h => by simpa [GeoClass.canT] using ((hsome x _ hg).1 h).2
  simpa [GeoClass.canX] using (hsome x _ hg).2.2 hxT hxC

theorem length_le_of_subset {a b : List Nat} (ha : a.Nodup) (h : ∀ x ∈ a, x ∈ b) :
    a.length ≤ b.length :=
  (List.subperm_of_subset ha (fun x hx => h x hx)).length_le

theorem length_lt_of_subset {a b : List Nat} (ha : a.Nodup) (h : ∀ x ∈ a, x ∈ b) {c : Nat}
    (hcb : c ∈ b) (hca : c ∉ a) : a.length < b.length := by
  have : (c :: a).length ≤ b.length :=
    length_le_of_subset (List.nodup_cons.2 ⟨hca, ha⟩) (by
      intro x hx
      rcases List.mem_cons.1 hx with rfl | hx
      · exact hcb
      · exact h x hx)
  simpa [Nat.lt_iff_add_one_le] using this

/-- a legal pair with non-empty groups has structurally admissible sizes -/
theorem LegalDesign.sizes {e : Env} {T C : GeoSet} (h : LegalDesign e T C) :
    (1 ≤ T.length ∧ e.tFixed.length ≤ T.length ∧ (T.length : Int) ≤ trtMax e) ∧
    (1 ≤ C.length ∧ e.cFixed.length ≤ C.length ∧ C.length ≤ e.canC.length) := by
  obtain ⟨hL, hT, hC⟩ := h
  have hTs : SSorted T := hL.1
  have hCs : SSorted C := hL.2.1
  have h1 : 1 ≤ T.length := by cases T with | nil => exact absurd rfl hT | cons _ _ => simp
  have h2 : 1 ≤ C.length := by cases C with | nil => exact absurd rfl hC | cons _ _ => simp
  have h3 : e.tFixed.length ≤ T.length :=
    length_le_of_subset (SSorted.nodup (sorted_idx _ _)) hL.tFixed_sub
  have h4 : e.cFixed.length ≤ C.length :=
    length_le_of_subset (SSorted.nodup (sorted_idx _ _)) hL.cFixed_sub
  have h5 : C.length ≤ e.canC.length := length_le_of_subset hCs.nodup hL.sub_canC
  have h6 : T.length ≤ e.canT.length := length_le_of_subset hTs.nodup hL.sub_canT
  refine ⟨⟨h1, h3, ?_⟩, h2, h4, h5⟩
  unfold trtMax
  split
  · rename_i hemp
    -- no cx / c_fixed geo: any control geo is treatment-eligible and outside T
    obtain ⟨c, hc⟩ := List.exists_mem_of_ne_nil C hC
    have hcT : c ∉ T := fun hcT => hL.disjoint c hcT hc
    have hccanT : c ∈ e.canT := by
      obtain ⟨_, _, hnone, hsome⟩ := hL
      cases hg : e.cls[c]? with
      | none => exact absurd hc (hnone c hg).2
      | some g =>
        have hcC := (hsome c g hg).2.1 hc
        have hnot : c ∉ e.idx (fun c => c == .cx || c == .cFixed) := by
          rw [List.isEmpty_iff] at hemp; rw [hemp]; simp
        rw [mem_idx_some hg] at hnot
        refine (mem_idx_some hg).2 ?_
        cases g <;> simp_all [GeoClass.canT, GeoClass.canC]
    have := length_lt_of_subset hTs.nodup hL.sub_canT hccanT hcT
    omega
  · omega

/-! ### the verdict on one treatment group -/

/-- the first test of `trtVerdict`: share range if given, otherwise the pattern check -/
def shareBad (p : Params) (e : Env) (pats : List GeoSet) (T : GeoSet) : Bool :=
  match p.shareRange with
  | some (lo, hi) => decide (shareOf e T > hi) || decide (shareOf e T < lo)
  | none => patSkip pats T

theorem trtVerdict_eq (p : Params) (e : Env) (b : Bool) (pats : List GeoSet) (T : GeoSet) :
    trtVerdict p e b pats T =
      if shareBad p e pats T then .skip else
      match p.budgetRange with
      | none => .go
      | some (lo, hi) =>
        if PyFloat.lt (.fin hi) (pyDivF (e.optImpact T) p.iroas) then (if b then .go else .record)
        else if PyFloat.lt (pyDivF (e.optImpact T) p.iroas) (.fin lo) then .skip else .go := rfl

theorem trtVerdict_go_share {p : Params} {e : Env} {b : Bool} {pats : List GeoSet} {T : GeoSet}
    (h : trtVerdict p e b pats T = .go) : ShareOkA p e T := by
  intro r hr
  obtain ⟨lo, hi⟩ := r
  rw [trtVerdict_eq] at h
  cases hs : shareBad p e pats T with
  | true => rw [hs] at h; simp at h
  | false =>
    unfold shareBad at hs
    rw [hr] at hs
    simp only [Bool.or_eq_false_iff, decide_eq_false_iff_not, not_lt, gt_iff_lt] at hs
    exact ⟨hs.2, hs.1⟩

theorem trtVerdict_record {p : Params} {e : Env} {b : Bool} {pats : List GeoSet} {T : GeoSet}
    (h : trtVerdict p e b pats T = .record) :
    ∃ lo hi, p.budgetRange = some (lo, hi) ∧
      PyFloat.lt (.fin hi) (pyDivF (e.optImpact T) p.iroas) = true := by
  rw [trtVerdict_eq] at h
  cases hs : shareBad p e pats T with
  | true => rw [hs] at h; simp at h
  | false =>
    rw [hs] at h
    cases hb : p.budgetRange with
    | none => rw [hb] at h; simp at h
    | some r =>
      obtain ⟨lo, hi⟩ := r
      rw [hb] at h
      refine ⟨lo, hi, rfl, ?_⟩
      cases hlt : PyFloat.lt (.fin hi) (pyDivF (e.optImpact T) p.iroas) with
      | true => rfl
      | false =>
        simp only [hlt, Bool.false_eq_true, if_false] at h
        split at h <;> simp at h

/-- the skip patterns only ever hold admissible treatment groups whose optimistic budget is
above the budget range -/
def PatsOk (p : Params) (e : Env) (pats : List GeoSet) : Prop :=
  ∀ S ∈ pats, AdmissibleTrt p e S ∧ ∃ r, p.budgetRange = some r ∧ r.2 < optQ e S / p.iroas

theorem subsetSet_iff {a b : GeoSet} : subsetSet a b = true ↔ ∀ i ∈ a, i ∈ b := by
  simp [subsetSet]

/-- a treatment group within the share range that is not omittable is never skipped -/
theorem trtVerdict_go {p : Params} {e : Env} (hwf : WF p e) {T : GeoSet}
    (hshare : ShareOkA p e T) (hno : ¬ Omittable p e T) (b : Bool) (pats : List GeoSet)
    (hp : PatsOk p e pats) : trtVerdict p e b pats T = .go := by
  have hbad : shareBad p e pats T = false := by
    unfold shareBad
    cases hs : p.shareRange with
    | some r =>
      obtain ⟨lo, hi⟩ := r
      have := hshare (lo, hi) hs
      simp only [Bool.or_eq_false_iff, decide_eq_false_iff_not, not_lt, gt_iff_lt]
      exact ⟨this.2, this.1⟩
    | none =>
      simp only
      cases hps : patSkip pats T with
      | false => rfl
      | true =>
        exfalso
        simp only [patSkip, List.any_eq_true] at hps
        obtain ⟨S, hS, hsub⟩ := hps
        obtain ⟨hadm, r, hr, hlt⟩ := hp S hS
        exact hno ⟨r, hr, Or.inr (Or.inr ⟨S, hadm, subsetSet_iff.1 hsub, hlt⟩)⟩
  rw [trtVerdict_eq, hbad]
  cases hb : p.budgetRange with
  | none => rfl
  | some r =>
    obtain ⟨lo, hi⟩ := r
    have h1 : ¬ hi < optQ e T / p.iroas := fun h => hno ⟨(lo, hi), hb, Or.inr (Or.inl h)⟩
    have h2 : ¬ optQ e T / p.iroas < lo := fun h => hno ⟨(lo, hi), hb, Or.inl h⟩
    simp [pyDivF_opt hwf, lt_fin_fin, h1, h2]

/-! ### what one step appends -/

/-- the log is append-only, and a step appends either nothing or, after a `.go` verdict, the
designs of all control groups that pass `ctlOk`, in generator order -/
theorem stepTrt_log (p : Params) (e : Env) (b : Bool) (st : ExhState) (T : GeoSet) :
    ∃ l, (stepTrt p e b st T).2 = st.2 ++ l ∧
      (l = [] ∨ (trtVerdict p e b st.1 T = .go ∧
        l = ((ctlGroups p e T).filter (ctlOk p e T)).map (mkDesign p e T))) := by
  unfold stepTrt
  split
  · exact ⟨[], by simp, Or.inl rfl⟩
  · exact ⟨[], by simp, Or.inl rfl⟩
  · rename_i hv
    exact ⟨_, rfl, Or.inr ⟨hv, rfl⟩⟩

theorem stepTrt_go {p : Params} {e : Env} {b : Bool} {st : ExhState} {T : GeoSet}
    (h : trtVerdict p e b st.1 T = .go) :
    stepTrt p e b st T
      = (st.1, st.2 ++ ((ctlGroups p e T).filter (ctlOk p e T)).map (mkDesign p e T)) := by
  unfold stepTrt; rw [h]

theorem stepTrt_pats (p : Params) (e : Env) (b : Bool) (st : ExhState) (T : GeoSet) :
    (stepTrt p e b st T).1 = st.1 ∨
      (trtVerdict p e b st.1 T = .record ∧ (stepTrt p e b st T).1 = st.1 ++ [T]) := by
  unfold stepTrt
  split
  · exact Or.inl rfl
  · rename_i hv; exact Or.inr ⟨hv, rfl⟩
  · exact Or.inl rfl

/-- `evaluatedRaw` is the log of the fold (with some value of `last`), or the size range is
empty -/
theorem evaluatedRaw_eq (p : Params) (e : Env) :
    (trtSizeRange p e = [] ∧ evaluatedRaw p e = []) ∨
    ∃ last, evaluatedRaw p e = ((trtSizeRange p e).foldl (stepSize p e last) ([], [])).2 := by
  cases h : (trtSizeRange p e).getLast? with
  | none => exact Or.inl ⟨List.getLast?_eq_none_iff.1 h, by simp only [evaluatedRaw, h]⟩
  | some last => exact Or.inr ⟨last, by simp only [evaluatedRaw, h]⟩

/-! ### soundness: an invariant of every logged design -/

theorem foldl_stepTrt_inv (Q : Design → Prop) (p : Params) (e : Env) (b : Bool)
    (Ts : List GeoSet)
    (hQ : ∀ T ∈ Ts, ∀ pats, trtVerdict p e b pats T = .go → ∀ C ∈ ctlGroups p e T,
      ctlOk p e T C = true → Q (mkDesign p e T C))
    (st : ExhState) (h : ∀ d ∈ st.2, Q d) :
    ∀ d ∈ (Ts.foldl (stepTrt p e b) st).2, Q d := by
  induction Ts generalizing st with
  | nil => simpa using h
  | cons T Ts ih =>
    rw [List.foldl_cons]
    refine ih (fun T' hT' => hQ T' (List.mem_cons_of_mem _ hT')) _ ?_
    obtain ⟨l, hl, hcase⟩ := stepTrt_log p e b st T
    rw [hl]
    intro d hd
    rcases List.mem_append.1 hd with hd | hd
    · exact h d hd
    · rcases hcase with rfl | ⟨hv, rfl⟩
      · simp at hd
      · obtain ⟨C, hC, rfl⟩ := List.mem_map.1 hd
        rw [List.mem_filter] at hC
        exact hQ T List.mem_cons_self _ hv C hC.1 hC.2

theorem foldl_stepSize_inv (Q : Design → Prop) (p : Params) (e : Env) (last : Nat)
    (ns : List Nat)
    (hQ : ∀ n ∈ ns, ∀ T ∈ trtGroups e n, ∀ b pats, trtVerdict p e b pats T = .go →
      ∀ C ∈ ctlGroups p e T, ctlOk p e T C = true → Q (mkDesign p e T C))
    (st : ExhState) (h : ∀ d ∈ st.2, Q d) :
    ∀ d ∈ (ns.foldl (stepSize p e last) st).2, Q d := by
  induction ns generalizing st with
  | nil => simpa using h
  | cons n ns ih =>
    rw [List.foldl_cons]
    refine ih (fun n' hn' => hQ n' (List.mem_cons_of_mem _ hn')) _ ?_
    exact foldl_stepTrt_inv Q p e _ _
      (fun T hT pats => hQ n List.mem_cons_self T hT _ pats) st h

/-- induction principle for the evaluated designs -/
theorem evaluatedRaw_inv (Q : Design → Prop) (p : Params) (e : Env)
    (hQ : ∀ n ∈ trtSizeRange p e, ∀ T ∈ trtGroups e n, ∀ b pats,
      trtVerdict p e b pats T = .go →
      ∀ C ∈ ctlGroups p e T, ctlOk p e T C = true → Q (mkDesign p e T C)) :
    ∀ d ∈ evaluatedRaw p e, Q d := by
  rcases evaluatedRaw_eq p e with ⟨_, h⟩ | ⟨last, h⟩
  · rw [h]; simp
  · rw [h]
    exact foldl_stepSize_inv Q p e last _ hQ _ (by simp)

theorem mem_designsListing_of_gen {p : Params} {e : Env} {n : Nat} {T C : GeoSet}
    (hn : n ∈ trtSizeRange p e) (hT : T ∈ trtGroups e n) (hC : C ∈ ctlGroups p e T) :
    (T, C) ∈ designsListing p e := by
  unfold designsListing
  simp only [List.mem_flatMap, List.mem_map]
  exact ⟨n, hn, T, hT, C, hC, rfl⟩

/-- everything that is logged: a listed pair, accepted by `ctlOk`, built by `mkDesign`, whose
treatment group received the verdict `.go` -/
theorem evaluatedRaw_sound (p : Params) (e : Env) (d : Design) (h : d ∈ evaluatedRaw p e) :
    (d.T, d.C) ∈ designsListing p e ∧ ctlOk p e d.T d.C = true ∧ d = mkDesign p e d.T d.C ∧
      ShareOkA p e d.T :=
  evaluatedRaw_inv
    (fun d => (d.T, d.C) ∈ designsListing p e ∧ ctlOk p e d.T d.C = true ∧
      d = mkDesign p e d.T d.C ∧ ShareOkA p e d.T) p e
    (fun _ hn _ hT _ _ hv _ hC hok =>
      ⟨mem_designsListing_of_gen hn hT hC, hok, rfl, trtVerdict_go_share hv⟩) d h

theorem legalDesign_of_listing {p : Params} {e : Env} {T C : GeoSet}
    (h : (T, C) ∈ designsListing p e) : LegalDesign e T C := by
  obtain ⟨hL, hn, hm⟩ := mem_designsListing.1 h
  have h1 := pos_of_mem_trtSizeRange hn
  have h2 := pos_of_mem_ctlSizes hm
  refine ⟨hL, ?_, ?_⟩
  · rintro rfl; simp at h1
  · rintro rfl; simp at h2

theorem ctorOk_of_legalDesign {e : Env} {T C : GeoSet} (h : LegalDesign e T C) :
    ctorOk T C = true := by
  obtain ⟨hL, hT, hC⟩ := h
  have hd := hL.disjoint
  have hi : interSet T C = [] := by
    simp only [interSet, List.filter_eq_nil_iff, List.contains_eq_mem, decide_eq_true_eq]
    exact hd
  cases T with
  | nil => exact absurd rfl hT
  | cons a l =>
    cases C with
    | nil => exact absurd rfl hC
    | cons c m => simp [ctorOk, hi]

/-! ### the two data-dependent constraints read off `ctlOk` (under `WF`) -/

theorem ctlOk_iff {p : Params} {e : Env} (hwf : WF p e) {T C : GeoSet}
    (hT : ∀ i ∈ T, i < e.cls.length) (hne : T ≠ []) :
    ctlOk p e T C = true ↔ VolRatioOk p e T C ∧ BudgetOk p e T C := by
  have hpos : shareOf e T ≠ 0 := ne_of_gt (shareOf_pos hwf.sharePos hT hne)
  unfold ctlOk VolRatioOk BudgetOk
  rw [Bool.and_eq_true]
  refine and_congr ?_ ?_
  · cases hv : p.volTol with
    | none => simp
    | some τ =>
      simp only [pyDiv_fin hpos, lt_fin_fin, Bool.not_eq_true', Bool.or_eq_false_iff,
        decide_eq_false_iff_not, not_lt, Option.some.injEq, forall_eq']
      exact and_comm
  · cases hb : p.budgetRange with
    | none => simp
    | some r =>
      obtain ⟨lo, hi⟩ := r
      simp only [pyDivF_impact hwf, Bool.not_eq_true', notSat_false_iff, Option.some.injEq,
        forall_eq']

/-! ### order: the log is a sub-listing -/

theorem pair_mkDesign (p : Params) (e : Env) (T : GeoSet) (l : List GeoSet) :
    (l.map (mkDesign p e T)).map (fun d => (d.T, d.C)) = l.map fun C => (T, C) := by
  simp [List.map_map, Function.comp_def, mkDesign]

theorem foldl_stepTrt_sublist (p : Params) (e : Env) (b : Bool) (Ts : List GeoSet)
    (st : ExhState) :
    ∃ l, (Ts.foldl (stepTrt p e b) st).2 = st.2 ++ l ∧
      (l.map fun d => (d.T, d.C)).Sublist
        (Ts.flatMap fun T => (ctlGroups p e T).map fun C => (T, C)) := by
  induction Ts generalizing st with
  | nil => exact ⟨[], by simp, by simp⟩
  | cons T Ts ih =>
    rw [List.foldl_cons]
    obtain ⟨l1, hl1, hcase⟩ := stepTrt_log p e b st T
    obtain ⟨l2, hl2, hsub2⟩ := ih (stepTrt p e b st T)
    refine ⟨l1 ++ l2, by rw [hl2, hl1, List.append_assoc], ?_⟩
    rw [List.map_append, List.flatMap_cons]
    refine List.Sublist.append ?_ hsub2
    rcases hcase with rfl | ⟨_, rfl⟩
    · simp
    · rw [pair_mkDesign]
      exact List.filter_sublist.map _

theorem foldl_stepSize_sublist (p : Params) (e : Env) (last : Nat) (ns : List Nat)
    (st : ExhState) :
    ∃ l, (ns.foldl (stepSize p e last) st).2 = st.2 ++ l ∧
      (l.map fun d => (d.T, d.C)).Sublist
        (ns.flatMap fun n => (trtGroups e n).flatMap fun T =>
          (ctlGroups p e T).map fun C => (T, C)) := by
  induction ns generalizing st with
  | nil => exact ⟨[], by simp, by simp⟩
  | cons n ns ih =>
    rw [List.foldl_cons]
    obtain ⟨l1, hl1, hsub1⟩ := foldl_stepTrt_sublist p e (n == last) (trtGroups e n) st
    obtain ⟨l2, hl2, hsub2⟩ := ih (stepSize p e last st n)
    have hl1' : (stepSize p e last st n).2 = st.2 ++ l1 := hl1
    refine ⟨l1 ++ l2, by rw [hl2, hl1', List.append_assoc], ?_⟩
    rw [List.map_append, List.flatMap_cons]
    exact List.Sublist.append hsub1 hsub2

/-- the evaluated pairs appear in listing order, each at most once -/
theorem evaluatedRaw_sublist (p : Params) (e : Env) :
    ((evaluatedRaw p e).map fun d => (d.T, d.C)).Sublist (designsListing p e) := by
  rcases evaluatedRaw_eq p e with ⟨_, h⟩ | ⟨last, h⟩
  · rw [h]; simp
  · obtain ⟨l, hl, hsub⟩ := foldl_stepSize_sublist p e last (trtSizeRange p e) ([], [])
    rw [h, hl]
    simpa [designsListing] using hsub

/-! ### no optional constraint: the log is the whole listing -/

section none
variable {p : Params} {e : Env}
  (h1 : p.volTol = none) (h2 : p.shareRange = none) (h3 : p.budgetRange = none)
include h1 h2 h3

theorem stepTrt_none (b : Bool) (log : List Design) (T : GeoSet) :
    stepTrt p e b ([], log) T = ([], log ++ (ctlGroups p e T).map (mkDesign p e T)) := by
  have hv : trtVerdict p e b [] T = .go := by
    simp [trtVerdict_eq, shareBad, h2, h3, patSkip]
  have hok : ∀ C, ctlOk p e T C = true := by
    intro C; simp [ctlOk, h1, h3]
  rw [stepTrt_go (st := ([], log)) hv, List.filter_eq_self.2 (fun C _ => hok C)]

theorem foldl_stepTrt_none (b : Bool) (Ts : List GeoSet) (log : List Design) :
    Ts.foldl (stepTrt p e b) ([], log)
      = ([], log ++ Ts.flatMap fun T => (ctlGroups p e T).map (mkDesign p e T)) := by
  induction Ts generalizing log with
  | nil => simp
  | cons T Ts ih =>
    rw [List.foldl_cons, stepTrt_none h1 h2 h3, ih, List.flatMap_cons, List.append_assoc]

theorem foldl_stepSize_none (last : Nat) (ns : List Nat) (log : List Design) :
    ns.foldl (stepSize p e last) ([], log)
      = ([], log ++ ns.flatMap fun n => (trtGroups e n).flatMap fun T =>
          (ctlGroups p e T).map (mkDesign p e T)) := by
  induction ns generalizing log with
  | nil => simp
  | cons n ns ih =>
    rw [List.foldl_cons]
    unfold stepSize
    rw [foldl_stepTrt_none h1 h2 h3]
    have := ih (log ++ (trtGroups e n).flatMap fun T => (ctlGroups p e T).map (mkDesign p e T))
    unfold stepSize at this
    rw [this, List.flatMap_cons, List.append_assoc]

theorem evaluatedRaw_none :
    (evaluatedRaw p e).map (fun d => (d.T, d.C)) = designsListing p e := by
  rcases evaluatedRaw_eq p e with ⟨h0, h⟩ | ⟨last, h⟩
  · rw [h]; simp [designsListing, h0]
  · rw [h, foldl_stepSize_none h1 h2 h3]
    simp only [List.nil_append, designsListing, List.map_flatMap, pair_mkDesign]

end none

/-! ### completeness: a never-skipped treatment group gets all its accepted controls logged -/

theorem PatsOk.nil (p : Params) (e : Env) : PatsOk p e [] := by
  intro S hS; simp at hS

theorem PatsOk.step {p : Params} {e : Env} (hwf : WF p e) {b : Bool} {st : ExhState}
    {T : GeoSet} (hT : AdmissibleTrt p e T) (hp : PatsOk p e st.1) :
    PatsOk p e (stepTrt p e b st T).1 := by
  rcases stepTrt_pats p e b st T with h | ⟨hv, h⟩
  · rw [h]; exact hp
  · rw [h]
    intro S hS
    rcases List.mem_append.1 hS with hS | hS
    · exact hp S hS
    · have : S = T := by simpa using hS
      subst this
      obtain ⟨lo, hi, hb, hlt⟩ := trtVerdict_record hv
      rw [pyDivF_opt hwf, lt_fin_fin, decide_eq_true_eq] at hlt
      exact ⟨hT, (lo, hi), hb, hlt⟩

/-- `T` is never skipped, whatever the (well-formed) pattern list and the `isLast` flag -/
def NeverSkipped (p : Params) (e : Env) (T : GeoSet) : Prop :=
  ∀ b pats, PatsOk p e pats → trtVerdict p e b pats T = .go

theorem stepTrt_mono (p : Params) (e : Env) (b : Bool) (st : ExhState) (T : GeoSet) :
    ∀ d ∈ st.2, d ∈ (stepTrt p e b st T).2 := by
  obtain ⟨l, hl, _⟩ := stepTrt_log p e b st T
  intro d hd; rw [hl]; exact List.mem_append_left _ hd

theorem foldl_stepTrt_complete {p : Params} {e : Env} (hwf : WF p e) (b : Bool)
    (Ts : List GeoSet) (hadm : ∀ S ∈ Ts, AdmissibleTrt p e S) (st : ExhState)
    (hp : PatsOk p e st.1) :
    PatsOk p e (Ts.foldl (stepTrt p e b) st).1 ∧
    (∀ d ∈ st.2, d ∈ (Ts.foldl (stepTrt p e b) st).2) ∧
    ∀ T ∈ Ts, NeverSkipped p e T → ∀ C ∈ ctlGroups p e T, ctlOk p e T C = true →
      mkDesign p e T C ∈ (Ts.foldl (stepTrt p e b) st).2 := by
  induction Ts generalizing st with
  | nil => exact ⟨hp, fun d hd => hd, fun T hT => by simp at hT⟩
  | cons S Ts ih =>
    rw [List.foldl_cons]
    have hp' : PatsOk p e (stepTrt p e b st S).1 := PatsOk.step hwf (hadm S List.mem_cons_self) hp
    obtain ⟨i1, i2, i3⟩ := ih (fun S' hS' => hadm S' (List.mem_cons_of_mem _ hS')) _ hp'
    refine ⟨i1, fun d hd => i2 d (stepTrt_mono p e b st S d hd), ?_⟩
    intro T hT hns C hC hok
    rcases List.mem_cons.1 hT with rfl | hT
    · apply i2
      rw [stepTrt_go (hns b st.1 hp)]
      exact List.mem_append_right _
        (List.mem_map.2 ⟨C, List.mem_filter.2 ⟨hC, hok⟩, rfl⟩)
    · exact i3 T hT hns C hC hok

theorem admissible_of_gen {p : Params} {e : Env} {n : Nat} (hn : n ∈ trtSizeRange p e)
    {S : GeoSet} (hS : S ∈ trtGroups e n) : AdmissibleTrt p e S := by
  have := length_of_mem_trtGroups hS
  subst this
  exact ⟨hn, hS⟩

theorem foldl_stepSize_complete {p : Params} {e : Env} (hwf : WF p e) (last : Nat)
    (ns : List Nat) (hns : ∀ n ∈ ns, n ∈ trtSizeRange p e) (st : ExhState)
    (hp : PatsOk p e st.1) :
    PatsOk p e (ns.foldl (stepSize p e last) st).1 ∧
    (∀ d ∈ st.2, d ∈ (ns.foldl (stepSize p e last) st).2) ∧
    ∀ n ∈ ns, ∀ T ∈ trtGroups e n, NeverSkipped p e T → ∀ C ∈ ctlGroups p e T,
      ctlOk p e T C = true → mkDesign p e T C ∈ (ns.foldl (stepSize p e last) st).2 := by
  induction ns generalizing st with
  | nil => exact ⟨hp, fun d hd => hd, fun n hn => by simp at hn⟩
  | cons m ns ih =>
    rw [List.foldl_cons]
    obtain ⟨j1, j2, j3⟩ := foldl_stepTrt_complete hwf (m == last) (trtGroups e m)
      (fun S hS => admissible_of_gen (hns m List.mem_cons_self) hS) st hp
    obtain ⟨i1, i2, i3⟩ := ih (fun n' hn' => hns n' (List.mem_cons_of_mem _ hn'))
      (stepSize p e last st m) j1
    refine ⟨i1, fun d hd => i2 d (j2 d hd), ?_⟩
    intro n hn T hT hnsk C hC hok
    rcases List.mem_cons.1 hn with rfl | hn
    · exact i2 _ (j3 T hT hnsk C hC hok)
    · exact i3 n hn T hT hnsk C hC hok

/-- every listed pair whose treatment group is never skipped and whose control group passes
`ctlOk` is evaluated -/
theorem evaluatedRaw_complete {p : Params} {e : Env} (hwf : WF p e) {T C : GeoSet}
    (hl : (T, C) ∈ designsListing p e) (hns : NeverSkipped p e T)
    (hok : ctlOk p e T C = true) : mkDesign p e T C ∈ evaluatedRaw p e := by
  unfold designsListing at hl
  simp only [List.mem_flatMap, List.mem_map, Prod.mk.injEq] at hl
  obtain ⟨n, hn, T', hT', C', hC', rfl, rfl⟩ := hl
  rcases evaluatedRaw_eq p e with ⟨h0, _⟩ | ⟨last, h⟩
  · rw [h0] at hn; simp at hn
  · rw [h]
    exact (foldl_stepSize_complete hwf last (trtSizeRange p e) (fun _ h => h) ([], [])
      (PatsOk.nil p e)).2.2 n hn T' hT' hns C' hC' hok

end MM.Search
