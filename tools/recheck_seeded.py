#!/usr/bin/env python3
"""Re-run every seeded change of /verif/seeded against the checks recorded as detecting it (meta.json: detected_by.checks)
and report which are still detected.  Applies each patch to /repo, runs the quick checks, reverts.  Must not be run while
anything else reads /repo.  usage: recheck_seeded.py [ID-prefix ...]"""
import json, os, subprocess, sys, glob

VERIF = os.path.dirname(os.path.dirname(os.path.abspath(__file__)))


def sh(cmd, cwd=None, timeout=2400):
  p = subprocess.run(cmd, shell=True, cwd=cwd, stdout=subprocess.PIPE, stderr=subprocess.STDOUT, text=True, timeout=timeout)
  return p.returncode, p.stdout


def main():
  pref = sys.argv[1:]
  dirs = sorted(d for d in glob.glob(os.path.join(VERIF, 'seeded', 'C*-*')) if not pref or any(os.path.basename(d).startswith(p) for p in pref))
  rc, out = sh('git diff --quiet', cwd='/repo')
  if rc != 0:
    print('/repo has uncommitted changes'); return 2
  missed, skipped = [], []
  for d in dirs:
    name = os.path.basename(d)
    meta = json.load(open(os.path.join(d, 'meta.json')))
    checks = [c.strip() for c in ((meta.get('detected_by') or {}).get('checks') or name.split('-')[0]).split(',')]
    rc, out = sh(f'git apply {d}/patch.diff', cwd='/repo')
    if rc != 0:
      skipped.append(name); print(f'{name}: patch does not apply to the current tree ({"superseded" if meta.get("superseded") else "?"})'); continue
    hit = None
    try:
      for c in checks:
        seed = os.environ.get('VERIF_SEED', '0')
        rc, out = sh(f'VERIF_SEED={seed} timeout 1500 harness/vcheck.py {c} --tier quick', cwd=VERIF)
        line = next((l for l in out.splitlines() if l.startswith('VIOLATION')), None)
        if line:
          hit = (c, 'no-failing-input-found' if line.rstrip().endswith('no-failing-input-found') else 'failing input')
          break
    finally:
      sh('git checkout -- .', cwd='/repo')
    print(f'{name}: ' + (f'detected by {hit[0]} ({hit[1]})' if hit else f'NOT DETECTED by {checks}'), flush=True)
    if not hit:
      missed.append(name)
  print(f'{len(dirs)} seeded changes, {len(missed)} not detected: {missed}; {len(skipped)} not applicable: {skipped}')
  return 1 if missed else 0


if __name__ == '__main__':
  sys.exit(main())
