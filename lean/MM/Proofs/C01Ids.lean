/-
Helper lemmas for the ID-level statement of C01 (`MM/Props/C01Ids.lean`): positions of an
increasing list, the map index ↦ position ↦ geo ID (duplicates, disjointness, membership), and what
a must-include raw class becomes among the search classes.  The definitions the capstone statement
is written with (`Class7.canT`, `Class7.canC`, `reported`, `C01Sentence`) live in the Props file;
nothing here mentions them.
-/
import MM.Props.C01Admit
import MM.Proofs.Exhaustive

namespace MM.Admit
open MM MM.Search

theorem getD_eq_getElem (idx : List Nat) (j : Nat) (h : j < idx.length) : idx.getD j 0 = idx[j] := by
  simp [List.getD_eq_getElem?_getD, h]

theorem getD_mem (idx : List Nat) (j : Nat) (h : j < idx.length) : idx.getD j 0 ∈ idx := by
  rw [getD_eq_getElem idx j h]
  exact List.getElem_mem h

/-- every member of a list is at some position of it, in `getD` form -/
theorem exists_getD_of_mem (idx : List Nat) (k : Nat) (h : k ∈ idx) :
    ∃ j, j < idx.length ∧ idx.getD j 0 = k := by
  obtain ⟨j, hj, hjk⟩ := List.getElem_of_mem h
  exact ⟨j, hj, (getD_eq_getElem idx j hj).trans hjk⟩

theorem ids_getElem?_getD (ids : List String) (k : Nat) (h : k < ids.length) :
    ids[k]? = some (ids.getD k "") := by
  simp [List.getD_eq_getElem?_getD, h]

/-- a raw class that forbids exclusion becomes a search class that forbids exclusion -/
theorem canX_of_must (c : Class7) (g : GeoClass) (h : c.toGeoClass = some g) (hm : c.must = true) :
    g.canX = false := by
  cases c <;> cases h <;> first | rfl | cases hm

/-- the IDs reported for an increasing index list are pairwise distinct -/
theorem map_ids_nodup (ids : List String) (hnd : ids.Nodup) (idx : List Nat)
    (hidx : idx.Pairwise (· < ·)) (hlt : ∀ i ∈ idx, i < ids.length) (s : List Nat)
    (hs : s.Pairwise (· < ·)) (hb : ∀ i ∈ s, i < idx.length) :
    (s.map fun i => ids.getD (idx.getD i 0) "").Nodup := by
  unfold List.Nodup
  rw [List.pairwise_map]
  refine hs.imp_of_mem ?_
  intro a b ha hb' hab heq
  have := ids_injective ids hnd idx hidx hlt a b (hb a ha) (hb b hb') heq
  omega

/-- disjoint index lists are reported as disjoint ID lists -/
theorem map_ids_disjoint (ids : List String) (hnd : ids.Nodup) (idx : List Nat)
    (hidx : idx.Pairwise (· < ·)) (hlt : ∀ i ∈ idx, i < ids.length) (T C : List Nat)
    (hT : ∀ i ∈ T, i < idx.length) (hC : ∀ i ∈ C, i < idx.length) (hd : ∀ i ∈ T, i ∉ C) :
    ∀ g ∈ T.map fun i => ids.getD (idx.getD i 0) "",
      g ∉ C.map fun i => ids.getD (idx.getD i 0) "" := by
  intro g hgT hgC
  obtain ⟨a, ha, rfl⟩ := List.mem_map.1 hgT
  obtain ⟨b, hb, hab⟩ := List.mem_map.1 hgC
  have := ids_injective ids hnd idx hidx hlt b a (hC b hb) (hT a ha) hab
  subst this
  exact hd _ ha hb

/-- the ID of the `j`-th admitted position is reported for every index list containing `j` -/
theorem mem_map_ids (ids : List String) (idx : List Nat) (s : List Nat) (j k : Nat) (hj : j ∈ s)
    (hk : idx.getD j 0 = k) : ids.getD k "" ∈ s.map fun i => ids.getD (idx.getD i 0) "" :=
  List.mem_map.2 ⟨j, hj, by rw [hk]⟩

/-- the ID of a position that is not admitted is never reported -/
theorem not_mem_map_ids (ids : List String) (hnd : ids.Nodup) (idx : List Nat)
    (hlt : ∀ i ∈ idx, i < ids.length) (s : List Nat) (hb : ∀ i ∈ s, i < idx.length) (k : Nat)
    (hk : k < ids.length) (hnot : k ∉ idx) :
    ids.getD k "" ∉ s.map fun i => ids.getD (idx.getD i 0) "" := by
  intro hmem
  obtain ⟨a, ha, hak⟩ := List.mem_map.1 hmem
  have hm := getD_mem idx a (hb a ha)
  have hpos : idx.getD a 0 = k := (List.getD_inj (hlt _ hm) hk hnd).1 hak
  exact hnot (hpos ▸ hm)

end MM.Admit
