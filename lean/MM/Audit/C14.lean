import MM.Props.C14
import MM.Props.ScoreTie

#print axioms MM.HeapDict.C14_sorted
#print axioms MM.HeapDict.C14_length
#print axioms MM.HeapDict.C14_topk
#print axioms MM.HeapDict.C14_keys
#print axioms MM.HeapDict.C14_get_pure
#print axioms MM.HeapDict.C14_get_count
#print axioms MM.HeapDict.C14_get_prefix
#print axioms MM.HeapDict.C14_get_prefix_idx
#print axioms MM.Search.tie_score_fields
#print axioms MM.Search.tie_score_exprs
#print axioms MM.Search.tie_score_order
