"""C11: count_max_designs equals the size of the enumerated design space."""
import itertools
import json
import multiprocessing as mp
import os
import warnings
import core

warnings.filterwarnings('ignore')
PROP = 'C11'
LEAN_TARGETS = ['MM.Props.C11', 'MM.Audit.C11', 'MM.Props.SizesTie', 'MM.Driver.Wire', 'MM.Model.Admit']
THEOREMS = ['MM.Search.' + n for n in (
    'C11_count_eq_spec', 'C11_sizes_pos', 'C11_listing_mem', 'C11_listing_nodup', 'C11_listing_length',
    'C11_upper_bound')]
THEOREMS = list(THEOREMS) + ['MM.Search.tie_trt_sizes', 'MM.Search.tie_ctl_sizes']
TRUSTED_BASE = [
    'Lean 4.33.0 kernel; axioms propext, Classical.choice, Quot.sound (audited per theorem); Mathlib lemmas on Nat.choose / Finset sums',
    'hand model of count_max_designs, treatment_group_size_range, _control_group_size_generator and the two group generators '
    '(MM/Model/Search.lean); scipy.special.comb(exact=True) = Pascal recursion; itertools.combinations = MM.combos; '
    'CPython iteration order of small-int sets is ascending',
    'correspondence harness harness/props/c11.py via lean/drivers/Search.lean (count, listing length, evaluated list)',
]
CLASSES = ['cFixed', 'tFixed', 'ct', 'cx', 'tx', 'ctx']
CODE = {'cFixed': (1, 0, 0), 'tFixed': (0, 1, 0), 'ct': (1, 1, 0), 'cx': (1, 0, 1), 'tx': (0, 1, 1), 'ctx': (1, 1, 1)}
SETTINGS_QUICK = [
    {}, {'treatment_geos_range': (1, 2)}, {'control_geos_range': (2, 3)}, {'geo_ratio_tolerance': 1.0},
    {'treatment_geos_range': (2, 3), 'control_geos_range': (1, 2), 'geo_ratio_tolerance': 0.5},
    {'geo_ratio_tolerance': 0.25}, {'treatment_geos_range': (2, 2), 'geo_ratio_tolerance': 2.0},
    {'control_geos_range': (1, 1)},
]
SETTINGS_MORE = [
    {'treatment_geos_range': (a, b), 'control_geos_range': (c, d), **({'geo_ratio_tolerance': t} if t else {})}
    for (a, b) in [(1, 1), (1, 3), (2, 4), (3, 6)] for (c, d) in [(1, 2), (2, 2), (1, 6)] for t in [None, 0.1, 0.5, 1.0, 3.0]
]


def frame(n):
  import pandas as pd
  rows = []
  for g in range(n):
    for d in range(8):
      rows.append({'geo': f'g{g}', 'date': pd.Timestamp('2020-01-01') + pd.Timedelta(days=d),
                   'response': float((n - g) * (10 + d) + (d * (g + 3)) % 7)})
  return pd.DataFrame(rows)


def real_case(job):
  cls, setting = job
  import pandas as pd
  from matched_markets.methodology import tbrmmdata, tbrmatchedmarkets, tbrmmdesignparameters, geoeligibility
  n = len(cls)
  el = pd.DataFrame({'geo': [f'g{i}' for i in range(n)], 'control': [CODE[c][0] for c in cls],
                     'treatment': [CODE[c][1] for c in cls], 'exclude': [CODE[c][2] for c in cls]})
  try:
    par = tbrmmdesignparameters.TBRMMDesignParameters(n_test=2, iroas=1.0, **setting)
    mm = tbrmatchedmarkets.TBRMatchedMarkets(
        tbrmmdata.TBRMMData(frame(n), 'response', geoeligibility.GeoEligibility(el)), par)
    count = int(mm.count_max_designs())
    pairs = []
    for nT in mm.treatment_group_size_range():
      for T in mm.treatment_group_generator(nT):
        for C in mm.control_group_generator(T):
          pairs.append((tuple(sorted(T)), tuple(sorted(C))))
    return {'count': count, 'listing': len(pairs), 'distinct': len(set(pairs)), 'pairs': pairs}
  except Exception as e:
    return {'error': type(e).__name__ + ': ' + str(e)[:100]}


class GuardBand(Exception):
  """a size pair sits so close to the ratio bound that exact and floating-point comparison disagree"""


def ratio_ok(c, t, tol):
  """exact reading of `1/(1+tol) <= c/t <= 1+tol`; raises GuardBand when the float evaluation the code performs differs"""
  from fractions import Fraction
  ft = Fraction(tol)
  exact = 1 / (1 + ft) <= Fraction(c, t) <= 1 + ft
  hi = 1.0 + tol
  flt = (c / t >= 1.0 / hi) and (c / t <= hi)
  if exact != flt:
    raise GuardBand(f'c={c} t={t} tol={tol}')
  return exact


def brute(cls, setting):
  """the property's sentence, literally: assignments of each geo to T / C / neither respecting eligibility, size ranges,
  geo-ratio tolerance, both groups non-empty"""
  from fractions import Fraction
  n = len(cls)
  opts = [[s for s, ok in zip('CTX', CODE[c]) if ok] for c in cls]
  tr = setting.get('treatment_geos_range')
  cr = setting.get('control_geos_range')
  tol = setting.get('geo_ratio_tolerance')
  total = 0
  for a in itertools.product(*opts):
    t, c = a.count('T'), a.count('C')
    if t == 0 or c == 0:
      continue
    if tr and not tr[0] <= t <= tr[1]:
      continue
    if cr and not cr[0] <= c <= cr[1]:
      continue
    if tol is not None and not ratio_ok(c, t, tol):
      continue
    total += 1
  return total


def spec_count(counts, setting, n_total):
  """number of legal assignments with admissible sizes, by multiplying the per-geo generating polynomials in (T, C)
  (exact integer arithmetic): the property's sentence for class vectors too large to enumerate"""
  from fractions import Fraction
  poly = {(0, 0): 1}
  steps = {'tFixed': [(1, 0)], 'cFixed': [(0, 1)], 'ct': [(1, 0), (0, 1)], 'tx': [(1, 0), (0, 0)],
           'cx': [(0, 1), (0, 0)], 'ctx': [(1, 0), (0, 1), (0, 0)]}
  for c, k in counts.items():
    for _ in range(k):
      nxt = {}
      for (t, cc), v in poly.items():
        for dt, dc in steps[c]:
          key = (t + dt, cc + dc)
          nxt[key] = nxt.get(key, 0) + v
      poly = nxt
  tr, cr, tol = setting.get('treatment_geos_range'), setting.get('control_geos_range'), setting.get('geo_ratio_tolerance')
  total = 0
  for (t, c), v in poly.items():
    if t == 0 or c == 0:
      continue
    if tr and not tr[0] <= t <= tr[1]:
      continue
    if cr and not cr[0] <= c <= cr[1]:
      continue
    if tol is not None and not ratio_ok(c, t, tol):
      continue
    total += v
  return total


def large_case(job):
  counts, setting = job
  import pandas as pd
  from matched_markets.methodology import tbrmmdata, tbrmatchedmarkets, tbrmmdesignparameters, geoeligibility
  cls = [c for c, k in counts.items() for _ in range(k)]
  n = len(cls)
  el = pd.DataFrame({'geo': [f'g{i}' for i in range(n)], 'control': [CODE[c][0] for c in cls],
                     'treatment': [CODE[c][1] for c in cls], 'exclude': [CODE[c][2] for c in cls]})
  try:
    par = tbrmmdesignparameters.TBRMMDesignParameters(n_test=2, iroas=1.0, **setting)
    mm = tbrmatchedmarkets.TBRMatchedMarkets(
        tbrmmdata.TBRMMData(frame(n), 'response', geoeligibility.GeoEligibility(el)), par)
    return {'count': int(mm.count_max_designs()), 'type': type(mm.count_max_designs()).__name__}
  except Exception as e:
    return {'error': type(e).__name__ + ': ' + str(e)[:100]}


def wire(iid, cls, setting):
  L = [f'inst {iid}']
  if 'treatment_geos_range' in setting:
    L.append('param trt %d %d' % setting['treatment_geos_range'])
  if 'control_geos_range' in setting:
    L.append('param ctl %d %d' % setting['control_geos_range'])
  if 'geo_ratio_tolerance' in setting:
    L.append('param geotol ' + core.rat(setting['geo_ratio_tolerance']))
  L.append('param ndesigns 1')
  n = len(cls)
  for i, c in enumerate(cls):
    L.append(f'row {c} 1/{n} {n - i}/1')
  L.append('idx ' + ' '.join(str(i) for i in range(n)))
  L.append('run')
  return L


def run(out, tier, model_ok=True):
  import engines.search as se
  rng = core.rng_for(PROP)
  max_n = 5 if tier == 'quick' else 7
  settings = SETTINGS_QUICK if tier == 'quick' else SETTINGS_QUICK + SETTINGS_MORE
  jobs = []
  for n in range(1, max_n + 1):
    for vec in itertools.combinations_with_replacement(CLASSES, n):
      cls = list(vec)
      rng.shuffle(cls)          # interleave the classes: positions matter to the generators, not to the count
      if tier == 'quick' and n == max_n:
        sts = rng.sample(settings, 3)
      elif tier != 'quick' and n >= 6:
        sts = rng.sample(settings, 10 if n == 6 else 3)      # keeps the thorough tier within tens of minutes
      else:
        sts = settings
      for s in sts:
        jobs.append((cls, s))
  with mp.Pool(min(16, os.cpu_count() or 4)) as pool:
    reals = pool.map(real_case, jobs, chunksize=16)
  model = None
  if model_ok:
    lines = []
    for i, (cls, s) in enumerate(jobs):
      if len(cls) <= 6:
        lines += wire(i, cls, s)
    model = se.parse_model(core.run_driver('Search.lean', lines))
  for i, ((cls, s), r) in enumerate(zip(jobs, reals)):
    case = {'classes': cls, 'setting': {k: list(v) if isinstance(v, tuple) else v for k, v in s.items()}}
    if 'error' in r:
      out.oracle_violation({'call': 'count_max_designs', 'symptom': 'exception'}, case, f'{cls} {s}: {r["error"]}')
      continue
    try:
      want = brute(cls, s)
    except GuardBand:
      out.count(None)      # a size pair on the ratio bound up to rounding: outside the comparison
      continue
    if r['count'] != r['listing'] or r['distinct'] != r['listing'] or r['count'] != want:
      out.oracle_violation({'call': 'count_max_designs', 'symptom': 'count-mismatch'}, case,
                           f'classes {cls} setting {s}: count_max_designs={r["count"]}, generators list {r["listing"]} pairs '
                           f'({r["distinct"]} distinct), legal assignments by brute force={want}')
      continue
    if model is not None and str(i) in model:
      m = model[str(i)]
      if m.get('count') != r['count'] or m.get('listing') != r['listing'] or \
          [(tuple(d['T']), tuple(d['C'])) for d in m['ev']] != r['pairs']:
        out.mismatch('count', case, f'classes {cls} setting {s}: implementation count {r["count"]} listing {r["listing"]}; '
                     f'model count {m.get("count")} listing {m.get("listing")} ev {len(m["ev"])} (order compared too)')
    out.count((tuple(cls), json.dumps(case['setting'], sort_keys=True)) if r['count'] > 0 else None)
  # large class vectors (cannot be enumerated): the count must equal the exact number of legal assignments
  big_jobs = []
  for _ in range(12 if tier == 'quick' else 150):
    kind = rng.choice(['ctx', 'mixed', 'mixed', 'wide'])
    if kind == 'ctx':
      counts = {'ctx': rng.choice([36, 40, 48, 60])}
    elif kind == 'wide':
      counts = {'ctx': rng.randint(20, 34), 'tx': rng.randint(0, 6), 'cx': rng.randint(0, 6), 'ct': rng.randint(0, 4),
                'tFixed': rng.randint(0, 2), 'cFixed': rng.randint(0, 2)}
    else:
      counts = {c: rng.randint(0, 9) for c in CLASSES}
    counts = {c: k for c, k in counts.items() if k}
    n_tot = sum(counts.values())
    st = rng.choice([{}, {}, {'geo_ratio_tolerance': 1.0}, {'treatment_geos_range': (1, max(1, n_tot // 2))},
                     {'control_geos_range': (2, max(2, n_tot - 3)), 'geo_ratio_tolerance': 0.5}])
    big_jobs.append((counts, st))
  with mp.Pool(min(16, os.cpu_count() or 4)) as pool:
    big = pool.map(large_case, big_jobs)
  n_big_over = 0
  for (counts, st), r in zip(big_jobs, big):
    case = {'class_counts': counts, 'setting': {k: list(v) if isinstance(v, tuple) else v for k, v in st.items()}}
    try:
      want = spec_count(counts, st, sum(counts.values()))
    except GuardBand:
      out.count(None)
      continue
    n_big_over += want > 2 ** 53
    if 'error' in r:
      out.oracle_violation({'call': 'count_max_designs', 'symptom': 'exception'}, case, f'{counts} {st}: {r["error"]}')
    elif r['count'] != want:
      out.oracle_violation({'call': 'count_max_designs', 'symptom': 'count-mismatch', 'large': True}, case,
                           f'class counts {counts} setting {st}: count_max_designs={r["count"]} but the number of legal '
                           f'assignments is {want} (difference {r["count"] - want})')
    out.count((json.dumps(counts, sort_keys=True), json.dumps(case['setting'], sort_keys=True)))
  out.extra.update({'large_vectors': len(big_jobs), 'large_vectors_above_2^53': n_big_over})
  # "upper bound on the designs the exhaustive search evaluates": on real panels (the search engine's instances) the
  # number of designs pushed to the result queue never exceeds the count reported beforehand
  res = se.get_results(tier, model_ok=model_ok)
  n_bound = 0
  for r in se.iter_results(res):
    e = r['exh']
    if 'count' in e and 'result' in e:
      n_bound += 1
      if len(e.get('pushlog', [])) > e['count']:
        out.oracle_violation({'call': 'exhaustive_search', 'symptom': 'count-exceeded'}, se.case_of(r, 'exh'),
                             f'exhaustive search evaluated {len(e["pushlog"])} designs, count_max_designs said at most {e["count"]}')
  out.extra['search_instances_count_bound_checked'] = n_bound
  out.rule = ('all multisets of the six admitted eligibility classes with <= %d geos (class positions shuffled), each under %d '
              'size-range / geo-ratio settings (quick: a sample of 3 settings at the largest size; thorough: all settings up to 5 geos, 10 at 6, 3 at 7); compared: count_max_designs, '
              'length and distinctness of the generator listing, brute-force count of legal assignments, and the Lean model '
              '(count, listing order); plus large class vectors (20-60 geos, counts up to 3^60) compared with the exact number of legal assignments; on the search engine\'s panels, designs evaluated <= count; non-trivial = positive count; distinct by (class vector, setting)' % (max_n, len(settings)))
  out.extra.update({'cases': len(jobs), 'max_geos': max_n, 'settings': len(settings),
                    'exhaustive': True, 'positive_counts': len(out.nontrivial)})
  out.sample({'classes': jobs[len(jobs) // 2][0], 'setting': str(jobs[len(jobs) // 2][1]), 'result': {k: v for k, v in reals[len(jobs) // 2].items() if k != 'pairs'}})


def replay(out, path, model_ok=True):
  with open(path) as f:
    rp = json.load(f)
  case = (rp.get('violation') or (rp.get('correspondence_mismatches') or [{}])[0]).get('case')
  s = {k: tuple(v) if isinstance(v, list) else v for k, v in case['setting'].items()}
  r = real_case((case['classes'], s))
  want = brute(case['classes'], s)
  print('replay:', case, {k: v for k, v in r.items() if k != 'pairs'}, 'brute force', want)
  if 'error' in r or r['count'] != want or r['listing'] != want:
    out.oracle_violation({'call': 'count_max_designs', 'symptom': 'count-mismatch'}, case, 'replayed: still disagrees')
  out.count(('replay', 1)); out.count(('replay', 2))
