import MM.Props.C17

#print axioms MM.Params.C17_accept_iff
#print axioms MM.Params.C17_reject_valueError
#print axioms MM.Params.C17_total
#print axioms MM.Params.C17_construct
#print axioms MM.Params.C17_defaults
#print axioms MM.Params.C17_defaults_in_domain
#print axioms MM.Params.C17_eq_refl
#print axioms MM.Params.C17_eq_symm
#print axioms MM.Params.C17_eq_fields
