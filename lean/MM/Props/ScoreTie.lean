/-
Obligations on the score layout regenerated from the source (translator T6): the score is the documented
lexicographic tuple (correlation test, A/A test, Brownian-bridge test, Durbin-Watson test, correlation
rounded to two decimals, inverse required impact), and designs are compared through their score tuples.
The search model treats the first five entries as the opaque `score5` table and the last one as
`invImpact` / `budgetInv`; these obligations pin the positions.
-/
import MM.Generated.ScoreGen
namespace MM.Search

theorem tie_score_fields :
    MM.Gen.Score.scoringFields = ["corr_test", "aa_test", "bb_test", "dw_test", "corr", "inv_required_impact"] := by decide

theorem tie_score_exprs :
    MM.Gen.Score.scoreExprs = ["int(corr_test)", "int(aatest.test_ok)", "int(bbtest.test_ok)", "int(dwtest.test_ok)",
                               "round(corr, 2)", "1 / required_impact"] := by decide

theorem tie_score_order : MM.Gen.Score.scoreLtIsTupleLt = true ∧ MM.Gen.Score.designLtIsScoreLt = true := by decide

end MM.Search
