#!/bin/bash
cd "$(dirname "$0")/.."
python3 harness/setup.py > /dev/null 2>&1 || echo "SETUP FAILED"
ids=$(python3 -c "import json;print(' '.join(c['property_id'] for c in json.load(open('MANIFEST.json'))['checks']))")
for seed in 31 32 33; do
  for id in $ids; do
    out=$(VERIF_SEED=$seed timeout 1800 /venv/bin/python harness/vcheck.py $id --tier quick 2>&1); rc=$?
    echo "quick seed=$seed $id rc=$rc $(echo "$out" | grep -E '^OK|VIOLATION|INFRA' | head -2 | cut -c1-220)"
    [ $rc -ne 0 ] && echo "$out" | grep -E '^  ' | head -3 | cut -c1-300
  done
done
for id in C03 C07 C20 C18 C15 C08 C14 C12 C05 C06 C16 C17 C19 C11 C10 C01 C02 C04 C09 C13; do
  t0=$(date +%s)
  out=$(VERIF_SEED=5 timeout 7200 /venv/bin/python harness/vcheck.py $id --tier thorough 2>&1); rc=$?
  echo "thorough $id rc=$rc $(( $(date +%s) - t0 ))s $(echo "$out" | grep -E '^OK|VIOLATION|INFRA' | head -2 | cut -c1-220)"
  [ $rc -ne 0 ] && echo "$out" | grep -E '^  ' | head -3 | cut -c1-300
done
