#!/venv/bin/python
"""Entry point of every registered check:  vcheck.py <property id> [--tier quick|thorough] [--replay FILE]"""
import argparse
import importlib
import os
import sys
import traceback
import warnings

warnings.simplefilter('ignore')
os.environ.setdefault('PYTHONWARNINGS', 'ignore')

sys.path.insert(0, os.path.dirname(os.path.abspath(__file__)))
import core  # noqa: E402


def main():
  ap = argparse.ArgumentParser()
  ap.add_argument('prop')
  ap.add_argument('--tier', default=os.environ.get('VERIF_TIER', 'quick'), choices=['quick', 'thorough'])
  ap.add_argument('--replay', default=None)
  args = ap.parse_args()
  prop = args.prop.upper()
  try:
    mod = importlib.import_module('props.' + prop.lower())
  except ImportError as e:
    print(f'INFRASTRUCTURE-ERROR property={prop}: no check module ({e})')
    return 2
  out = core.Outcome(prop, args.tier)
  build = None
  try:
    build = core.lean_build(mod.LEAN_TARGETS, audit_file=f'MM/Audit/{prop}.lean',
                            expected_theorems=mod.THEOREMS, recheck=(args.tier == 'thorough'))
    model_ok = build.model_ok
    # a broken proof or fragment deepens the search for a failing input
    intensify = not build.proof_ok
    if args.replay:
      mod.replay(out, args.replay, model_ok=model_ok)
    else:
      # the quick tier is deepened (where a module supports it), never replaced by the much longer thorough tier:
      # a registered check must stay bounded in time
      import translate
      changed = translate.changed_hashes()
      if changed:
        out.extra['hand_modelled_functions_changed'] = changed[:20]
      # a changed hand-modelled function deserves a deeper differential run; by itself it is not a violation
      kw = {'deepen': True} if ((intensify or changed) and getattr(mod, 'SUPPORTS_DEEPEN', False)) else {}
      mod.run(out, tier=args.tier, model_ok=model_ok, **kw)
  except core.DriverError as e:
    out.mismatch('driver', None, 'model driver failed: ' + str(e)[-300:])
  except subprocess_timeout() as e:  # pragma: no cover
    out.infra_error = f'timeout: {e}'
  except Exception as e:  # infrastructure problem, never a violation
    traceback.print_exc()
    out.infra_error = f'{type(e).__name__}: {e}'
  return core.finish(out, build, mod.THEOREMS, mod.TRUSTED_BASE, level='proof',
                     checker_cmd='cd /verif/lean && lake build ' + ' '.join(mod.LEAN_TARGETS) +
                     f' && lake env lean MM/Audit/{prop}.lean')


def subprocess_timeout():
  import subprocess
  return subprocess.TimeoutExpired


if __name__ == '__main__':
  sys.exit(main())
