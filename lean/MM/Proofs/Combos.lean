/-
Facts about `combos` (= `itertools.combinations`) and the model's `choose`.
-/
import MM.Model.Basic
import MM.Model.Search
import Mathlib.Data.List.Sublists
import Mathlib.Data.List.Sort
import Mathlib.Data.Nat.Choose.Basic

namespace MM

theorem mem_combos {α : Type} (r : Nat) (l s : List α) :
    s ∈ combos r l ↔ s.Sublist l ∧ s.length = r := by
  induction l generalizing r s with
  | nil =>
    cases r with
    | zero => simp [combos]
    | succ r => simp [combos]; intro h; simp [h]
  | cons a l ih =>
    cases r with
    | zero => simp [combos]; intro h; simp [h]
    | succ r =>
      simp only [combos, List.mem_append, List.mem_map, ih]
      constructor
      · rintro (⟨t, ⟨ht, hl⟩, rfl⟩ | ⟨hs, hl⟩)
        · exact ⟨ht.cons_cons a, by simp [hl]⟩
        · exact ⟨hs.cons a, hl⟩
      · rintro ⟨hs, hl⟩
        cases hs with
        | cons _ h => exact Or.inr ⟨h, hl⟩
        | cons_cons _ h =>
          rename_i t
          exact Or.inl ⟨t, ⟨h, by simpa using hl⟩, rfl⟩

theorem length_combos {α : Type} (r : Nat) (l : List α) :
    (combos r l).length = l.length.choose r := by
  induction l generalizing r with
  | nil => cases r <;> simp [combos]
  | cons a l ih =>
    cases r with
    | zero => simp [combos]
    | succ r => simp [combos, ih, Nat.choose_succ_succ]

theorem nodup_combos {α : Type} {l : List α} (r : Nat) (h : l.Nodup) : (combos r l).Nodup := by
  induction l generalizing r with
  | nil => cases r <;> simp [combos]
  | cons a l ih =>
    cases r with
    | zero => simp [combos]
    | succ r =>
      rw [List.nodup_cons] at h
      simp only [combos]
      refine List.Nodup.append ?_ (ih _ h.2) ?_
      · exact (ih r h.2).map (fun _ _ hxy => List.tail_eq_of_cons_eq hxy)
      · intro s hs1 hs2
        rw [List.mem_map] at hs1
        obtain ⟨t, _, rfl⟩ := hs1
        rw [mem_combos] at hs2
        exact h.1 (hs2.1.subset (List.mem_cons_self))

/-- members of `combos r l` inherit any pairwise relation of `l`. -/
theorem pairwise_of_mem_combos {α : Type} {R : α → α → Prop} {r : Nat} {l s : List α}
    (hs : s ∈ combos r l) (hl : l.Pairwise R) : s.Pairwise R :=
  hl.sublist ((mem_combos r l s).1 hs).1

theorem nodup_of_mem_combos {α : Type} {r : Nat} {l s : List α}
    (hs : s ∈ combos r l) (hl : l.Nodup) : s.Nodup :=
  hl.sublist ((mem_combos r l s).1 hs).1

/-- members of `combos r l` are strictly increasing when `l` is. -/
theorem sorted_of_mem_combos {r : Nat} {l s : List Nat}
    (hs : s ∈ combos r l) (hl : l.Pairwise (· < ·)) : s.Pairwise (· < ·) :=
  pairwise_of_mem_combos hs hl

/-- Mathlib's `SortedLT` form of the same fact. -/
theorem sortedLT_of_mem_combos {α : Type} [Preorder α] {r : Nat} {l s : List α}
    (hs : s ∈ combos r l) (hl : l.SortedLT) : s.SortedLT :=
  (pairwise_of_mem_combos hs hl.pairwise).sortedLT

theorem subset_of_mem_combos {α : Type} {r : Nat} {l s : List α}
    (hs : s ∈ combos r l) : s ⊆ l := ((mem_combos r l s).1 hs).1.subset

theorem length_of_mem_combos {α : Type} {r : Nat} {l s : List α}
    (hs : s ∈ combos r l) : s.length = r := ((mem_combos r l s).1 hs).2

theorem Search.choose_eq (n k : Nat) : MM.Search.choose n k = Nat.choose n k := by
  induction n generalizing k with
  | zero => cases k <;> simp [Search.choose]
  | succ n ih => cases k <;> simp [Search.choose, ih, Nat.choose_succ_succ]

end MM
