#!/bin/bash
cd "$(dirname "$0")/.."
python3 harness/setup.py > /dev/null 2>&1 || echo "SETUP FAILED"
ids=$(python3 -c "import json;print(' '.join(c['property_id'] for c in json.load(open('MANIFEST.json'))['checks']))")
for seed in 91 92 93 94 95; do
  for id in $ids; do
    out=$(VERIF_SEED=$seed timeout 1800 /venv/bin/python harness/vcheck.py $id --tier quick 2>&1); rc=$?
    echo "quick seed=$seed $id rc=$rc $(echo "$out" | grep -E '^OK|VIOLATION|INFRA' | head -2 | cut -c1-220)"
    [ $rc -ne 0 ] && echo "$out" | grep -E '^  ' | head -3 | cut -c1-300
  done
done
