#!/usr/bin/env python3
"""MANIFEST.setup_cmd: regenerate the model fragments from /repo and build every Lean target offline."""
import os, subprocess, sys
sys.path.insert(0, os.path.dirname(os.path.abspath(__file__)))
import translate

TARGETS = ['MM', 'MM.Driver.Wire',
           'MM.Props.C08', 'MM.Props.C11', 'MM.Props.C14', 'MM.Props.C16', 'MM.Props.C17', 'MM.Props.C20',
           'MM.Props.SearchSpec', 'MM.Props.Exhaustive', 'MM.Props.Greedy', 'MM.Props.SearchTie', 'MM.Props.ScoreTie', 'MM.Props.HeapTie', 'MM.Props.SizesTie', 'MM.Props.Outliers', 'MM.Props.OutliersTie', 'MM.Props.MemoTie', 'MM.Props.DiagTestsTie', 'MM.Props.WithinTie', 'MM.Props.DiagTests', 'MM.Model.DiagTests', 'MM.Props.C01Admit', 'MM.Props.C01Ids', 'MM.Props.C04Series',
           'MM.Props.C05C06', 'MM.Props.C10', 'MM.Props.C12', 'MM.Props.C19', 'MM.Props.C15', 'MM.Model.Api', 'MM.Model.Data', 'MM.Model.Screen', 'MM.Props.C07C18', 'MM.Model.Numeric', 'MM.Model.Admit']


def main():
  r = translate.run_all()
  bad = {k: str(v) for k, v in r.items() if isinstance(v, Exception)}
  if bad:
    print('translators failed:', bad)
  lean = os.path.join(os.path.dirname(os.path.dirname(os.path.abspath(__file__))), 'lean')
  extra = [t for t in sys.argv[1:]]
  rc = subprocess.call(['lake', 'build'] + TARGETS + extra, cwd=lean)
  return 1 if (rc != 0 or bad) else 0


if __name__ == '__main__':
  sys.exit(main())
