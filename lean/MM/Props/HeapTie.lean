/-
Obligations on `HeapDict.push` / `get_result` regenerated from the source (translator T7): the regenerated
functions over the model's heapq primitives are the hand-written model functions the C14 theorems are about.
-/
import MM.Generated.HeapGen
namespace MM.HeapDict
variable {α : Type}

/-- the regenerated `push` is the model's `pushQueue` -/
theorem tie_heap_push (lt : α → α → Bool) (size : Nat) (x : α) (q : List α) :
    MM.Gen.Heap.pushQueueGen lt size x q = pushQueue lt size x q := by
  unfold MM.Gen.Heap.pushQueueGen pushQueue heapq_heappush heapq_heappushpop
  rfl

/-- the regenerated `get_result` reports the whole queue, largest first -/
theorem tie_heap_result (lt : α → α → Bool) (q : List α) :
    MM.Gen.Heap.resultQueueGen lt q = q.reverse := by
  unfold MM.Gen.Heap.resultQueueGen heapq_nlargest
  rw [← List.length_reverse]; exact List.take_length

theorem tie_heap_init : MM.Gen.Heap.initIsSizeAndEmpty = true := by decide

end MM.HeapDict
