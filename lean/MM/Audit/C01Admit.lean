import MM.Props.C01Admit

#print axioms MM.Admit.admit_sorted
#print axioms MM.Admit.admit_must
#print axioms MM.Admit.admit_excluded
#print axioms MM.Admit.admit_optional
#print axioms MM.Admit.admit_all_candidates
#print axioms MM.Admit.admit_cap
#print axioms MM.Admit.admit_classes
#print axioms MM.Admit.ids_injective
