#!/bin/bash
# Development helper: run every registered quick check on the current tree, validate evidence, summarise.
cd /verif
fail=0
for id in $(python3 -c "import json;print(' '.join(c['property_id'] for c in json.load(open('MANIFEST.json'))['checks']))"); do
  cmd=$(python3 -c "import json,sys;print([c['quick_cmd'] for c in json.load(open('MANIFEST.json'))['checks'] if c['property_id']=='$id'][0])")
  rm -f evidence/$id.json
  out=$(VERIF_SEED=${VERIF_SEED:-0} timeout 1800 $cmd 2>&1); rc=$?
  echo "$id rc=$rc $(echo "$out" | grep -E 'OK|VIOLATION|KNOWN|INFRA' | head -3 | cut -c1-200)"
  [ $rc -ne 0 ] && fail=1
done
python3-vt - <<'PY'
import json, jsonschema, glob
sch = json.load(open('/root/.vp/EVIDENCE.schema.json'))
man = json.load(open('/verif/MANIFEST.json'))
for c in man['checks']:
  p = c['evidence_file']
  try:
    ev = json.load(open(p)); jsonschema.validate(ev, sch)
    ok = ev['level'] == c['level_claimed']['category'] and ev['coverage'].get('discharged') == ev['coverage'].get('obligations')
    print(c['property_id'], 'evidence valid' if ok else 'EVIDENCE LEVEL/COUNTS PROBLEM', ev['level'], ev['coverage'].get('discharged'), ev['coverage'].get('obligations'))
  except Exception as e:
    print(c['property_id'], 'EVIDENCE INVALID', str(e)[:100])
PY
exit $fail
