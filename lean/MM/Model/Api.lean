/-
Model of the public surface of one TBRMatchedMarkets object as a state machine (C10).

Mutable state of the real object that a call can touch:
  * `parameters.treatment_geos_range / control_geos_range` (greedy_search writes the filled-in ranges and,
    on the repaired tree, restores the caller's values when it returns),
  * `data.geo_index` (re-installed by every access of the `geo_assignments` property),
  * `_search_results` (heap of the last search; designs hold geo *indices*; `search_results()` maps them to IDs
    on copies, on the repaired tree).
Everything the data contributes is a parameter: the per-geo rows (for the admitted set) and the search
environment as a function of the installed geo index.
-/
import MM.Model.Search
import MM.Model.Admit
namespace MM.Api
open MM MM.Search MM.Admit

structure World where
  rows : List GeoRow                       -- data object (row order = decreasing mean)
  nGeosMax : Option Nat
  env : List Nat → Env                     -- search environment for an installed geo index

structure State where
  params : Params                          -- the caller's parameter object
  geoIndex : Option (List Nat)             -- data.geo_index
  results : Option (List Design)           -- _search_results (index sets), `none` before any search

def admitParams (w : World) (p : Params) : AdmitParams :=
  { shareHi := p.shareRange.map (·.2), maxImpact := p.budgetRange.map (fun r => r.2 * p.iroas), nGeosMax := w.nGeosMax }

/-- `geos_within_constraints` / the geo index the `geo_assignments` property installs -/
def admitted (w : World) (p : Params) : List Nat := admitGeos (admitParams w p) w.rows

inductive Op
  | withinConstraints            -- geos_within_constraints (also over_budget / too_large / must_include: pure reads)
  | assignments                  -- geo_assignments
  | sizeRange                    -- treatment_group_size_range()
  | count                        -- count_max_designs()
  | trtGroups (n : Nat)          -- list(treatment_group_generator(n)), n ≥ 1
  | ctlGroups (T : GeoSet)       -- list(control_group_generator(T))
  | designOk (T C : GeoSet)      -- design_within_constraints(T, C)
  | exhaustive                   -- exhaustive_search()
  | greedy (fuel : Nat)          -- greedy_search()
  | results                      -- search_results()
deriving Repr

inductive Out
  | geos (l : List Nat)
  | classes (l : List GeoClass)
  | sizes (l : List Nat)
  | num (n : Nat)
  | groups (l : List GeoSet)
  | bool (b : Bool)
  | designs (l : List (List Nat × List Nat × Score))   -- geo IDs = row positions of the data object
  | err (e : PyErr)
  | diverge
deriving Repr

/-- index sets → geo IDs through the installed geo index (`self.data.geo_index[x]`) -/
def toIds (idx : List Nat) (s : GeoSet) : List Nat := s.map fun i => idx.getD i 0

def showDesigns (idx : List Nat) (ds : List Design) : Out :=
  .designs (ds.map fun d => (toIds idx d.T, toIds idx d.C, d.score))

/-- every access of `geo_assignments` re-derives the admitted geos and installs them as `data.geo_index` -/
def install (w : World) (s : State) : State × List Nat :=
  let idx := admitted w s.params
  ({ s with geoIndex := some idx }, idx)

def step (w : World) (s : State) : Op → State × Out
  | .withinConstraints => (s, .geos (admitted w s.params))
  | .assignments => let (s1, idx) := install w s; (s1, .classes (admittedClasses w.rows idx))
  | .sizeRange => let (s1, idx) := install w s; (s1, .sizes (trtSizeRange s.params (w.env idx)))
  | .count => let (s1, idx) := install w s; (s1, .num (countMaxDesigns s.params (w.env idx)))
  | .trtGroups n =>
    let (s1, idx) := install w s
    (s1, if n = 0 then .err .valueError else .groups (trtGroups (w.env idx) n))
  | .ctlGroups T =>
    let (s1, idx) := install w s
    (s1, if T.isEmpty || !subsetSet T (w.env idx).canT then .err .valueError else .groups (ctlGroups s.params (w.env idx) T))
  | .designOk T C => let (s1, idx) := install w s; (s1, .bool (withinConstraints s.params (w.env idx) T C))
  | .exhaustive =>
    let (s1, idx) := install w s
    match exhaustive s.params (w.env idx) with
    | .ok ds => ({ s1 with results := some ds }, showDesigns idx ds)
    | .error e => (s1, .err e)
  | .greedy fuel =>
    let (s1, idx) := install w s
    let user := s1.params
    -- the search writes the filled-in ranges into the parameter object …
    let s2 := { s1 with params := greedyParams user (w.env idx) }
    match greedyFuel fuel user (w.env idx) with
    | none => ({ s2 with params := user }, .diverge)
    | some (.ok ds) => ({ s2 with params := user, results := some ds }, showDesigns idx ds)   -- … and restores them
    | some (.error e) => ({ s2 with params := user }, .err e)
  | .results =>
    match s.results, s.geoIndex with
    | some ds, some idx => (s, showDesigns idx ds)
    | _, _ => (s, .err .attributeError)

def init (p : Params) : State := { params := p, geoIndex := none, results := none }

def run (w : World) (s : State) : List Op → List Out
  | [] => []
  | op :: ops => let r := step w s op; r.2 :: run w r.1 ops

end MM.Api
