/- Driver for the numeric layer at `Float`.  Numbers travel as IEEE-754 bit patterns (decimal UInt64).
   prex / prey / testx / testy / obs <bits...>      set series
   design <nTest> <phi> <tqSig> <tqPow> <rho>       -> corr reqImpact estImpact(rho) sigma(=std2·√(1−corr²)) olsSigma
   tbrfit <nTest> <tqSig> <xt> <yt>                 -> estimate cihw sigma scale
   posterior <rescale>                              -> "loc ..." , "scale ..." , "df n" , "kerman ..." (√ of eq. 5 × |rescale|)
   summary <loc> <scale> <qA> <qU|none> <thr>       -> estimate precision lower upper|inf z      (z = (thr − loc)/scale)
   iroas <loc> <scale> <cost> <qA> <qU|none> <thr>  -> estimate lower upper|inf precision z incCost incResp incRespLower incRespUpper|inf
   tests <nTest> <tqSig> <minCorr> <bbBound> <dwLo> <dwHi>   (pre series = the full pretest series x, y)
        -> dw dwOk bbOk corrOk aaLower aaUpper aaHasProb probeA probeB   (probeA/B: the A/A probability formula with cdf z ↦ z and z ↦ z²)
   bands <qLo> <qHi>   (uses the last posterior and obs) -> 9 lines: cum/pw/cf × lower/estimate/upper                                   -/
import MM.Model.Numeric
import MM.Model.DiagTests
import MM.Driver.Wire
open MM.Numeric

def fbits (s : String) : Float := Float.ofBits (s.toNat?.getD 0).toUInt64
def sbits (x : Float) : String := toString x.toBits.toNat
def showL (l : List Float) : String := " ".intercalate (l.map sbits)
def optF (s : String) : Option Float := if s == "none" then none else some (fbits s)
def showO : Option Float → String | some x => sbits x | none => "inf"

structure S where
  prex : List Float := []
  prey : List Float := []
  testx : List Float := []
  testy : List Float := []
  obs : List Float := []
  post : Posterior Float := { loc := [], scale := [], df := 0 }

partial def loop (h : IO.FS.Stream) (s : S) : IO Unit := do
  let line ← h.getLine
  if line.isEmpty then return ()
  match Wire.words line with
  | "prex" :: l => loop h { s with prex := l.map fbits }
  | "prey" :: l => loop h { s with prey := l.map fbits }
  | "testx" :: l => loop h { s with testx := l.map fbits }
  | "testy" :: l => loop h { s with testy := l.map fbits }
  | "obs" :: l => loop h { s with obs := l.map fbits }
  | ["design", nT, phi, tqS, tqP, rho] =>
    let nT := nT.toNat?.getD 1
    let c := corr s.prex s.prey
    let ri := requiredImpact s.prex s.prey nT (fbits phi) (fbits tqS) (fbits tqP)
    let ei := estimateRequiredImpact s.prey nT (fbits phi) (fbits tqS) (fbits tqP) (fbits rho)
    let sg := std2 s.prey * Float.sqrt (1 - c * c)
    IO.println (showL [c, ri, ei, sg, Float.sqrt (ols s.prex s.prey).sigma2])
    loop h s
  | ["tbrfit", nT, tqS, xt, yt] =>
    let f := tbrfit s.prex s.prey (nT.toNat?.getD 1) (fbits tqS) (fbits xt) (fbits yt)
    IO.println (showL [f.estimate, f.cihw, f.sigma, f.scale])
    loop h s
  | ["posterior", r] =>
    let p := posterior s.prex s.prey s.testx s.testy (fbits r)
    IO.println ("loc " ++ showL p.loc)
    IO.println ("scale " ++ showL p.scale)
    IO.println s!"df {p.df}"
    let sg2 := (ols s.prex s.prey).sigma2
    IO.println ("kerman " ++ showL ((prefixes s.testx).map fun q => Float.abs (fbits r) * Float.sqrt (kermanVar s.prex sg2 q)))
    loop h { s with post := p }
  | ["summary", loc, sc, qA, qU, thr] =>
    let r := summaryRow (fbits loc) (fbits sc) (fbits qA) (optF qU) (fun z => z) (fbits thr)
    IO.println (showL [r.estimate, r.precision, r.lower] ++ " " ++ showO r.upper ++ " " ++ sbits (1 - r.probability))
    loop h s
  | ["iroas", loc, sc, cost, qA, qU, thr] =>
    let r := iroasFixed (fbits loc) (fbits sc) (fbits cost) (fbits qA) (optF qU) (fun z => z) (fbits thr)
    IO.println (showL [r.estimate, r.lower] ++ " " ++ showO r.upper ++ " " ++ showL [r.precision, 1 - r.probability,
      r.incrementalCost, r.incrementalResponse, r.incrementalResponseLower] ++ " " ++
      -- `none` stands for +∞ (one-tailed upper bound); times a negative cost that is −∞ in the report
      (match r.incrementalResponseUpper with
       | none => if r.incrementalCost < 0 then "-inf" else "inf"
       | some v => sbits v))
    loop h s
  | ["tests", nT, tqS, minC, bbB, dwLo, dwHi] =>
    let nT := nT.toNat?.getD 1
    let fit := ols s.prex s.prey
    let sigma := std2 fit.resid
    let dw := dwStat fit.resid
    let b2f (b : Bool) : Float := if b then 1 else 0
    let aaA := aaTest s.prex s.prey nT (fbits tqS) (fun z => z) 0
    let aaB := aaTest s.prex s.prey nT (fbits tqS) (fun z => z * z) 0
    IO.println (showL [dw, b2f (dwOk dw (fbits dwLo) (fbits dwHi)), b2f (bbOk fit.resid sigma (fbits bbB)),
      b2f (corrTestOk (corr s.prex s.prey) (fbits minC)), aaA.lower, aaA.upper, b2f aaA.prob.isSome,
      aaA.prob.getD 0, aaB.prob.getD 0])
    loop h s
  | ["bands", qLo, qHi] =>
    let c := cumulativeBand s.post.loc s.post.scale (fbits qLo) (fbits qHi)
    let p := pointwiseBand s.post.loc s.post.scale (fbits qLo) (fbits qHi)
    let cf := counterfactualBand s.obs p
    for b in [c, p, cf] do
      IO.println (showL b.lower); IO.println (showL b.estimate); IO.println (showL b.upper)
    loop h s
  | [] => loop h s
  | _ => IO.println "bad-op"; loop h s

def main : IO Unit := do loop (← IO.getStdin) {}
