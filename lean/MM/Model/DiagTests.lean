/-
The diagnostic tests of tbrmmdiagnostics.py that make up the first four score entries (correlation test,
A/A test, Brownian-bridge test, Durbin-Watson test), generic over the numeric type like MM.Model.Numeric.
No property constrains their *values* (the search model treats them as the opaque `score5` table); they
are modelled to extend the correspondence with the real code and to state what is provable about them.
No Mathlib imports.
-/
import MM.Model.Numeric
namespace MM.Numeric

section
variable {α : Type} [Add α] [Sub α] [Mul α] [Div α] [Neg α] [NatCast α] [HasSqrt α] [HasAbs α]
variable [LT α] [DecidableRel (α := α) (· < ·)] [LE α] [DecidableRel (α := α) (· ≤ ·)]

/-- running sums (`np.cumsum`) -/
def cumsum (l : List α) : List α := (prefixes l).map sum

/-- Durbin-Watson statistic of a residual series: Σ (r_t − r_{t−1})² / Σ r_t² -/
def dwStat (resid : List α) : α :=
  sum (List.zipWith (fun a b => (b - a) * (b - a)) resid resid.tail) / sum (resid.map fun r => r * r)

/-- `dw_min < dwstat < dw_max` -/
def dwOk (dw lo hi : α) : Bool := decide (lo < dw) && decide (dw < hi)

/-- Brownian-bridge bounds for k = 1 … n−1: bound · √(k (1 − k/n)) -/
def bbBounds (n : Nat) (bound : α) : List α :=
  (List.range (n - 1)).map fun i => bound * HasSqrt.sqrt (nat (i + 1) * (nat 1 - nat (i + 1) / nat n))

/-- |cumulative standardised residuals| without the last entry -/
def absCumStdResid (resid : List α) (sigma : α) : List α :=
  ((cumsum (resid.map fun r => r / sigma)).dropLast).map HasAbs.abs

/-- the test passes unless some cumulative residual exceeds its bound -/
def bbOk (resid : List α) (sigma bound : α) : Bool :=
  !(List.zipWith (fun a b => decide (b < a)) (absCumStdResid resid sigma) (bbBounds resid.length bound)).any id

/-- `corr >= min_corr` -/
def corrTestOk (corr minCorr : α) : Bool := decide (minCorr ≤ corr)

structure AaResult (α : Type) where
  ok : Bool
  lower : α
  upper : α
  prob : Option α      -- `none`: the interval contains zero, the probability is not computed

/-- `aatest`: hold out the last n_test points, fit on the rest, test whether the credible interval of the
held-out "effect" contains zero; if not, bound the probability of a significant result. `cdf` is the
Student-t cdf with n_pre − 2 d.f. (external). -/
def aaTest (xs ys : List α) (nTest : Nat) (tqSig : α) (cdf : α → α) (thresholdProb : α) : AaResult α :=
  let nPre := ys.length - nTest
  let px := xs.take nPre
  let py := ys.take nPre
  let f := tbrfit px py nTest tqSig (mean (xs.drop nPre)) (mean (ys.drop nPre))
  let lower := f.estimate - f.cihw
  let upper := f.estimate + f.cihw
  if lower * upper < nat 0 then { ok := true, lower := lower, upper := upper, prob := none }
  else
    let al := HasAbs.abs lower
    let au := HasAbs.abs upper
    let trueMean := if al < au then al else au
    let tq := f.cihw / f.sigma
    let postScale := f.sigma * HasSqrt.sqrt (nat 1 / nat nPre + nat 1 / nat nTest)
    let tq1 := tq - trueMean / postScale
    let tq2 := (-tq) - trueMean / postScale
    let prob := nat 1 - cdf tq1 + cdf tq2
    { ok := decide (prob ≤ thresholdProb), lower := lower, upper := upper, prob := some prob }

end
end MM.Numeric
