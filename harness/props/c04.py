"""C04: diagnostics and score attached to a design belong to its reported geos."""
import core
import engines.search as se
from props._searchprop import SEARCH_TARGETS, SEARCH_TRUST, run_search_prop, replay_search

PROP = 'C04'
LEAN_TARGETS = SEARCH_TARGETS + ['MM.Props.C04Series']
THEOREMS = ['MM.Search.' + n for n in ('C04_score_of_design', 'C04_greedy_score', 'exhaustive_sub_evaluated')] + ['MM.Data.C04_series', 'MM.Data.C04_series_length', 'MM.Data.C04_window']
TRUSTED_BASE = SEARCH_TRUST + ['aliasing of stored diagnostics objects (deepcopy) and float summation order are runtime behaviour: carried by the oracle and the push-log correspondence, not by a theorem (partial)']


SUPPORTS_DEEPEN = True


def run(out, tier, model_ok=True, deepen=False):
  out.rule = 'oracle: for every returned design at every list position the series held by its diagnostics are compared with the sums of the raw rows of the reported geo IDs over the last n_pretest_max dates, its score tuple / correlation / required impact with values recomputed by fresh diagnostics objects, and no two designs may share a diagnostics object'
  run_search_prop(out, PROP, se.judge_c04, tier, model_ok, deepen=deepen)


def replay(out, path, model_ok=True):
  replay_search(out, path, se.judge_c04)
