import MM.Props.Exhaustive
import MM.Props.Greedy
import MM.Props.SearchTie
import MM.Props.WithinTie
#print axioms MM.Search.evaluatedRaw_eq_filter
#print axioms MM.Search.C13_greedy_in_evaluated
#print axioms MM.Search.C13_empty
#print axioms MM.Search.C13_not_better
#print axioms MM.Search.C14_greedy
#print axioms MM.Search.tie_volume
#print axioms MM.Search.tie_geo_ratio
#print axioms MM.Search.tie_within
#print axioms MM.Search.tie_within_fields
