/-
Helper lemmas for C04 (series part): the analysis window, and the entries of a geo's series in the
truncated canonical table.  Builds on `MM/Proofs/Data.lean`.  No Mathlib imports.
-/
import MM.Proofs.Data
namespace MM.Data
open MM

/-- the analysis window: the most recent n dates -/
def window (rows : List Obs) (n : Nat) : List Nat := (datesOf rows).drop ((datesOf rows).length - n)

theorem shape_mkTable (rows : List Obs) : ∀ r ∈ (mkTable rows).cells, r.length = (mkTable rows).dates.length := by
  intro r hr
  simp only [mkTable, List.mem_map] at hr
  obtain ⟨g, _, rfl⟩ := hr
  simp [mkTable, rowOf]

theorem shape_truncate (t : Table) (n : Nat) (hshape : ∀ r ∈ t.cells, r.length = t.dates.length) :
    ∀ r ∈ (truncate t n).cells, r.length = (truncate t n).dates.length := by
  intro r hr
  simp only [truncate, List.mem_map] at hr
  obtain ⟨r', hr', rfl⟩ := hr
  simp only [truncate, List.length_drop, hshape r' hr']

theorem dates_truncate_mkTable (rows : List Obs) (n : Nat) : (truncate (mkTable rows) n).dates = window rows n := rfl

theorem length_window (rows : List Obs) (n : Nat) : (window rows n).length = min n (datesOf rows).length := by
  simp only [window, List.length_drop]; omega

theorem idxOf?_of_mem (l : List String) (g : String) (h : g ∈ l) :
    ∃ p, l.idxOf? g = some p ∧ l[p]? = some g := by
  cases hp : l.idxOf? g with
  | none => exact absurd h (List.idxOf?_eq_none_iff.1 hp)
  | some p =>
    obtain ⟨h1, h2, _⟩ := List.idxOf?_eq_some_iff.1 hp
    exact ⟨p, rfl, by rw [List.getElem?_eq_getElem h1, h2]⟩

/-- the series of a geo of the data in the truncated table: its cells on the dates of the window -/
theorem getD_seriesOf_truncate (rows : List Obs) (n : Nat) (g : String) (hg : g ∈ (mkTable rows).geos)
    (j d : Nat) (hd : (window rows n)[j]? = some d) :
    (seriesOf (truncate (mkTable rows) n) g).getD j 0 = cell rows g d := by
  obtain ⟨p, hp, hpg⟩ := idxOf?_of_mem (order rows) g hg
  have hpos : posOf (truncate (mkTable rows) n) g = some p := hp
  have hcells : (truncate (mkTable rows) n).cells[p]? =
      some ((rowOf rows g).drop ((datesOf rows).length - n)) := by
    simp [truncate, mkTable, hpg]
  have hd' : (datesOf rows)[(datesOf rows).length - n + j]? = some d := by
    simpa [window, List.getElem?_drop] using hd
  unfold seriesOf
  rw [hpos]
  simp only [List.getD_eq_getElem?_getD, hcells, Option.getD_some, rowOf, List.getElem?_drop,
    List.getElem?_map, hd', Option.map_some]

end MM.Data
