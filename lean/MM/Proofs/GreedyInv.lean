/-
The structural loop invariant of the greedy search (no order property of scores is used):
every stored (treatment, control) pair and the current pair respect eligibility.
-/
import MM.Proofs.GreedySets

namespace MM.Search
open MM

/-! ### class facts -/

theorem idx_excl {e : Env} {pr qr : GeoClass → Bool} (h : ∀ g, pr g = true → qr g = true → False)
    {x : Nat} (hx : x ∈ e.idx pr) : x ∉ e.idx qr := by
  intro hq
  obtain ⟨g, hg, hp⟩ := mem_idx.1 hx
  obtain ⟨g', hg', hq'⟩ := mem_idx.1 hq
  rw [hg] at hg'
  cases hg'
  exact h g hp hq'

theorem idx_mono {e : Env} {pr qr : GeoClass → Bool} (h : ∀ g, pr g = true → qr g = true)
    {x : Nat} (hx : x ∈ e.idx pr) : x ∈ e.idx qr := by
  obtain ⟨g, hg, hp⟩ := mem_idx.1 hx
  exact mem_idx.2 ⟨g, hg, h g hp⟩

theorem lt_of_mem_idx {e : Env} {pr : GeoClass → Bool} {x : Nat} (hx : x ∈ e.idx pr) :
    x < e.cls.length := by
  obtain ⟨g, hg, _⟩ := mem_idx.1 hx
  exact (List.getElem?_eq_some_iff.1 hg).1

theorem tFixed_not_canC {e : Env} {x : Nat} (h : x ∈ e.tFixed) : x ∉ e.canC :=
  idx_excl (by intro g; cases g <;> simp [GeoClass.canC]) h

theorem canT_not_cFixed {e : Env} {x : Nat} (h : x ∈ e.canT) : x ∉ e.cFixed :=
  idx_excl (by intro g; cases g <;> simp [GeoClass.canT]) h

theorem canX_not_cFixed {e : Env} {x : Nat} (h : x ∈ e.canX) : x ∉ e.cFixed :=
  idx_excl (by intro g; cases g <;> simp [GeoClass.canX]) h

theorem canX_not_ct {e : Env} {x : Nat} (h : x ∈ e.canX) : x ∉ e.ct :=
  idx_excl (by intro g; cases g <;> simp [GeoClass.canX]) h

theorem cFixed_sub_canC {e : Env} {x : Nat} (h : x ∈ e.cFixed) : x ∈ e.canC :=
  idx_mono (by intro g; cases g <;> simp [GeoClass.canC]) h

theorem ct_sub_canC {e : Env} {x : Nat} (h : x ∈ e.ct) : x ∈ e.canC :=
  idx_mono (by intro g; cases g <;> simp [GeoClass.canC]) h

/-! ### the pair invariant -/

/-- `(T, C)` respects eligibility: everything `Legal e.cls T C` says, as inclusions. -/
structure InvPair (e : Env) (T C : GeoSet) : Prop where
  sT : SSorted T
  sC : SSorted C
  subT : ∀ x ∈ T, x ∈ e.canT
  fixT : ∀ x ∈ e.tFixed, x ∈ T
  subC : ∀ x ∈ C, x ∈ e.canC
  disj : ∀ x ∈ T, x ∉ C
  fixC : ∀ x ∈ e.cFixed, x ∈ C
  ctC : ∀ x ∈ e.ct, x ∉ T → x ∈ C

theorem InvPair.init (e : Env) : InvPair e e.tFixed e.canC where
  sT := sorted_idx _ _
  sC := sorted_idx _ _
  subT := fun _ h => tFixed_sub_canT h
  fixT := fun _ h => h
  subC := fun _ h => h
  disj := fun _ h => tFixed_not_canC h
  fixC := fun _ h => cFixed_sub_canC h
  ctC := fun _ h _ => ct_sub_canC h

theorem InvPair.legal {e : Env} {T C : GeoSet} (h : InvPair e T C) : Legal e.cls T C := by
  refine ⟨h.sT, h.sC, ?_, ?_⟩
  · intro i hi
    exact ⟨fun hT => not_mem_idx_none hi (h.subT i hT), fun hC => not_mem_idx_none hi (h.subC i hC)⟩
  · intro i g hg
    have a1 := h.subT i
    have a2 := h.fixT i
    have a3 := h.subC i
    have a4 := h.disj i
    have a5 := h.fixC i
    have a6 := h.ctC i
    simp only [Env.canT, Env.canC, Env.tFixed, Env.cFixed, Env.ct, mem_idx_some hg] at a1 a2 a3 a5 a6
    refine ⟨fun hT => ⟨a4 hT, a1 hT⟩, fun hC => a3 hC, fun hT hC => ?_⟩
    cases g <;> simp_all [GeoClass.canX]

theorem InvPair.lt_T {e : Env} {T C : GeoSet} (h : InvPair e T C) : ∀ x ∈ T, x < e.cls.length :=
  fun x hx => lt_of_mem_idx (h.subT x hx)

theorem InvPair.lt_C {e : Env} {T C : GeoSet} (h : InvPair e T C) : ∀ x ∈ C, x < e.cls.length :=
  fun x hx => lt_of_mem_idx (h.subC x hx)

/-- a control toggle of a re-assignable geo keeps the pair invariant -/
theorem InvPair.toggle {e : Env} {T C : GeoSet} (h : InvPair e T C) {g : Nat}
    (hg : g ∈ unionSet (diffSet e.canC (unionSet C T)) (diffSet (interSet C e.canX) T)) :
    InvPair e T (toggleSet C g) := by
  rcases mem_unionSet.1 hg with hg | hg
  · -- g enters the control group
    obtain ⟨hgc, hgn⟩ := mem_diffSet.1 hg
    have hgC : g ∉ C := fun h' => hgn (mem_unionSet.2 (Or.inl h'))
    have hgT : g ∉ T := fun h' => hgn (mem_unionSet.2 (Or.inr h'))
    rw [toggleSet_of_not_mem hgC]
    refine { h with sC := sorted_insertSet h.sC, subC := ?_, disj := ?_, fixC := ?_, ctC := ?_ }
    · intro x hx
      rcases mem_insertSet.1 hx with rfl | hx
      · exact hgc
      · exact h.subC x hx
    · intro x hxT hx
      rcases mem_insertSet.1 hx with rfl | hx
      · exact hgT hxT
      · exact h.disj x hxT hx
    · intro x hx; exact mem_insertSet.2 (Or.inr (h.fixC x hx))
    · intro x hx hxT; exact mem_insertSet.2 (Or.inr (h.ctC x hx hxT))
  · -- g leaves the control group
    obtain ⟨hgi, hgT⟩ := mem_diffSet.1 hg
    obtain ⟨hgC, hgX⟩ := mem_interSet.1 hgi
    rw [toggleSet_of_mem hgC]
    refine { h with sC := List.Pairwise.filter _ h.sC, subC := ?_, disj := ?_, fixC := ?_, ctC := ?_ }
    · intro x hx; exact h.subC x (List.mem_filter.1 hx).1
    · intro x hxT hx; exact h.disj x hxT (List.mem_filter.1 hx).1
    · intro x hx
      refine List.mem_filter.2 ⟨h.fixC x hx, ?_⟩
      simp only [bne_iff_ne, ne_eq]
      rintro rfl
      exact canX_not_cFixed hgX hx
    · intro x hx hxT
      refine List.mem_filter.2 ⟨h.ctC x hx hxT, ?_⟩
      simp only [bne_iff_ne, ne_eq]
      rintro rfl
      exact canX_not_ct hgX hx

/-- a treatment addition keeps the pair invariant -/
theorem InvPair.augment {e : Env} {T C : GeoSet} (h : InvPair e T C) {g : Nat}
    (hg : g ∈ diffSet e.canT T) : InvPair e (insertSet g T) (diffSet C [g]) := by
  obtain ⟨hgc, hgT⟩ := mem_diffSet.1 hg
  have hmem : ∀ x, x ∈ diffSet C [g] ↔ x ∈ C ∧ x ≠ g := by
    intro x; rw [mem_diffSet]; simp
  refine ⟨sorted_insertSet h.sT, sorted_diffSet h.sC, ?_, ?_, ?_, ?_, ?_, ?_⟩
  · intro x hx
    rcases mem_insertSet.1 hx with rfl | hx
    · exact hgc
    · exact h.subT x hx
  · intro x hx; exact mem_insertSet.2 (Or.inr (h.fixT x hx))
  · intro x hx; exact h.subC x ((hmem x).1 hx).1
  · intro x hx hxC
    obtain ⟨hxC, hne⟩ := (hmem x).1 hxC
    rcases mem_insertSet.1 hx with rfl | hx
    · exact hne rfl
    · exact h.disj x hx hxC
  · intro x hx
    refine (hmem x).2 ⟨h.fixC x hx, ?_⟩
    rintro rfl
    exact canT_not_cFixed hgc hx
  · intro x hx hxT
    have hne : x ≠ g := fun h' => hxT (mem_insertSet.2 (Or.inl h'))
    exact (hmem x).2 ⟨h.ctC x hx (fun h' => hxT (mem_insertSet.2 (Or.inr h'))), hne⟩

/-! ### the two passes -/

theorem foldl_inv {α β : Type} (P : β → Prop) (f : β → α → β) (l : List α) (b : β)
    (h0 : P b) (hs : ∀ acc a, a ∈ l → P acc → P (f acc a)) : P (l.foldl f b) := by
  induction l generalizing b with
  | nil => exact h0
  | cons a l ih =>
    exact ih (f b a) (hs b a List.mem_cons_self h0)
      (fun acc a' ha' => hs acc a' (List.mem_cons_of_mem _ ha'))

/-- the re-assignable geos of a control-matching pass -/
def reassignable (e : Env) (T ctl : GeoSet) : GeoSet :=
  unionSet (diffSet e.canC (unionSet ctl T)) (diffSet (interSet ctl e.canX) T)

/-- what a control-matching pass returns: the incumbent, or an accepted strictly better
neighbour; the returned score is the score of the returned group. -/
theorem matchPass_spec (gp : Params) (e : Env) (k : Nat) (T ctl : GeoSet) :
    ((matchPass gp e k T ctl).1 = ctl ∨
      ∃ g ∈ reassignable e T ctl, (matchPass gp e k T ctl).1 = toggleSet ctl g) ∧
    (matchPass gp e k T ctl).2 = fullScore e T (matchPass gp e k T ctl).1 := by
  unfold matchPass
  refine foldl_inv
    (fun acc : GeoSet × Score =>
      (acc.1 = ctl ∨ ∃ g ∈ reassignable e T ctl, acc.1 = toggleSet ctl g) ∧
        acc.2 = fullScore e T acc.1) _ _ _ ⟨Or.inl rfl, rfl⟩ ?_
  intro acc g hg hacc
  dsimp only
  split
  · exact hacc
  · split
    · exact ⟨Or.inr ⟨g, hg, rfl⟩, rfl⟩
    · exact hacc

/-- what a treatment-augmentation pass returns -/
theorem addPass_spec (gp : Params) (e : Env) (k : Nat) (T Cstar ctl : GeoSet) :
    ((addPass gp e k T Cstar ctl).1 = ctl ∧ (addPass gp e k T Cstar ctl).2.1 = T) ∨
      ∃ g ∈ diffSet e.canT T, (addPass gp e k T Cstar ctl).1 = diffSet Cstar [g] ∧
        (addPass gp e k T Cstar ctl).2.1 = insertSet g T := by
  unfold addPass
  refine foldl_inv
    (fun acc : GeoSet × GeoSet × Score =>
      (acc.1 = ctl ∧ acc.2.1 = T) ∨
        ∃ g ∈ diffSet e.canT T, acc.1 = diffSet Cstar [g] ∧ acc.2.1 = insertSet g T)
    _ _ _ (Or.inl ⟨rfl, rfl⟩) ?_
  intro acc g hg hacc
  dsimp only
  split
  · exact hacc
  · split
    · exact Or.inr ⟨g, hg, rfl, rfl⟩
    · exact hacc

theorem matchPass_invPair (gp : Params) {e : Env} (k : Nat) {T ctl : GeoSet} (h : InvPair e T ctl) :
    InvPair e T (matchPass gp e k T ctl).1 := by
  rcases (matchPass_spec gp e k T ctl).1 with h1 | ⟨g, hg, h1⟩
  · rw [h1]; exact h
  · rw [h1]; exact h.toggle hg

theorem greedyStep_needs (gp : Params) (e : Env) (st : GState) (h : st.needs = true) :
    greedyStep gp e st =
      if scoreLt (fullScore e (dictGet st.starTrt st.k) st.ctl)
          (matchPass gp e st.k (dictGet st.starTrt st.k) st.ctl).2
      then { st with ctl := (matchPass gp e st.k (dictGet st.starTrt st.k) st.ctl).1 }
      else { st with
        starCtl := dictSet st.starCtl st.k (matchPass gp e st.k (dictGet st.starTrt st.k) st.ctl).1,
        needs := false } := by
  unfold greedyStep
  simp only [h, if_true]

theorem greedyStep_add (gp : Params) (e : Env) (st : GState) (h : st.needs = false) :
    greedyStep gp e st =
      { st with
        ctl := (addPass gp e st.k (dictGet st.starTrt st.k) (dictGet st.starCtl st.k) st.ctl).1,
        starTrt := dictSet st.starTrt (st.k + 1)
          (addPass gp e st.k (dictGet st.starTrt st.k) (dictGet st.starCtl st.k) st.ctl).2.1,
        k := st.k + 1, needs := true } := by
  unfold greedyStep
  simp only [h, Bool.false_eq_true, if_false]

/-! ### the state invariant -/

structure GInv (e : Env) (st : GState) : Prop where
  fnT : DictFn st.starTrt
  pairs : ∀ k' C', (k', C') ∈ st.starCtl → InvPair e (dictGet st.starTrt k') C' ∧ k' ≤ st.k
  cur : InvPair e (dictGet st.starTrt st.k) st.ctl
  have_ : st.needs = false → ∃ C', (st.k, C') ∈ st.starCtl

theorem GInv.init (e : Env) : GInv e (greedyInit e) := by
  unfold greedyInit
  refine ⟨dictFn_singleton _ _, ?_, ?_, ?_⟩
  · intro k' C' h
    dsimp only at h ⊢
    split at h
    · simp only [List.mem_singleton, Prod.mk.injEq] at h
      obtain ⟨rfl, rfl⟩ := h
      rw [dictGet_cons, if_pos rfl]
      exact ⟨InvPair.init e, Nat.le_refl _⟩
    · simp at h
  · dsimp only
    rw [dictGet_cons, if_pos rfl]
    exact InvPair.init e
  · intro h
    dsimp only at h ⊢
    have : (e.tFixed.length == 0) = true := by simpa using h
    rw [if_pos this]
    exact ⟨_, List.mem_singleton.2 rfl⟩

theorem GInv.step (gp : Params) {e : Env} {st : GState} (h : GInv e st) :
    GInv e (greedyStep gp e st) := by
  cases hn : st.needs with
  | true =>
    rw [greedyStep_needs gp e st hn]
    obtain ⟨hcase, _⟩ := matchPass_spec gp e st.k (dictGet st.starTrt st.k) st.ctl
    have hpair : InvPair e (dictGet st.starTrt st.k)
        (matchPass gp e st.k (dictGet st.starTrt st.k) st.ctl).1 := by
      rcases hcase with h1 | ⟨g, hg, h1⟩
      · rw [h1]; exact h.cur
      · rw [h1]; exact h.cur.toggle hg
    split
    · exact ⟨h.fnT, h.pairs, hpair, fun h' => h.have_ h'⟩
    · refine ⟨h.fnT, ?_, h.cur, fun _ => ⟨_, mem_dictSet_self _ _ _⟩⟩
      intro k' C' hm
      rcases mem_dictSet hm with heq | ⟨hm', _⟩
      · cases heq
        exact ⟨hpair, Nat.le_refl _⟩
      · exact h.pairs k' C' hm'
  | false =>
    rw [greedyStep_add gp e st hn]
    obtain ⟨C0, hC0⟩ := h.have_ hn
    have hstar : InvPair e (dictGet st.starTrt st.k) (dictGet st.starCtl st.k) :=
      (h.pairs _ _ (dictGet_of_mem hC0)).1
    have hpair : InvPair e
        (addPass gp e st.k (dictGet st.starTrt st.k) (dictGet st.starCtl st.k) st.ctl).2.1
        (addPass gp e st.k (dictGet st.starTrt st.k) (dictGet st.starCtl st.k) st.ctl).1 := by
      rcases addPass_spec gp e st.k (dictGet st.starTrt st.k) (dictGet st.starCtl st.k) st.ctl
        with ⟨h1, h2⟩ | ⟨g, hg, h1, h2⟩
      · rw [h1, h2]; exact h.cur
      · rw [h1, h2]; exact hstar.augment hg
    refine ⟨h.fnT.dictSet _ _, ?_, ?_, fun h' => by simp at h'⟩
    · intro k' C' hm
      dsimp only at hm ⊢
      obtain ⟨hp, hle⟩ := h.pairs k' C' hm
      rw [dictGet_dictSet_ne _ _ (by omega)]
      exact ⟨hp, by omega⟩
    · dsimp only
      rw [dictGet_dictSet_self]
      exact hpair

/-! ### lifting through the loop -/

theorem greedyLoop_inv (gp : Params) (e : Env) (P : GState → Prop)
    (hstep : ∀ st, P st → greedyRunning gp e st = true → P (greedyStep gp e st)) :
    ∀ (fuel : Nat) (st st' : GState), P st → greedyLoop gp e fuel st = some st' →
      P st' ∧ greedyRunning gp e st' = false := by
  intro fuel
  induction fuel with
  | zero =>
    intro st st' h0 h
    unfold greedyLoop at h
    split at h
    · cases h
    · rename_i hr
      cases h
      exact ⟨h0, by simpa using hr⟩
  | succ n ih =>
    intro st st' h0 h
    unfold greedyLoop at h
    split at h
    · rename_i hr
      exact ih _ _ (hstep st h0 hr) h
    · rename_i hr
      cases h
      exact ⟨h0, by simpa using hr⟩

theorem greedyLoop_mono (gp : Params) (e : Env) :
    ∀ (f f' : Nat) (st st' : GState), greedyLoop gp e f st = some st' → f ≤ f' →
      greedyLoop gp e f' st = some st' := by
  intro f
  induction f with
  | zero =>
    intro f' st st' h _
    unfold greedyLoop at h
    split at h
    · cases h
    · rename_i hr
      cases f' with
      | zero => unfold greedyLoop; rw [if_neg hr]; exact h
      | succ m => unfold greedyLoop; rw [if_neg hr]; exact h
  | succ n ih =>
    intro f' st st' h hle
    cases f' with
    | zero => omega
    | succ m =>
      unfold greedyLoop at h ⊢
      split at h
      · rename_i hr
        rw [if_pos hr]
        exact ih m _ _ h (by omega)
      · rename_i hr
        rw [if_neg hr]
        exact h

theorem greedyLoop_ginv (gp : Params) (e : Env) (fuel : Nat) (st : GState)
    (h : greedyLoop gp e fuel (greedyInit e) = some st) : GInv e st :=
  (greedyLoop_inv gp e (GInv e) (fun _ h _ => h.step gp) fuel _ _ (GInv.init e) h).1

/-! ### the final bookkeeping -/

theorem withinConstraints_ne_nil {gp : Params} {e : Env} {T C : GeoSet}
    (h : withinConstraints gp e T C = true) : T ≠ [] ∧ C ≠ [] := by
  unfold withinConstraints at h
  split at h
  · cases h
  · rename_i hne
    simp only [Bool.or_eq_true, List.isEmpty_iff, not_or] at hne
    exact hne

theorem mem_greedyFinal {gp : Params} {e : Env} {st : GState} {d : Design}
    (h : d ∈ greedyFinal gp e st) :
    ∃ k T, (k, T) ∈ st.starTrt ∧ d = ⟨T, dictGet st.starCtl k, fullScore e T (dictGet st.starCtl k)⟩ ∧
      withinConstraints gp e T (dictGet st.starCtl k) = true ∧
      budgetBad gp e T (dictGet st.starCtl k) = false := by
  unfold greedyFinal at h
  simp only [List.mem_map, List.mem_filter, Bool.and_eq_true, Bool.not_eq_true'] at h
  obtain ⟨kv, ⟨hkv, hw, hb⟩, rfl⟩ := h
  have hmemT : kv ∈ st.starTrt := by
    have h1 := (mem_dictPop.1 hkv).1
    split at h1
    · exact (mem_dictPop.1 h1).1
    · exact h1
  have hne := (withinConstraints_ne_nil hw).2
  -- the control group read from the popped dictionary is the one stored in the state
  have hC : ∀ d0 : List (Nat × GeoSet), dictGet (dictPop d0 0) kv.1 ≠ [] →
      (d0 = st.starCtl ∨ d0 = dictPop st.starCtl e.tFixed.length) →
      dictGet (dictPop d0 0) kv.1 = dictGet st.starCtl kv.1 := by
    intro d0 hne0 hd0
    have e1 : dictGet (dictPop d0 0) kv.1 = dictGet d0 kv.1 :=
      (dictGet_dictPop d0 0 kv.1).resolve_left hne0
    rcases hd0 with rfl | rfl
    · exact e1
    · rw [e1] at hne0 ⊢
      exact (dictGet_dictPop _ _ _).resolve_left hne0
  have hCeq := hC _ hne (by split <;> simp)
  rw [hCeq] at hw hb ⊢
  exact ⟨kv.1, kv.2, hmemT, rfl, hw, hb⟩

/-- every design of `greedyFinal` on a state satisfying the invariant -/
theorem greedyFinal_spec {gp : Params} {e : Env} {st : GState} (hinv : GInv e st) {d : Design}
    (h : d ∈ greedyFinal gp e st) :
    InvPair e d.T d.C ∧ d.score = fullScore e d.T d.C ∧
      withinConstraints gp e d.T d.C = true ∧ budgetBad gp e d.T d.C = false := by
  obtain ⟨k, T, hm, rfl, hw, hb⟩ := mem_greedyFinal h
  refine ⟨?_, rfl, hw, hb⟩
  have hne := (withinConstraints_ne_nil hw).2
  have hT : T = dictGet st.starTrt k := hinv.fnT _ hm
  have := (hinv.pairs _ _ (dictGet_ne_nil_mem hne)).1
  rw [← hT] at this
  exact this

end MM.Search
