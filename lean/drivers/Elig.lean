/- Driver for the C16 model.
   table <hasGeo 0/1> <dupCols 0/1> <missingCols 0/1>   starts a new table
   row <geo> <c> <t> <x>      cells: 0 | 1 | o
   validate
   assign <indices 0/1> <none | g1,g2,... | empty>      on the rows given so far (assumed validated) -/
import MM.Model.Elig
import MM.Driver.Wire
open MM MM.Elig

def cell : String → Cell | "0" => .zero | "1" => .one | _ => .other
def b01 (s : String) : Bool := s == "1"

def insStr (a : String) : List String → List String
  | [] => [a]
  | b :: l => if a ≤ b then a :: b :: l else b :: insStr a l

def showRefs (l : List Ref) : String :=
  ",".intercalate ((l.map fun | .id g => "s" ++ g | .idx i => "i" ++ toString i).foldr insStr [])

def showAssign (a : Assignments) : String :=
  s!"all={showRefs a.all};c={showRefs a.c};t={showRefs a.t};x={showRefs a.x};c_fixed={showRefs a.c_fixed};" ++
  s!"t_fixed={showRefs a.t_fixed};x_fixed={showRefs a.x_fixed};ct={showRefs a.ct};cx={showRefs a.cx};" ++
  s!"ctx={showRefs a.ctx};tx={showRefs a.tx}"

partial def loop (h : IO.FS.Stream) (tb : Table) : IO Unit := do
  let line ← h.getLine
  if line.isEmpty then return ()
  match Wire.words line with
  | ["table", a, b, c] => loop h { hasGeo := b01 a, dupCols := b01 b, missingCols := b01 c, rows := [] }
  | ["row", g, c, t, x] => loop h { tb with rows := tb.rows ++ [{ geo := g, c := cell c, t := cell t, x := cell x }] }
  | ["validate"] =>
    match validate tb with
    | .ok _ => IO.println "ok"
    | .error e => IO.println ("err " ++ e.name)
    loop h tb
  | ["assign", ind, gs] =>
    let geos : Option (List String) :=
      if gs == "none" then none else if gs == "empty" then some [] else some (gs.splitOn ",")
    match assignments tb.rows geos (b01 ind) with
    | .ok a => IO.println ("ok " ++ showAssign a)
    | .error e => IO.println ("err " ++ e.name)
    loop h tb
  | _ => IO.println "bad-op"; loop h tb

def main : IO Unit := do loop (← IO.getStdin) { hasGeo := true, dupCols := false, missingCols := false, rows := [] }
