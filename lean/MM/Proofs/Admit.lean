/-
Helper lemmas for the model of `geos_within_constraints` (`MM/Model/Admit.lean`): the candidate
list, the admitted list as a sublist of it, counting a filter of a duplicate-free list against the
list it is filtered by, total `filterMap`s, injectivity of position ↦ ID.  No Mathlib imports.
-/
import MM.Model.Admit
namespace MM.Admit
open MM

/-- the candidates before the `n_geos_max` truncation, as increasing row positions -/
def cand (ap : AdmitParams) (rows : List GeoRow) : List Nat :=
  (List.range rows.length).filter fun i => candidate ap (rows.getD i default)

theorem mem_cand (ap : AdmitParams) (rows : List GeoRow) (i : Nat) :
    i ∈ cand ap rows ↔ i < rows.length ∧ candidate ap (rows.getD i default) = true := by
  simp [cand]

theorem sorted_range (n : Nat) : (List.range n).Pairwise (· < ·) := by
  simpa using List.pairwise_lt_range (n := n)

theorem sorted_cand (ap : AdmitParams) (rows : List GeoRow) : (cand ap rows).Pairwise (· < ·) :=
  (sorted_range _).sublist List.filter_sublist

/-- the kept positions of the truncation branch -/
def keep (rows : List GeoRow) (c : List Nat) (m : Nat) : List Nat :=
  let must := c.filter fun i => (rows.getD i default).cls.must
  let opt := (sortDesc rows c).filter fun i => !(rows.getD i default).cls.must
  must ++ opt.take (m - must.length)

theorem admitGeos_eq (ap : AdmitParams) (rows : List GeoRow) :
    admitGeos ap rows =
      match ap.nGeosMax with
      | none => cand ap rows
      | some m => if (cand ap rows).length ≤ m then cand ap rows
                  else (cand ap rows).filter fun i => (keep rows (cand ap rows) m).contains i := rfl

theorem admitGeos_sublist (ap : AdmitParams) (rows : List GeoRow) :
    (admitGeos ap rows).Sublist (cand ap rows) := by
  rw [admitGeos_eq]
  split
  · exact List.Sublist.refl _
  · split
    · exact List.Sublist.refl _
    · exact List.filter_sublist

theorem mem_admit_cand (ap : AdmitParams) (rows : List GeoRow) (i : Nat) (h : i ∈ admitGeos ap rows) :
    i < rows.length ∧ candidate ap (rows.getD i default) = true :=
  (mem_cand ap rows i).1 ((admitGeos_sublist ap rows).subset h)

theorem must_candidate (ap : AdmitParams) (r : GeoRow) (h : r.cls.must = true) : candidate ap r = true := by
  simp [candidate, h]

/-- a filter of a duplicate-free list by membership in `k` is no longer than `k` -/
theorem length_filter_contains_le (l : List Nat) (hnd : l.Nodup) (k : List Nat) :
    (l.filter fun i => k.contains i).length ≤ k.length := by
  induction l generalizing k with
  | nil => simp
  | cons a l ih =>
    rw [List.nodup_cons] at hnd
    by_cases ha : a ∈ k
    · have hfil : (l.filter fun i => k.contains i) = l.filter fun i => (k.erase a).contains i := by
        apply List.filter_congr
        intro x hx
        have hne : x ≠ a := fun h => hnd.1 (h ▸ hx)
        simp only [List.contains_eq_mem, decide_eq_decide]
        exact (List.mem_erase_of_ne hne).symm
      have hlen := ih hnd.2 (k.erase a)
      have hk : 0 < k.length := List.length_pos_of_mem ha
      rw [List.length_erase_of_mem ha] at hlen
      rw [List.filter_cons_of_pos (by simpa using ha), List.length_cons, hfil]
      omega
    · rw [List.filter_cons_of_neg (by simpa using ha)]
      exact ih hnd.2 k

theorem length_keep_le (rows : List GeoRow) (c : List Nat) (m : Nat) :
    (keep rows c m).length ≤ max m (c.filter fun i => (rows.getD i default).cls.must).length := by
  simp only [keep, List.length_append, List.length_take]
  omega

theorem length_must_cand_le (ap : AdmitParams) (rows : List GeoRow) :
    ((cand ap rows).filter fun i => (rows.getD i default).cls.must).length ≤
      ((List.range rows.length).filter fun i => (rows.getD i default).cls.must).length := by
  unfold cand
  exact (List.Sublist.filter _ List.filter_sublist).length_le

/-- a `filterMap` whose function is defined on every element behaves like a `map` -/
theorem filterMap_total {β : Type} (f : Nat → Option β) (l : List Nat) (h : ∀ i ∈ l, ∃ c, f i = some c) :
    (l.filterMap f).length = l.length ∧ ∀ k, k < l.length → (l.filterMap f)[k]? = f (l.getD k 0) := by
  induction l with
  | nil => simp
  | cons a l ih =>
    obtain ⟨c, hc⟩ := h a (by simp)
    have ih' := ih (fun i hi => h i (by simp [hi]))
    rw [List.filterMap_cons_some hc]
    refine ⟨by simp [ih'.1], ?_⟩
    intro k hk
    cases k with
    | zero => simp [hc]
    | succ k =>
      have := ih'.2 k (by simpa using hk)
      simpa using this

theorem class_of_candidate (ap : AdmitParams) (r : GeoRow) (h : candidate ap r = true) :
    r.cls ≠ .xFixed ∧ r.cls ≠ .absent ∧ ∃ c, r.cls.toGeoClass = some c := by
  cases hc : r.cls <;> simp [candidate, hc, Class7.assignable, Class7.must, Class7.toGeoClass] at h ⊢

end MM.Admit
