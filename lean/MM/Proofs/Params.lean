/-
Helper lemmas for C17 (TBRMMDesignParameters): characterisation of the three validation
helpers, of `List.forM` in the `Py` monad, of `notIntegral`, and of `pyEq`.
-/
import MM.Model.Params
namespace MM.Params
open MM

/-- decidable equality on results of `postInit` (for the concrete `example`s). -/
instance instDecidableEqPyUnit : DecidableEq (Py Unit)
  | .ok (), .ok () => isTrue rfl
  | .error a, .error b => if h : a = b then isTrue (by rw [h]) else isFalse (by intro h'; cases h'; exact h rfl)
  | .ok (), .error _ => isFalse (by intro h; cases h)
  | .error _, .ok () => isFalse (by intro h; cases h)

/-! ### `notIntegral` -/

theorem notIntegral_fin (q : Rat) : notIntegral (.fin q) = false ↔ ∃ z : Int, q = (z : Rat) := by
  simp only [notIntegral, decide_eq_false_iff_not, ne_eq, Classical.not_not]
  constructor
  · intro h; exact ⟨_, h⟩
  · rintro ⟨z, rfl⟩; rw [Rat.floor_intCast]

theorem notIntegral_false_iff (x : PyFloat) :
    notIntegral x = false ↔ ∃ z : Int, x = .fin (z : Rat) := by
  cases x with
  | fin q =>
    rw [notIntegral_fin]
    constructor
    · rintro ⟨z, rfl⟩; exact ⟨z, rfl⟩
    · rintro ⟨z, h⟩; cases h; exact ⟨z, rfl⟩
  | pinf => simp [notIntegral]
  | ninf => simp [notIntegral]
  | nan => simp [notIntegral]

/-! ### `forM` in the `Py` monad -/

theorem forM_ok_iff {α : Type} (f : α → Py Unit) (l : List α) :
    l.forM f = .ok () ↔ ∀ c ∈ l, f c = .ok () := by
  induction l with
  | nil => simp [pure, Except.pure]
  | cons a l ih =>
    rw [List.forM]
    cases h : f a with
    | error e => simp [bind, Except.bind, h]
    | ok u =>
      cases u
      simp only [bind, Except.bind, List.forall_mem_cons, h, true_and]
      exact ih

theorem forM_total {α : Type} (f : α → Py Unit) (l : List α)
    (h : ∀ c ∈ l, f c = .ok () ∨ f c = .error .valueError) :
    l.forM f = .ok () ∨ l.forM f = .error .valueError := by
  induction l with
  | nil => left; simp [pure, Except.pure]
  | cons a l ih =>
    rw [List.forM]
    rcases h a (by simp) with h1 | h1
    · simp only [h1, bind, Except.bind]
      exact ih (fun c hc => h c (by simp [hc]))
    · right; simp [h1, bind, Except.bind]

/-! ### the three helpers -/

theorem testVsThreshold_total (opt : Bool) (v : PyVal) (op : Op) (b : Bound) :
    testVsThreshold opt v op b = .ok () ∨ testVsThreshold opt v op b = .error .valueError := by
  unfold testVsThreshold
  split
  · split <;> simp
  · split
    · simp
    · split
      · simp
      · split <;> simp

theorem testWithinBounds_total (opt : Bool) (lo : Bound) (op1 : Op) (v : PyVal) (op2 : Op) (hi : Bound) :
    testWithinBounds opt lo op1 v op2 hi = .ok () ∨
      testWithinBounds opt lo op1 v op2 hi = .error .valueError := by
  unfold testWithinBounds
  split
  · split <;> simp
  · split
    · simp
    · split
      · simp
      · split <;> simp

theorem testRange_total (opt : Bool) (lo : Bound) (op1 : Op) (v : PyVal) (op3 op2 : Op) (hi : Bound) :
    testRange opt lo op1 v op3 op2 hi = .ok () ∨
      testRange opt lo op1 v op3 op2 hi = .error .valueError := by
  unfold testRange
  split
  · split <;> simp
  · split
    · simp
    · split
      · simp
      · split
        · simp
        · split <;> simp
  · simp

theorem testVsThreshold_ok_iff (opt : Bool) (v : PyVal) (op : Op) (b : Bound) :
    testVsThreshold opt v op b = .ok () ↔
      (v = .none ∧ opt = true) ∨
      (v.isNum = true ∧ op.test v.num b.num = true ∧
        (b.isInt = true → notIntegral v.num = false)) := by
  cases v <;> simp [testVsThreshold, PyVal.isNum] <;> grind

theorem testWithinBounds_ok_iff (opt : Bool) (lo : Bound) (op1 : Op) (v : PyVal) (op2 : Op) (hi : Bound) :
    testWithinBounds opt lo op1 v op2 hi = .ok () ↔
      (v = .none ∧ opt = true) ∨
      (v.isNum = true ∧ op1.test lo.num v.num = true ∧ op2.test v.num hi.num = true ∧
        (lo.isInt = true → notIntegral v.num = false)) := by
  cases v <;> simp [testWithinBounds, PyVal.isNum] <;> grind

theorem testRange_ok_iff (opt : Bool) (lo : Bound) (op1 : Op) (v : PyVal) (op3 op2 : Op) (hi : Bound) :
    testRange opt lo op1 v op3 op2 hi = .ok () ↔
      (v = .none ∧ opt = true) ∨
      ∃ a b, v = .tuple [a, b] ∧ a.isNum = true ∧ b.isNum = true ∧
        op1.test lo.num a.num = true ∧ op2.test b.num hi.num = true ∧ op3.test a.num b.num = true ∧
        (lo.isInt = true → notIntegral a.num = false ∧ notIntegral b.num = false) := by
  unfold testRange
  split
  · simp
  · simp
    grind
  · rename_i h1 h2
    simp only [reduceCtorEq, false_iff, not_or, not_and, not_exists]
    exact ⟨fun h => absurd h h1, fun a b h => absurd h (h2 a b)⟩

/-! ### specialisations to the operator/bound shapes that occur in the check table

The right-hand sides are the unfolded forms of the domain predicates of `MM.Props.C17`
(`numGe`, `numGt`, `numLt`, `integral`, `finite`, `optionalOr`, `isPair`). -/

theorem vs_ge_int (v : PyVal) (z : Int) (q : Rat) (hq : (z : Rat) = q) :
    testVsThreshold false v .ge (.int z) = .ok () ↔
      (v.isNum = true ∧ PyFloat.le (.fin q) v.num = true) ∧ ∃ z' : Int, v.num = .fin (z' : Rat) := by
  subst hq
  simp [testVsThreshold_ok_iff, Op.test, Bound.num, Bound.isInt, notIntegral_false_iff, and_assoc]

theorem vs_ge_int_opt (v : PyVal) (z : Int) (q : Rat) (hq : (z : Rat) = q) :
    testVsThreshold true v .ge (.int z) = .ok () ↔
      v = .none ∨
      ((v.isNum = true ∧ PyFloat.le (.fin q) v.num = true) ∧ ∃ z' : Int, v.num = .fin (z' : Rat)) := by
  subst hq
  simp [testVsThreshold_ok_iff, Op.test, Bound.num, Bound.isInt, notIntegral_false_iff, and_assoc]

theorem vs_ge_float (v : PyVal) (q q' : Rat) (hq : q = q') :
    testVsThreshold false v .ge (.float (.fin q)) = .ok () ↔
      v.isNum = true ∧ PyFloat.le (.fin q') v.num = true := by
  subst hq
  simp [testVsThreshold_ok_iff, Op.test, Bound.num, Bound.isInt]

theorem vs_gt_float_opt (v : PyVal) (q q' : Rat) (hq : q = q') :
    testVsThreshold true v .gt (.float (.fin q)) = .ok () ↔
      v = .none ∨ (v.isNum = true ∧ PyFloat.lt (.fin q') v.num = true) := by
  subst hq
  simp [testVsThreshold_ok_iff, Op.test, Bound.num, Bound.isInt]

theorem wb_le_lt (v : PyVal) (a a' b b' : Rat) (ha : a = a') (hb : b = b') :
    testWithinBounds false (.float (.fin a)) .le v .lt (.float (.fin b)) = .ok () ↔
      (v.isNum = true ∧ PyFloat.le (.fin a') v.num = true) ∧
      (v.isNum = true ∧ PyFloat.lt v.num (.fin b') = true) := by
  subst ha hb
  simp [testWithinBounds_ok_iff, Op.test, Bound.num, Bound.isInt]
  grind

theorem wb_lt_lt (v : PyVal) (a a' b b' : Rat) (ha : a = a') (hb : b = b') :
    testWithinBounds false (.float (.fin a)) .lt v .lt (.float (.fin b)) = .ok () ↔
      (v.isNum = true ∧ PyFloat.lt (.fin a') v.num = true) ∧
      (v.isNum = true ∧ PyFloat.lt v.num (.fin b') = true) := by
  subst ha hb
  simp [testWithinBounds_ok_iff, Op.test, Bound.num, Bound.isInt]
  grind

theorem lt_pinf_iff_of_lt (x y : PyFloat) (h : PyFloat.lt x y = true) :
    PyFloat.lt y .pinf = true ↔ ∃ q, y = .fin q := by
  cases x <;> cases y <;> simp_all [PyFloat.lt]

theorem range_lt_lt_lt_opt (v : PyVal) (a a' b b' : Rat) (ha : a = a') (hb : b = b') :
    testRange true (.float (.fin a)) .lt v .lt .lt (.float (.fin b)) = .ok () ↔
      v = .none ∨ ∃ x y, v = .tuple [x, y] ∧ x.isNum = true ∧ y.isNum = true ∧
        (x.isNum = true ∧ PyFloat.lt (.fin a') x.num = true) ∧ PyFloat.lt x.num y.num = true ∧
        (y.isNum = true ∧ PyFloat.lt y.num (.fin b') = true) := by
  subst ha hb
  simp [testRange_ok_iff, Op.test, Bound.num, Bound.isInt]
  grind

theorem range_le_lt_inf_opt (v : PyVal) (a a' : Rat) (ha : a = a') :
    testRange true (.float (.fin a)) .le v .lt .lt (.float .pinf) = .ok () ↔
      v = .none ∨ ∃ x y, v = .tuple [x, y] ∧ x.isNum = true ∧ y.isNum = true ∧
        (x.isNum = true ∧ PyFloat.le (.fin a') x.num = true) ∧ PyFloat.lt x.num y.num = true ∧
        ∃ q, y.num = .fin q := by
  subst ha
  simp only [testRange_ok_iff, Op.test, Bound.num, Bound.isInt]
  refine or_congr (by simp) (exists_congr fun x => exists_congr fun y => ?_)
  constructor
  · rintro ⟨h1, h2, h3, h4, h5, h6, -⟩
    exact ⟨h1, h2, h3, ⟨h2, h4⟩, h6, (lt_pinf_iff_of_lt _ _ h6).1 h5⟩
  · rintro ⟨h1, h2, h3, ⟨-, h4⟩, h6, h5⟩
    exact ⟨h1, h2, h3, h4, (lt_pinf_iff_of_lt _ _ h6).2 h5, h6, by simp⟩

theorem range_int_le_le_inf_opt (v : PyVal) (z : Int) (q : Rat) (hq : (z : Rat) = q) :
    testRange true (.int z) .le v .le .lt (.float .pinf) = .ok () ↔
      v = .none ∨ ∃ x y, v = .tuple [x, y] ∧ x.isNum = true ∧ y.isNum = true ∧
        (x.isNum = true ∧ PyFloat.le (.fin q) x.num = true) ∧ PyFloat.le x.num y.num = true ∧
        (∃ z' : Int, x.num = .fin (z' : Rat)) ∧ ∃ z' : Int, y.num = .fin (z' : Rat) := by
  subst hq
  simp only [testRange_ok_iff, Op.test, Bound.num, Bound.isInt, notIntegral_false_iff]
  refine or_congr (by simp) (exists_congr fun x => exists_congr fun y => ?_)
  constructor
  · rintro ⟨h1, h2, h3, h4, h5, h6, h7⟩
    exact ⟨h1, h2, h3, ⟨h2, h4⟩, h6, h7 trivial⟩
  · rintro ⟨h1, h2, h3, ⟨-, h4⟩, h6, h7, ⟨z', h8⟩⟩
    exact ⟨h1, h2, h3, h4, by rw [h8]; rfl, h6, fun _ => ⟨h7, ⟨z', h8⟩⟩⟩

/-! ### `postInit` -/

theorem runCheck_total (o : Obj) (c : Check Field) :
    runCheck o c = .ok () ∨ runCheck o c = .error .valueError := by
  cases c with
  | vsThreshold a op b => exact testVsThreshold_total _ _ _ _
  | withinBounds lo op1 a op2 hi => exact testWithinBounds_total _ _ _ _ _ _
  | range lo op1 a op3 op2 hi => exact testRange_total _ _ _ _ _ _ _

theorem postInit_total (o : Obj) : postInit o = .ok () ∨ postInit o = .error .valueError :=
  forM_total _ _ (fun c _ => runCheck_total o c)

theorem postInit_ok_iff (o : Obj) : postInit o = .ok () ↔ ∀ c ∈ checks, runCheck o c = .ok () :=
  forM_ok_iff _ _

/-! ### construction -/

theorem fill_ok (args : Field → Option PyVal) (h1 : (args .n_test).isSome) (h2 : (args .iroas).isSome) :
    fill args = .ok fun f => match args f with
      | some v => v
      | none => (Field.default f).getD .none := by
  have e1 : (args .n_test).isNone = false := by
    cases hn : args .n_test <;> simp_all
  have e2 : (args .iroas).isNone = false := by
    cases hn : args .iroas <;> simp_all
  have hc : ¬ (Field.all.any fun f => (args f).isNone && (Field.default f).isNone) = true := by
    simp [Field.all, Field.default, e1, e2]
  unfold fill
  rw [if_neg hc]
  rfl

theorem construct_eq (args : Field → Option PyVal) (o : Obj) (h : fill args = .ok o) :
    construct args = (postInit o).map fun _ => o := by
  unfold construct
  rw [h]
  cases hp : postInit o <;> simp [bind, Except.bind, Except.map, pure, Except.pure, hp]

/-! ### equality -/

theorem beq_comm (a b : PyFloat) : PyFloat.beq a b = PyFloat.beq b a := by
  cases a <;> cases b <;> simp [PyFloat.beq, Bool.beq_comm]

theorem beq_self (a : PyFloat) (h : a ≠ .nan) : PyFloat.beq a a = true := by
  cases a <;> simp_all [PyFloat.beq]

theorem ne_nan_of_lt_left {a b : PyFloat} (h : PyFloat.lt a b = true) : a ≠ .nan := by
  cases a <;> cases b <;> simp_all [PyFloat.lt]
theorem ne_nan_of_lt_right {a b : PyFloat} (h : PyFloat.lt a b = true) : b ≠ .nan := by
  cases a <;> cases b <;> simp_all [PyFloat.lt]
theorem ne_nan_of_le_left {a b : PyFloat} (h : PyFloat.le a b = true) : a ≠ .nan := by
  cases a <;> cases b <;> simp_all [PyFloat.le]
theorem ne_nan_of_le_right {a b : PyFloat} (h : PyFloat.le a b = true) : b ≠ .nan := by
  cases a <;> cases b <;> simp_all [PyFloat.le]

theorem pyEq_comm (x y : PyVal) : pyEq x y = pyEq y x := by
  unfold pyEq
  split
  · rfl
  · simp only [beq_comm]
    grind
  · rename_i h1 h2
    split
    · exact (h1 rfl rfl).elim
    · exact (h2 _ _ _ _ rfl rfl).elim
    · rw [beq_comm, Bool.and_comm y.isNum]

theorem pyEq_self_none : pyEq .none .none = true := by simp [pyEq]

theorem pyEq_self_num (v : PyVal) (h : v.isNum = true) (hn : v.num ≠ .nan) : pyEq v v = true := by
  cases v <;> simp_all [pyEq, PyVal.isNum, beq_self]

theorem pyEq_self_pair (a b : PyVal) (ha : a.isNum = true) (hb : b.isNum = true)
    (na : a.num ≠ .nan) (nb : b.num ≠ .nan) : pyEq (.tuple [a, b]) (.tuple [a, b]) = true := by
  simp [pyEq, ha, hb, beq_self _ na, beq_self _ nb]

theorem objEq_iff (a b : Obj) : objEq a b = true ↔ ∀ f, pyEq (a f) (b f) = true := by
  simp only [objEq, Field.all, List.all_cons, List.all_nil, Bool.and_true, Bool.and_eq_true]
  constructor
  · intro h f
    cases f <;> simp [h]
  · intro h
    simp [h]

end MM.Params
