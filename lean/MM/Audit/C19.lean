import MM.Props.C19
import MM.Props.Outliers
import MM.Props.OutliersTie

#print axioms MM.Screen.C19_data
#print axioms MM.Screen.C19_analysis
#print axioms MM.Screen.C19_reports
#print axioms MM.Screen.C19_totals
#print axioms MM.Screen.C19_totals_perm
#print axioms MM.Screen.C19_totals_other_groups
#print axioms MM.Screen.C19_totals_split
#print axioms MM.Screen.C19_perm_invariant
#print axioms MM.Screen.C19_total_fn
#print axioms MM.Outliers.step_progress
#print axioms MM.Outliers.loop_terminates
#print axioms MM.Outliers.loop_reports_dates
#print axioms MM.Outliers.perfectFit_sound
#print axioms MM.Outliers.original_does_not_terminate
#print axioms MM.Outliers.repaired_stops_on_perfectFit
#print axioms MM.Outliers.tie_outlier_loop
