/-
Obligation on `design_within_constraints` regenerated from the source (translator T8): the regenerated chain of
guarded checks is the hand-written `withinConstraints` that the greedy-search and C10 theorems are about.
-/
import MM.Generated.WithinGen
import Mathlib.Data.Rat.Cast.Order
import Mathlib.Tactic.Ring
namespace MM.Search
open MM

private theorem notSat_int (n : Nat) (r : Int × Int) :
    notSat (PyFloat.fin (n : Rat)) (r.1 : Rat) (r.2 : Rat) = intBad n r := by
  unfold notSat MM.Gen.Consts.constraintNotSatisfied intBad PyFloat.lt
  have h1 : ((n : Rat) < (r.1 : Rat)) ↔ ((n : Int) < r.1) := by
    rw [show (n : Rat) = ((n : Int) : Rat) by simp]; exact Int.cast_lt
  have h2 : ((r.2 : Rat) < (n : Rat)) ↔ ((n : Int) > r.2) := by
    rw [show (n : Rat) = ((n : Int) : Rat) by simp]; exact Int.cast_lt
  simp only [h1, h2]

private theorem pyDiv_len (C T : GeoSet) (h : T.isEmpty = false) :
    pyDiv (C.length : Rat) (T.length : Rat) = .fin ((C.length : Rat) / (T.length : Rat)) := by
  unfold pyDiv
  have : (T.length : Rat) ≠ 0 := by
    cases T with
    | nil => simp at h
    | cons a l =>
      have : ((a :: l).length : Rat) = ((l.length + 1 : Nat) : Rat) := by simp
      rw [this]; exact_mod_cast Nat.succ_ne_zero l.length
  simp [this]

/-- the regenerated `design_within_constraints` is the model's `withinConstraints` -/
theorem tie_within (p : Params) (e : Env) (T C : GeoSet) :
    MM.Gen.Within.withinConstraintsGen p e T C = withinConstraints p e T C := by
  unfold MM.Gen.Within.withinConstraintsGen withinConstraints
  by_cases hE : (T.isEmpty || C.isEmpty) = true
  · simp [hE]
  · have hT : T.isEmpty = false := by
      cases h : T.isEmpty <;> simp_all
    simp only [hE, Bool.false_eq_true, if_false]
    rcases p with ⟨tr, cr, gt, vt, sr, br, ir, nd⟩
    cases vt <;> cases gt <;> cases sr <;> cases tr <;> cases cr <;>
      simp [ratioBad, notSat_int, pyDiv_len C T hT, Bool.and_assoc]

theorem tie_within_fields :
    MM.Gen.Within.fieldsChecked = ["volTol", "geoTol", "shareRange", "trtRange", "ctlRange"] := by decide

end MM.Search
