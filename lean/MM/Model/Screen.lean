/-
Model of the orchestration in tbrdiagnostics.TBRDiagnostics.fit (C19) and of the aggregation
to per-date group totals used by TBR / TBRDiagnostics (C06's "depends on the data only through
per-date group totals").  The two detectors (noisy geos, outlier dates) are parameters: no property
constrains *which* geos/dates they report, only that exactly what is reported is removed.
No Mathlib imports.
-/
import MM.Model.Basic
namespace MM.Screen
open MM

structure Row where
  geo : String
  date : Nat
  group : Int         -- control / treatment / anything else
  period : Int
  value : Rat
deriving Repr, DecidableEq

def insertNat (a : Nat) : List Nat → List Nat
  | [] => [a]
  | b :: l => if a < b then a :: b :: l else if a = b then b :: l else b :: insertNat a l

/-- distinct dates (ascending) on which the given group has at least one row -/
def datesOf (rows : List Row) (g : Int) : List Nat :=
  (rows.filter (·.group == g)).foldr (fun r acc => insertNat r.date acc) []

def sumQ (l : List Rat) : Rat := l.foldl (· + ·) 0

/-- total of the group on a date (`groupby([group, date]).sum()` / `pivot_table(aggfunc=sum)`) -/
def total (rows : List Row) (g : Int) (d : Nat) : Rat :=
  sumQ ((rows.filter fun r => r.group == g && r.date == d).map (·.value))

/-- the per-date series of a group: (date, total) in chronological order -/
def totals (rows : List Row) (g : Int) : List (Nat × Rat) := (datesOf rows g).map fun d => (d, total rows g d)

structure Semantics where
  control : Int
  treatment : Int

/-- the aggregated analysis data: control and treatment totals per date -/
def analysis (sem : Semantics) (rows : List Row) : List (Nat × Rat) × List (Nat × Rat) :=
  (totals rows sem.control, totals rows sem.treatment)

structure Detectors where
  noisy : List Row → List String                                   -- `_detect_noisy_geos` on the input rows
  outliers : (List (Nat × Rat) × List (Nat × Rat)) → List Nat       -- `_detect_outliers` on the aggregated data

structure FitResult where
  data : List Row                                      -- get_data()
  analysis : List (Nat × Rat) × List (Nat × Rat)       -- get_analysis_data()
  noisyGeos : List String
  outlierDates : List Nat

/-- `TBRDiagnostics.fit`: remove the reported noisy geos, aggregate, detect outlier dates on the aggregate,
remove those dates, aggregate again.  (Both groups must be present, else ValueError.) -/
def fit (sem : Semantics) (det : Detectors) (rows : List Row) : Py FitResult :=
  let ng := det.noisy rows
  let r1 := rows.filter fun r => !ng.contains r.geo
  if !(r1.any (·.group == sem.control) && r1.any (·.group == sem.treatment)) then .error .valueError else
  let od := det.outliers (analysis sem r1)
  let r2 := r1.filter fun r => !od.contains r.date
  if !od.isEmpty && !(r2.any (·.group == sem.control) && r2.any (·.group == sem.treatment)) then .error .valueError else
  .ok { data := r2, analysis := analysis sem r2, noisyGeos := ng, outlierDates := od }

end MM.Screen
