/-
C01 (capstone), at the level of geo IDs and of the RAW eligibility classes of the data's geos:

  "Every design returned by the exhaustive or the greedy search has non-empty, disjoint treatment
  and control groups made of geos present in the data, every treatment geo being eligible for
  treatment and every control geo eligible for control.  Every geo whose eligibility row forbids
  exclusion is placed in one of the two groups, and a geo that must be excluded never appears."

Composition of three results:
* `MM/Props/C01Admit.lean` — which data positions are admitted to the search, and with which class;
* `MM/Props/Exhaustive.lean` (`C01_exhaustive`), `MM/Props/Greedy.lean` (`C01_greedy`) — a returned
  design is a `LegalDesign` with respect to the classes of the admitted geos (index sets);
* `ids_injective` — index ↦ position in the data ↦ geo ID is injective.

Helper lemmas: `MM/Proofs/C01Ids.lean`.
-/
import MM.Proofs.C01Ids
import MM.Props.Exhaustive
import MM.Props.Greedy

namespace MM.Admit
open MM MM.Search

/-- eligibility of a data geo for treatment / control according to its raw row -/
def Class7.canT : Class7 → Bool | .tFixed | .ct | .tx | .ctx => true | _ => false
def Class7.canC : Class7 → Bool | .cFixed | .ct | .cx | .ctx => true | _ => false

/-- the geo IDs a search reports for an index set: index → position in the data (through the
admitted list) → ID -/
def reported (ids : List String) (idx : List Nat) (s : GeoSet) : List String :=
  s.map fun i => ids.getD (idx.getD i 0) ""

/-- the sentence of C01 for the groups `T`, `C` (index sets into the admitted list), read on geo
IDs and raw eligibility rows -/
def C01Sentence (ap : AdmitParams) (rows : List GeoRow) (ids : List String) (T C : GeoSet) : Prop :=
  let idx := admitGeos ap rows
  let tIds := reported ids idx T
  let cIds := reported ids idx C
  tIds ≠ [] ∧ cIds ≠ [] ∧ tIds.Nodup ∧ cIds.Nodup ∧ (∀ g ∈ tIds, g ∉ cIds) ∧
  (∀ g ∈ tIds, ∃ k, k < rows.length ∧ ids[k]? = some g ∧ (rows.getD k default).cls.canT = true) ∧
  (∀ g ∈ cIds, ∃ k, k < rows.length ∧ ids[k]? = some g ∧ (rows.getD k default).cls.canC = true) ∧
  (∀ k, k < rows.length → (rows.getD k default).cls.must = true →
      ids.getD k "" ∈ tIds ∨ ids.getD k "" ∈ cIds) ∧
  (∀ k, k < rows.length →
      ((rows.getD k default).cls = .xFixed ∨ (rows.getD k default).cls = .absent) →
      ids.getD k "" ∉ tIds ∧ ids.getD k "" ∉ cIds)

/-- the search class of an admitted geo allows exactly what its raw row allows -/
theorem canT_toGeoClass (c : Class7) (g : GeoClass) (h : c.toGeoClass = some g) : g.canT = c.canT := by
  cases c <;> cases h <;> rfl

theorem canC_toGeoClass (c : Class7) (g : GeoClass) (h : c.toGeoClass = some g) : g.canC = c.canC := by
  cases c <;> cases h <;> rfl

/-- C01 at the level of geo IDs, for any design that is legal w.r.t. the classes of the admitted
geos -/
theorem C01_ids (ap : AdmitParams) (rows : List GeoRow) (ids : List String) (hnd : ids.Nodup)
    (hlen : ids.length = rows.length) (e : Env)
    (hcls : e.cls = admittedClasses rows (admitGeos ap rows)) (T C : GeoSet)
    (h : LegalDesign e T C) : C01Sentence ap rows ids T C := by
  obtain ⟨hL, hTne, hCne⟩ := h
  rw [hcls] at hL
  have hsort := (admit_sorted ap rows).1
  have hrow := (admit_sorted ap rows).2
  have hlt : ∀ i ∈ admitGeos ap rows, i < ids.length := fun i hi => hlen ▸ hrow i hi
  obtain ⟨hacl, hac⟩ := admit_classes ap rows
  have hbT : ∀ i ∈ T, i < (admitGeos ap rows).length := fun i hi => hacl ▸ hL.lt_length.1 i hi
  have hbC : ∀ i ∈ C, i < (admitGeos ap rows).length := fun i hi => hacl ▸ hL.lt_length.2 i hi
  have hdisj := hL.disjoint
  obtain ⟨hTs, hCs, _, hsome⟩ := hL
  refine ⟨?_, ?_, ?_, ?_, ?_, ?_, ?_, ?_, ?_⟩
  · exact fun hnil => hTne (List.map_eq_nil_iff.1 hnil)
  · exact fun hnil => hCne (List.map_eq_nil_iff.1 hnil)
  · exact map_ids_nodup ids hnd _ hsort hlt T hTs hbT
  · exact map_ids_nodup ids hnd _ hsort hlt C hCs hbC
  · exact map_ids_disjoint ids hnd _ hsort hlt T C hbT hbC hdisj
  · intro g hg
    obtain ⟨i, hi, rfl⟩ := List.mem_map.1 hg
    have hk := hrow _ (getD_mem _ i (hbT i hi))
    obtain ⟨c, hc1, hc2⟩ := hac i (hbT i hi)
    refine ⟨_, hk, ids_getElem?_getD ids _ (hlen ▸ hk), ?_⟩
    rw [← canT_toGeoClass _ c hc2]
    exact ((hsome i c hc1).1 hi).2
  · intro g hg
    obtain ⟨i, hi, rfl⟩ := List.mem_map.1 hg
    have hk := hrow _ (getD_mem _ i (hbC i hi))
    obtain ⟨c, hc1, hc2⟩ := hac i (hbC i hi)
    refine ⟨_, hk, ids_getElem?_getD ids _ (hlen ▸ hk), ?_⟩
    rw [← canC_toGeoClass _ c hc2]
    exact (hsome i c hc1).2.1 hi
  · intro k hk hm
    obtain ⟨j, hj, hjk⟩ := exists_getD_of_mem _ k (admit_must ap rows k hk hm)
    obtain ⟨c, hc1, hc2⟩ := hac j hj
    rw [hjk] at hc2
    have hx := canX_of_must _ c hc2 hm
    by_cases hjT : j ∈ T
    · exact Or.inl (mem_map_ids ids _ T j k hjT hjk)
    · by_cases hjC : j ∈ C
      · exact Or.inr (mem_map_ids ids _ C j k hjC hjk)
      · rw [(hsome j c hc1).2.2 hjT hjC] at hx
        cases hx
  · intro k hk hx
    have hnot : k ∉ admitGeos ap rows := by
      intro hmem
      have := admit_excluded ap rows k hmem
      rcases hx with hx | hx
      · exact this.1 hx
      · exact this.2 hx
    exact ⟨not_mem_map_ids ids hnd _ hlt T hbT k (hlen ▸ hk) hnot,
      not_mem_map_ids ids hnd _ hlt C hbC k (hlen ▸ hk) hnot⟩

/-- `C01Sentence`, spelled out (the statement of `C01_ids` without the abbreviation) -/
theorem C01_ids_spelled_out (ap : AdmitParams) (rows : List GeoRow) (ids : List String)
    (hnd : ids.Nodup) (hlen : ids.length = rows.length) (e : Env)
    (hcls : e.cls = admittedClasses rows (admitGeos ap rows)) (T C : GeoSet)
    (h : LegalDesign e T C) :
    let idx := admitGeos ap rows
    let tIds := reported ids idx T
    let cIds := reported ids idx C
    tIds ≠ [] ∧ cIds ≠ [] ∧ tIds.Nodup ∧ cIds.Nodup ∧ (∀ g ∈ tIds, g ∉ cIds) ∧
    (∀ g ∈ tIds, ∃ k, k < rows.length ∧ ids[k]? = some g ∧ (rows.getD k default).cls.canT = true) ∧
    (∀ g ∈ cIds, ∃ k, k < rows.length ∧ ids[k]? = some g ∧ (rows.getD k default).cls.canC = true) ∧
    (∀ k, k < rows.length → (rows.getD k default).cls.must = true →
        ids.getD k "" ∈ tIds ∨ ids.getD k "" ∈ cIds) ∧
    (∀ k, k < rows.length →
        ((rows.getD k default).cls = .xFixed ∨ (rows.getD k default).cls = .absent) →
        ids.getD k "" ∉ tIds ∧ ids.getD k "" ∉ cIds) :=
  C01_ids ap rows ids hnd hlen e hcls T C h

/-- instantiated for the exhaustive search … -/
theorem C01_ids_exhaustive (ap : AdmitParams) (rows : List GeoRow) (ids : List String)
    (hnd : ids.Nodup) (hlen : ids.length = rows.length) (p : Params) (e : Env)
    (hcls : e.cls = admittedClasses rows (admitGeos ap rows)) (ds : List Design)
    (hs : exhaustive p e = .ok ds) (d : Design) (hd : d ∈ ds) : C01Sentence ap rows ids d.T d.C :=
  C01_ids ap rows ids hnd hlen e hcls d.T d.C (C01_exhaustive p e ds hs d hd)

/-- … and for the greedy search -/
theorem C01_ids_greedy (ap : AdmitParams) (rows : List GeoRow) (ids : List String)
    (hnd : ids.Nodup) (hlen : ids.length = rows.length) (fuel : Nat) (p : Params) (e : Env)
    (hcls : e.cls = admittedClasses rows (admitGeos ap rows)) (ds : List Design)
    (hs : greedyFuel fuel p e = some (.ok ds)) (d : Design) (hd : d ∈ ds) :
    C01Sentence ap rows ids d.T d.C :=
  C01_ids ap rows ids hnd hlen e hcls d.T d.C (C01_greedy fuel p e ds hs d hd)

/-! ## non-vacuity

Five geos in row order: a must-exclude geo "a", a treatment-only geo "b", a free geo "c", a geo "d"
absent from the eligibility table, a control-or-excluded geo "e".  Positions 1, 2, 4 are admitted
(search indices 0, 1, 2 with classes tFixed, ctx, cx). -/

def rows5 : List GeoRow :=
  [⟨.xFixed, 3 / 10, .fin 50⟩, ⟨.tFixed, 1 / 4, .fin 40⟩, ⟨.ctx, 1 / 5, .fin 30⟩,
   ⟨.absent, 3 / 20, .fin 20⟩, ⟨.cx, 1 / 10, .fin 10⟩]

def ids5 : List String := ["a", "b", "c", "d", "e"]

def ap5 : AdmitParams := {}

def env5 : Env where
  cls := admittedClasses rows5 (admitGeos ap5 rows5)
  share := fun i => (i : Rat) + 1
  optImpact := fun _ => .fin 1
  impact := fun T C => .fin ((T.sum : Rat) + (C.length : Rat) + 1)
  score5 := fun T C => [some 1, some 1, some 1, some 1,
    some (((T.length * 7 + C.sum * 3 + T.sum * 5) % 11 : Nat) : Rat)]
  invImpact := fun T C => some (1 / ((T.sum : Rat) + (C.length : Rat) + 1))
  budgetInv := fun T C => some (5 / ((T.sum : Rat) + (C.length : Rat) + 1))

def params5 : Params := { nDesigns := 4 }

theorem ids5_nodup : ids5.Nodup := by decide

example : admitGeos ap5 rows5 = [1, 2, 4] := by decide +kernel
example : env5.cls = [.tFixed, .ctx, .cx] := by decide +kernel

/-- a concrete legal design: treatment = search indices {0, 1}, control = {2} -/
theorem legal5 : LegalDesign env5 [0, 1] [2] :=
  legalDesign_of_listing (p := params5) (by decide +kernel)

/-- the hypotheses of `C01_ids` are jointly satisfiable … -/
theorem sentence5 : C01Sentence ap5 rows5 ids5 [0, 1] [2] :=
  C01_ids ap5 rows5 ids5 ids5_nodup rfl env5 rfl [0, 1] [2] legal5

/-- … and its conclusion, evaluated: "b", "c" are treated, "e" is control; "b" (must-include) is
placed, "a" (must-exclude) and "d" (absent from the table) do not appear -/
example : reported ids5 (admitGeos ap5 rows5) [0, 1] = ["b", "c"] ∧
    reported ids5 (admitGeos ap5 rows5) [2] = ["e"] := by decide +kernel

example : (["b", "c"] : List String) ≠ [] ∧ (["e"] : List String) ≠ [] ∧
    (["b", "c"] : List String).Nodup ∧ (["e"] : List String).Nodup ∧
    (∀ g ∈ (["b", "c"] : List String), g ∉ (["e"] : List String)) := by decide

example : ((List.range rows5.length).map fun k => (ids5.getD k "", (rows5.getD k default).cls.canT,
      (rows5.getD k default).cls.canC, (rows5.getD k default).cls.must)) =
    [("a", false, false, false), ("b", true, false, true), ("c", true, true, false),
     ("d", false, false, false), ("e", false, true, false)] := by decide +kernel

example : ∃ k, k < rows5.length ∧ ids5[k]? = some "c" ∧ (rows5.getD k default).cls.canT = true :=
  sentence5.2.2.2.2.2.1 "c" (by decide +kernel)

example : "b" ∈ reported ids5 (admitGeos ap5 rows5) [0, 1] ∨
    "b" ∈ reported ids5 (admitGeos ap5 rows5) [2] :=
  sentence5.2.2.2.2.2.2.2.1 1 (by decide) (by decide +kernel)

example : "a" ∉ reported ids5 (admitGeos ap5 rows5) [0, 1] ∧
    "a" ∉ reported ids5 (admitGeos ap5 rows5) [2] :=
  sentence5.2.2.2.2.2.2.2.2 0 (by decide) (Or.inl (by decide +kernel))

example : "d" ∉ reported ids5 (admitGeos ap5 rows5) [0, 1] ∧
    "d" ∉ reported ids5 (admitGeos ap5 rows5) [2] :=
  sentence5.2.2.2.2.2.2.2.2 3 (by decide) (Or.inr (by decide +kernel))

/-- both searches return designs on this input, so the two corollaries are not vacuous either: the
exhaustive search returns four designs, `({b, c}, {e})` among them … -/
example : ∃ ds d, exhaustive params5 env5 = .ok ds ∧ d ∈ ds ∧ d.T = [0, 1] ∧ d.C = [2] ∧
    (ds.map fun d => (d.T, d.C)) = [([0], [1]), ([0], [1, 2]), ([0, 1], [2]), ([0], [2])] ∧
    C01Sentence ap5 rows5 ids5 d.T d.C := by
  refine ⟨_, mkDesign params5 env5 [0, 1] [2], (C09_exhaustive_total params5 env5).2,
    by decide +kernel, rfl, rfl, by decide +kernel, ?_⟩
  exact C01_ids_exhaustive ap5 rows5 ids5 ids5_nodup rfl params5 env5 rfl _
    (C09_exhaustive_total params5 env5).2 _ (by decide +kernel)

/-- … and the greedy search returns a non-empty list of designs, `({b}, {c})` first -/
example : ∃ ds d, greedyFuel 100 params5 env5 = some (.ok ds) ∧ d ∈ ds ∧
    C01Sentence ap5 rows5 ids5 d.T d.C := by
  have hne : (match greedyFuel 100 params5 env5 with
      | some (.ok ds) => decide (0 < ds.length) | _ => false) = true := by decide +kernel
  cases hg : greedyFuel 100 params5 env5 with
  | none => rw [hg] at hne; cases hne
  | some r =>
    cases r with
    | error err => rw [hg] at hne; cases hne
    | ok ds =>
      cases ds with
      | nil => rw [hg] at hne; cases hne
      | cons d ds =>
        exact ⟨_, d, rfl, List.mem_cons_self, C01_ids_greedy ap5 rows5 ids5 ids5_nodup rfl 100
          params5 env5 rfl _ hg d List.mem_cons_self⟩

example : (match greedyFuel 100 params5 env5 with
    | some (.ok ds) => ds.map (fun (d : Design) => (d.T, d.C)) | _ => []) =
    [([0], [1]), ([0], [1])] := by decide +kernel

end MM.Admit
