/-
C15: `TBRMMData` (tbrmmdata.py) — the canonical geo × date table, geo shares, aggregation over index
sets, reconciliation of the eligibility table with the geos in the data, assignable geos and the
`geo_index` setter.
C12: presentation invariance of the pivot (row order of the input frame, strictly monotone
relabelling of the dates, positive rescaling of the values).

Model: `MM/Model/Data.lean`.  Helper lemmas: `MM/Proofs/Data.lean`.  No Mathlib imports.
-/
import MM.Proofs.Data

namespace MM.Data
open MM

/-! ## C15 -/

/-- one row per distinct geo ID, no other rows -/
theorem C15_rows (rows : List Obs) :
    (mkTable rows).geos.Nodup ∧ ∀ g, g ∈ (mkTable rows).geos ↔ ∃ o ∈ rows, o.geo = g :=
  ⟨nodup_order rows, mem_order rows⟩

/-- one column per distinct date, in chronological order -/
theorem C15_columns (rows : List Obs) :
    (mkTable rows).dates.Pairwise (· < ·) ∧ ∀ d, d ∈ (mkTable rows).dates ↔ ∃ o ∈ rows, o.date = d :=
  ⟨sorted_datesOf rows, mem_datesOf rows⟩

/-- shape: every row has one cell per date; shares aligned with rows -/
theorem C15_shape (rows : List Obs) :
    (mkTable rows).cells.length = (mkTable rows).geos.length ∧
    (mkTable rows).share.length = (mkTable rows).geos.length ∧
    ∀ r ∈ (mkTable rows).cells, r.length = (mkTable rows).dates.length := by
  refine ⟨by simp [mkTable], by simp [mkTable], ?_⟩
  intro r hr
  simp only [mkTable, List.mem_map] at hr
  obtain ⟨g, _, rfl⟩ := hr
  simp [mkTable, rowOf]

/-- cell content: mean of the matching observations, zero when there is none -/
theorem C15_cell (rows : List Obs) (i j : Nat) (g : String) (d : Nat)
    (hg : (mkTable rows).geos[i]? = some g) (hd : (mkTable rows).dates[j]? = some d) :
    ((mkTable rows).cells[i]?.bind (·[j]?)) = some (cell rows g d) := by
  simp only [mkTable] at hg hd
  simp [mkTable, rowOf, hg, hd]

theorem C15_cell_missing (rows : List Obs) (g : String) (d : Nat)
    (h : ∀ o ∈ rows, ¬ (o.geo = g ∧ o.date = d)) : cell rows g d = 0 :=
  cell_missing rows g d h

/-- rows ordered by decreasing mean response -/
theorem C15_order (rows : List Obs) : (order rows).Pairwise (fun a b => meanOf rows b ≤ meanOf rows a) :=
  order_sorted rows

/-- shares: each geo's mean over the sum of means; they add up to one -/
theorem C15_share (rows : List Obs) (i : Nat) (g : String) (hg : (mkTable rows).geos[i]? = some g) :
    (mkTable rows).share[i]? = some (meanOf rows g / totalMean rows) := by
  simp only [mkTable] at hg
  simp [mkTable, hg]

theorem C15_share_sum (rows : List Obs) (h : totalMean rows ≠ 0) : sumQ (mkTable rows).share = 1 := by
  show sumQ ((order rows).map fun g => meanOf rows g / totalMean rows) = 1
  rw [sumQ_map_div]
  show totalMean rows / totalMean rows = 1
  grind

/-- aggregation = sums of the corresponding rows / shares, in the order fixed by the chosen geo index -/
theorem C15_aggregate_nil (t : Table) (idx : List String) :
    aggregateSeries t idx [] = zeros t.dates.length ∧ aggregateShare t idx [] = 0 :=
  ⟨rfl, rfl⟩

theorem C15_aggregate_cons (t : Table) (idx : List String) (s : List Nat) (i : Nat)
    (hshape : ∀ r ∈ t.cells, r.length = t.dates.length) :
    aggregateSeries t idx (s ++ [i]) = addRows (aggregateSeries t idx s) (seriesOf t (idx.getD i "")) ∧
    aggregateShare t idx (s ++ [i]) = aggregateShare t idx s + shareOfGeo t (idx.getD i "") := by
  have _ := hshape   -- not needed: the recursion equations hold for any table
  constructor
  · simp [aggregateSeries, List.foldl_append]
  · simp [aggregateShare, Rat.add_zero]

/-- pointwise: the j-th entry of an aggregate is the sum of the j-th cells -/
theorem C15_aggregate_pointwise (t : Table) (idx : List String) (s : List Nat) (j : Nat)
    (hj : j < t.dates.length) (hshape : ∀ r ∈ t.cells, r.length = t.dates.length) :
    (aggregateSeries t idx s).getD j 0 = sumQ (s.map fun i => (seriesOf t (idx.getD i "")).getD j 0) :=
  getD_aggregateSeries t idx s j hj hshape

/-- the aggregate depends on the index set only as a multiset (sets of indices may be iterated in any order) -/
theorem C15_aggregate_perm (t : Table) (idx : List String) (s s' : List Nat) (h : s.Perm s')
    (hshape : ∀ r ∈ t.cells, r.length = t.dates.length) :
    aggregateSeries t idx s = aggregateSeries t idx s' ∧ aggregateShare t idx s = aggregateShare t idx s' := by
  constructor
  · apply ext_getD _ _ t.dates.length (length_aggregateSeries t idx s hshape) (length_aggregateSeries t idx s' hshape)
    intro j hj
    rw [getD_aggregateSeries t idx s j hj hshape, getD_aggregateSeries t idx s' j hj hshape]
    exact sumQ_perm (h.map _)
  · exact sumQ_perm (h.map _)

/-- truncation keeps the most recent n dates of every row -/
theorem C15_truncate (t : Table) (n : Nat) (hshape : ∀ r ∈ t.cells, r.length = t.dates.length) :
    (truncate t n).dates = t.dates.drop (t.dates.length - n) ∧
    (truncate t n).dates.length = min n t.dates.length ∧
    ∀ r ∈ (truncate t n).cells, r.length = (truncate t n).dates.length := by
  refine ⟨rfl, ?_, ?_⟩
  · simp only [truncate, List.length_drop]; omega
  · intro r hr
    simp only [truncate, List.mem_map] at hr
    obtain ⟨r', hr', rfl⟩ := hr
    simp only [truncate, List.length_drop, hshape r' hr']

/-- reconciliation: rejected with ValueError exactly when a geo that may not be excluded is absent
from the data; otherwise the table restricted to the geos in the data -/
theorem C15_reconcile_reject (elig : List Elig.Row) (dataGeos : List String) :
    reconcile elig dataGeos = .error .valueError ↔ ∃ r ∈ elig, r.geo ∉ dataGeos ∧ r.x ≠ .one := by
  unfold reconcile
  simp only []
  split
  · rename_i h
    simp only [true_iff]
    simpa [mayBeExcluded] using h
  · rename_i h
    simp only [reduceCtorEq, false_iff]
    simpa [mayBeExcluded] using h

theorem C15_reconcile_ok (elig : List Elig.Row) (dataGeos : List String)
    (h : ∀ r ∈ elig, r.geo ∉ dataGeos → r.x = .one) :
    reconcile elig dataGeos = .ok (elig.filter fun r => dataGeos.contains r.geo) := by
  unfold reconcile
  simp only []
  split
  · rename_i h'
    exfalso
    simp only [List.any_eq_true, List.mem_filter, mayBeExcluded] at h'
    obtain ⟨r, ⟨hr, hc⟩, hx⟩ := h'
    have := h r hr (by simpa using hc)
    simp [this] at hx
  · rfl

theorem C15_reconcile_total (elig : List Elig.Row) (dataGeos : List String) :
    (∃ e, reconcile elig dataGeos = .ok e) ∨ reconcile elig dataGeos = .error .valueError := by
  unfold reconcile
  simp only []
  split
  · exact Or.inr rfl
  · exact Or.inl ⟨_, rfl⟩

/-- assignable = eligible minus must-exclude; the index setter rejects anything else with ValueError -/
theorem C15_assignable (elig : List Elig.Row) (g : String) :
    g ∈ assignable elig ↔ ∃ r ∈ elig, r.geo = g ∧ ¬ (r.c = .zero ∧ r.t = .zero ∧ r.x = .one) := by
  have hx : ∀ r : Elig.Row, (!isXFixed r) = true ↔ ¬ (r.c = .zero ∧ r.t = .zero ∧ r.x = .one) := by
    intro r; simp only [isXFixed, Bool.not_eq_true', Bool.and_eq_false_iff, beq_eq_false_iff_ne]; grind
  simp only [assignable, List.mem_map, List.mem_filter, hx]
  constructor
  · rintro ⟨r, ⟨hr, h⟩, rfl⟩
    exact ⟨r, hr, rfl, h⟩
  · rintro ⟨r, hr, rfl, h⟩
    exact ⟨r, ⟨hr, h⟩, rfl⟩

theorem C15_set_index (elig : List Elig.Row) (geos : List String) :
    (setGeoIndex elig geos = .ok geos ↔ ∀ g ∈ geos, g ∈ assignable elig) ∧
    (setGeoIndex elig geos = .ok geos ∨ setGeoIndex elig geos = .error .valueError) := by
  unfold setGeoIndex
  split
  · rename_i h
    refine ⟨?_, Or.inl rfl⟩
    simp only [true_iff]
    simpa using h
  · rename_i h
    refine ⟨?_, Or.inr rfl⟩
    simp only [reduceCtorEq, false_iff]
    simpa using h

/-! ## C12 (presentation invariance of the pivot)

The canonical table does not depend on the order of the input rows (when no two geos have the same
mean) nor, up to the column labels, on a strictly monotone relabelling of the dates. -/

theorem C12_cell_perm (rows rows' : List Obs) (h : rows.Perm rows') (g : String) (d : Nat) :
    cell rows' g d = cell rows g d := cell_perm h g d

theorem C12_dates_perm (rows rows' : List Obs) (h : rows.Perm rows') : datesOf rows' = datesOf rows :=
  datesOf_perm h

theorem C12_mean_perm (rows rows' : List Obs) (h : rows.Perm rows') (g : String) :
    meanOf rows' g = meanOf rows g := meanOf_perm h g

theorem C12_pivot_perm (rows rows' : List Obs) (h : rows.Perm rows')
    (hdistinct : ∀ g1 ∈ geosOf rows, ∀ g2 ∈ geosOf rows, g1 ≠ g2 → meanOf rows g1 ≠ meanOf rows g2) :
    mkTable rows' = mkTable rows := by
  have ho : order rows' = order rows := order_of_perm h hdistinct
  have hm : meanOf rows' = meanOf rows := funext (meanOf_perm h)
  have hr : rowOf rows' = rowOf rows := funext (rowOf_perm h)
  have ht : totalMean rows' = totalMean rows := by unfold totalMean; rw [ho, hm]
  unfold mkTable
  simp only [ho, hm, hr, ht, datesOf_perm h]

/-- shifting / strictly monotone relabelling of dates relabels the columns and leaves everything else unchanged -/
theorem C12_pivot_dates (rows : List Obs) (f : Nat → Nat) (hf : ∀ a b, a < b → f a < f b) :
    let rows' := rows.map fun o => { o with date := f o.date }
    (mkTable rows').geos = (mkTable rows).geos ∧ (mkTable rows').dates = (mkTable rows).dates.map f ∧
    (mkTable rows').cells = (mkTable rows).cells ∧ (mkTable rows').share = (mkTable rows).share := by
  intro rows'
  have hm : meanOf rows' = meanOf rows := funext (meanOf_map_date rows f hf)
  have hr : rowOf rows' = rowOf rows := funext (rowOf_map_date rows f hf)
  have hg : geosOf rows' = geosOf rows := by simp [rows', geosOf, List.map_map, Function.comp_def]
  have ho : order rows' = order rows := order_congr rows rows' (by intro a b; rw [hm]) hg
  have ht : totalMean rows' = totalMean rows := by unfold totalMean; rw [ho, hm]
  refine ⟨ho, datesOf_map_date rows f hf, ?_, ?_⟩
  · show (order rows').map (rowOf rows') = (order rows).map (rowOf rows)
    rw [ho, hr]
  · show (order rows').map (fun g => meanOf rows' g / totalMean rows') = (order rows).map (fun g => meanOf rows g / totalMean rows)
    rw [ho, hm, ht]

/-- scaling every value by c > 0 scales the cells and leaves order and shares unchanged -/
theorem C12_pivot_scale (rows : List Obs) (c : Rat) (hc : 0 < c) :
    let rows' := rows.map fun o => { o with value := c * o.value }
    (mkTable rows').geos = (mkTable rows).geos ∧ (mkTable rows').dates = (mkTable rows).dates ∧
    (mkTable rows').cells = (mkTable rows).cells.map (·.map (c * ·)) ∧
    (totalMean rows ≠ 0 → (mkTable rows').share = (mkTable rows).share) := by
  intro rows'
  have hm : ∀ g, meanOf rows' g = c * meanOf rows g := meanOf_scale rows c
  have hg : geosOf rows' = geosOf rows := by simp [rows', geosOf, List.map_map, Function.comp_def]
  have ho : order rows' = order rows :=
    order_congr rows rows' (by intro a b; rw [hm, hm]; exact Rat.mul_lt_mul_left hc) hg
  have ht : totalMean rows' = c * totalMean rows := by
    unfold totalMean
    rw [ho, ← sumQ_map_mul_left]
    exact congrArg sumQ (List.map_congr_left fun g _ => hm g)
  refine ⟨ho, datesOf_map_value rows _, ?_, ?_⟩
  · show (order rows').map (rowOf rows') = ((order rows).map (rowOf rows)).map (·.map (c * ·))
    rw [ho, List.map_map]
    exact List.map_congr_left fun g _ => rowOf_scale rows c g
  · intro _
    show (order rows').map (fun g => meanOf rows' g / totalMean rows') = (order rows).map (fun g => meanOf rows g / totalMean rows)
    rw [ho, ht]
    refine List.map_congr_left fun g _ => ?_
    rw [hm]
    grind

/-! ## non-vacuity: a concrete frame

Seven observations, three geos, dates 10 < 20 < 30; geo "a" has two observations on date 10
(a duplicate (geo, date) pair: the cell is their mean) and geo "c" has none on date 20 (a missing
cell: zero). -/

def frame : List Obs :=
  [⟨"b", 20, 4⟩, ⟨"a", 10, 1⟩, ⟨"c", 30, 9⟩, ⟨"a", 10, 3⟩, ⟨"b", 10, 6⟩, ⟨"a", 30, 4⟩, ⟨"c", 10, 3⟩]

/-- the same observations presented in another order -/
def frame' : List Obs :=
  [⟨"c", 10, 3⟩, ⟨"a", 30, 4⟩, ⟨"a", 10, 3⟩, ⟨"b", 20, 4⟩, ⟨"c", 30, 9⟩, ⟨"a", 10, 1⟩, ⟨"b", 10, 6⟩]

#guard (mkTable frame).geos == ["c", "b", "a"]
#guard (mkTable frame).dates == [10, 20, 30]
#guard (mkTable frame).cells == [[3, 0, 9], [6, 4, 0], [2, 0, 4]]
#guard (mkTable frame).share == [(4 : Rat) / 28 * 3, (10 : Rat) / 28, (6 : Rat) / 28]
#guard geosOf frame == ["b", "a", "c"]
#guard geosOf frame' == ["c", "a", "b"]
#guard totalMean frame == (28 : Rat) / 3

/-- the duplicate pair ("a", 10) holds the mean of 1 and 3; the pair ("c", 20) is absent -/
example : cell frame "a" 10 = 2 ∧ cell frame "c" 20 = 0 := by decide +kernel
example : ∀ o ∈ frame, ¬ (o.geo = "c" ∧ o.date = 20) := by decide +kernel
example : (mkTable frame).geos = ["c", "b", "a"] ∧ (mkTable frame).dates = [10, 20, 30] ∧
    (mkTable frame).cells = [[3, 0, 9], [6, 4, 0], [2, 0, 4]] := by decide +kernel
example : totalMean frame ≠ 0 := by decide +kernel
example : sumQ (mkTable frame).share = 1 := C15_share_sum frame (by decide +kernel)

/-- the hypotheses of `C12_pivot_perm` hold on the frame -/
theorem frame_perm : frame.Perm frame' := by decide +kernel
theorem frame_distinct :
    ∀ g1 ∈ geosOf frame, ∀ g2 ∈ geosOf frame, g1 ≠ g2 → meanOf frame g1 ≠ meanOf frame g2 := by decide +kernel
example : mkTable frame' = mkTable frame := C12_pivot_perm frame frame' frame_perm frame_distinct

/-- the distinct-means hypothesis of `C12_pivot_perm` cannot be dropped: two geos with the same mean
come out in the order of their first appearance -/
def tie : List Obs := [⟨"x", 1, 5⟩, ⟨"y", 1, 5⟩]
def tie' : List Obs := [⟨"y", 1, 5⟩, ⟨"x", 1, 5⟩]
theorem tie_perm : tie.Perm tie' := by decide +kernel
theorem tie_geos : (mkTable tie).geos = ["x", "y"] ∧ (mkTable tie').geos = ["y", "x"] := by decide +kernel
theorem pivot_perm_needs_distinct : ¬ ∀ rows rows' : List Obs, rows.Perm rows' → mkTable rows' = mkTable rows := by
  intro h
  have := congrArg Table.geos (h tie tie' tie_perm)
  rw [tie_geos.1, tie_geos.2] at this
  exact absurd this (by decide)

/-- aggregation, truncation, reconciliation and the index setter on concrete inputs -/
def tbl : Table := mkTable frame
example : ∀ r ∈ tbl.cells, r.length = tbl.dates.length := (C15_shape frame).2.2
#guard aggregateSeries tbl ["a", "c"] [0, 1] == [5, 0, 13]
#guard aggregateSeries tbl ["a", "c"] [1, 0] == [5, 0, 13]
#guard aggregateShare tbl ["a", "c"] [0, 1] == (18 : Rat) / 28
#guard (truncate tbl 2).dates == [20, 30]
#guard (truncate tbl 2).cells == [[0, 9], [4, 0], [0, 4]]
#guard (truncate tbl 5).dates == [10, 20, 30]

def elig : List Elig.Row := [⟨"a", .one, .one, .zero⟩, ⟨"b", .zero, .zero, .one⟩, ⟨"z", .one, .zero, .one⟩, ⟨"w", .one, .one, .zero⟩]
example : reconcile elig ["a", "b", "c"] = .error .valueError :=      -- "w" may not be excluded
  (C15_reconcile_reject _ _).2 (by decide +kernel)
example : reconcile (elig.take 3) ["a", "b", "c"] = .ok (elig.take 2) :=      -- "z" may be excluded: dropped
  C15_reconcile_ok _ _ (by decide +kernel)
example : assignable (elig.take 2) = ["a"] := by decide +kernel
example : setGeoIndex (elig.take 2) ["a"] = .ok ["a"] := (C15_set_index _ _).1.2 (by decide +kernel)
example : setGeoIndex (elig.take 2) ["a", "b"] = .error .valueError :=
  (C15_set_index _ _).2.resolve_left fun h => absurd ((C15_set_index _ _).1.1 h) (by decide +kernel)

end MM.Data
