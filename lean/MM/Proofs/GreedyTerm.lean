/-
Termination of the greedy loop for NaN-free scores: within a control-matching phase the
score of the current control group strictly increases, so the number of strictly better
control groups (among the 2^n sub-lists of `range n`) strictly decreases.
-/
import MM.Proofs.GreedyInv
import MM.Proofs.GreedyOrder
import Mathlib.Data.List.Sublists

namespace MM.Search
open MM

theorem length_filter_le_of_imp {α : Type} (p q : α → Bool) (l : List α)
    (himp : ∀ x ∈ l, q x = true → p x = true) : (l.filter q).length ≤ (l.filter p).length := by
  induction l with
  | nil => simp
  | cons b l ih =>
    have ih' := ih (fun x hx => himp x (List.mem_cons_of_mem _ hx))
    have hb := himp b List.mem_cons_self
    cases hq : q b with
    | false =>
      rw [List.filter_cons_of_neg (by simp [hq])]
      cases hp : p b with
      | false => rw [List.filter_cons_of_neg (by simp [hp])]; exact ih'
      | true => rw [List.filter_cons_of_pos hp, List.length_cons]; omega
    | true =>
      rw [List.filter_cons_of_pos hq, List.filter_cons_of_pos (hb hq), List.length_cons,
        List.length_cons]
      omega

theorem length_filter_lt {α : Type} (p q : α → Bool) (l : List α)
    (himp : ∀ x ∈ l, q x = true → p x = true) {a : α} (ha : a ∈ l) (hp : p a = true)
    (hq : q a = false) : (l.filter q).length < (l.filter p).length := by
  induction l with
  | nil => simp at ha
  | cons b l ih =>
    have himp' : ∀ x ∈ l, q x = true → p x = true := fun x hx => himp x (List.mem_cons_of_mem _ hx)
    rcases List.mem_cons.1 ha with rfl | ha'
    · rw [List.filter_cons_of_neg (by simp [hq]), List.filter_cons_of_pos hp, List.length_cons]
      have := length_filter_le_of_imp p q l himp'
      omega
    · have ih' := ih himp' ha'
      have hb := himp b List.mem_cons_self
      cases hqb : q b with
      | false =>
        rw [List.filter_cons_of_neg (by simp [hqb])]
        cases hpb : p b with
        | false => rw [List.filter_cons_of_neg (by simp [hpb])]; exact ih'
        | true => rw [List.filter_cons_of_pos hpb, List.length_cons]; omega
      | true =>
        rw [List.filter_cons_of_pos hqb, List.filter_cons_of_pos (hb hqb), List.length_cons,
          List.length_cons]
        omega

/-- all strictly increasing lists of admitted geo indices -/
def allSubs (e : Env) : List GeoSet := List.sublists (List.range e.cls.length)

theorem length_allSubs (e : Env) : (allSubs e).length = 2 ^ e.cls.length := by
  simp [allSubs, List.length_sublists]

theorem mem_allSubs {e : Env} {C : GeoSet} (hs : SSorted C) (hlt : ∀ x ∈ C, x < e.cls.length) :
    C ∈ allSubs e :=
  List.mem_sublists.2 (sublist_range_of_sorted hs hlt)

/-- the number of control groups scoring strictly above `C` (for treatment group `T`) -/
def better (e : Env) (T C : GeoSet) : Nat :=
  ((allSubs e).filter fun C' => scoreLt (fullScore e T C) (fullScore e T C')).length

theorem better_le (e : Env) (T C : GeoSet) : better e T C ≤ 2 ^ e.cls.length := by
  unfold better
  rw [← length_allSubs]
  exact List.length_filter_le _ _

theorem better_lt {e : Env} (hnan : ∀ T C, scoreNaNFree (fullScore e T C) = true)
    {T C C' : GeoSet} (hC' : C' ∈ allSubs e)
    (hlt : scoreLt (fullScore e T C) (fullScore e T C') = true) :
    better e T C' < better e T C := by
  unfold better
  refine length_filter_lt _ _ _ ?_ hC' hlt (scoreLt_irrefl (hnan _ _))
  intro x _ hx
  exact scoreLt_trans (hnan _ _) (hnan _ _) (hnan _ _) hlt hx

/-! ### the measure -/

def phase (e : Env) (st : GState) : Nat :=
  if st.needs then better e (dictGet st.starTrt st.k) st.ctl + 2 else 1

theorem phase_le (e : Env) (st : GState) : phase e st ≤ 2 ^ e.cls.length + 2 := by
  unfold phase
  split
  · have := better_le e (dictGet st.starTrt st.k) st.ctl; omega
  · exact Nat.le_add_left 1 _ |>.trans (Nat.add_le_add_left (by omega : 1 ≤ 2) _)

theorem phase_pos (e : Env) (st : GState) : 1 ≤ phase e st := by
  unfold phase
  split <;> omega

def mu (e : Env) (H : Nat) (st : GState) : Nat := (H - st.k) * (2 ^ e.cls.length + 2) + phase e st

theorem step_decr {gp : Params} {e : Env} (hnan : ∀ T C, scoreNaNFree (fullScore e T C) = true)
    {H : Nat} (hH : (effTrtRange gp e).2.toNat ≤ H) {st : GState} (hinv : GInv e st)
    (hk : st.k ≤ H) (hrun : greedyRunning gp e st = true) :
    (greedyStep gp e st).k ≤ H ∧ mu e H (greedyStep gp e st) < mu e H st := by
  cases hn : st.needs with
  | true =>
    rw [greedyStep_needs gp e st hn]
    have hspec := (matchPass_spec gp e st.k (dictGet st.starTrt st.k) st.ctl).2
    have hpair := matchPass_invPair gp st.k hinv.cur
    split
    · rename_i himp
      refine ⟨hk, ?_⟩
      rw [hspec] at himp
      have := better_lt hnan (mem_allSubs hpair.sC hpair.lt_C) himp
      unfold mu phase
      simp only [hn, if_true]
      omega
    · refine ⟨hk, ?_⟩
      unfold mu phase
      simp only [hn, if_true, Bool.false_eq_true, if_false]
      omega
  | false =>
    rw [greedyStep_add gp e st hn]
    unfold greedyRunning at hrun
    simp only [hn, Bool.or_false, decide_eq_true_eq] at hrun
    have hlt : st.k < H := by omega
    refine ⟨by dsimp only; omega, ?_⟩
    have hph := phase_le e
      { st with
        ctl := (addPass gp e st.k (dictGet st.starTrt st.k) (dictGet st.starCtl st.k) st.ctl).1,
        starTrt := dictSet st.starTrt (st.k + 1)
          (addPass gp e st.k (dictGet st.starTrt st.k) (dictGet st.starCtl st.k) st.ctl).2.1,
        k := st.k + 1, needs := true }
    have hph0 : phase e st = 1 := by unfold phase; simp [hn]
    unfold mu
    rw [hph0]
    dsimp only at hph ⊢
    obtain ⟨d, hd⟩ : ∃ d, H - st.k = d + 1 := ⟨H - st.k - 1, by omega⟩
    have hd' : H - (st.k + 1) = d := by omega
    rw [hd, hd', Nat.succ_mul]
    omega

theorem greedyLoop_ne_none {gp : Params} {e : Env}
    (hnan : ∀ T C, scoreNaNFree (fullScore e T C) = true)
    {H : Nat} (hH : (effTrtRange gp e).2.toNat ≤ H) :
    ∀ (fuel : Nat) (st : GState), GInv e st → st.k ≤ H → mu e H st ≤ fuel →
      greedyLoop gp e fuel st ≠ none := by
  intro fuel
  induction fuel with
  | zero =>
    intro st _ _ hmu
    have := phase_pos e st
    unfold mu at hmu
    omega
  | succ n ih =>
    intro st hinv hk hmu
    unfold greedyLoop
    split
    · rename_i hrun
      obtain ⟨hk', hlt⟩ := step_decr hnan hH hinv hk hrun
      exact ih _ (hinv.step gp) hk' (by omega)
    · simp

theorem mu_init_le (e : Env) (hiN : Nat) :
    mu e (max hiN e.tFixed.length) (greedyInit e) ≤ (hiN + 1) * (2 ^ e.cls.length + 2) := by
  have hph := phase_le e (greedyInit e)
  unfold mu
  have hk : (greedyInit e).k = e.tFixed.length := rfl
  rw [hk, Nat.succ_mul]
  have : (max hiN e.tFixed.length - e.tFixed.length) * (2 ^ e.cls.length + 2)
      ≤ hiN * (2 ^ e.cls.length + 2) := Nat.mul_le_mul_right _ (by omega)
  omega

/-- the loop stops within `(hi + 1) * (2^n + 2)` steps, `hi` the effective maximal treatment size -/
theorem greedyLoop_terminates {gp : Params} {e : Env}
    (hnan : ∀ T C, scoreNaNFree (fullScore e T C) = true) (fuel : Nat)
    (hf : ((effTrtRange gp e).2.toNat + 1) * (2 ^ e.cls.length + 2) ≤ fuel) :
    greedyLoop gp e fuel (greedyInit e) ≠ none := by
  refine greedyLoop_ne_none hnan (H := max (effTrtRange gp e).2.toNat e.tFixed.length)
    (Nat.le_max_left _ _) fuel _ (GInv.init e) ?_ ?_
  · exact Nat.le_max_right _ _
  · exact Nat.le_trans (mu_init_le e _) hf

end MM.Search
