import MM.Props.Greedy

#print axioms MM.Search.C09_greedy_total
#print axioms MM.Search.greedy_fuel_mono
#print axioms MM.Search.C01_greedy
#print axioms MM.Search.C02_greedy
#print axioms MM.Search.C04_greedy_score
#print axioms MM.Search.C14_greedy
#print axioms MM.Search.evaluatedRaw_eq_filter
#print axioms MM.Search.C13_greedy_in_evaluated
#print axioms MM.Search.C13_empty
#print axioms MM.Search.C13_not_better
#print axioms MM.Search.C09_greedy_terminates
#print axioms MM.Search.C09_greedy_terminates_partial
#print axioms MM.Search.C09_greedy_terminates_original_false
