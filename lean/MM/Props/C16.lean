/-
C16: `GeoEligibility` accepts exactly the well-formed eligibility tables (ValueError
otherwise) and `get_eligible_assignments(geos, indices)` partitions the selected geos into
the seven documented classes, by ID or by position in the given order.

Model: `MM/Model/Elig.lean`; the set algebra of `GeoAssignments.__init__` is GENERATED
(`MM/Generated/EligGen.lean`).  The generated formulas are only inspected in
`C16_formulas`, by case analysis on `(c t x : Bool)` and `decide`, so that theorem is
re-checked against whatever the translator emits; every other proof uses the formulas
only through `C16_formulas`.  Helper lemmas: `MM/Proofs/Elig.lean`.
-/
import MM.Proofs.Elig
import Mathlib.Logic.ExistsUnique

namespace MM.Elig
open MM

/-! ## validation -/

/-- the documented acceptance condition, written independently of `validate` -/
def WellFormed (tb : Table) : Prop :=
  tb.hasGeo = true ∧ tb.dupCols = false ∧ tb.missingCols = false ∧ (tb.rows.map (·.geo)).Nodup ∧
  (∀ r ∈ tb.rows, r.c ≠ .other ∧ r.t ≠ .other ∧ r.x ≠ .other) ∧
  (∀ r ∈ tb.rows, ¬ (r.c = .zero ∧ r.t = .zero ∧ r.x = .zero))

theorem C16_validate_total (tb : Table) :
    validate tb = .ok tb.rows ∨ validate tb = .error .valueError := by
  unfold validate
  repeat' split
  all_goals first | exact Or.inl rfl | exact Or.inr rfl

theorem C16_accept_iff (tb : Table) : validate tb = .ok tb.rows ↔ WellFormed tb := by
  unfold validate WellFormed
  rw [← any_bad_eq_false_iff, ← any_zero_eq_false_iff]
  cases tb.hasGeo <;> cases tb.dupCols <;> cases tb.missingCols <;>
    cases tb.rows.any Row.bad <;> cases tb.rows.any Row.zero <;>
    by_cases h : (tb.rows.map (·.geo)).Nodup <;> simp [h]

theorem C16_reject_valueError (tb : Table) : ¬ WellFormed tb → validate tb = .error .valueError := by
  intro h
  rcases C16_validate_total tb with h' | h'
  · exact absurd ((C16_accept_iff tb).1 h') h
  · exact h'

/-! ## classes -/

/-- the class a row encodes (the table in the GeoEligibility docstring) -/
inductive Cls | c_fixed | t_fixed | x_fixed | ct | cx | ctx | tx
deriving DecidableEq, Repr

def clsOfCode : Bool → Bool → Bool → Option Cls
  | true, false, false => some .c_fixed
  | false, true, false => some .t_fixed
  | false, false, true => some .x_fixed
  | true, true, false => some .ct
  | true, false, true => some .cx
  | true, true, true => some .ctx
  | false, true, true => some .tx
  | false, false, false => none

def Assignments.cls (a : Assignments) : Cls → List Ref
  | .c_fixed => a.c_fixed
  | .t_fixed => a.t_fixed
  | .x_fixed => a.x_fixed
  | .ct => a.ct
  | .cx => a.cx
  | .ctx => a.ctx
  | .tx => a.tx

/-- a row of an accepted table -/
def Row.legal (r : Row) : Prop :=
  r.c ≠ .other ∧ r.t ≠ .other ∧ r.x ≠ .other ∧ ¬ (r.c = .zero ∧ r.t = .zero ∧ r.x = .zero)

/-- generated-formula obligations (finite, by decide): each of the 7 legal codes satisfies
exactly the formula of its class and `f_all`; c/t/x are the columns -/
theorem C16_formulas (c t x : Bool) (k : Cls) : clsOfCode c t x = some k →
    (∀ k', (match k' with
        | .c_fixed => MM.Gen.Elig.f_c_fixed c t x
        | .t_fixed => MM.Gen.Elig.f_t_fixed c t x
        | .x_fixed => MM.Gen.Elig.f_x_fixed c t x
        | .ct => MM.Gen.Elig.f_ct c t x
        | .cx => MM.Gen.Elig.f_cx c t x
        | .ctx => MM.Gen.Elig.f_ctx c t x
        | .tx => MM.Gen.Elig.f_tx c t x) = decide (k' = k)) ∧
    MM.Gen.Elig.f_all c t x = true ∧ MM.Gen.Elig.f_c c t x = c ∧ MM.Gen.Elig.f_t c t x = t ∧
    MM.Gen.Elig.f_x c t x = x := by
  cases c <;> cases t <;> cases x <;> intro h <;> cases h <;>
    exact ⟨fun k' => by cases k' <;> decide, by decide, by decide, by decide, by decide⟩

/-- the generated formula of a class -/
def fOf : Cls → Bool → Bool → Bool → Bool
  | .c_fixed => MM.Gen.Elig.f_c_fixed
  | .t_fixed => MM.Gen.Elig.f_t_fixed
  | .x_fixed => MM.Gen.Elig.f_x_fixed
  | .ct => MM.Gen.Elig.f_ct
  | .cx => MM.Gen.Elig.f_cx
  | .ctx => MM.Gen.Elig.f_ctx
  | .tx => MM.Gen.Elig.f_tx

theorem fOf_eq {c t x : Bool} {k : Cls} (h : clsOfCode c t x = some k) (k' : Cls) :
    fOf k' c t x = decide (k' = k) := by
  have := (C16_formulas c t x k h).1 k'
  cases k' <;> exact this

theorem cls_ofSel (l : List (Ref × Row)) (k : Cls) : (ofSel l).cls k = pick (fOf k) l := by
  cases k <;> rfl

/-- the class encoded by the three column tests of a row (`none` for the all-zero code) -/
abbrev Row.cls (r : Row) : Option Cls := clsOfCode (r.c == .one) (r.t == .one) (r.x == .one)

theorem Row.legal.cls {r : Row} (h : r.legal) : ∃ k, r.cls = some k := by
  obtain ⟨g, c, t, x⟩ := r
  obtain ⟨hc, ht, hx, hz⟩ := h
  cases c <;> cases t <;> cases x <;>
    first
    | exact ⟨_, rfl⟩
    | exact absurd rfl hc
    | exact absurd rfl ht
    | exact absurd rfl hx
    | exact absurd ⟨rfl, rfl, rfl⟩ hz

theorem Row.legal.f_all {r : Row} (h : r.legal) : app MM.Gen.Elig.f_all r = true := by
  obtain ⟨k, hk⟩ := h.cls
  exact (C16_formulas _ _ _ k hk).2.1

/-! ## the partition -/

/-- what `assignments` computes for an ordered subset of a legal table -/
theorem subset_struct (rows : List Row) (hleg : ∀ r ∈ rows, r.legal)
    (gs : List String) (hgs : gs.Nodup) (hsub : ∀ g ∈ gs, g ∈ rows.map (·.geo)) (indices : Bool) :
    ∃ sel : List Row, ∃ hlen : sel.length = gs.length,
      (∀ i (hi : i < gs.length), (sel[i]'(hlen ▸ hi)).geo = gs[i]) ∧ (∀ r ∈ sel, r ∈ rows) ∧
      assignments rows (some gs) indices = .ok (ofSel ((refs indices gs).zip sel)) ∧
      (((refs indices gs).zip sel).map (·.1)).Nodup ∧
      (ofSel ((refs indices gs).zip sel)).all = refs indices gs := by
  obtain ⟨sel, hgeo, hin, hs⟩ := select_some rows gs hsub indices
  have hlen : sel.length = gs.length := by rw [← hgeo, List.length_map]
  refine ⟨sel, hlen, ?_, hin, assignments_eq hs, ?_, ?_⟩
  · intro i hi
    subst hgeo
    simp
  · rw [zip_fst hlen]; exact refs_nodup indices gs hgs
  · show pick MM.Gen.Elig.f_all _ = _
    rw [pick_eq_all, zip_fst hlen]
    intro p hp
    exact (hleg _ (hin _ (List.of_mem_zip hp).2)).f_all

/-- partition for any ordered subset `gs` (nodup, all in the table) of an accepted table,
IDs or indices -/
theorem C16_partition (rows : List Row) (hnd : (rows.map (·.geo)).Nodup) (hleg : ∀ r ∈ rows, r.legal)
    (gs : List String) (hgs : gs.Nodup) (hsub : ∀ g ∈ gs, g ∈ rows.map (·.geo)) (indices : Bool) :
    ∃ a, assignments rows (some gs) indices = .ok a ∧
      a.all = (if indices then (List.range gs.length).map Ref.idx else gs.map Ref.id) ∧
      a.all.Nodup ∧
      (∀ ref ∈ a.all, ∃! k, ref ∈ a.cls k) ∧           -- every selected geo in exactly one class
      (∀ k, ∀ ref ∈ a.cls k, ref ∈ a.all) ∧             -- classes contain nothing else
      (∀ k, (a.cls k).Nodup) := by
  have _ := hnd  -- not needed: `df.loc` on an accepted table finds the unique row anyway
  obtain ⟨sel, hlen, _, hin, ha, hnodup, hall⟩ := subset_struct rows hleg gs hgs hsub indices
  refine ⟨_, ha, hall, ?_, ?_, ?_, ?_⟩
  · rw [hall]; exact refs_nodup indices gs hgs
  · intro ref href
    obtain ⟨r, hr, _⟩ := mem_pick.1 href
    obtain ⟨k, hk⟩ := (hleg r (hin r (List.of_mem_zip hr).2)).cls
    refine ⟨k, ?_, ?_⟩
    · show ref ∈ (ofSel _).cls k
      rw [cls_ofSel, mem_pick_iff hnodup hr]
      show fOf k _ _ _ = true
      rw [fOf_eq hk]; simp
    · intro k' hk'
      have hk' : ref ∈ (ofSel _).cls k' := hk'
      rw [cls_ofSel, mem_pick_iff hnodup hr] at hk'
      have hk' : fOf k' _ _ _ = true := hk'
      rw [fOf_eq hk] at hk'
      simpa using hk'
  · intro k ref href
    rw [cls_ofSel] at href
    obtain ⟨r, hr, _⟩ := mem_pick.1 href
    rw [hall, ← zip_fst hlen]
    exact List.mem_map_of_mem (f := (·.1)) hr
  · intro k
    rw [cls_ofSel]
    exact pick_nodup _ hnodup

/-- the common core of `C16_class_of_row` / `C16_columns`: the `i`-th reference is in
`pick f` of the selected list iff `f` holds of the row of `gs[i]` -/
theorem mem_pick_row (rows : List Row) (hnd : (rows.map (·.geo)).Nodup) (hleg : ∀ r ∈ rows, r.legal)
    (gs : List String) (hgs : gs.Nodup) (hsub : ∀ g ∈ gs, g ∈ rows.map (·.geo)) (indices : Bool)
    (a : Assignments) (ha : assignments rows (some gs) indices = .ok a) (i : Nat) (hi : i < gs.length)
    (r : Row) (hr : r ∈ rows) (hg : r.geo = gs[i]) :
    ∃ l, a = ofSel l ∧ ∀ f, (if indices then Ref.idx i else Ref.id gs[i]) ∈ pick f l ↔ app f r = true := by
  obtain ⟨sel, hlen, hgeo, hin, ha', hnodup, _⟩ := subset_struct rows hleg gs hgs hsub indices
  rw [ha] at ha'
  refine ⟨_, Except.ok.inj ha', fun f => ?_⟩
  have hmem := zip_mem (indices := indices) hlen i hi
  have hri : sel[i]'(hlen ▸ hi) = r :=
    inj_of_nodup_map (·.geo) hnd (hin _ (List.getElem_mem _)) hr ((hgeo i hi).trans hg.symm)
  rw [hri] at hmem
  exact mem_pick_iff hnodup hmem

/-- each geo falls in the class its row encodes; positions refer to the given order -/
theorem C16_class_of_row (rows : List Row) (hnd : (rows.map (·.geo)).Nodup) (hleg : ∀ r ∈ rows, r.legal)
    (gs : List String) (hgs : gs.Nodup) (hsub : ∀ g ∈ gs, g ∈ rows.map (·.geo)) (indices : Bool)
    (a : Assignments) (ha : assignments rows (some gs) indices = .ok a) (i : Nat) (hi : i < gs.length)
    (r : Row) (hr : r ∈ rows) (hg : r.geo = gs[i]) (k : Cls) :
    (if indices then Ref.idx i else Ref.id gs[i]) ∈ a.cls k ↔
      clsOfCode (r.c == .one) (r.t == .one) (r.x == .one) = some k := by
  obtain ⟨l, rfl, h⟩ := mem_pick_row rows hnd hleg gs hgs hsub indices a ha i hi r hr hg
  obtain ⟨k0, hk0⟩ := (hleg r hr).cls
  have hk0 : clsOfCode (r.c == .one) (r.t == .one) (r.x == .one) = some k0 := hk0
  rw [cls_ofSel, h]
  show fOf k _ _ _ = true ↔ _
  rw [fOf_eq hk0, hk0]
  simp [eq_comm]

/-- and membership in c / t / x is the column value -/
theorem C16_columns (rows : List Row) (hnd : (rows.map (·.geo)).Nodup) (hleg : ∀ r ∈ rows, r.legal)
    (gs : List String) (hgs : gs.Nodup) (hsub : ∀ g ∈ gs, g ∈ rows.map (·.geo)) (indices : Bool)
    (a : Assignments) (ha : assignments rows (some gs) indices = .ok a) (i : Nat) (hi : i < gs.length)
    (r : Row) (hr : r ∈ rows) (hg : r.geo = gs[i]) :
    ((if indices then Ref.idx i else Ref.id gs[i]) ∈ a.c ↔ r.c = .one) ∧
    ((if indices then Ref.idx i else Ref.id gs[i]) ∈ a.t ↔ r.t = .one) ∧
    ((if indices then Ref.idx i else Ref.id gs[i]) ∈ a.x ↔ r.x = .one) := by
  obtain ⟨l, rfl, h⟩ := mem_pick_row rows hnd hleg gs hgs hsub indices a ha i hi r hr hg
  obtain ⟨k0, hk0⟩ := (hleg r hr).cls
  obtain ⟨_, _, hc, ht, hx⟩ := C16_formulas _ _ _ k0 hk0
  refine ⟨?_, ?_, ?_⟩
  · show _ ∈ pick MM.Gen.Elig.f_c l ↔ _
    rw [h]; show MM.Gen.Elig.f_c _ _ _ = true ↔ _
    rw [hc]; simp
  · show _ ∈ pick MM.Gen.Elig.f_t l ↔ _
    rw [h]; show MM.Gen.Elig.f_t _ _ _ = true ↔ _
    rw [ht]; simp
  · show _ ∈ pick MM.Gen.Elig.f_x l ↔ _
    rw [h]; show MM.Gen.Elig.f_x _ _ _ = true ↔ _
    rw [hx]; simp

/-! ## `geos = None`, the empty subset, unknown geos -/

/-- geos = None: all geos by ID -/
theorem C16_all_geos (rows : List Row) (hleg : ∀ r ∈ rows, r.legal) :
    ∃ a, assignments rows none false = .ok a ∧ a.all = rows.map (fun r => Ref.id r.geo) := by
  refine ⟨_, assignments_eq (select_none_false rows), ?_⟩
  show pick MM.Gen.Elig.f_all _ = _
  rw [pick_eq_all, List.map_map]
  · rfl
  · intro p hp
    obtain ⟨r, hr, rfl⟩ := List.mem_map.1 hp
    exact (hleg r hr).f_all

/-- indices without geos is rejected with ValueError -/
theorem C16_indices_need_geos (rows : List Row) : assignments rows none true = .error .valueError := rfl

theorem C16_empty_subset (rows : List Row) (indices : Bool) :
    ∃ a, assignments rows (some []) indices = .ok a ∧ a.all = [] ∧ ∀ k, a.cls k = [] := by
  have hs : select rows (some []) indices = .ok [] := by cases indices <;> rfl
  refine ⟨_, assignments_eq hs, rfl, fun k => ?_⟩
  rw [cls_ofSel]; rfl

/-- unknown geo → KeyError -/
theorem C16_unknown_geo (rows : List Row) (gs : List String) (indices : Bool)
    (h : ∃ g ∈ gs, g ∉ rows.map (·.geo)) : assignments rows (some gs) indices = .error .keyError := by
  unfold assignments
  rw [select_some_err rows gs indices h]
  rfl

/-! ## non-vacuity -/

instance : DecidablePred Row.legal := fun r => by unfold Row.legal; infer_instance

/-- an 8-row table with all seven legal codes (`ctx` twice) -/
def demoRows : List Row :=
  [⟨"a", .one, .zero, .zero⟩, ⟨"b", .zero, .one, .zero⟩, ⟨"c", .zero, .zero, .one⟩,
   ⟨"d", .one, .one, .zero⟩, ⟨"e", .one, .zero, .one⟩, ⟨"f", .one, .one, .one⟩,
   ⟨"g", .zero, .one, .one⟩, ⟨"h", .one, .one, .one⟩]

def demoTable : Table := ⟨true, false, false, demoRows⟩

/-- accepted -/
example : validate demoTable = .ok demoRows := rfl
example : WellFormed demoTable := (C16_accept_iff demoTable).1 rfl
/-- the hypotheses of the partition theorems hold for it -/
example : (demoRows.map (·.geo)).Nodup := by decide
example : ∀ r ∈ demoRows, r.legal := by decide
/-- all rows in reversed order, by position: position `i` is geo `"h g f e d c b a"[i]` -/
example : assignments demoRows (some ["h", "g", "f", "e", "d", "c", "b", "a"]) true = .ok
    { all := [.idx 0, .idx 1, .idx 2, .idx 3, .idx 4, .idx 5, .idx 6, .idx 7],
      c := [.idx 0, .idx 2, .idx 3, .idx 4, .idx 7],
      t := [.idx 0, .idx 1, .idx 2, .idx 4, .idx 6],
      x := [.idx 0, .idx 1, .idx 2, .idx 3, .idx 5],
      c_fixed := [.idx 7], t_fixed := [.idx 6], x_fixed := [.idx 5], ct := [.idx 4], cx := [.idx 3],
      ctx := [.idx 0, .idx 2], tx := [.idx 1] } := rfl
/-- a proper subset in non-table order, by position and by ID -/
example : assignments demoRows (some ["g", "a", "d"]) true = .ok
    { all := [.idx 0, .idx 1, .idx 2], c := [.idx 1, .idx 2], t := [.idx 0, .idx 2], x := [.idx 0],
      c_fixed := [.idx 1], t_fixed := [], x_fixed := [], ct := [.idx 2], cx := [], ctx := [],
      tx := [.idx 0] } := rfl
example : assignments demoRows (some ["g", "a", "d"]) false = .ok
    { all := [.id "g", .id "a", .id "d"], c := [.id "a", .id "d"], t := [.id "g", .id "d"],
      x := [.id "g"], c_fixed := [.id "a"], t_fixed := [], x_fixed := [], ct := [.id "d"], cx := [],
      ctx := [], tx := [.id "g"] } := rfl
/-- the general theorems instantiate on it -/
example := C16_partition demoRows (by decide) (by decide) ["h", "g", "f", "e", "d", "c", "b", "a"]
  (by decide) (by decide) true
example : assignments demoRows (some ["a", "nope"]) false = .error .keyError := rfl
example : assignments demoRows none true = .error .valueError := rfl

/-- the all-zero row is rejected -/
def zeroTable : Table := ⟨true, false, false, [⟨"a", .one, .zero, .zero⟩, ⟨"z", .zero, .zero, .zero⟩]⟩
example : validate zeroTable = .error .valueError := rfl
example : ¬ WellFormed zeroTable := fun h =>
  h.2.2.2.2.2 ⟨"z", .zero, .zero, .zero⟩ (by decide) ⟨rfl, rfl, rfl⟩

/-- duplicate geo IDs are rejected -/
def dupTable : Table := ⟨true, false, false, [⟨"a", .one, .zero, .zero⟩, ⟨"a", .zero, .one, .zero⟩]⟩
example : validate dupTable = .error .valueError := rfl
example : ¬ WellFormed dupTable := fun h => absurd h.2.2.2.1 (by decide)

/-- values other than 0/1 and missing columns are rejected -/
example : validate ⟨true, false, false, [⟨"a", .one, .other, .zero⟩]⟩ = .error .valueError := rfl
example : validate ⟨true, false, true, demoRows⟩ = .error .valueError := rfl

end MM.Elig
