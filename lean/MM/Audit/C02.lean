import MM.Props.Exhaustive
import MM.Props.Greedy
#print axioms MM.Search.notSat_false_iff
#print axioms MM.Search.C02_exhaustive_evaluated
#print axioms MM.Search.C02_exhaustive
#print axioms MM.Search.C02_greedy
#print axioms MM.Search.C02_none_imposes_nothing
