/-
Shared specification vocabulary for the search properties (C01, C02, C03, C09, C13):
the property sentences written as Props over index sets, independently of the search code.
`Legal` (C01's sentence minus non-emptiness) lives in MM.Proofs.CountListing.
-/
import MM.Model.Search
import MM.Proofs.CountListing
namespace MM.Search
open MM

/-- C01 on index sets: legal assignment with both groups non-empty. -/
def LegalDesign (e : Env) (T C : GeoSet) : Prop := Legal e.cls T C ∧ T ≠ [] ∧ C ≠ []

/-- well-formed inputs: the precondition under which ratios and budgets are ordinary numbers. -/
structure WF (p : Params) (e : Env) : Prop where
  sharePos : ∀ i, i < e.cls.length → 0 < e.share i
  iroasPos : 0 < p.iroas
  impactFin : ∀ T C, ∃ q, e.impact T C = .fin q
  optFin : ∀ T, ∃ q, e.optImpact T = .fin q
  volTolPos : ∀ τ, p.volTol = some τ → 0 < τ
  geoTolPos : ∀ τ, p.geoTol = some τ → 0 < τ

/-- required budget of a design / optimistic budget of a treatment group, as rationals (under WF). -/
def impactQ (e : Env) (T C : GeoSet) : Rat := match e.impact T C with | .fin q => q | _ => 0
def optQ (e : Env) (T : GeoSet) : Rat := match e.optImpact T with | .fin q => q | _ => 0

/-- the six constraints of C02 (inclusive bounds); an unspecified constraint imposes nothing. -/
def TrtSizeOk (p : Params) (T : GeoSet) : Prop :=
  ∀ r, p.trtRange = some r → r.1 ≤ (T.length : Int) ∧ (T.length : Int) ≤ r.2
def CtlSizeOk (p : Params) (C : GeoSet) : Prop :=
  ∀ r, p.ctlRange = some r → r.1 ≤ (C.length : Int) ∧ (C.length : Int) ≤ r.2
def GeoRatioOk (p : Params) (T C : GeoSet) : Prop :=
  ∀ τ, p.geoTol = some τ →
    1 / (1 + τ) ≤ (C.length : Rat) / (T.length : Rat) ∧ (C.length : Rat) / (T.length : Rat) ≤ 1 + τ
def VolRatioOk (p : Params) (e : Env) (T C : GeoSet) : Prop :=
  ∀ τ, p.volTol = some τ →
    1 / (1 + τ) ≤ shareOf e C / shareOf e T ∧ shareOf e C / shareOf e T ≤ 1 + τ
/-- reading A: treatment share against all geos in the data -/
def ShareOkA (p : Params) (e : Env) (T : GeoSet) : Prop :=
  ∀ r, p.shareRange = some r → r.1 ≤ shareOf e T ∧ shareOf e T ≤ r.2
/-- reading B: treatment share against the geos admitted to the search -/
def ShareOkB (p : Params) (e : Env) (T : GeoSet) : Prop :=
  ∀ r, p.shareRange = some r → r.1 ≤ shareOf e T / shareOf e e.all ∧ shareOf e T / shareOf e e.all ≤ r.2
def BudgetOk (p : Params) (e : Env) (T C : GeoSet) : Prop :=
  ∀ r, p.budgetRange = some r → r.1 ≤ impactQ e T C / p.iroas ∧ impactQ e T C / p.iroas ≤ r.2

/-- feasible for the exhaustive search: legal (C01) and within all constraints (C02, reading A) -/
def Feasible (p : Params) (e : Env) (T C : GeoSet) : Prop :=
  LegalDesign e T C ∧ TrtSizeOk p T ∧ CtlSizeOk p C ∧ GeoRatioOk p T C ∧ VolRatioOk p e T C ∧
  ShareOkA p e T ∧ BudgetOk p e T C

/-- an admissible treatment group: what `treatment_group_generator` lists for an admissible size -/
def AdmissibleTrt (p : Params) (e : Env) (S : GeoSet) : Prop :=
  S.length ∈ trtSizeRange p e ∧ S ∈ trtGroups e S.length

/-- the designs C03 allows the exhaustive search to omit: the optimistic budget of the treatment
group, or of an admissible sub-group of it, lies outside the budget range. -/
def Omittable (p : Params) (e : Env) (T : GeoSet) : Prop :=
  ∃ r, p.budgetRange = some r ∧
    (optQ e T / p.iroas < r.1 ∨ r.2 < optQ e T / p.iroas ∨
     ∃ S, AdmissibleTrt p e S ∧ (∀ i ∈ S, i ∈ T) ∧ r.2 < optQ e S / p.iroas)

/-- NaN-free scores: Python's tuple order is then a strict weak order -/
def ScoresNaNFree (p : Params) (e : Env) : Prop :=
  ∀ T C, scoreNaNFree (mkDesign p e T C).score = true ∧ scoreNaNFree (fullScore e T C) = true ∧
    (e.score5 T C).length = 5

end MM.Search
