/-
Helper lemmas for C19 (screening orchestration of `TBRDiagnostics.fit`) over `MM/Model/Screen.lean`.
No Mathlib imports.
-/
import MM.Model.Screen
namespace MM.Screen
open MM

/-! ### insertNat / datesOf -/

theorem mem_insertNat (a d : Nat) (l : List Nat) : d ∈ insertNat a l ↔ d = a ∨ d ∈ l := by
  induction l with
  | nil => simp [insertNat]
  | cons b l ih =>
    unfold insertNat
    split
    · simp
    · split
      · subst_vars; simp
      · simp [ih]; grind

theorem pairwise_insertNat (a : Nat) (l : List Nat) (h : l.Pairwise (· < ·)) :
    (insertNat a l).Pairwise (· < ·) := by
  induction l with
  | nil => simp [insertNat]
  | cons b l ih =>
    have hb := (List.pairwise_cons.mp h)
    unfold insertNat
    split
    · refine List.pairwise_cons.mpr ⟨?_, h⟩
      intro x hx
      rcases List.mem_cons.mp hx with rfl | hx
      · assumption
      · have := hb.1 x hx; omega
    · split
      · exact h
      · refine List.pairwise_cons.mpr ⟨?_, ih hb.2⟩
        intro x hx
        rcases (mem_insertNat a x l).mp hx with rfl | hx
        · omega
        · exact hb.1 x hx

theorem mem_datesOf (rows : List Row) (g : Int) (d : Nat) :
    d ∈ datesOf rows g ↔ ∃ x ∈ rows, x.group = g ∧ x.date = d := by
  unfold datesOf
  induction rows with
  | nil => simp
  | cons r rows ih =>
    by_cases hr : r.group = g
    · simp only [List.filter_cons, hr, beq_self_eq_true, if_true, List.foldr_cons, mem_insertNat, ih]
      constructor
      · rintro (rfl | ⟨x, hx, h⟩)
        · exact ⟨r, by simp, hr, rfl⟩
        · exact ⟨x, by simp [hx], h⟩
      · rintro ⟨x, hx, hg, hd⟩
        rcases List.mem_cons.mp hx with rfl | hx
        · exact .inl hd.symm
        · exact .inr ⟨x, hx, hg, hd⟩
    · have : (r.group == g) = false := by simpa using hr
      simp only [List.filter_cons, this, Bool.false_eq_true, if_false, ih]
      constructor
      · rintro ⟨x, hx, h⟩; exact ⟨x, by simp [hx], h⟩
      · rintro ⟨x, hx, hg, hd⟩
        rcases List.mem_cons.mp hx with rfl | hx
        · exact absurd hg hr
        · exact ⟨x, hx, hg, hd⟩

theorem pairwise_datesOf (rows : List Row) (g : Int) : (datesOf rows g).Pairwise (· < ·) := by
  unfold datesOf
  induction (rows.filter (·.group == g)) with
  | nil => simp
  | cons r l ih => exact pairwise_insertNat _ _ ih

/-- strictly increasing lists with the same members are equal -/
theorem sorted_ext : ∀ (l₁ l₂ : List Nat), l₁.Pairwise (· < ·) → l₂.Pairwise (· < ·) →
    (∀ d, d ∈ l₁ ↔ d ∈ l₂) → l₁ = l₂
  | [], [], _, _, _ => rfl
  | [], b :: _, _, _, h => by have := (h b).mpr (by simp); simp at this
  | a :: _, [], _, _, h => by have := (h a).mp (by simp); simp at this
  | a :: l₁, b :: l₂, h₁, h₂, h => by
    have h₁' := List.pairwise_cons.mp h₁
    have h₂' := List.pairwise_cons.mp h₂
    have hab : a = b := by
      have ha := (h a).mp (by simp)
      have hb := (h b).mpr (by simp)
      rcases List.mem_cons.mp ha with e | ha
      · exact e
      · rcases List.mem_cons.mp hb with e | hb
        · exact e.symm
        · have := h₁'.1 b hb; have := h₂'.1 a ha; omega
    subst hab
    congr 1
    refine sorted_ext l₁ l₂ h₁'.2 h₂'.2 fun d => ?_
    constructor
    · intro hd
      have := (h d).mp (by simp [hd])
      rcases List.mem_cons.mp this with e | h'
      · have := h₁'.1 d hd; omega
      · exact h'
    · intro hd
      have := (h d).mpr (by simp [hd])
      rcases List.mem_cons.mp this with e | h'
      · have := h₂'.1 d hd; omega
      · exact h'

/-! ### sumQ / total -/

theorem foldl_add (z : Rat) (l : List Rat) : l.foldl (· + ·) z = z + l.foldl (· + ·) 0 := by
  induction l generalizing z with
  | nil => simp [Rat.add_zero]
  | cons a l ih =>
    simp only [List.foldl_cons]
    rw [ih (z + a), ih (0 + a), Rat.zero_add, Rat.add_assoc]

theorem sumQ_nil : sumQ [] = 0 := rfl

theorem sumQ_cons (a : Rat) (l : List Rat) : sumQ (a :: l) = a + sumQ l := by
  unfold sumQ
  rw [List.foldl_cons, foldl_add, Rat.zero_add]

theorem sumQ_append (l₁ l₂ : List Rat) : sumQ (l₁ ++ l₂) = sumQ l₁ + sumQ l₂ := by
  induction l₁ with
  | nil => simp [sumQ_nil, Rat.zero_add]
  | cons a l ih => rw [List.cons_append, sumQ_cons, sumQ_cons, ih, Rat.add_assoc]

theorem sumQ_perm {l₁ l₂ : List Rat} (h : l₁.Perm l₂) : sumQ l₁ = sumQ l₂ := by
  induction h with
  | nil => rfl
  | cons a _ ih => rw [sumQ_cons, sumQ_cons, ih]
  | swap a b l =>
    rw [sumQ_cons, sumQ_cons, sumQ_cons, sumQ_cons, ← Rat.add_assoc, ← Rat.add_assoc, Rat.add_comm b a]
  | trans _ _ ih₁ ih₂ => exact ih₁.trans ih₂

theorem total_perm {rows rows' : List Row} (h : rows.Perm rows') (g : Int) (d : Nat) :
    total rows' g d = total rows g d := by
  unfold total
  exact (sumQ_perm ((h.filter _).map _)).symm

theorem total_append (r₁ r₂ : List Row) (g : Int) (d : Nat) :
    total (r₁ ++ r₂) g d = total r₁ g d + total r₂ g d := by
  unfold total
  rw [List.filter_append, List.map_append, sumQ_append]

/-! ### totals -/

theorem totals_map_fst (rows : List Row) (g : Int) : (totals rows g).map (·.1) = datesOf rows g := by
  unfold totals
  simp [List.map_map, Function.comp_def]

/-- the aggregate is determined by the set of dates of the group and its total on every date -/
theorem totals_congr (rows rows' : List Row) (g : Int)
    (hd : ∀ d, (∃ x ∈ rows, x.group = g ∧ x.date = d) ↔ ∃ x ∈ rows', x.group = g ∧ x.date = d)
    (ht : ∀ d, total rows g d = total rows' g d) : totals rows g = totals rows' g := by
  unfold totals
  have : datesOf rows g = datesOf rows' g :=
    sorted_ext _ _ (pairwise_datesOf _ _) (pairwise_datesOf _ _) fun d => by
      rw [mem_datesOf, mem_datesOf]; exact hd d
  rw [this]
  exact List.map_congr_left fun d _ => by rw [ht d]

theorem analysis_perm (sem : Semantics) {rows rows' : List Row} (h : rows.Perm rows') :
    analysis sem rows' = analysis sem rows := by
  unfold analysis
  have key : ∀ g, totals rows' g = totals rows g := fun g =>
    totals_congr _ _ g (fun d => by
      constructor
      · rintro ⟨x, hx, hh⟩; exact ⟨x, h.mem_iff.mpr hx, hh⟩
      · rintro ⟨x, hx, hh⟩; exact ⟨x, h.mem_iff.mp hx, hh⟩) (fun d => total_perm h g d)
  rw [key, key]

/-! ### fit -/

/-- inversion of a successful `fit` -/
theorem fit_ok {sem : Semantics} {det : Detectors} {rows : List Row} {r : FitResult}
    (h : fit sem det rows = .ok r) :
    let ng := det.noisy rows
    let r1 := rows.filter fun x => !ng.contains x.geo
    let od := det.outliers (analysis sem r1)
    let r2 := r1.filter fun x => !od.contains x.date
    r = { data := r2, analysis := analysis sem r2, noisyGeos := ng, outlierDates := od } := by
  unfold fit at h
  simp only at h
  split at h
  · cases h
  · split at h
    · cases h
    · exact (Except.ok.inj h).symm

end MM.Screen
