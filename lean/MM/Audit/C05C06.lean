import MM.Props.C05C06

#print axioms MM.Numeric.sxx_eq
#print axioms MM.Numeric.sxy_eq
#print axioms MM.Numeric.ols_resid_sum
#print axioms MM.Numeric.ols_rss
#print axioms MM.Numeric.C06_closed_form
#print axioms MM.Numeric.C06_posterior_scale
#print axioms MM.Numeric.C06_posterior_loc
#print axioms MM.Numeric.C06_posterior_df
#print axioms MM.Numeric.C06_design_side
#print axioms MM.Numeric.C06_summary_order
#print axioms MM.Numeric.C06_summary_order_fails
#print axioms MM.Numeric.C06_summary_probability
#print axioms MM.Numeric.C05_sigma
#print axioms MM.Numeric.C05_calibration
#print axioms MM.Numeric.C05_calibration_nonvacuous
#print axioms MM.Numeric.C05_lower_bound
#print axioms MM.Numeric.C05_homogeneous
#print axioms MM.Numeric.C05_shift_invariant
#print axioms MM.Numeric.C05_corr_invariant
#print axioms MM.Numeric.C05_antitone_partial
#print axioms MM.Numeric.C05_antitone_neg
#print axioms MM.Numeric.C05_antitone_fails
