/-
C01 (part): the admitted geo set — `TBRMatchedMarkets.geos_within_constraints` / `geo_assignments`
(tbrmatchedmarkets.py:76-135).  The geos a search may use are the assignable geos minus the
too-large / over-budget ones plus the geos that may not be excluded; `n_geos_max` then keeps every
must-include geo and fills up with the optional geos of highest required impact.

Model: `MM/Model/Admit.lean`.  Helper lemmas: `MM/Proofs/Admit.lean`.  No Mathlib imports.
-/
import MM.Proofs.Admit

namespace MM.Admit
open MM

/-- positions are valid, increasing (so: no geo twice) -/
theorem admit_sorted (ap : AdmitParams) (rows : List GeoRow) :
    (admitGeos ap rows).Pairwise (· < ·) ∧ ∀ i ∈ admitGeos ap rows, i < rows.length :=
  ⟨(sorted_cand ap rows).sublist (admitGeos_sublist ap rows), fun i h => (mem_admit_cand ap rows i h).1⟩

/-- every geo whose eligibility row forbids exclusion is admitted, whatever the share / budget /
n_geos_max settings -/
theorem admit_must (ap : AdmitParams) (rows : List GeoRow) (i : Nat) (hi : i < rows.length)
    (hm : (rows.getD i default).cls.must = true) : i ∈ admitGeos ap rows := by
  have hc : i ∈ cand ap rows := (mem_cand ap rows i).2 ⟨hi, must_candidate ap _ hm⟩
  rw [admitGeos_eq]
  split
  · exact hc
  · split
    · exact hc
    · rw [List.mem_filter]
      refine ⟨hc, ?_⟩
      simp only [keep, List.contains_eq_mem, List.mem_append, List.mem_filter, decide_eq_true_eq]
      exact Or.inl ⟨hc, hm⟩

/-- a must-exclude geo, or a geo absent from the eligibility table, is never admitted -/
theorem admit_excluded (ap : AdmitParams) (rows : List GeoRow) (i : Nat) (h : i ∈ admitGeos ap rows) :
    (rows.getD i default).cls ≠ .xFixed ∧ (rows.getD i default).cls ≠ .absent :=
  have hc := class_of_candidate ap _ (mem_admit_cand ap rows i h).2
  ⟨hc.1, hc.2.1⟩

/-- an optional geo that is admitted is neither too large nor over budget -/
theorem admit_optional (ap : AdmitParams) (rows : List GeoRow) (i : Nat) (h : i ∈ admitGeos ap rows)
    (hopt : (rows.getD i default).cls.must = false) :
    tooLarge ap (rows.getD i default) = false ∧ overBudget ap (rows.getD i default) = false := by
  have hc := (mem_admit_cand ap rows i h).2
  simp only [candidate, hopt, Bool.or_false, Bool.and_eq_true, Bool.not_eq_true'] at hc
  exact ⟨hc.1.2, hc.2⟩

/-- without n_geos_max nothing else is dropped -/
theorem admit_all_candidates (ap : AdmitParams) (rows : List GeoRow) (h : ap.nGeosMax = none) (i : Nat)
    (hi : i < rows.length) : i ∈ admitGeos ap rows ↔ candidate ap (rows.getD i default) = true := by
  rw [admitGeos_eq, h]
  simp only [mem_cand, hi, true_and]

/-- the n_geos_max cap is respected up to the must-include geos -/
theorem admit_cap (ap : AdmitParams) (rows : List GeoRow) (m : Nat) (h : ap.nGeosMax = some m) :
    (admitGeos ap rows).length ≤
      max m ((List.range rows.length).filter fun i => (rows.getD i default).cls.must).length := by
  rw [admitGeos_eq, h]
  simp only []
  split
  · omega
  · have nd : (cand ap rows).Nodup := (sorted_cand ap rows).imp (fun hab => Nat.ne_of_lt hab)
    have h1 := length_filter_contains_le (cand ap rows) nd (keep rows (cand ap rows) m)
    have h2 := length_keep_le rows (cand ap rows) m
    have h3 := length_must_cand_le ap rows
    omega

/-- every admitted geo has one of the six search classes, in index order -/
theorem admit_classes (ap : AdmitParams) (rows : List GeoRow) :
    (admittedClasses rows (admitGeos ap rows)).length = (admitGeos ap rows).length ∧
    ∀ k (_hk : k < (admitGeos ap rows).length), ∃ c, (admittedClasses rows (admitGeos ap rows))[k]? = some c ∧
      (rows.getD ((admitGeos ap rows).getD k 0) default).cls.toGeoClass = some c := by
  have htot : ∀ i ∈ admitGeos ap rows, ∃ c, (rows.getD i default).cls.toGeoClass = some c :=
    fun i hi => (class_of_candidate ap _ (mem_admit_cand ap rows i hi).2).2.2
  have hfm := filterMap_total (fun i => (rows.getD i default).cls.toGeoClass) (admitGeos ap rows) htot
  refine ⟨hfm.1, ?_⟩
  intro k hk
  have hmem : (admitGeos ap rows).getD k 0 ∈ admitGeos ap rows := by
    rw [List.getD_eq_getElem?_getD, List.getElem?_eq_getElem hk]
    exact List.getElem_mem hk
  obtain ⟨c, hc⟩ := htot _ hmem
  exact ⟨c, (hfm.2 k hk).trans hc, hc⟩

/-- ID level: reported groups are images of index sets under the injective map position ↦ geo ID of
the admitted list, so disjointness / membership transfer -/
theorem ids_injective (ids : List String) (hnd : ids.Nodup) (idx : List Nat) (hidx : idx.Pairwise (· < ·))
    (hlt : ∀ i ∈ idx, i < ids.length) (a b : Nat) (ha : a < idx.length) (hb : b < idx.length)
    (h : ids.getD (idx.getD a 0) "" = ids.getD (idx.getD b 0) "") : a = b := by
  have ea : idx.getD a 0 = idx[a] := by simp [List.getD_eq_getElem?_getD, ha]
  have eb : idx.getD b 0 = idx[b] := by simp [List.getD_eq_getElem?_getD, hb]
  have la : idx.getD a 0 < ids.length := ea ▸ hlt _ (List.getElem_mem ha)
  have lb : idx.getD b 0 < ids.length := eb ▸ hlt _ (List.getElem_mem hb)
  have hpos : idx.getD a 0 = idx.getD b 0 := (List.getD_inj la lb hnd).1 h
  have ndx : idx.Nodup := hidx.imp (fun hab => Nat.ne_of_lt hab)
  exact (List.getD_inj ha hb ndx).1 hpos

/-! ## non-vacuity

Six geos in row order: a must-exclude geo, a geo absent from the eligibility table, a
treatment-only geo whose required impact is tiny, and three optional geos of which one is over
budget.  With `n_geos_max = 2` the truncation keeps the must-include geo (position 2) although its
required impact is the smallest, and fills up with the optional geo of highest required impact
(position 3); the over-budget geo (position 5) was never a candidate. -/

def rows6 : List GeoRow :=
  [⟨.xFixed, 3 / 10, .fin 50⟩, ⟨.absent, 2 / 10, .fin 40⟩, ⟨.tFixed, 1 / 100, .fin (1 / 1000)⟩,
   ⟨.ctx, 2 / 10, .fin 30⟩, ⟨.cx, 1 / 10, .fin 20⟩, ⟨.tx, 1 / 10, .fin 900⟩]

def ap6 : AdmitParams := { shareHi := some (1 / 4), maxImpact := some 100, nGeosMax := some 2 }

example : admitGeos ap6 rows6 = [2, 3] := by decide +kernel
example : admitGeos { ap6 with nGeosMax := none } rows6 = [2, 3, 4] := by decide +kernel
example : admitGeos { ap6 with nGeosMax := some 0 } rows6 = [2] := by decide +kernel
example : admittedClasses rows6 (admitGeos ap6 rows6) = [.tFixed, .ctx] := by decide +kernel
example : overBudget ap6 (rows6.getD 5 default) = true := by decide +kernel
example : 2 ∈ admitGeos ap6 rows6 := admit_must ap6 rows6 2 (by decide) (by decide +kernel)
example : (admitGeos ap6 rows6).length ≤ 2 := by
  have := admit_cap ap6 rows6 2 rfl
  have h : ((List.range rows6.length).filter fun i => (rows6.getD i default).cls.must).length = 1 := by
    decide +kernel
  omega

end MM.Admit
