/-
Model of utils.find_days_to_exclude ∘ utils.expand_time_windows and
common_classes.TimeWindow (C20).  Days are proleptic-Gregorian ordinals
(Python's `date.toordinal()`); strings are the documented format `YYYY/MM/DD`
and `YYYY/MM/DD - YYYY/MM/DD`.
-/
import MM.Model.Basic
namespace MM.Dates
open MM

structure Date where
  y : Nat
  m : Nat
  d : Nat
deriving DecidableEq, Repr

def isLeap (y : Nat) : Bool := y % 4 == 0 && (y % 100 != 0 || y % 400 == 0)

def daysInMonth (y m : Nat) : Nat :=
  if m == 2 then (if isLeap y then 29 else 28)
  else if m == 4 || m == 6 || m == 9 || m == 11 then 30 else 31

def Date.valid (dt : Date) : Bool :=
  decide (1 ≤ dt.y) && decide (1 ≤ dt.m) && decide (dt.m ≤ 12) && decide (1 ≤ dt.d) &&
  decide (dt.d ≤ daysInMonth dt.y dt.m)

/-- days in the months before month `m` of year `y`. -/
def daysBeforeMonth (y : Nat) : Nat → Nat
  | 0 => 0
  | 1 => 0
  | m+1 => daysBeforeMonth y m + daysInMonth y m

def daysBeforeYear (y : Nat) : Nat :=
  let z := y - 1
  365 * z + z / 4 - z / 100 + z / 400

/-- `datetime.date(y, m, d).toordinal()` -/
def ordinal (dt : Date) : Nat := daysBeforeYear dt.y + daysBeforeMonth dt.y dt.m + dt.d

/-- the next calendar day -/
def succDay (dt : Date) : Date :=
  if dt.d < daysInMonth dt.y dt.m then { dt with d := dt.d + 1 }
  else if dt.m < 12 then { y := dt.y, m := dt.m + 1, d := 1 }
  else { y := dt.y + 1, m := 1, d := 1 }

/-- the characters Python's `str.strip()` removes (`str.isspace`): ASCII blanks and separators, NEL, NBSP and the
Unicode space separators -/
def pyIsSpace (c : Char) : Bool :=
  let n := c.toNat
  (9 ≤ n && n ≤ 13) || (28 ≤ n && n ≤ 32) || n == 0x85 || n == 0xA0 || n == 0x1680 || (0x2000 ≤ n && n ≤ 0x200A) ||
  n == 0x2028 || n == 0x2029 || n == 0x202F || n == 0x205F || n == 0x3000

/-- `str.strip()` -/
def pyStrip (s : String) : String :=
  String.ofList ((s.toList.dropWhile pyIsSpace).reverse.dropWhile pyIsSpace).reverse

/-- strict `YYYY/MM/DD` token (surrounding blanks allowed, as produced by splitting a range). -/
def parseDate (tok : String) : Option Date :=
  match (pyStrip tok).splitOn "/" with
  | [ys, ms, ds] =>
    if ys.length == 4 && ms.length == 2 && ds.length == 2 &&
        ys.all Char.isDigit && ms.all Char.isDigit && ds.all Char.isDigit then   -- `toNat?` alone would also read "20_0"
      match ys.toNat?, ms.toNat?, ds.toNat? with
      | some y, some m, some d =>
        let dt : Date := { y := y, m := m, d := d }
        if dt.valid then some dt else none
      | _, _, _ => none
    else none
  | _ => none

/-- a closed window of day ordinals -/
abbrev Window := Nat × Nat

/-- one entry, already split on '-': one part = a day, two parts = a range
(`TimeWindow` rejects first_day > last_day), anything else is malformed. -/
def entryOfParts (parts : List String) : Py Window :=
  match parts with
  | [a] => match parseDate a with
    | some d => .ok (ordinal d, ordinal d)
    | none => .error .valueError
  | [a, b] => match parseDate a, parseDate b with
    | some d1, some d2 =>
      if ordinal d1 > ordinal d2 then .error .valueError else .ok (ordinal d1, ordinal d2)
    | _, _ => .error .valueError
  | _ => .error .valueError

def parseEntry (s : String) : Py Window := entryOfParts (s.splitOn "-")

/-- `find_days_to_exclude` -/
def findDays (entries : List String) : Py (List Window) := entries.mapM parseEntry

def windowDays (w : Window) : List Nat := List.range' w.1 (w.2 + 1 - w.1)

/-- `expand_time_windows`: concatenate the day ranges, then `list(set(...))`. -/
def expand (ws : List Window) : List Nat := (ws.flatMap windowDays).eraseDups

def pipeline (entries : List String) : Py (List Nat) := do
  let ws ← findDays entries
  pure (expand ws)

end MM.Dates
