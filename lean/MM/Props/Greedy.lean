/-
The greedy search (`greedy_search` / `_greedy_search` and `design_within_constraints`):
totality (C09), legality (C01), constraints (C02), scores (C04), queue (C14), and the relation to
the exhaustive search (C13).

Model: `MM/Model/Search.lean`.  Helper lemmas: `MM/Proofs/Greedy*.lean`.
-/
import MM.Proofs.Greedy

namespace MM.Search
open MM

/-- the greedy search never raises: whenever it terminates it returns a list -/
theorem C09_greedy_total (fuel : Nat) (p : Params) (e : Env) :
    greedyFuel fuel p e = none ∨ ∃ ds, greedyFuel fuel p e = some (.ok ds) := by
  cases h : greedyFuel fuel p e with
  | none => exact Or.inl rfl
  | some r =>
    obtain ⟨st, _, _, hr⟩ := greedyFuel_some h
    exact Or.inr ⟨_, by rw [hr]⟩

/-- more fuel never changes an answer -/
theorem greedy_fuel_mono (f f' : Nat) (p : Params) (e : Env) (r : Py (List Design))
    (h : greedyFuel f p e = some r) (hle : f ≤ f') : greedyFuel f' p e = some r := by
  obtain ⟨st, hl, _, _⟩ := greedyFuel_some h
  have hl' := greedyLoop_mono _ _ _ _ _ _ hl hle
  unfold greedyFuel at h ⊢
  dsimp only at h ⊢
  rw [hl] at h
  rw [hl']
  exact h

/-- C01 (greedy): every returned design is a legal assignment with non-empty groups -/
theorem C01_greedy (fuel : Nat) (p : Params) (e : Env) (ds : List Design)
    (h : greedyFuel fuel p e = some (.ok ds)) (d : Design) (hd : d ∈ ds) : LegalDesign e d.T d.C := by
  obtain ⟨hinv, _, hw, _⟩ := mem_greedy h hd
  exact ⟨hinv.legal, hw.neT, hw.neC⟩

/-- C02 (greedy): all six constraints (inclusive bounds; treatment share against the admitted geos) -/
theorem C02_greedy (fuel : Nat) (p : Params) (e : Env) (hwf : WF p e) (ds : List Design)
    (h : greedyFuel fuel p e = some (.ok ds)) (d : Design) (hd : d ∈ ds) :
    TrtSizeOk p d.T ∧ CtlSizeOk p d.C ∧ GeoRatioOk p d.T d.C ∧ VolRatioOk p e d.T d.C ∧
      ShareOkB p e d.T ∧ BudgetOk p e d.T d.C := by
  obtain ⟨hinv, _, hw, hb⟩ := mem_greedy h hd
  exact c02_of_within hwf hinv hw hb

/-- C04 fragment: a returned design carries the score of its own groups -/
theorem C04_greedy_score (fuel : Nat) (p : Params) (e : Env) (ds : List Design)
    (h : greedyFuel fuel p e = some (.ok ds)) (d : Design) (hd : d ∈ ds) :
    d.score = fullScore e d.T d.C :=
  (mem_greedy h hd).2.1

/-- C14 (greedy): at most n_designs designs, best first -/
theorem C14_greedy (fuel : Nat) (p : Params) (e : Env) (hnan : ScoresNaNFree p e) (ds : List Design)
    (h : greedyFuel fuel p e = some (.ok ds)) :
    ds.length ≤ p.nDesigns ∧ ds.Pairwise (fun a b => Design.lt a b = false) := by
  obtain ⟨st, _, hinv, hr⟩ := greedyFuel_some h
  cases hr
  refine ⟨length_topK_le _ _, topK_sorted ?_⟩
  intro d hd
  rw [(greedyFinal_spec hinv hd).2.1]
  exact (hnan d.T d.C).2.1

/-- without budget and share constraints the exhaustive search evaluates exactly the listed
pairs that pass the volume test -/
theorem evaluatedRaw_eq_filter (p : Params) (e : Env) (h2 : p.shareRange = none)
    (h3 : p.budgetRange = none) :
    evaluatedRaw p e = ((designsListing p e).filter fun tc => ctlOk p e tc.1 tc.2).map
      fun tc => mkDesign p e tc.1 tc.2 :=
  evaluatedRaw_plain h2 h3

/-- C13: on identical inputs without budget or share constraints every greedy design is one
the exhaustive search evaluated (same groups, same score) -/
theorem C13_greedy_in_evaluated (fuel : Nat) (p : Params) (e : Env) (hwf : WF p e)
    (h2 : p.shareRange = none) (h3 : p.budgetRange = none)
    (gs : List Design) (h : greedyFuel fuel p e = some (.ok gs)) (g : Design) (hg : g ∈ gs) :
    g ∈ evaluatedRaw p e := by
  have _ := hwf
  obtain ⟨hinv, hs, hw, _⟩ := mem_greedy h hg
  rw [evaluatedRaw_eq_filter p e h2 h3, List.mem_map]
  refine ⟨(g.T, g.C), List.mem_filter.2 ⟨mem_designsListing_of_within hinv hw, ?_⟩, ?_⟩
  · exact ctlOk_of_within h3 hw
  · rw [mkDesign_of_noBudget h3, ← hs]

/-- … so when the exhaustive search evaluates nothing the greedy search returns nothing -/
theorem C13_empty (fuel : Nat) (p : Params) (e : Env) (hwf : WF p e) (h2 : p.shareRange = none)
    (h3 : p.budgetRange = none) (hev : evaluatedRaw p e = []) (gs : List Design)
    (h : greedyFuel fuel p e = some (.ok gs)) : gs = [] := by
  cases gs with
  | nil => rfl
  | cons g gs =>
    have := C13_greedy_in_evaluated fuel p e hwf h2 h3 _ h g List.mem_cons_self
    rw [hev] at this
    cases this

/-- … and no greedy design scores strictly above the exhaustive optimum -/
theorem C13_not_better (fuel : Nat) (p : Params) (e : Env) (hwf : WF p e) (hnan : ScoresNaNFree p e)
    (h2 : p.shareRange = none) (h3 : p.budgetRange = none)
    (gs : List Design) (h : greedyFuel fuel p e = some (.ok gs)) (g : Design) (hg : g ∈ gs)
    (best : Design) (rest : List Design) (hx : exhaustive p e = .ok (best :: rest))
    (hk : 1 ≤ p.nDesigns) : Design.lt best g = false := by
  have _ := hk
  have hmem := C13_greedy_in_evaluated fuel p e hwf h2 h3 gs h g hg
  have htop : topK p.nDesigns (evaluatedRaw p e) = best :: rest := by
    unfold exhaustive evaluated at hx
    dsimp only at hx
    split at hx
    · exact Except.ok.inj hx
    · cases hx
  refine topK_head_max ?_ htop hmem
  intro d hd
  rw [evaluatedRaw_eq_filter p e h2 h3, List.mem_map] at hd
  obtain ⟨tc, _, rfl⟩ := hd
  exact (hnan tc.1 tc.2).1

/-! ### termination -/

/-- the closed-form step bound: `n` admitted geos, `hi` the user's maximal treatment size
(0 when unspecified, the search then uses a maximum `≤ n`) -/
def userHi (p : Params) : Nat := match p.trtRange with | some r => r.2.toNat | none => 0

def greedyBound (p : Params) (e : Env) : Nat :=
  (userHi p + e.cls.length + 2) * (2 ^ e.cls.length + 2)

/-- the effective maximal treatment size, bounded in closed form -/
theorem effTrtRange_snd_le (p : Params) (e : Env) :
    (effTrtRange p e).2.toNat ≤ userHi p + e.cls.length := by
  unfold effTrtRange userHi
  cases p.trtRange with
  | some r => dsimp only; omega
  | none =>
    dsimp only
    have := length_idx_le e GeoClass.canT
    unfold Env.canT
    split <;> omega

/-- termination: with NaN-free scores the loop stops within `greedyBound p e` steps.

The bound `(e.cls.length + 2) * (2 ^ e.cls.length + 2)` of the original statement is false when
the user's `treatment_geos_range[1]` exceeds the number of admitted geos (the loop then runs up
to that value; see `C09_greedy_terminates_original_false`); it holds when the range is
unspecified or its upper end is at most `e.cls.length`
(`C09_greedy_terminates_partial`). -/
theorem C09_greedy_terminates (p : Params) (e : Env) (hnan : ScoresNaNFree p e) :
    greedyFuel (greedyBound p e) p e ≠ none := by
  have hl : greedyLoop (greedyParams p e) e (greedyBound p e) (greedyInit e) ≠ none := by
    refine greedyLoop_terminates (fun T C => (hnan T C).2.1) _ ?_
    rw [effTrtRange_greedyParams]
    unfold greedyBound
    refine Nat.mul_le_mul_right _ ?_
    have := effTrtRange_snd_le p e
    omega
  unfold greedyFuel
  dsimp only
  cases hl' : greedyLoop (greedyParams p e) e (greedyBound p e) (greedyInit e) with
  | none => exact absurd hl' hl
  | some st => simp

-- FULL STATEMENT (not proved; false, see `C09_greedy_terminates_original_false`):
-- theorem C09_greedy_terminates (p : Params) (e : Env) (hnan : ScoresNaNFree p e) :
--     greedyFuel ((e.cls.length + 2) * (2 ^ e.cls.length + 2)) p e ≠ none

/-- the original bound, when the maximal treatment size is unspecified or at most the number of
admitted geos -/
theorem C09_greedy_terminates_partial (p : Params) (e : Env) (hnan : ScoresNaNFree p e)
    (hr : ∀ r, p.trtRange = some r → r.2 ≤ (e.cls.length : Int)) :
    greedyFuel ((e.cls.length + 2) * (2 ^ e.cls.length + 2)) p e ≠ none := by
  have hl : greedyLoop (greedyParams p e) e ((e.cls.length + 2) * (2 ^ e.cls.length + 2))
      (greedyInit e) ≠ none := by
    refine greedyLoop_terminates (fun T C => (hnan T C).2.1) _ ?_
    rw [effTrtRange_greedyParams]
    refine Nat.mul_le_mul_right _ ?_
    have := effTrtRange_snd_le p e
    cases hp : p.trtRange with
    | none => unfold userHi at this; rw [hp] at this; dsimp only at this; omega
    | some r =>
      have h1 := hr r hp
      rw [effTrtRange_of_some hp]
      omega
  unfold greedyFuel
  dsimp only
  cases hl' : greedyLoop (greedyParams p e) e ((e.cls.length + 2) * (2 ^ e.cls.length + 2))
      (greedyInit e) with
  | none => exact absurd hl' hl
  | some st => simp

/-! ### non-vacuity -/

/-- 5 admitted geos, distinct positive shares, NaN-free scores depending on `(T, C)` -/
def gExEnv : Env where
  cls := [.ctx, .tFixed, .ct, .cx, .ctx]
  share := fun i => (i : Rat) + 1
  optImpact := fun _ => .fin 1
  impact := fun T C => .fin ((T.sum : Rat) + (C.length : Rat) + 1)
  score5 := fun T C => [some 1, some 1, some 1, some 1,
    some (((T.length * 7 + C.sum * 3 + T.sum * 5) % 11 : Nat) : Rat)]
  invImpact := fun T C => some (1 / ((T.sum : Rat) + (C.length : Rat) + 1))
  budgetInv := fun T C => some (5 / ((T.sum : Rat) + (C.length : Rat) + 1))

/-- no constraints, three designs requested -/
def gExParams : Params := { nDesigns := 3 }

/-- all six constraints specified -/
def gExParams2 : Params where
  trtRange := some (1, 3)
  ctlRange := some (1, 3)
  geoTol := some 2
  volTol := some 3
  shareRange := some (1/10, 9/10)
  budgetRange := some (1, 10)
  nDesigns := 2

/-- the hypotheses of the theorems hold for the example -/
example : ScoresNaNFree gExParams gExEnv := by
  intro T C
  simp [scoreNaNFree, mkDesign, fullScore, gExEnv, gExParams]

example : ScoresNaNFree gExParams2 gExEnv := by
  intro T C
  simp [scoreNaNFree, mkDesign, fullScore, gExEnv, gExParams2]

theorem gExEnv_sharePos : ∀ i, i < gExEnv.cls.length → 0 < gExEnv.share i := by
  intro i _
  show (0 : Rat) < (i : Rat) + 1
  have : (0 : Rat) ≤ (i : Rat) := Nat.cast_nonneg i
  exact lt_of_le_of_lt this (lt_add_one _)

example : WF gExParams gExEnv where
  sharePos := gExEnv_sharePos
  iroasPos := by decide +kernel
  impactFin := fun T C => ⟨_, rfl⟩
  optFin := fun T => ⟨_, rfl⟩
  volTolPos := by intro τ h; cases h
  geoTolPos := by intro τ h; cases h

example : WF gExParams2 gExEnv where
  sharePos := gExEnv_sharePos
  iroasPos := by decide +kernel
  impactFin := fun T C => ⟨_, rfl⟩
  optFin := fun T => ⟨_, rfl⟩
  volTolPos := by intro τ h; cases h; decide +kernel
  geoTolPos := by intro τ h; cases h; decide +kernel

/-- the unconstrained search returns three designs … -/
example : (match greedyFuel 100 gExParams gExEnv with
    | some (.ok ds) => decide (ds.length = 3) | _ => false) = true := by decide +kernel

/-- … namely these groups, best first -/
example : (match greedyFuel 100 gExParams gExEnv with
    | some (.ok ds) => ds.map (fun d => (d.T, d.C)) | _ => [])
      = [([1], [2, 4]), ([1, 2], [4]), ([0, 1, 2], [4])] := by decide +kernel

/-- the fully constrained search returns two designs -/
example : (match greedyFuel 100 gExParams2 gExEnv with
    | some (.ok ds) => decide (ds.length = 2) | _ => false) = true := by decide +kernel

/-- the exhaustive search on the same input evaluates 32 designs (C13 is not vacuous) -/
example : (evaluatedRaw gExParams gExEnv).length = 32 := by decide +kernel

/-- the explicit bound is enough fuel here -/
example : (greedyFuel (greedyBound gExParams gExEnv) gExParams gExEnv).isSome = true := by
  decide +kernel

/-- counterexample to the original termination bound: no admitted geo, constant scores,
`treatment_geos_range = (0, 100)`: the loop needs 200 steps, the bound allows 6. -/
def cexEnv : Env where
  cls := []
  share := fun _ => 1
  optImpact := fun _ => .fin 1
  impact := fun _ _ => .fin 1
  score5 := fun _ _ => [some 0, some 0, some 0, some 0, some 0]
  invImpact := fun _ _ => some 1
  budgetInv := fun _ _ => some 1

def cexParams : Params := { trtRange := some (0, 100) }

theorem C09_greedy_terminates_original_false :
    ¬ (∀ (p : Params) (e : Env), ScoresNaNFree p e →
        greedyFuel ((e.cls.length + 2) * (2 ^ e.cls.length + 2)) p e ≠ none) := by
  intro hall
  refine hall cexParams cexEnv ?_ ?_
  · intro T C
    simp [scoreNaNFree, mkDesign, fullScore, cexEnv]
  · have : (greedyFuel ((cexEnv.cls.length + 2) * (2 ^ cexEnv.cls.length + 2)) cexParams
        cexEnv).isNone = true := by decide +kernel
    exact Option.isNone_iff_eq_none.1 this

end MM.Search
