/-
Obligation regenerated from the source by translator T10: the models of the analysis, data and search classes keep no
memoised state of their own, so the only caching the code may do is the one listed here — two methods of
TBRMMDiagnostics that are pure functions of the arguments they are cached on (they read nothing from `self`).
A new `lru_cache` / `cached_property`, a cached method that starts reading instance state, or one whose cache key
loses a parameter makes this obligation fail (C06, C07, C08, C10 and C18 rely on it for "a fresh object answers the same").
-/
import MM.Generated.MemoGen
namespace MM.Memo

theorem tie_memoised :
    MM.Gen.Memo.decorated =
      [("TBRMMDiagnostics._brownian_bridge_bounds", ["functools.lru_cache()"], ["n"], []),
       ("TBRMMDiagnostics._impact_estimate", ["functools.lru_cache()"],
        ["n_test", "n", "flevel", "sig_level", "power_level"], [])] := by decide

end MM.Memo
