/-
Obligation regenerated from tbrdiagnostics.py by translator T11: the `while True` loop of `_detect_outliers` has the
shape the model MM/Model/Outliers.lean gives it — it stops on an empty subset, it stops when the maximal residual is
NaN or below the threshold (and has no other exit), and a pass that does not stop excludes exactly the dates whose
residual equals the maximum.  The termination theorems of MM/Props/Outliers.lean are about that shape.
-/
import MM.Generated.OutliersGen
namespace MM.Outliers

theorem tie_outlier_loop :
    MM.Gen.Outliers.breakTests = ["data_subset.shape[0] == 0", "np.isnan(max_resid) or max_resid < threshold"] ∧
    MM.Gen.Outliers.excludeDate = "list(data_subset.index[absresid == max_resid])" ∧
    MM.Gen.Outliers.maxResid = "max(absresid)" ∧
    MM.Gen.Outliers.dataSubset = "self._analysis_data.drop(excluded_dates)" ∧
    MM.Gen.Outliers.lastStatement = "excluded_dates.extend(exclude_date)" := by decide

end MM.Outliers
