/-
C19: `TBRDiagnostics.fit` removes exactly the rows of the reported noisy geos and of the reported
outlier dates; the aggregated analysis data are the per-date control / treatment totals of the
screened rows; what is reported is what the detectors said; the aggregate ignores row order, rows of
other groups and how a total is split over geos.

Model: `MM/Model/Screen.lean`.  Helper lemmas: `MM/Proofs/Screen.lean`.
-/
import MM.Proofs.Screen

namespace MM.Screen
open MM

/-- the screened data are exactly the input rows minus every row of the reported noisy geos and of
the reported outlier dates (order preserved) -/
theorem C19_data (sem : Semantics) (det : Detectors) (rows : List Row) (r : FitResult)
    (h : fit sem det rows = .ok r) :
    r.data = rows.filter (fun x => !r.noisyGeos.contains x.geo && !r.outlierDates.contains x.date) := by
  have := fit_ok h
  simp only at this
  subst this
  simp only [List.filter_filter]
  exact List.filter_congr fun x _ => Bool.and_comm _ _

/-- the aggregated analysis series are the per-date control and treatment totals of the screened data -/
theorem C19_analysis (sem : Semantics) (det : Detectors) (rows : List Row) (r : FitResult)
    (h : fit sem det rows = .ok r) :
    r.analysis = (totals r.data sem.control, totals r.data sem.treatment) := by
  have := fit_ok h
  simp only at this
  subst this
  rfl

/-- what is reported is what the detectors said: noisy geos from the input, outlier dates from the
aggregate of the geo-screened data -/
theorem C19_reports (sem : Semantics) (det : Detectors) (rows : List Row) (r : FitResult)
    (h : fit sem det rows = .ok r) :
    r.noisyGeos = det.noisy rows ∧
    r.outlierDates = det.outliers (analysis sem (rows.filter fun x => !(det.noisy rows).contains x.geo)) := by
  have := fit_ok h
  simp only at this
  subst this
  exact ⟨rfl, rfl⟩

/-- totals: one entry per date of the group in chronological order, each the sum of that group's
rows on the date -/
theorem C19_totals (rows : List Row) (g : Int) :
    ((totals rows g).map (·.1)).Pairwise (· < ·) ∧
    (∀ d, d ∈ (totals rows g).map (·.1) ↔ ∃ x ∈ rows, x.group = g ∧ x.date = d) ∧
    ∀ p ∈ totals rows g, p.2 = total rows g p.1 := by
  refine ⟨?_, ?_, ?_⟩
  · rw [totals_map_fst]; exact pairwise_datesOf rows g
  · intro d; rw [totals_map_fst]; exact mem_datesOf rows g d
  · intro p hp
    unfold totals at hp
    obtain ⟨d, _, rfl⟩ := List.mem_map.mp hp
    rfl

/-- the aggregate ignores row order -/
theorem C19_totals_perm (rows rows' : List Row) (h : rows.Perm rows') (g : Int) :
    totals rows' g = totals rows g :=
  totals_congr _ _ g (fun d => by
    constructor
    · rintro ⟨x, hx, hh⟩; exact ⟨x, h.mem_iff.mpr hx, hh⟩
    · rintro ⟨x, hx, hh⟩; exact ⟨x, h.mem_iff.mp hx, hh⟩) (fun d => total_perm h g d)

/-- the aggregate ignores rows of other groups -/
theorem C19_totals_other_groups (rows extra : List Row) (g : Int) (h : ∀ x ∈ extra, x.group ≠ g) :
    totals (rows ++ extra) g = totals rows g := by
  refine totals_congr _ _ g (fun d => ?_) (fun d => ?_)
  · constructor
    · rintro ⟨x, hx, hg, hd⟩
      rcases List.mem_append.mp hx with hx | hx
      · exact ⟨x, hx, hg, hd⟩
      · exact absurd hg (h x hx)
    · rintro ⟨x, hx, hh⟩; exact ⟨x, List.mem_append_left _ hx, hh⟩
  · rw [total_append]
    have : extra.filter (fun r => r.group == g && r.date == d) = [] := by
      rw [List.filter_eq_nil_iff]
      intro x hx
      have := h x hx
      simp [this]
    unfold total
    rw [this]
    simp [sumQ_nil, Rat.add_zero]

/-- the aggregate ignores how a group's total on a date is split over geos -/
theorem C19_totals_split (rows : List Row) (x : Row) (a b : Rat) (gname1 gname2 : String)
    (hab : a + b = x.value) (g : Int) :
    totals (rows ++ [{ x with geo := gname1, value := a }, { x with geo := gname2, value := b }]) g
      = totals (rows ++ [x]) g := by
  refine totals_congr _ _ g (fun d => ?_) (fun d => ?_)
  · constructor
    · rintro ⟨y, hy, hg, hd⟩
      rcases List.mem_append.mp hy with hy | hy
      · exact ⟨y, List.mem_append_left _ hy, hg, hd⟩
      · refine ⟨x, by simp, ?_, ?_⟩
        · simp only [List.mem_cons, List.not_mem_nil, or_false] at hy
          rcases hy with rfl | rfl <;> exact hg
        · simp only [List.mem_cons, List.not_mem_nil, or_false] at hy
          rcases hy with rfl | rfl <;> exact hd
    · rintro ⟨y, hy, hg, hd⟩
      rcases List.mem_append.mp hy with hy | hy
      · exact ⟨y, List.mem_append_left _ hy, hg, hd⟩
      · simp only [List.mem_cons, List.not_mem_nil, or_false] at hy
        subst hy
        exact ⟨{ y with geo := gname1, value := a }, by simp, hg, hd⟩
  · rw [total_append, total_append]
    congr 1
    unfold total
    by_cases hc : (x.group == g && x.date == d) = true
    · simp only [List.filter_cons, hc, if_true, List.filter_nil, List.map_cons, List.map_nil]
      rw [sumQ_cons, sumQ_cons, sumQ_cons, sumQ_nil, Rat.add_zero, Rat.add_zero, hab]
    · simp only [List.filter_cons, hc, Bool.false_eq_true, if_false, List.filter_nil, List.map_nil]

/-- results do not depend on input row order, provided the detectors do not (they are functions of
sets of rows / of the aggregate) -/
theorem C19_perm_invariant (sem : Semantics) (det : Detectors)
    (hdet : ∀ a b : List Row, a.Perm b → det.noisy a = det.noisy b)
    (rows rows' : List Row) (h : rows.Perm rows') (r : FitResult) (hr : fit sem det rows = .ok r) :
    ∃ r', fit sem det rows' = .ok r' ∧ r'.noisyGeos = r.noisyGeos ∧ r'.outlierDates = r.outlierDates ∧
      r'.analysis = r.analysis ∧ r'.data.Perm r.data := by
  have hng : det.noisy rows' = det.noisy rows := (hdet _ _ h).symm
  have h1 : (rows'.filter fun x => !(det.noisy rows).contains x.geo).Perm
      (rows.filter fun x => !(det.noisy rows).contains x.geo) := (h.filter _).symm
  have ha1 := analysis_perm sem h1.symm
  have h2 := h1.filter (fun x => !(det.outliers (analysis sem
      (rows.filter fun x => !(det.noisy rows).contains x.geo))).contains x.date)
  have ha2 := analysis_perm sem h2.symm
  have hres := fit_ok hr
  unfold fit at hr ⊢
  simp only [hng, ha1, h1.any_eq, h2.any_eq] at hr ⊢
  split at hr
  · cases hr
  · rename_i c1
    rw [if_neg c1]
    split at hr
    · cases hr
    · rename_i c2
      rw [if_neg c2]
      refine ⟨_, rfl, ?_⟩
      simp only at hres
      subst hres
      exact ⟨rfl, rfl, ha2, h2⟩

/-- `fit` only fails with ValueError -/
theorem C19_total_fn (sem : Semantics) (det : Detectors) (rows : List Row) :
    (∃ r, fit sem det rows = .ok r) ∨ fit sem det rows = .error .valueError := by
  unfold fit
  simp only
  split
  · exact .inr rfl
  · split
    · exact .inr rfl
    · exact .inl ⟨_, rfl⟩

/-! ### Non-vacuity: 8 rows, one noisy geo, one outlier date, concrete detectors -/

def exRows : List Row :=
  [ ⟨"a", 1, 1, 0, 10⟩, ⟨"b", 1, 2, 0, 20⟩, ⟨"n", 1, 1, 0, 999⟩, ⟨"a", 2, 1, 0, 11⟩,
    ⟨"b", 2, 2, 0, 21⟩, ⟨"a", 3, 1, 1, 500⟩, ⟨"b", 3, 2, 1, 22⟩, ⟨"c", 2, 1, 0, 1/2⟩ ]

/-- noisy: geos with some value above 900; outliers: dates whose control total exceeds 100 -/
def exDet : Detectors :=
  { noisy := fun rows => ((rows.filter (fun r => decide (900 < r.value))).map (·.geo)).eraseDups
    outliers := fun a => (a.1.filter (fun p => decide (100 < p.2))).map (·.1) }

def exSem : Semantics := ⟨1, 2⟩

def exFit : Option FitResult := match fit exSem exDet exRows with | .ok r => some r | .error _ => none

#guard exFit.map (·.noisyGeos) == some ["n"]
#guard exFit.map (·.outlierDates) == some [3]
#guard exFit.map (·.data) ==
  some [⟨"a", 1, 1, 0, 10⟩, ⟨"b", 1, 2, 0, 20⟩, ⟨"a", 2, 1, 0, 11⟩, ⟨"b", 2, 2, 0, 21⟩, ⟨"c", 2, 1, 0, 1/2⟩]
#guard exFit.map (·.analysis) == some ([(1, 10), (2, 23/2)], [(1, 20), (2, 21)])

example : ∃ r, fit exSem exDet exRows = .ok r ∧ r.noisyGeos = ["n"] ∧ r.outlierDates = [3] ∧
    r.data.length = 5 ∧ r.analysis = ([(1, 10), (2, 23/2)], [(1, 20), (2, 21)]) := by
  have h1 : exFit.map (·.noisyGeos) = some ["n"] := by decide +kernel
  have h2 : exFit.map (·.outlierDates) = some [3] := by decide +kernel
  have h3 : exFit.map (·.data.length) = some 5 := by decide +kernel
  have h4 : exFit.map (·.analysis) = some ([(1, 10), (2, 23/2)], [(1, 20), (2, 21)]) := by decide +kernel
  unfold exFit at h1 h2 h3 h4
  cases hfit : fit exSem exDet exRows with
  | error e => rw [hfit] at h1; cases h1
  | ok r =>
    rw [hfit] at h1 h2 h3 h4
    exact ⟨r, rfl, Option.some.inj h1, Option.some.inj h2, Option.some.inj h3, Option.some.inj h4⟩

/-- the failure branch is reachable: no treatment rows -/
example : (match fit exSem exDet [⟨"a", 1, 1, 0, 10⟩] with | .error .valueError => true | _ => false) = true := by
  decide +kernel

end MM.Screen
