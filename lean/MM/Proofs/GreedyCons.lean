/-
`design_within_constraints` as a specification (C02), and the link between the greedy filter
and the exhaustive listing (C13).
-/
import MM.Proofs.GreedyInv
import MM.Props.SearchSpec
import Mathlib.Algebra.Order.Ring.Rat
import Mathlib.Algebra.Order.Field.Basic

namespace MM.Search
open MM

/-! ### `_constraint_not_satisfied` (the only place the generated definition is unfolded) -/

theorem notSat_eq (v : PyFloat) (lo hi : Rat) :
    notSat v lo hi = (PyFloat.lt v (.fin lo) || PyFloat.lt (.fin hi) v) := rfl

theorem pyLt_fin (a b : Rat) : PyFloat.lt (.fin a) (.fin b) = decide (a < b) := rfl

theorem notSat_fin_false {q lo hi : Rat} : notSat (.fin q) lo hi = false ↔ lo ≤ q ∧ q ≤ hi := by
  rw [notSat_eq, pyLt_fin, pyLt_fin]
  simp only [Bool.or_eq_false_iff, decide_eq_false_iff_not, not_lt]

theorem pyDiv_of_ne {a b : Rat} (h : b ≠ 0) : pyDiv a b = .fin (a / b) := by
  unfold pyDiv; rw [if_neg h]

/-! ### shares -/

theorem list_sum_pos : ∀ (l : List Rat), l ≠ [] → (∀ x ∈ l, 0 < x) → 0 < l.sum := by
  intro l
  induction l with
  | nil => intro h; exact absurd rfl h
  | cons a l ih =>
    intro _ hpos
    rw [List.sum_cons]
    have ha : 0 < a := hpos a List.mem_cons_self
    by_cases hl : l = []
    · subst hl; simpa using ha
    · exact add_pos ha (ih hl (fun x hx => hpos x (List.mem_cons_of_mem _ hx)))

theorem g_shareOf_pos {p : Params} {e : Env} (hwf : WF p e) {s : GeoSet} (hne : s ≠ [])
    (hlt : ∀ x ∈ s, x < e.cls.length) : 0 < shareOf e s := by
  unfold shareOf
  refine list_sum_pos _ (by simpa using hne) ?_
  intro x hx
  obtain ⟨i, hi, rfl⟩ := List.mem_map.1 hx
  exact hwf.sharePos i (hlt i hi)

theorem shareOf_all_pos {p : Params} {e : Env} (hwf : WF p e) {i : Nat} (hi : i < e.cls.length) :
    0 < shareOf e e.all := by
  refine g_shareOf_pos hwf ?_ (fun x hx => List.mem_range.1 hx)
  intro h
  have : i ∈ e.all := List.mem_range.2 hi
  rw [h] at this
  simp at this

/-! ### `design_within_constraints` as a specification -/

structure WithinSpec (p : Params) (e : Env) (T C : GeoSet) : Prop where
  neT : T ≠ []
  neC : C ≠ []
  vol : ∀ τ, p.volTol = some τ → ratioBad (pyDiv (shareOf e C) (shareOf e T)) τ = false
  geo : ∀ τ, p.geoTol = some τ → ratioBad (.fin ((C.length : Rat) / (T.length : Rat))) τ = false
  share : ∀ lo hi, p.shareRange = some (lo, hi) →
    notSat (pyDiv (shareOf e T) (shareOf e e.all)) lo hi = false
  trt : ∀ r, p.trtRange = some r → intBad T.length r = false
  ctl : ∀ r, p.ctlRange = some r → intBad C.length r = false

theorem withinConstraints_spec {p : Params} {e : Env} {T C : GeoSet}
    (h : withinConstraints p e T C = true) : WithinSpec p e T C := by
  obtain ⟨hT, hC⟩ := withinConstraints_ne_nil h
  unfold withinConstraints at h
  rw [if_neg (by simp [hT, hC])] at h
  simp only [Bool.and_eq_true] at h
  obtain ⟨⟨⟨⟨h1, h2⟩, h3⟩, h4⟩, h5⟩ := h
  refine ⟨hT, hC, ?_, ?_, ?_, ?_, ?_⟩
  · intro τ hτ; rw [hτ] at h1; simpa using h1
  · intro τ hτ; rw [hτ] at h2; simpa using h2
  · intro lo hi hr; rw [hr] at h3; simpa using h3
  · intro r hr; rw [hr] at h4; simpa using h4
  · intro r hr; rw [hr] at h5; simpa using h5

theorem intBad_false {n : Nat} {r : Int × Int} (h : intBad n r = false) :
    r.1 ≤ (n : Int) ∧ (n : Int) ≤ r.2 := by
  unfold intBad at h
  simp only [Bool.or_eq_false_iff, decide_eq_false_iff_not] at h
  omega

theorem effTrtRange_of_some {p : Params} {e : Env} {r : Int × Int} (h : p.trtRange = some r) :
    effTrtRange p e = r := by
  unfold effTrtRange; rw [h]

theorem effCtlRange_of_some {p : Params} {e : Env} {r : Int × Int} (h : p.ctlRange = some r) :
    effCtlRange p e = r := by
  unfold effCtlRange; rw [h]

/-- the six constraints of C02 from the final filter of the greedy search -/
theorem c02_of_within {p : Params} {e : Env} (hwf : WF p e) {T C : GeoSet}
    (hinv : InvPair e T C) (hw : WithinSpec (greedyParams p e) e T C)
    (hb : budgetBad (greedyParams p e) e T C = false) :
    TrtSizeOk p T ∧ CtlSizeOk p C ∧ GeoRatioOk p T C ∧ VolRatioOk p e T C ∧ ShareOkB p e T ∧
      BudgetOk p e T C := by
  have hTpos : 0 < shareOf e T := g_shareOf_pos hwf hw.neT hinv.lt_T
  refine ⟨?_, ?_, ?_, ?_, ?_, ?_⟩
  · intro r hr
    have h1 : (greedyParams p e).trtRange = some r := by
      show some (effTrtRange p e) = some r
      rw [effTrtRange_of_some hr]
    exact intBad_false (hw.trt r h1)
  · intro r hr
    have h1 : (greedyParams p e).ctlRange = some r := by
      show some (effCtlRange p e) = some r
      rw [effCtlRange_of_some hr]
    exact intBad_false (hw.ctl r h1)
  · intro τ hτ
    exact notSat_fin_false.1 (hw.geo τ hτ)
  · intro τ hτ
    have := hw.vol τ hτ
    rw [pyDiv_of_ne (ne_of_gt hTpos)] at this
    exact notSat_fin_false.1 this
  · intro r hr
    obtain ⟨lo, hi⟩ := r
    have := hw.share lo hi hr
    obtain ⟨i, hi'⟩ := List.exists_mem_of_ne_nil _ hw.neT
    have hall : 0 < shareOf e e.all := shareOf_all_pos hwf (hinv.lt_T i hi')
    rw [pyDiv_of_ne (ne_of_gt hall)] at this
    exact notSat_fin_false.1 this
  · intro r hr
    obtain ⟨lo, hi⟩ := r
    unfold budgetBad at hb
    have h1 : (greedyParams p e).budgetRange = some (lo, hi) := hr
    rw [h1] at hb
    dsimp only at hb
    obtain ⟨q, hq⟩ := hwf.impactFin T C
    have hi0 : p.iroas ≠ 0 := ne_of_gt hwf.iroasPos
    have h2 : (greedyParams p e).iroas = p.iroas := rfl
    rw [hq, h2] at hb
    have h3 : pyDivF (.fin q) p.iroas = .fin (q / p.iroas) := by
      show pyDiv q p.iroas = _
      exact pyDiv_of_ne hi0
    rw [h3] at hb
    have h4 : impactQ e T C = q := by unfold impactQ; rw [hq]
    rw [h4]
    exact notSat_fin_false.1 hb

/-! ### size membership -/

theorem mem_trtSizeRange_of {p : Params} {e : Env} {n : Nat}
    (h1 : 1 ≤ n) (h2 : e.tFixed.length ≤ n) (h3 : n ≤ e.canT.length)
    (h4 : (e.idx fun c => c == .cx || c == .cFixed).isEmpty = true → n + 1 ≤ e.canT.length)
    (h5 : ∀ r, p.trtRange = some r → r.1 ≤ (n : Int) ∧ (n : Int) ≤ r.2) :
    n ∈ trtSizeRange p e := by
  unfold trtSizeRange
  cases hr : p.trtRange with
  | none =>
    dsimp only
    rw [mem_natRangeIncl (by omega)]
    split
    · rename_i hemp; have := h4 hemp; omega
    · omega
  | some ab =>
    obtain ⟨a, b⟩ := ab
    have := h5 _ hr
    dsimp only at this ⊢
    rw [mem_natRangeIncl (by omega)]
    split
    · rename_i hemp; have := h4 hemp; omega
    · omega

theorem mem_ctlSizes_of {p : Params} {e : Env} {m t : Nat}
    (h1 : 1 ≤ m) (h2 : e.cFixed.length ≤ m) (h3 : m ≤ e.canC.length)
    (h5 : ∀ r, p.ctlRange = some r → r.1 ≤ (m : Int) ∧ (m : Int) ≤ r.2)
    (h6 : ∀ τ, p.geoTol = some τ →
      1 / (1 + τ) ≤ (m : Rat) / (t : Rat) ∧ (m : Rat) / (t : Rat) ≤ 1 + τ) :
    m ∈ ctlSizes p e t := by
  have hsz : m ∈ (match (match p.ctlRange with
        | none => ((max 1 (e.cFixed.length : Int)), (e.canC.length : Int))
        | some (a, b) => (max a (max 1 (e.cFixed.length : Int)), min b (e.canC.length : Int)))
      with | (lo, hi) => natRangeIncl lo hi) := by
    cases hr : p.ctlRange with
    | none =>
      dsimp only
      rw [mem_natRangeIncl (by omega)]
      omega
    | some ab =>
      obtain ⟨a, b⟩ := ab
      have := h5 _ hr
      dsimp only at this ⊢
      rw [mem_natRangeIncl (by omega)]
      omega
  unfold ctlSizes
  cases hg : p.geoTol with
  | none => exact hsz
  | some τ =>
    dsimp only
    refine List.mem_filter.2 ⟨hsz, ?_⟩
    have := h6 τ hg
    simp only [Bool.and_eq_true, decide_eq_true_eq, ge_iff_le]
    exact this

/-- a pair kept by the greedy filter is one the two generators list -/
theorem mem_designsListing_of_within {p : Params} {e : Env} {T C : GeoSet}
    (hinv : InvPair e T C) (hw : WithinSpec (greedyParams p e) e T C) :
    (T, C) ∈ designsListing p e := by
  rw [mem_designsListing]
  refine ⟨hinv.legal, ?_, ?_⟩
  · refine mem_trtSizeRange_of ?_ ?_ ?_ ?_ ?_
    · have := List.length_pos_of_ne_nil hw.neT; omega
    · exact g_length_le_of_subset (sorted_idx _ _) hinv.fixT
    · exact g_length_le_of_subset hinv.sT hinv.subT
    · intro hemp
      -- some control geo is eligible for treatment but not in T
      obtain ⟨c, hc⟩ := List.exists_mem_of_ne_nil _ hw.neC
      have hcC := hinv.subC c hc
      have hcT : c ∉ T := fun h => hinv.disj c h hc
      have hcanT : c ∈ e.canT := by
        obtain ⟨g, hg, hp⟩ := mem_idx.1 hcC
        have hnot : c ∉ e.idx (fun c => c == .cx || c == .cFixed) := by
          rw [List.isEmpty_iff.1 hemp]; simp
        rw [mem_idx_some hg] at hnot
        refine mem_idx.2 ⟨g, hg, ?_⟩
        cases g <;> simp_all [GeoClass.canT, GeoClass.canC]
      exact length_lt_of_subset_of_not_mem hinv.sT hinv.subT hcanT hcT
    · intro r hr
      have h1 : (greedyParams p e).trtRange = some r := by
        show some (effTrtRange p e) = some r
        rw [effTrtRange_of_some hr]
      exact intBad_false (hw.trt r h1)
  · refine mem_ctlSizes_of ?_ ?_ ?_ ?_ ?_
    · have := List.length_pos_of_ne_nil hw.neC; omega
    · exact g_length_le_of_subset (sorted_idx _ _) hinv.fixC
    · exact g_length_le_of_subset hinv.sC hinv.subC
    · intro r hr
      have h1 : (greedyParams p e).ctlRange = some r := by
        show some (effCtlRange p e) = some r
        rw [effCtlRange_of_some hr]
      exact intBad_false (hw.ctl r h1)
    · intro τ hτ
      exact notSat_fin_false.1 (hw.geo τ hτ)

theorem ctlOk_of_within {p : Params} {e : Env} {T C : GeoSet} (h3 : p.budgetRange = none)
    (hw : WithinSpec (greedyParams p e) e T C) : ctlOk p e T C = true := by
  unfold ctlOk
  rw [h3]
  simp only [Bool.and_true]
  cases hv : p.volTol with
  | none => rfl
  | some τ =>
    have := hw.vol τ hv
    unfold ratioBad at this
    rw [notSat_eq] at this
    dsimp only
    rw [Bool.or_comm, this]
    rfl

theorem mkDesign_of_noBudget {p : Params} {e : Env} (h3 : p.budgetRange = none) (T C : GeoSet) :
    mkDesign p e T C = ⟨T, C, fullScore e T C⟩ := by
  unfold mkDesign fullScore
  rw [h3]
  rfl

/-! ### the exhaustive search without budget and share constraints -/

theorem stepTrt_plain {p : Params} {e : Env} (h2 : p.shareRange = none) (h3 : p.budgetRange = none)
    (b : Bool) (log : List Design) (T : GeoSet) :
    stepTrt p e b ([], log) T
      = ([], log ++ ((ctlGroups p e T).filter (ctlOk p e T)).map (mkDesign p e T)) := by
  have : trtVerdict p e b [] T = .go := by
    unfold trtVerdict
    rw [h2, h3]
    simp [patSkip]
  unfold stepTrt
  rw [this]

theorem foldl_stepTrt_plain {p : Params} {e : Env} (h2 : p.shareRange = none)
    (h3 : p.budgetRange = none) (b : Bool) (Ts : List GeoSet) (log : List Design) :
    Ts.foldl (stepTrt p e b) ([], log)
      = ([], log ++ Ts.flatMap fun T =>
          ((ctlGroups p e T).filter (ctlOk p e T)).map (mkDesign p e T)) := by
  induction Ts generalizing log with
  | nil => simp
  | cons T Ts ih =>
    rw [List.foldl_cons, stepTrt_plain h2 h3, ih, List.flatMap_cons, List.append_assoc]

theorem foldl_stepSize_plain {p : Params} {e : Env} (h2 : p.shareRange = none)
    (h3 : p.budgetRange = none) (last : Nat) (ns : List Nat) (log : List Design) :
    ns.foldl (stepSize p e last) ([], log)
      = ([], log ++ ns.flatMap fun n => (trtGroups e n).flatMap fun T =>
          ((ctlGroups p e T).filter (ctlOk p e T)).map (mkDesign p e T)) := by
  induction ns generalizing log with
  | nil => simp
  | cons n ns ih =>
    rw [List.foldl_cons]
    unfold stepSize
    rw [foldl_stepTrt_plain h2 h3]
    have := ih (log ++ (trtGroups e n).flatMap fun T =>
          ((ctlGroups p e T).filter (ctlOk p e T)).map (mkDesign p e T))
    unfold stepSize at this
    rw [this, List.flatMap_cons, List.append_assoc]

theorem evaluatedRaw_plain {p : Params} {e : Env} (h2 : p.shareRange = none)
    (h3 : p.budgetRange = none) :
    evaluatedRaw p e
      = ((designsListing p e).filter fun tc => ctlOk p e tc.1 tc.2).map
          fun tc => mkDesign p e tc.1 tc.2 := by
  have hR : ((designsListing p e).filter fun tc => ctlOk p e tc.1 tc.2).map
        (fun tc => mkDesign p e tc.1 tc.2)
      = (trtSizeRange p e).flatMap fun n => (trtGroups e n).flatMap fun T =>
          ((ctlGroups p e T).filter (ctlOk p e T)).map (mkDesign p e T) := by
    unfold designsListing
    simp only [List.filter_flatMap, List.map_flatMap, List.filter_map, List.map_map]
    rfl
  rw [hR]
  unfold evaluatedRaw
  dsimp only
  cases hl : (trtSizeRange p e).getLast? with
  | none =>
    rw [List.getLast?_eq_none_iff.1 hl]
    rfl
  | some last =>
    dsimp only
    rw [foldl_stepSize_plain h2 h3]
    simp

end MM.Search
