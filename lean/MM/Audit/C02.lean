import MM.Props.Exhaustive
import MM.Props.Greedy
import MM.Props.SearchTie
#print axioms MM.Search.notSat_false_iff
#print axioms MM.Search.C02_exhaustive_evaluated
#print axioms MM.Search.C02_exhaustive
#print axioms MM.Search.C02_greedy
#print axioms MM.Search.C02_none_imposes_nothing
#print axioms MM.Search.tie_share
#print axioms MM.Search.tie_budget_screen
#print axioms MM.Search.tie_volume
#print axioms MM.Search.tie_geo_ratio
