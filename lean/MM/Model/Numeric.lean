/-
Numeric layer (C05, C06, C07, C18): the formulas of tbrmmdiagnostics.py (design side) and
tbr.py / tbr_iroas.py (analysis side), written once, generically over a type with
+ − × ÷, natural-number literals and √.  Instantiated at `Float` for the correspondence
with numpy/scipy/statsmodels and at `ℝ` (in MM/Proofs) for the theorems.
Student-t / F quantiles and the t cdf are *inputs* (external functions).
No Mathlib imports.
-/
namespace MM.Numeric

class HasSqrt (α : Type) where
  sqrt : α → α
class HasAbs (α : Type) where
  abs : α → α

instance : NatCast Float := ⟨Float.ofNat⟩
instance : HasSqrt Float := ⟨Float.sqrt⟩
instance : HasAbs Float := ⟨Float.abs⟩

section
variable {α : Type} [Add α] [Sub α] [Mul α] [Div α] [Neg α] [NatCast α] [HasSqrt α] [HasAbs α]

def nat (n : Nat) : α := (n : α)

def sum (l : List α) : α := l.foldl (· + ·) (nat 0)
def mean (l : List α) : α := sum l / nat l.length
/-- Σ (x − m)(y − k) -/
def sprod (xs ys : List α) (m k : α) : α := sum (List.zipWith (fun x y => (x - m) * (y - k)) xs ys)
def sxx (xs : List α) : α := sprod xs xs (mean xs) (mean xs)
def sxy (xs ys : List α) : α := sprod xs ys (mean xs) (mean ys)

/-- Pearson correlation (`np.corrcoef`) -/
def corr (xs ys : List α) : α := sxy xs ys / HasSqrt.sqrt (sxx xs * sxx ys)

structure Ols (α : Type) where
  a : α
  b : α
  resid : List α
  rss : α
  sigma2 : α      -- rss / (n − 2)

/-- simple linear regression y = a + b x on the pre-period (scipy linregress / statsmodels OLS) -/
def ols (xs ys : List α) : Ols α :=
  let b := sxy xs ys / sxx xs
  let a := mean ys - b * mean xs
  let resid := List.zipWith (fun x y => y - a - b * x) xs ys
  let rss := sum (resid.map fun r => r * r)
  { a := a, b := b, resid := resid, rss := rss, sigma2 := rss / (nat xs.length - nat 2) }

/-! ### design side (tbrmmdiagnostics.py) -/

/-- `np.std(y, ddof=2)` -/
def std2 (ys : List α) : α := HasSqrt.sqrt (sxx ys / (nat ys.length - nat 2))

/-- `_impact_estimate`: the multiplier without the sigma term -/
def impactTerm (nTest n : Nat) (phi tqSig tqPow : α) : α :=
  (tqSig + tqPow) * nat nTest *
    HasSqrt.sqrt (phi * (nat n + nat 1) / (nat n * nat nTest * (nat n - nat 1)) + nat 1 / nat n + nat 1 / nat nTest)

/-- `estimate_required_impact(corr)` -/
def estimateRequiredImpact (ys : List α) (nTest : Nat) (phi tqSig tqPow rho : α) : α :=
  impactTerm nTest ys.length phi tqSig tqPow * (std2 ys * HasSqrt.sqrt (nat 1 - rho * rho))

/-- `required_impact` -/
def requiredImpact (xs ys : List α) (nTest : Nat) (phi tqSig tqPow : α) : α :=
  estimateRequiredImpact ys nTest phi tqSig tqPow (corr xs ys)

structure TbrFit (α : Type) where
  estimate : α
  cihw : α
  sigma : α
  scale : α

/-- `tbrfit(xt, yt)`; sigma is `np.std(resid, ddof=2)` -/
def tbrfit (xs ys : List α) (nTest : Nat) (tqSig xt yt : α) : TbrFit α :=
  let fit := ols xs ys
  let n := nat xs.length
  let sigma := std2 fit.resid
  let dx := xt - mean xs
  let dy := yt - mean ys
  let dv := dx * dx / (sxx xs / n)
  let scale := nat nTest * sigma * HasSqrt.sqrt ((nat 1 + dv) / n + nat 1 / nat nTest)
  { estimate := nat nTest * (dy - fit.b * dx), cihw := tqSig * scale, sigma := sigma, scale := scale }

/-! ### analysis side (tbr.py) -/

def prefixes (l : List α) : List (List α) := (List.range l.length).map fun t => l.take (t + 1)

/-- the 2×2 quadratic form cᵀ (σ² (XᵀX)⁻¹) c for c = (1, m), X = [1 x] -/
def paramVar (xs : List α) (sigma2 m : α) : α :=
  let n := nat xs.length
  let s1 := sum xs
  let s2 := sum (xs.map fun x => x * x)
  let det := n * s2 - s1 * s1
  sigma2 * (s2 - nat 2 * m * s1 + n * m * m) / det

structure Posterior (α : Type) where
  loc : List α       -- cumulative causal effect (× rescale)
  scale : List α     -- |rescale| · √var
  df : Nat

/-- `causal_cumulative_distribution(rescale)` given pre-period (xs, ys) and test-period (xt, yt) -/
def posterior (xs ys xt yt : List α) (rescale : α) : Posterior α :=
  let fit := ols xs ys
  let eff := List.zipWith (fun x y => y - (fit.a + fit.b * x)) xt yt
  let loc := (prefixes eff).map fun p => rescale * sum p
  let scale := (prefixes xt).map fun p =>
    let t := nat p.length
    HasAbs.abs rescale * HasSqrt.sqrt (paramVar xs fit.sigma2 (mean p) * (t * t) + t * fit.sigma2)
  { loc := loc, scale := scale, df := xs.length - 2 }

/-- Kerman (2017) eq. 5 for day t (p = control series of the first t test days) -/
def kermanVar (xs : List α) (sigma2 : α) (p : List α) : α :=
  let n := nat xs.length
  let t := nat p.length
  let d := sum (p.map fun x => x - mean xs)
  sigma2 * (t * t / n + d * d / sxx xs + t)

structure SummaryRow (α : Type) where
  estimate : α
  precision : α
  lower : α
  upper : Option α      -- `none` = +inf (one-tailed)
  scale : α
  probability : α

/-- one row of `TBR.summary`: `qA` = t-quantile at alpha, `qU` = t-quantile at pupper (two-tailed only),
`cdf` = the standard t cdf with the posterior's degrees of freedom -/
def summaryRow (loc scale qA : α) (qU : Option α) (cdf : α → α) (threshold : α) : SummaryRow α :=
  { estimate := loc
    precision := HasAbs.abs ((loc + scale * qA) - loc)
    lower := loc + scale * qA
    upper := qU.map fun q => loc + scale * q
    scale := scale
    probability := nat 1 - cdf ((threshold - loc) / scale) }

/-! ### fixed-cost iROAS (tbr_iroas.py) and effect series -/

structure IroasRow (α : Type) where
  estimate : α
  lower : α
  upper : Option α
  precision : α
  probability : α
  incrementalCost : α
  incrementalResponse : α
  incrementalResponseLower : α
  incrementalResponseUpper : Option α

/-- fixed-cost report for the last day: response posterior (loc, scale at rescale = 1) and incremental cost -/
def iroasFixed (loc scale cost qA : α) (qU : Option α) (cdf : α → α) (threshold : α) : IroasRow α :=
  let r := summaryRow (nat 1 / cost * loc) (HasAbs.abs (nat 1 / cost) * scale) qA qU cdf threshold
  { estimate := r.estimate, lower := r.lower, upper := r.upper, precision := r.precision,
    probability := r.probability, incrementalCost := cost, incrementalResponse := loc,
    incrementalResponseLower := r.lower * cost, incrementalResponseUpper := r.upper.map (· * cost) }

/-- first differences with `prepend = 0` (`np.diff(v, prepend=0)`) -/
def diff0 : List α → List α
  | [] => []
  | a :: l => a :: List.zipWith (fun x y => y - x) (a :: l) l

structure Band (α : Type) where
  lower : List α
  estimate : List α
  upper : List α

/-- pointwise and cumulative effect over the experiment dates, given cumulative loc / scale and the two quantiles -/
def cumulativeBand (loc scale : List α) (qLo qHi : α) : Band α :=
  { lower := List.zipWith (fun l s => l + s * qLo) loc scale, estimate := loc,
    upper := List.zipWith (fun l s => l + s * qHi) loc scale }

def pointwiseBand (loc scale : List α) (qLo qHi : α) : Band α :=
  let c := cumulativeBand loc scale qLo qHi
  { lower := diff0 c.lower, estimate := diff0 loc, upper := diff0 c.upper }

/-- counterfactual = observed − pointwise (bounds swap) -/
def counterfactualBand (obs : List α) (pw : Band α) : Band α :=
  { lower := List.zipWith (· - ·) obs pw.upper, estimate := List.zipWith (· - ·) obs pw.estimate,
    upper := List.zipWith (· - ·) obs pw.lower }

end
end MM.Numeric
