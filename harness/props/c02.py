"""C02: returned designs satisfy every user-specified numeric constraint."""
import core
import engines.search as se
from props._searchprop import SEARCH_TARGETS, SEARCH_TRUST, run_search_prop, replay_search

PROP = 'C02'
LEAN_TARGETS = SEARCH_TARGETS
THEOREMS = ['MM.Search.' + n for n in ('notSat_false_iff', 'C02_exhaustive_evaluated', 'C02_exhaustive', 'C02_greedy', 'C02_none_imposes_nothing', 'tie_share', 'tie_budget_screen', 'tie_volume', 'tie_geo_ratio')]
TRUSTED_BASE = SEARCH_TRUST + ['theorems are stated for well-formed inputs (positive shares, finite impacts, iroas > 0); NaN/zero-share behaviour is compared by the correspondence only']


SUPPORTS_DEEPEN = True


def vacuous_job(job):
  inst, resolved = job
  r2 = dict(resolved, geo_ratio_tolerance=1e9, volume_ratio_tolerance=1e9)
  return {w: (se.run_real(inst, resolved, w, late=True), se.run_real(inst, r2, w, late=True)) for w in ('exhaustive', 'greedy')}


def vacuous_constraints(out, tier, model_ok):
  """'a constraint left unspecified imposes nothing': leaving both ratio tolerances out and setting them so large that
  every ratio is inside must give the same designs, for both searches"""
  import multiprocessing as mp
  res = se.get_results(tier, model_ok=model_ok)
  jobs, recs = [], []
  for r in se.iter_results(res):
    p = r['resolved']
    if 'geo_ratio_tolerance' in p or 'volume_ratio_tolerance' in p or r['inst'].get('min_corr_probe'):
      continue
    if not (r['exh'].get('result') or r['greedy'].get('result')):
      continue
    jobs.append((r['inst'], p)); recs.append(r)
    if len(jobs) >= (24 if tier == 'quick' else 400):
      break
  if not jobs:
    return
  with mp.Pool(min(16, len(jobs))) as pool:
    outs = pool.map(vacuous_job, jobs)
  for r, o in zip(recs, outs):
    for w in ('exhaustive', 'greedy'):
      a, b = o[w]
      ka = [(d['T'], d['C'], d['score']) for d in a.get('result', [])] if 'result' in a else ('err', a.get('error'))
      kb = [(d['T'], d['C'], d['score']) for d in b.get('result', [])] if 'result' in b else ('err', b.get('error'))
      if repr(ka) != repr(kb):
        f = se.facts_of(r, w)
        f['symptom'] = 'unspecified-constraint-matters'
        out.oracle_violation(f, se.case_of(r, 'exh' if w == 'exhaustive' else 'greedy'),
                             f'{w} search: with both ratio tolerances unspecified the result is {str(ka)[:160]}, with tolerances of 1e9 '
                             f'(every ratio inside) it is {str(kb)[:160]}')
  out.extra['vacuous_tolerance_pairs'] = len(jobs)


def run(out, tier, model_ok=True, deepen=False):
  vacuous_constraints(out, tier, model_ok)
  out.rule = 'oracle: every returned design is re-checked against all specified constraints from the raw frame (shares recomputed by the harness; either share reading accepted; bounds inclusive, 1e-9 tolerance); plus paired runs: ratio tolerances unspecified vs vacuously large give the same designs; non-trivial = some constraint specified and designs evaluated/returned'
  run_search_prop(out, PROP, se.judge_c02, tier, model_ok, deepen=deepen)


def replay(out, path, model_ok=True):
  replay_search(out, path, se.judge_c02)
