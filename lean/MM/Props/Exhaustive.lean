/-
C01, C02, C03, C04 (fragment), C09 for `exhaustive_search`.

Model: `MM/Model/Search.lean` (`evaluatedRaw`, `evaluated`, `topK`, `exhaustive`).
Vocabulary: `MM/Props/SearchSpec.lean`.  Helper lemmas: `MM/Proofs/Exhaustive.lean` (fold
invariants, constraints; `notSat_false_iff` is the one lemma that unfolds the generated
`constraintNotSatisfied`) and `MM/Proofs/ExhaustiveTopK.lean` (order, bounded queue).
-/
import MM.Proofs.Exhaustive
import MM.Proofs.ExhaustiveTopK

namespace MM.Search
open MM MM.HeapDict

/-- everything pushed is a listed pair that passed the filters -/
theorem evaluated_sub_listing (p : Params) (e : Env) (d : Design) (h : d ∈ evaluatedRaw p e) :
    (d.T, d.C) ∈ designsListing p e ∧ ctlOk p e d.T d.C = true ∧ d = mkDesign p e d.T d.C := by
  obtain ⟨h1, h2, h3, _⟩ := evaluatedRaw_sound p e d h
  exact ⟨h1, h2, h3⟩

/-- C01 (exhaustive): every evaluated / returned design is a legal assignment with non-empty
groups -/
theorem C01_exhaustive_evaluated (p : Params) (e : Env) (d : Design)
    (h : d ∈ evaluatedRaw p e) : LegalDesign e d.T d.C :=
  legalDesign_of_listing (evaluated_sub_listing p e d h).1

/-- the design constructor never rejects an evaluated design, so the search never raises -/
theorem C09_exhaustive_total (p : Params) (e : Env) :
    evaluated p e = .ok (evaluatedRaw p e) ∧
    exhaustive p e = .ok (topK p.nDesigns (evaluatedRaw p e)) := by
  have h1 : evaluated p e = .ok (evaluatedRaw p e) := by
    unfold evaluated
    have : (evaluatedRaw p e).all (fun d => ctorOk d.T d.C) = true := by
      rw [List.all_eq_true]
      intro d hd
      exact ctorOk_of_legalDesign (C01_exhaustive_evaluated p e d hd)
    simp only [this, if_true]
  refine ⟨h1, ?_⟩
  unfold exhaustive
  rw [h1]
  rfl

/-- what `exhaustive` returns, when it returns -/
theorem exhaustive_ok_eq {p : Params} {e : Env} {ds : List Design}
    (h : exhaustive p e = .ok ds) : ds = topK p.nDesigns (evaluatedRaw p e) := by
  rw [(C09_exhaustive_total p e).2] at h
  exact (Except.ok.inj h).symm

/-- the scores of all evaluated designs are NaN-free under `ScoresNaNFree` -/
theorem goodScore_evaluated {p : Params} {e : Env} (hnan : ScoresNaNFree p e) :
    ∀ d ∈ evaluatedRaw p e, GoodScore d := by
  intro d hd
  have := (evaluated_sub_listing p e d hd).2.2
  unfold GoodScore
  rw [this]
  exact (hnan d.T d.C).1

/-- the returned designs are evaluated designs (no hypothesis on the scores is needed: the queue
only ever holds pushed items) -/
theorem exhaustive_sub_evaluated (p : Params) (e : Env) (ds : List Design)
    (h : exhaustive p e = .ok ds) : ∀ d ∈ ds, d ∈ evaluatedRaw p e := by
  have hds := exhaustive_ok_eq h
  subst hds
  -- membership in a `foldQ` result, by induction, without any order hypothesis
  have key : ∀ (xs q : List Design) (d : Design),
      d ∈ foldQ Design.lt p.nDesigns q xs → d ∈ q ∨ d ∈ xs := by
    intro xs
    induction xs with
    | nil => intro q d hd; exact Or.inl hd
    | cons x xs ih =>
      intro q d hd
      rw [foldQ_cons] at hd
      rcases ih _ d hd with h' | h'
      · rcases mem_pushQueue Design.lt _ x d q h' with rfl | h''
        · exact Or.inr List.mem_cons_self
        · exact Or.inl h''
      · exact Or.inr (List.mem_cons_of_mem _ h')
  intro d hd
  rw [topK_eq, List.mem_reverse] at hd
  rcases key _ _ d hd with h' | h'
  · simp at h'
  · exact h'

theorem C01_exhaustive (p : Params) (e : Env) (ds : List Design) (h : exhaustive p e = .ok ds)
    (d : Design) (hd : d ∈ ds) : LegalDesign e d.T d.C :=
  C01_exhaustive_evaluated p e d (exhaustive_sub_evaluated p e ds h d hd)

/-- C02 (exhaustive): all six constraints, inclusive bounds, share reading A -/
theorem C02_exhaustive_evaluated (p : Params) (e : Env) (hwf : WF p e) (d : Design)
    (h : d ∈ evaluatedRaw p e) :
    TrtSizeOk p d.T ∧ CtlSizeOk p d.C ∧ GeoRatioOk p d.T d.C ∧ VolRatioOk p e d.T d.C ∧
      ShareOkA p e d.T ∧ BudgetOk p e d.T d.C := by
  obtain ⟨hl, hok, _, hshare⟩ := evaluatedRaw_sound p e d h
  have hLD := legalDesign_of_listing hl
  obtain ⟨hL, hn, hm⟩ := mem_designsListing.1 hl
  obtain ⟨_, hctl, hgeo⟩ := mem_ctlSizes_iff.1 hm
  obtain ⟨hvol, hbud⟩ := (ctlOk_iff hwf hL.lt_length.1 hLD.2.1).1 hok
  exact ⟨(mem_trtSizeRange_iff.1 hn).2, hctl, hgeo, hvol, hshare, hbud⟩

theorem C02_exhaustive (p : Params) (e : Env) (hwf : WF p e) (ds : List Design)
    (h : exhaustive p e = .ok ds) (d : Design) (hd : d ∈ ds) :
    TrtSizeOk p d.T ∧ CtlSizeOk p d.C ∧ GeoRatioOk p d.T d.C ∧ VolRatioOk p e d.T d.C ∧
      ShareOkA p e d.T ∧ BudgetOk p e d.T d.C :=
  C02_exhaustive_evaluated p e hwf d (exhaustive_sub_evaluated p e ds h d hd)

/-- C03 soundness of the evaluated set -/
theorem C03_sound (p : Params) (e : Env) (hwf : WF p e) (d : Design)
    (h : d ∈ evaluatedRaw p e) : Feasible p e d.T d.C :=
  ⟨C01_exhaustive_evaluated p e d h, C02_exhaustive_evaluated p e hwf d h⟩

/-- C03 completeness of the evaluated set: a feasible design is evaluated unless its treatment
group is omittable (optimistic budget of the group, or of an admissible sub-group, outside the
budget range) -/
theorem C03_complete (p : Params) (e : Env) (hwf : WF p e) (T C : GeoSet)
    (h : Feasible p e T C) : mkDesign p e T C ∈ evaluatedRaw p e ∨ Omittable p e T := by
  obtain ⟨hLD, htrt, hctl, hgeo, hvol, hshare, hbud⟩ := h
  by_cases hno : Omittable p e T
  · exact Or.inr hno
  · left
    have hsz := hLD.sizes
    have hl : (T, C) ∈ designsListing p e :=
      mem_designsListing.2 ⟨hLD.1, mem_trtSizeRange_iff.2 ⟨hsz.1, htrt⟩,
        mem_ctlSizes_iff.2 ⟨hsz.2, hctl, hgeo⟩⟩
    have hok : ctlOk p e T C = true :=
      (ctlOk_iff hwf hLD.1.lt_length.1 hLD.2.1).2 ⟨hvol, hbud⟩
    exact evaluatedRaw_complete hwf hl (fun b pats hp => trtVerdict_go hwf hshare hno b pats hp) hok

/-- no design is evaluated twice -/
theorem C03_nodup (p : Params) (e : Env) :
    ((evaluatedRaw p e).map fun d => (d.T, d.C)).Nodup :=
  (nodup_designsListing p e).sublist (evaluatedRaw_sublist p e)

/-- the bounded queue on the evaluated designs: the kept list, plus a ghost list of what was
dropped -/
theorem exhaustive_spec (p : Params) (e : Env) (hnan : ScoresNaNFree p e) (ds : List Design)
    (h : exhaustive p e = .ok ds) :
    ∃ dropped : List Design,
      (ds ++ dropped).Perm (evaluatedRaw p e) ∧
      ds.length = min p.nDesigns (evaluatedRaw p e).length ∧
      ds.Pairwise (fun a b => Design.lt a b = false) ∧
      ∀ d ∈ dropped, ∀ x ∈ ds, Design.lt x d = false := by
  have hds := exhaustive_ok_eq h
  subst hds
  exact topK_spec p.nDesigns (evaluatedRaw p e) (goodScore_evaluated hnan)

/-- C03 / C14 top-k: k distinct designs (all if fewer), best first, nothing
evaluated-but-dropped beats a kept one -/
theorem C03_topk (p : Params) (e : Env) (hnan : ScoresNaNFree p e) (ds : List Design)
    (h : exhaustive p e = .ok ds) :
    ds.length = min p.nDesigns (evaluatedRaw p e).length ∧
    ds.Pairwise (fun a b => Design.lt a b = false) ∧
    (ds.map fun d => (d.T, d.C)).Nodup ∧
    (∀ d ∈ ds, d ∈ evaluatedRaw p e) ∧
    (∀ d ∈ evaluatedRaw p e, d ∉ ds → ∀ x ∈ ds, Design.lt x d = false) := by
  obtain ⟨dropped, hperm, hlen, hsorted, hdom⟩ := exhaustive_spec p e hnan ds h
  refine ⟨hlen, hsorted, ?_, ?_, ?_⟩
  · have h1 : ((ds ++ dropped).map fun d => (d.T, d.C)).Nodup :=
      (hperm.map _).nodup_iff.2 (C03_nodup p e)
    rw [List.map_append] at h1
    exact h1.of_append_left
  · intro d hd
    exact hperm.mem_iff.1 (List.mem_append_left _ hd)
  · intro d hd hnd x hx
    rcases List.mem_append.1 (hperm.mem_iff.2 hd) with h' | h'
    · exact absurd h' hnd
    · exact hdom d h' x hx

/-- C03 headline: no feasible, non-omittable design outside the result scores strictly higher
than any returned design; and if fewer than k are returned then every such design is returned -/
theorem C03_optimal (p : Params) (e : Env) (hwf : WF p e) (hnan : ScoresNaNFree p e)
    (ds : List Design) (h : exhaustive p e = .ok ds) (T C : GeoSet) (hf : Feasible p e T C)
    (hno : ¬ Omittable p e T) :
    mkDesign p e T C ∈ ds ∨
      (ds.length = p.nDesigns ∧ ∀ x ∈ ds, Design.lt x (mkDesign p e T C) = false) := by
  have hev : mkDesign p e T C ∈ evaluatedRaw p e := by
    rcases C03_complete p e hwf T C hf with h' | h'
    · exact h'
    · exact absurd h' hno
  obtain ⟨dropped, hperm, hlen, _, hdom⟩ := exhaustive_spec p e hnan ds h
  by_cases hmem : mkDesign p e T C ∈ ds
  · exact Or.inl hmem
  · right
    have hdr : mkDesign p e T C ∈ dropped := by
      rcases List.mem_append.1 (hperm.mem_iff.2 hev) with h' | h'
      · exact absurd h' hmem
      · exact h'
    refine ⟨?_, hdom _ hdr⟩
    have h1 : ds.length + dropped.length = (evaluatedRaw p e).length := by
      simpa using hperm.length_eq
    have h2 : 0 < dropped.length := List.length_pos_of_mem hdr
    omega

/-- C04 fragment carried by the model: the score attached to a design is that of its own
groups, with the documented last entry -/
theorem C04_score_of_design (p : Params) (e : Env) (d : Design) (h : d ∈ evaluatedRaw p e) :
    d.score = e.score5 d.T d.C ++
      [if p.budgetRange.isSome then e.budgetInv d.T d.C else e.invImpact d.T d.C] := by
  have := (evaluated_sub_listing p e d h).2.2
  conv_lhs => rw [this]
  rfl

/-- "a constraint left unspecified imposes nothing": with no optional constraint at all the
evaluated set is the whole listing -/
theorem C02_none_imposes_nothing (p : Params) (e : Env) (h1 : p.volTol = none)
    (h2 : p.shareRange = none) (h3 : p.budgetRange = none) :
    (evaluatedRaw p e).map (fun d => (d.T, d.C)) = designsListing p e :=
  evaluatedRaw_none h1 h2 h3

/-- `Design.lt` is a strict weak order on designs with NaN-free scores (any lengths) -/
theorem designLt_strictWeak_on_nanFree :
    (∀ a, GoodScore a → Design.lt a a = false) ∧
    (∀ a b c, GoodScore a → GoodScore b → GoodScore c →
      Design.lt a b = true → Design.lt b c = true → Design.lt a c = true) ∧
    (∀ a b c, GoodScore a → GoodScore b → GoodScore c →
      Design.lt a c = true → Design.lt a b = true ∨ Design.lt b c = true) :=
  strictWeak_designLt_restricted

/-! ### non-vacuity -/

def exShare : Nat → Rat
  | 0 => 3/20 | 1 => 1/10 | 2 => 1/4 | 3 => 1/5 | _ => 3/10

/-- 5 geos in the search; treatment groups contain geo 1, the optimistic budget of `T` is the sum
of its indices, the budget of `(T, C)` is that plus a quarter of the sum of `C` -/
def exEnv : Env where
  cls := [.ctx, .tFixed, .ct, .cx, .ctx]
  share := exShare
  optImpact T := .fin (T.sum : Nat)
  impact T C := .fin ((T.sum : Nat) + ((C.sum : Nat) : Rat) / 4)
  score5 T C := [some 1, some (1/2), some 0, some 2, some (((T.length + 2 * C.sum : Nat) : Rat) / 10)]
  invImpact T C := some (1 / (1 + (T.sum : Nat) + ((C.sum : Nat) : Rat) / 4))
  budgetInv T C := some (5 / (1 + (T.sum : Nat) + ((C.sum : Nat) : Rat) / 4))

def exParams : Params where
  budgetRange := some (2, 5)
  iroas := 1
  nDesigns := 3

theorem exWF : WF exParams exEnv where
  sharePos := by
    intro i hi
    have hi' : i < 5 := hi
    have : i = 0 ∨ i = 1 ∨ i = 2 ∨ i = 3 ∨ i = 4 := by omega
    rcases this with rfl | rfl | rfl | rfl | rfl <;> decide +kernel
  iroasPos := by decide +kernel
  impactFin := fun _ _ => ⟨_, rfl⟩
  optFin := fun _ => ⟨_, rfl⟩
  volTolPos := by intro τ h; cases h
  geoTolPos := by intro τ h; cases h

theorem exNaNFree : ScoresNaNFree exParams exEnv := fun _ _ => ⟨rfl, rfl, rfl⟩

example : (trtSizeRange exParams exEnv) = [1, 2, 3, 4] := by decide +kernel
example : (designsListing exParams exEnv).length = 32 := by decide +kernel
example : ((evaluatedRaw exParams exEnv).map fun d => (d.T, d.C)) =
    [([1, 2], [0]), ([1, 2], [3]), ([1, 2], [4]), ([1, 2], [0, 3]), ([1, 2], [0, 4]),
     ([1, 2], [3, 4]), ([1, 2], [0, 3, 4]), ([0, 1, 2], [3]), ([0, 1, 2], [4]),
     ([0, 1, 2], [3, 4])] := by decide +kernel

/-- optimistic budget below the range -/
example : Omittable exParams exEnv [1] := ⟨(2, 5), rfl, Or.inl (by decide +kernel)⟩
/-- optimistic budget above the range -/
example : Omittable exParams exEnv [1, 2, 4] := ⟨(2, 5), rfl, Or.inr (Or.inl (by decide +kernel))⟩
/-- a superset of an admissible group whose optimistic budget is above the range -/
example : Omittable exParams exEnv [0, 1, 2, 4] :=
  ⟨(2, 5), rfl, Or.inr (Or.inr ⟨[1, 2, 4], ⟨by decide +kernel, by decide +kernel⟩,
    by decide +kernel, by decide +kernel⟩)⟩

example : Feasible exParams exEnv [1, 2] [0, 3] :=
  C03_sound exParams exEnv exWF (mkDesign exParams exEnv [1, 2] [0, 3]) (by decide +kernel)


/-- ... and a treatment group that is not omittable (no admissible sub-group of `{1, 2}` has an
optimistic budget above 5), so the hypotheses of `C03_optimal` are jointly satisfiable -/
theorem sum_le_of_le (S : List Nat) (b : Nat) (h : ∀ i ∈ S, i ≤ b) : S.sum ≤ b * S.length := by
  induction S with
  | nil => simp
  | cons a S ih =>
    have h1 := h a List.mem_cons_self
    have h2 := ih (fun i hi => h i (List.mem_cons_of_mem _ hi))
    simp only [List.sum_cons, List.length_cons, Nat.mul_add]
    omega

theorem ex_not_omittable : ¬ Omittable exParams exEnv [1, 2] := by
  rintro ⟨r, hr, h⟩
  have hr' : r = (2, 5) := by cases hr; rfl
  subst hr'
  rcases h with h | h | ⟨S, ⟨hn, hS⟩, hsub, hlt⟩
  · exact absurd h (by decide +kernel)
  · exact absurd h (by decide +kernel)
  · have hpos := pos_of_mem_trtSizeRange hn
    obtain ⟨hs, _, _, _⟩ := (mem_trtGroups hpos).1 hS
    have hlen : S.length ≤ 2 := length_le_of_subset (b := [1, 2]) hs.nodup hsub
    have hsum : S.sum ≤ 2 * S.length :=
      sum_le_of_le S 2 (by intro i hi; have := hsub i hi; simp at this; omega)
    have hopt : optQ exEnv S / exParams.iroas = ((S.sum : Nat) : Rat) := by
      simp [optQ, exEnv, exParams]
    rw [hopt] at hlt
    have h4 : ((S.sum : Nat) : Rat) ≤ 4 := by exact_mod_cast (by omega : S.sum ≤ 4)
    simp only at hlt
    linarith

/-- the search on the example: it returns 3 of the 10 evaluated designs (32 are listed), best
first; the feasible, non-omittable design `({1,2}, {0,3})` is not among them and no returned
design scores lower than it -/
example : ∃ ds, exhaustive exParams exEnv = .ok ds ∧ ds.length = 3 ∧
    (ds.map fun d => (d.T, d.C)) = [([0, 1, 2], [3, 4]), ([1, 2], [0, 3, 4]), ([1, 2], [3, 4])] ∧
    ∀ x ∈ ds, Design.lt x (mkDesign exParams exEnv [1, 2] [0, 3]) = false := by
  refine ⟨_, (C09_exhaustive_total exParams exEnv).2, by decide +kernel, by decide +kernel, ?_⟩
  have hf : Feasible exParams exEnv [1, 2] [0, 3] :=
    C03_sound exParams exEnv exWF (mkDesign exParams exEnv [1, 2] [0, 3]) (by decide +kernel)
  rcases C03_optimal exParams exEnv exWF exNaNFree _ (C09_exhaustive_total exParams exEnv).2
    [1, 2] [0, 3] hf ex_not_omittable with h | h
  · exact absurd h (by decide +kernel)
  · exact h.2

/-- why `ScoresNaNFree` is assumed: with a NaN entry Python's tuple `<` is not a strict weak
order (`a < c` but neither `a < b` nor `b < c`), so "the k best" is not well defined -/
example : scoreLt [some 0] [some 1] = true ∧ scoreLt [some 0] [none] = false ∧
    scoreLt [none] [some 1] = false := by decide +kernel

end MM.Search
