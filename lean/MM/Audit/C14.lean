import MM.Props.C14
import MM.Props.ScoreTie
import MM.Props.HeapTie

#print axioms MM.HeapDict.C14_sorted
#print axioms MM.HeapDict.C14_length
#print axioms MM.HeapDict.C14_topk
#print axioms MM.HeapDict.C14_keys
#print axioms MM.HeapDict.C14_get_pure
#print axioms MM.HeapDict.C14_get_count
#print axioms MM.HeapDict.C14_get_prefix
#print axioms MM.HeapDict.C14_get_prefix_idx
#print axioms MM.Search.tie_score_fields
#print axioms MM.Search.tie_score_exprs
#print axioms MM.Search.tie_score_order
#print axioms MM.HeapDict.tie_heap_push
#print axioms MM.HeapDict.tie_heap_result
#print axioms MM.HeapDict.tie_heap_init
