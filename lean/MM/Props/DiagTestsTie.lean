/-
Obligations on the comparisons that decide the four diagnostic tests (first four score entries), regenerated
from tbrmmdiagnostics.py by translator T9: they are the comparisons of the hand-written model
(MM/Model/DiagTests.lean) that the DiagTests theorems and the C04 correspondence are about.  Generic over the
ordered number type (the model runs at Float, the theorems are at ℝ).
-/
import MM.Model.DiagTests
import MM.Generated.DiagTestsGen
set_option linter.unusedSectionVars false
namespace MM.Numeric
open MM.Gen.DiagTests

section
variable {α : Type} [Add α] [Sub α] [Mul α] [Div α] [Neg α] [NatCast α] [HasSqrt α] [HasAbs α]
variable [LT α] [DecidableRel (α := α) (· < ·)] [LE α] [DecidableRel (α := α) (· ≤ ·)]

/-- `corr >= min_corr` (inclusive) -/
theorem tie_corr_test (corr minCorr : α) : corrTestGen corr minCorr = corrTestOk corr minCorr := rfl

/-- `dw_min < dwstat < dw_max` (exclusive on both sides) -/
theorem tie_dw_test (dw lo hi : α) : dwGen dw lo hi = dwOk dw lo hi := rfl

/-- Brownian-bridge test: no entry strictly above its bound -/
theorem tie_bb_test (resid : List α) (sigma bound : α) :
    bbOk resid sigma bound =
      !(List.zipWith (fun a b => bbExceedsGen a b) (absCumStdResid resid sigma) (bbBounds resid.length bound)).any id := rfl

/-- A/A test: passes outright when the interval contains zero, otherwise `prob <= threshold` -/
theorem tie_aa_test (xs ys : List α) (nTest : Nat) (tqSig : α) (cdf : α → α) (thr : α) :
    (aaContainsZeroGen (aaTest xs ys nTest tqSig cdf thr).lower (aaTest xs ys nTest tqSig cdf thr).upper = true →
      (aaTest xs ys nTest tqSig cdf thr).ok = true ∧ (aaTest xs ys nTest tqSig cdf thr).prob = none) ∧
    (aaContainsZeroGen (aaTest xs ys nTest tqSig cdf thr).lower (aaTest xs ys nTest tqSig cdf thr).upper = false →
      ∃ p, (aaTest xs ys nTest tqSig cdf thr).prob = some p ∧ (aaTest xs ys nTest tqSig cdf thr).ok = aaOkGen p thr) := by
  unfold aaTest aaContainsZeroGen aaOkGen
  dsimp only
  split
  · rename_i h
    exact ⟨fun _ => ⟨rfl, rfl⟩, fun hc => by simp [h] at hc⟩
  · rename_i h
    exact ⟨fun hc => by simp [h] at hc, fun _ => ⟨_, rfl, rfl⟩⟩

end
end MM.Numeric
