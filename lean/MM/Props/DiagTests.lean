/-
The diagnostic tests of tbrmmdiagnostics.py over ℝ: correlation test, Durbin–Watson test,
Brownian-bridge test, A/A test, and the order-of-magnitude threshold of tbr_iroas.py.

Model: `MM/Model/DiagTests.lean` (`dwStat`, `bbBounds`, `absCumStdResid`, `bbOk`, `aaTest`) and
`MM/Model/Numeric.lean` (`corr`, `tbrfit`).  ℝ instance: `MM/Proofs/NumericReal.lean`.
Helpers: `MM/Proofs/DiagTestsReal.lean`.

Python sources: `tbrmmdiagnostics.py` (`corr`, `corr_test`, `dwtest`, `_brownian_bridge_bounds`,
`bbtest`, `aatest`), `utils.py` (`float_order`).

All statements are proved as specified (no `_partial` weakening was necessary).  Notes:
* The comparisons `<` / `≤` inside `bbOk`, `aaTest` use Mathlib's (classical) decidability
  instances `Real.decidableLT` / `Real.decidableLE`, found by instance resolution.
* `corr_abs_le_one`: `hlen` is not used by the proof (`List.zipWith` truncates to the shorter list
  and Cauchy–Schwarz still holds); it is kept because `np.corrcoef` requires equal lengths.
* `bbOk_scale`: `hs : sigma ≠ 0` is not used by the proof (with Lean's `x / 0 = 0` both sides have
  all-zero standardised residuals); it is kept because Python would divide by zero there.  Only
  `c ≠ 0` is used from `hc : 0 < c`.
* `x / 0 = 0` in Lean's ℝ: `dwStat_range` carries `0 < Σ r²`, the case in which numpy would
  otherwise return nan; `dwStat_scale` holds under the total-division convention as well.
-/
import MM.Proofs.DiagTestsReal
import Mathlib.Analysis.SpecialFunctions.Log.Base
import Mathlib.Analysis.SpecialFunctions.Pow.Real

namespace MM.Numeric

/-- Pearson correlation lies in [−1, 1] (Cauchy–Schwarz), so `corr_test` compares a number in that
range with min_corr -/
theorem corr_abs_le_one (xs ys : List ℝ) (hlen : xs.length = ys.length) (hx : 0 < sxx xs)
    (hy : 0 < sxx ys) : |corr xs ys| ≤ 1 := by
  have _ := hlen
  have hs : 0 < Real.sqrt (sxx xs * sxx ys) := Real.sqrt_pos.2 (mul_pos hx hy)
  simp only [corr, sqrt_real]
  rw [abs_div, abs_of_pos hs, div_le_one hs]
  exact Real.abs_le_sqrt (sxy_sq_le xs ys)

/-- the Durbin–Watson statistic lies in [0, 4] -/
theorem dwStat_range (r : List ℝ) (h : 0 < (r.map fun x => x * x).sum) :
    0 ≤ dwStat r ∧ dwStat r ≤ 4 := by
  have h' : 0 < sumSq r := h
  rw [dwStat_eq]
  refine ⟨div_nonneg (dwNum_nonneg r) h'.le, ?_⟩
  rw [div_le_iff₀ h']
  exact dwNum_le r

/-- Brownian-bridge bounds: n − 1 of them -/
theorem bbBounds_length (n : Nat) (b : ℝ) : (bbBounds n b).length = n - 1 := by
  simp [bbBounds]

/-- non-negative for a non-negative multiplier -/
theorem bbBounds_nonneg (n : Nat) (b : ℝ) (hb : 0 ≤ b) : ∀ v ∈ bbBounds n b, 0 ≤ v := by
  intro v hv
  simp only [bbBounds, List.mem_map] at hv
  obtain ⟨i, _, rfl⟩ := hv
  exact mul_nonneg hb (Real.sqrt_nonneg _)

/-- symmetric in k ↔ n − k -/
theorem bbBounds_symm (n : Nat) (b : ℝ) (i : Nat) (hi : i + 1 < n) :
    (bbBounds n b)[i]? = (bbBounds n b)[n - 2 - i]? := by
  have hn : (n : ℝ) ≠ 0 := by
    have : n ≠ 0 := by omega
    exact_mod_cast this
  have hk : n - 2 - i + 1 = n - (i + 1) := by omega
  rw [bbBounds_getElem? n b i (by omega), bbBounds_getElem? n b (n - 2 - i) (by omega), hk,
    Nat.cast_sub (by omega : i + 1 ≤ n), bb_arg _ _ hn, bb_arg _ _ hn]
  congr 3
  ring

/-- the Brownian-bridge test is scale-free: multiplying residuals and sigma by c > 0 changes
nothing -/
theorem bbOk_scale (r : List ℝ) (sigma bound c : ℝ) (hc : 0 < c) (hs : sigma ≠ 0) :
    bbOk (r.map (c * ·)) (c * sigma) bound = bbOk r sigma bound := by
  have _ := hs
  simp only [bbOk, absCumStdResid_scale r sigma c hc.ne', List.length_map]

/-- the Durbin–Watson statistic is scale-free -/
theorem dwStat_scale (r : List ℝ) (c : ℝ) (hc : c ≠ 0) : dwStat (r.map (c * ·)) = dwStat r := by
  rw [dwStat_eq, dwStat_eq, dwNum_map_mul, sumSq_map_mul]
  exact mul_div_mul_left _ _ (mul_self_ne_zero.2 hc)

/-- A/A test: when the credible interval of the held-out effect contains zero the test passes and no
probability is computed -/
theorem aaTest_contains_zero (xs ys : List ℝ) (nTest : Nat) (tqSig : ℝ) (cdf : ℝ → ℝ) (thr : ℝ)
    (h : (aaTest xs ys nTest tqSig cdf thr).lower * (aaTest xs ys nTest tqSig cdf thr).upper < 0) :
    (aaTest xs ys nTest tqSig cdf thr).ok = true ∧ (aaTest xs ys nTest tqSig cdf thr).prob = none := by
  rw [aaTest_lower, aaTest_upper] at h
  exact aaTest_of_neg xs ys nTest tqSig cdf thr h

/-- otherwise the verdict is `prob ≤ threshold` -/
theorem aaTest_verdict (xs ys : List ℝ) (nTest : Nat) (tqSig : ℝ) (cdf : ℝ → ℝ) (thr p : ℝ)
    (h : (aaTest xs ys nTest tqSig cdf thr).prob = some p) :
    (aaTest xs ys nTest tqSig cdf thr).ok = decide (p ≤ thr) :=
  aaTest_ok_of_prob xs ys nTest tqSig cdf thr p h

/-- the A/A interval is the design-side fit of the first n − n_test points evaluated at the means of
the last n_test points -/
theorem aaTest_interval (xs ys : List ℝ) (nTest : Nat) (tqSig : ℝ) (cdf : ℝ → ℝ) (thr : ℝ) :
    let nPre := ys.length - nTest
    let f := tbrfit (xs.take nPre) (ys.take nPre) nTest tqSig (mean (xs.drop nPre)) (mean (ys.drop nPre))
    (aaTest xs ys nTest tqSig cdf thr).lower = f.estimate - f.cihw ∧
      (aaTest xs ys nTest tqSig cdf thr).upper = f.estimate + f.cihw := by
  intro nPre f
  exact ⟨aaTest_lower xs ys nTest tqSig cdf thr, aaTest_upper xs ys nTest tqSig cdf thr⟩

/-- `float_order(x) < -10`, i.e. ⌊log₁₀ |x|⌋ < −10 for x ≠ 0, is |x| < 10⁻¹⁰ (the scenario threshold
of tbr_iroas) -/
theorem float_order_lt (x : ℝ) (hx : x ≠ 0) :
    ⌊Real.logb 10 |x|⌋ < -10 ↔ |x| < (10 : ℝ) ^ (-10 : ℤ) := by
  rw [Int.floor_lt, Real.logb_lt_iff_lt_rpow (by norm_num) (abs_pos.2 hx), Real.rpow_intCast]

/-! ### non-vacuity -/

/-- a concrete alternating residual series: Σ (r_t − r_{t−1})² = 8, Σ r_t² = 3 -/
example : dwStat ([1, -1, 1] : List ℝ) = 8 / 3 := by
  simp only [dwStat_eq, dwNum, sumSq, List.tail_cons, List.zipWith_cons_cons, List.zipWith_nil_right,
    List.map_cons, List.map_nil, List.sum_cons, List.sum_nil]
  norm_num

/-- the hypothesis of `dwStat_range` is satisfiable, and the upper bound 4 is approached by
alternating series (8/3 here) -/
example : 0 ≤ dwStat ([1, -1, 1] : List ℝ) ∧ dwStat ([1, -1, 1] : List ℝ) ≤ 4 :=
  dwStat_range _ (by norm_num)

/-- a constant residual series has statistic 0 (the lower end of the range) -/
example : dwStat ([2, 2, 2] : List ℝ) = 0 := by
  simp only [dwStat_eq, dwNum, sumSq, List.tail_cons, List.zipWith_cons_cons, List.zipWith_nil_right,
    List.map_cons, List.map_nil, List.sum_cons, List.sum_nil]
  norm_num

example : (bbBounds 4 (3 : ℝ)).length = 3 := bbBounds_length 4 3

/-- the middle and outer bounds for n = 4: entries 0 and 2 coincide -/
example : (bbBounds 4 (3 : ℝ))[0]? = (bbBounds 4 (3 : ℝ))[2]? := bbBounds_symm 4 3 0 (by norm_num)

/-- the hypotheses of `corr_abs_le_one` are satisfiable -/
example : 0 < sxx ([0, 1] : List ℝ) := by
  simp only [sxx, sprod, mean, sum_real, nat_real, List.zipWith_cons_cons, List.zipWith_nil_right,
    List.sum_cons, List.sum_nil, List.length_cons, List.length_nil]
  norm_num

example : |corr ([0, 1] : List ℝ) [0, 1]| ≤ 1 := by
  have h : 0 < sxx ([0, 1] : List ℝ) := by
    simp only [sxx, sprod, mean, sum_real, nat_real, List.zipWith_cons_cons, List.zipWith_nil_right,
      List.sum_cons, List.sum_nil, List.length_cons, List.length_nil]
    norm_num
  exact corr_abs_le_one _ _ rfl h h

/-- 10⁻¹¹ is below the threshold, 10⁻¹⁰ is not -/
example : ⌊Real.logb 10 |(10 : ℝ) ^ (-11 : ℤ)|⌋ < -10 := by
  rw [float_order_lt _ (by positivity), abs_of_pos (by positivity)]
  exact zpow_lt_zpow_right₀ (by norm_num) (by norm_num)

example : ¬ ⌊Real.logb 10 |(10 : ℝ) ^ (-10 : ℤ)|⌋ < -10 := by
  rw [float_order_lt _ (by positivity), abs_of_pos (by positivity)]
  exact lt_irrefl _

end MM.Numeric
