/-
Model of geoeligibility.py (C16): validation of an eligibility table and the
partition of (a subset of) its geos into assignment classes.  The set algebra of
`GeoAssignments.__init__` is generated from the source (MM.Generated.EligGen) as
pointwise Boolean formulas.
-/
import MM.Model.Basic
import MM.Generated.EligGen
namespace MM.Elig
open MM

/-- a cell after Python's `v in {0, 1}` / `v == 1` tests -/
inductive Cell | zero | one | other
deriving DecidableEq, Repr

structure Row where
  geo : String
  c : Cell
  t : Cell
  x : Cell
deriving DecidableEq, Repr

structure Table where
  hasGeo : Bool        -- a column or index named 'geo' exists
  dupCols : Bool       -- some column label is duplicated
  missingCols : Bool   -- one of control / treatment / exclude is missing
  rows : List Row

def Row.bad (r : Row) : Bool := r.c == .other || r.t == .other || r.x == .other
def Row.zero (r : Row) : Bool := r.c == .zero && r.t == .zero && r.x == .zero

/-- `GeoEligibility.__init__` -/
def validate (tb : Table) : Py (List Row) :=
  if !tb.hasGeo then .error .valueError
  else if tb.dupCols then .error .valueError
  else if tb.missingCols then .error .valueError
  else if !decide (tb.rows.map (·.geo)).Nodup then .error .valueError
  else if tb.rows.any Row.bad then .error .valueError
  else if tb.rows.any Row.zero then .error .valueError
  else .ok tb.rows

/-- a geo reference in the answer: an ID or a position -/
inductive Ref | id (g : String) | idx (i : Nat)
deriving DecidableEq, Repr

/-- `df.loc[geos]` (+ `reset_index()` when indices are requested); repaired tree:
an empty list selects no geo. -/
def select (rows : List Row) (geos : Option (List String)) (indices : Bool) : Py (List (Ref × Row)) :=
  match geos with
  | none => if indices then .error .valueError else .ok (rows.map fun r => (.id r.geo, r))
  | some gs => do
    let sel ← gs.mapM fun g => match rows.find? (·.geo == g) with
      | some r => .ok r
      | none => .error .keyError
    if indices then pure ((List.range sel.length).zip sel |>.map fun (i, r) => (.idx i, r))
    else pure (sel.map fun r => (.id r.geo, r))

structure Assignments where
  all : List Ref
  c : List Ref
  t : List Ref
  x : List Ref
  c_fixed : List Ref
  t_fixed : List Ref
  x_fixed : List Ref
  ct : List Ref
  cx : List Ref
  ctx : List Ref
  tx : List Ref
deriving Repr

def pick (f : Bool → Bool → Bool → Bool) (sel : List (Ref × Row)) : List Ref :=
  (sel.filter fun (_, r) => f (r.c == .one) (r.t == .one) (r.x == .one)).map (·.1)

open MM.Gen.Elig in
/-- `get_eligible_assignments(geos, indices)` on a validated table -/
def assignments (rows : List Row) (geos : Option (List String)) (indices : Bool) : Py Assignments := do
  let sel ← select rows geos indices
  pure { all := pick f_all sel, c := pick f_c sel, t := pick f_t sel, x := pick f_x sel,
         c_fixed := pick f_c_fixed sel, t_fixed := pick f_t_fixed sel, x_fixed := pick f_x_fixed sel,
         ct := pick f_ct sel, cx := pick f_cx sel, ctx := pick f_ctx sel, tx := pick f_tx sel }

end MM.Elig
