/- Driver for the C08 model.
   init <short 0/1> | setX | clearX | setY <short 0/1> | read <q> [nConj]
   output for each read:  none | <xver> <yver>                                     -/
import MM.Model.DiagCache
import MM.Driver.Wire
open MM.DiagCache

def parseQ (q : String) (n : Nat) : Option Q :=
  match q with
  | "corr" => some .corr | "required_impact" => some .required_impact | "pretestfit" => some .pretestfit
  | "bbtest" => some .bbtest | "dwtest" => some .dwtest | "aatest" => some .aatest
  | "corr_test" => some .corr_test | "tbrfit" => some .tbrfit | "tests_ok" => some (.tests_ok n)
  | _ => none

partial def loop (h : IO.FS.Stream) (s : St) : IO Unit := do
  let line ← h.getLine
  if line.isEmpty then return ()
  let doOp (op : Op) : IO St := do
    let r := step s op
    match r.2 with
    | some (some (x, y)) => IO.println s!"{x} {y}"
    | some none => IO.println "none"
    | none => pure ()
    pure r.1
  match Wire.words line with
  | ["init", b] => loop h (init (b == "1"))
  | ["setX"] => loop h (← doOp .setX)
  | ["clearX"] => loop h (← doOp .clearX)
  | ["setY", b] => loop h (← doOp (.setY (b == "1")))
  | ["read", q] => match parseQ q 4 with
    | some q => loop h (← doOp (.read q))
    | none => IO.println "bad-op"; loop h s
  | ["read", q, n] => match parseQ q (n.toNat?.getD 4) with
    | some q => loop h (← doOp (.read q))
    | none => IO.println "bad-op"; loop h s
  | _ => IO.println "bad-op"; loop h s

def main : IO Unit := do loop (← IO.getStdin) (init false)
