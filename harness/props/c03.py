"""C03: exhaustive search returns the best-scoring feasible designs, best first."""
import core
import engines.search as se
from props._searchprop import SEARCH_TARGETS, SEARCH_TRUST, run_search_prop, replay_search

PROP = 'C03'
LEAN_TARGETS = SEARCH_TARGETS + ['MM.Props.ScoreTie']
THEOREMS = ['MM.Search.' + n for n in ('C03_sound', 'C03_complete', 'C03_nodup', 'C03_topk', 'C03_optimal', 'exhaustive_spec', 'designLt_strictWeak_on_nanFree', 'tie_share', 'tie_budget_screen', 'tie_volume')] + ['MM.Search.'+n for n in ['tie_score_fields', 'tie_score_exprs', 'tie_score_order']]
TRUSTED_BASE = SEARCH_TRUST + ['feasibility is over the admitted geos (documented behaviour of geos_within_constraints / n_geos_max); designs that use a never-admitted geo as control are tabulated too (instances with <= 6 assignable geos, no n_geos_max) and an omitted better one is reported as known finding F-C03-admission; scores containing NaN are outside the claim']


SUPPORTS_DEEPEN = True


def run(out, tier, model_ok=True, deepen=False):
  out.rule = 'oracle: brute-force enumeration of every legal (T, C) over the admitted geos with scores from independently built diagnostics; the result must be distinct, best-first, and no feasible non-omittable design outside it may score strictly higher (all of them returned when fewer than k); non-trivial = more than one feasible design'
  run_search_prop(out, PROP, se.judge_c03, tier, model_ok, deepen=deepen)


def replay(out, path, model_ok=True):
  replay_search(out, path, se.judge_c03)
