#!/usr/bin/env python3
"""Confirm a seeded change in its scratch worktree and store it under /verif/seeded/<id>/.
usage: keep_mutant.py <PROP> <n> <worktree> [--checks C01,C02]  (patch<n>.diff, demo<n>.py in <worktree>/_mutants)"""
import json, os, shutil, subprocess, sys, tempfile, xml.etree.ElementTree as ET

def sh(cmd, cwd=None, env=None, timeout=1800):
  p = subprocess.run(cmd, shell=True, cwd=cwd, env=env, stdout=subprocess.PIPE, stderr=subprocess.STDOUT, text=True, timeout=timeout)
  return p.returncode, p.stdout

def suite_ok(wt):
  base = json.load(open('/root/.vp/BASELINE.json'))
  with tempfile.TemporaryDirectory(dir='/var/tmp') as d:
    out = os.path.join(d, 'j.xml')
    env = dict(os.environ, PYTHONPATH=wt)
    sh(f'/venv/bin/python -m pytest -q -p no:cacheprovider --timeout=900 --continue-on-collection-errors --junitxml={out}', cwd=wt, env=env)
    passed = set()
    for tc in ET.parse(out).getroot().iter('testcase'):
      if not any(ch.tag in ('failure', 'error', 'skipped') for ch in tc):
        passed.add(tc.get('classname') + '::' + tc.get('name'))
  missing = [t for t in base['stable_pass'] if t not in passed]
  return missing

def main():
  prop, n, wt = sys.argv[1], sys.argv[2], sys.argv[3]
  dest_n = sys.argv[4] if len(sys.argv) > 4 else n
  mdir = os.path.join(wt, '_mutants')
  patch, demo = os.path.join(mdir, f'patch{n}.diff'), os.path.join(mdir, f'demo{n}.py')
  env = dict(os.environ, PYTHONPATH=wt)
  sh('git checkout -- .', cwd=wt)
  rc_clean, out_clean = sh(f'/venv/bin/python {demo}', cwd=wt, env=env, timeout=600)
  rc, o = sh(f'git apply {patch}', cwd=wt)
  if rc != 0:
    print('patch does not apply', o); return 1
  rc_mut, out_mut = sh(f'/venv/bin/python {demo}', cwd=wt, env=env, timeout=600)
  missing = suite_ok(wt)
  sh('git checkout -- .', cwd=wt)
  ok = rc_clean == 0 and rc_mut != 0 and not missing
  print(f'{prop}-{dest_n}: demo clean rc={rc_clean}, demo changed rc={rc_mut}, baseline tests missing with change={len(missing)} -> {"KEEP" if ok else "REJECT"}')
  if not ok:
    print(out_clean[-300:], out_mut[-300:], missing[:5]); return 1
  dst = f'/verif/seeded/{prop}-{dest_n}'
  os.makedirs(dst, exist_ok=True)
  shutil.copy(patch, os.path.join(dst, 'patch.diff'))
  shutil.copy(demo, os.path.join(dst, 'demo.py'))
  notes = open(os.path.join(mdir, 'notes.md')).read() if os.path.exists(os.path.join(mdir, 'notes.md')) else ''
  with open(os.path.join(dst, 'notes.md'), 'w') as f:
    f.write(notes)
  meta = {'property': prop, 'source': 'independent sub-agent given only the property text and a scratch worktree',
          'needs_to_manifest': 'see notes.md (section for change %s)' % n,
          'confirmed': {'demo_on_unchanged_tree_exit': rc_clean, 'demo_on_changed_tree_exit': rc_mut,
                        'pinned_suite_stable_pass_still_passing': True,
                        'commands': [f'cd <worktree> && PYTHONPATH=<worktree> /venv/bin/python _mutants/demo{n}.py  (clean: exit {rc_clean}; with patch: exit {rc_mut})',
                                     'pinned test suite (command of /root/.vp/BASELINE.json) run in the worktree with the patch: all 529 stable tests pass']},
          'demo_output_changed_tree_tail': out_mut[-400:], 'detected_by': None}
  json.dump(meta, open(os.path.join(dst, 'meta.json'), 'w'), indent=1)
  return 0

if __name__ == '__main__':
  sys.exit(main())
