"""C09: searches are total: infeasible inputs give an empty list, not a crash."""
import core
import engines.search as se
from props._searchprop import SEARCH_TARGETS, SEARCH_TRUST, run_search_prop, replay_search

PROP = 'C09'
LEAN_TARGETS = SEARCH_TARGETS
THEOREMS = ['MM.Search.' + n for n in ('C09_exhaustive_total', 'C09_greedy_total', 'greedy_fuel_mono', 'C09_greedy_terminates', 'C09_greedy_terminates_partial', 'C09_greedy_terminates_original_false')]
TRUSTED_BASE = SEARCH_TRUST + ['exceptions born inside pandas/numpy/scipy are not in the model (partial): covered by the exception-class correspondence and the oracle only']


SUPPORTS_DEEPEN = True


def run(out, tier, model_ok=True, deepen=False):
  out.rule = 'oracle: any exception other than ValueError escaping a search on an accepted input whose analysis window holds >= n_test + 3 points is a violation; non-trivial/distinct = instances that are empty-result, <= 2 geos, rejected at construction or raised'
  run_search_prop(out, PROP, se.judge_c09, tier, model_ok, deepen=deepen)


def replay(out, path, model_ok=True):
  replay_search(out, path, se.judge_c09)
