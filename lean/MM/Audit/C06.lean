import MM.Props.C05C06
import MM.Props.MemoTie
#print axioms MM.Numeric.C06_closed_form
#print axioms MM.Numeric.C06_posterior_scale
#print axioms MM.Numeric.C06_posterior_loc
#print axioms MM.Numeric.C06_posterior_df
#print axioms MM.Numeric.C06_design_side
#print axioms MM.Numeric.C06_summary_order
#print axioms MM.Numeric.C06_summary_order_fails
#print axioms MM.Numeric.C06_summary_probability
#print axioms MM.Numeric.ols_resid_sum
#print axioms MM.Numeric.ols_rss
#print axioms MM.Memo.tie_memoised
