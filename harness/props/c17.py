"""C17: design parameters are accepted exactly when in their documented domain."""
import json
import math
import numpy as np
import os
import core

PROP = 'C17'
LEAN_TARGETS = ['MM.Props.C17', 'MM.Audit.C17', 'MM.Driver.Wire']
THEOREMS = ['MM.Params.' + n for n in (
    'C17_accept_iff', 'C17_reject_valueError', 'C17_total', 'C17_construct', 'C17_defaults',
    'C17_defaults_in_domain', 'C17_eq_refl', 'C17_eq_symm', 'C17_eq_fields')]
TRUSTED_BASE = [
    'Lean 4.33.0 kernel; axioms propext, Classical.choice, Quot.sound (audited per theorem)',
    'translator T1 (harness/translate.py): the sequence of _test_* calls of __post_init__, field declarations, optionality '
    'and defaults are regenerated from the source; the three helper methods and __eq__ are hand-modelled '
    '(MM/Model/ParamsCore.lean) and tied by the boundary-grid correspondence',
    'Python comparison semantics of int/float/bool (exact mixed comparison, NaN unordered) as modelled by PyFloat',
    'correspondence harness harness/props/c17.py, driver lean/drivers/Params.lean',
]
INF = float('inf')
NAN = float('nan')


class Other:   # a value that is neither number, tuple nor None
  def __repr__(self):
    return 'Other()'


FIELDS = ['n_test', 'iroas', 'volume_ratio_tolerance', 'geo_ratio_tolerance', 'treatment_share_range', 'budget_range',
          'treatment_geos_range', 'control_geos_range', 'n_geos_max', 'n_pretest_max', 'n_designs', 'sig_level',
          'power_level', 'min_corr', 'rho_max', 'flevel']
SCALAR_BOUNDS = {'n_test': [1], 'iroas': [0.0], 'volume_ratio_tolerance': [0.0], 'geo_ratio_tolerance': [0.0],
                 'n_geos_max': [2], 'n_pretest_max': [3], 'n_designs': [1], 'sig_level': [0.0, 1.0],
                 'power_level': [0.0, 1.0], 'min_corr': [0.8, 1.0], 'rho_max': [0.9, 1.0], 'flevel': [0.9, 1.0]}
RANGE_BOUNDS = {'treatment_share_range': [0.0, 1.0], 'budget_range': [0.0, INF], 'treatment_geos_range': [1, INF],
                'control_geos_range': [1, INF]}
OPTIONAL = {'volume_ratio_tolerance', 'geo_ratio_tolerance', 'treatment_share_range', 'budget_range',
            'treatment_geos_range', 'control_geos_range', 'n_geos_max'}


def enc(v):
  if v is None:
    return 'n'
  if isinstance(v, bool):
    return 'b:%d' % int(v)
  if isinstance(v, int):
    return 'i:%d' % v
  if isinstance(v, float):
    return 'f:' + core.rat(v)
  if isinstance(v, tuple):
    return 't:[' + ';'.join(enc(x) for x in v) + ']'
  return 'o'


def is_num(v):
  return isinstance(v, (int, float))   # bool is an int


def integral(v):
  if isinstance(v, float):
    return math.isfinite(v) and v == math.floor(v)
  return True


# the documented domain (class docstring), written independently of the implementation
def in_domain_field(f, v):
  def num(pred):
    return is_num(v) and not (isinstance(v, float) and math.isnan(v)) and pred(v)

  def pair(pred):
    return isinstance(v, tuple) and len(v) == 2 and all(is_num(x) for x in v) and \
        not any(isinstance(x, float) and math.isnan(x) for x in v) and pred(v[0], v[1])
  if v is None:
    return f in OPTIONAL
  if f == 'n_test':
    return num(lambda x: x >= 1 and integral(x))
  if f == 'iroas':
    return num(lambda x: x >= 0)
  if f in ('volume_ratio_tolerance', 'geo_ratio_tolerance'):
    return num(lambda x: x > 0)
  if f == 'treatment_share_range':
    return pair(lambda a, b: 0 < a < b < 1)
  if f == 'budget_range':
    return pair(lambda a, b: 0 <= a < b < INF)
  if f in ('treatment_geos_range', 'control_geos_range'):
    return pair(lambda a, b: 1 <= a <= b < INF and integral(a) and integral(b))
  if f == 'n_geos_max':
    return num(lambda x: x >= 2 and integral(x))
  if f == 'n_pretest_max':
    return num(lambda x: x >= 3 and integral(x))
  if f == 'n_designs':
    return num(lambda x: x >= 1 and integral(x))
  if f in ('rho_max', 'flevel'):
    return num(lambda x: 0.9 <= x < 1)
  if f in ('sig_level', 'power_level'):
    return num(lambda x: 0 < x < 1)
  if f == 'min_corr':
    return num(lambda x: 0.8 <= x < 1)
  raise KeyError(f)


DEFAULTS = {'n_pretest_max': 90, 'n_designs': 1, 'sig_level': 0.9, 'power_level': 0.8, 'min_corr': 0.8,
            'rho_max': 0.995, 'flevel': 0.9}


def in_domain(kw):
  full = {f: None for f in OPTIONAL}
  full.update(DEFAULTS)
  full.update(kw)
  return all(in_domain_field(f, full[f]) for f in FIELDS)


def scalar_grid(f):
  vals = [None, True, False, 'x', Other(), (1, 2), [1], NAN, INF, -INF, 0, 1, -1, 2, 3, 5, 90, 0.5, 2.5, 3.0, 1e300,
          10 ** 400, -0.0, 1e-300, 0.995, 0.85]
  for b in SCALAR_BOUNDS[f]:
    fb = float(b)
    vals += [b, fb, math.nextafter(fb, INF), math.nextafter(fb, -INF), int(b) if float(b).is_integer() else fb,
             b + 1, b - 1, fb + 0.5]
    # numpy's float64 is a float: a value computed with numpy is in the domain whenever the plain float is
    vals += [np.float64(fb), np.float64(math.nextafter(fb, INF)), np.float64(math.nextafter(fb, -INF))]
  vals += [np.float64(0.85), np.float64(0.95), np.float64(3.0), np.float64(0.5)]
  return vals


def range_grid(f, rng):
  lo, hi = RANGE_BOUNDS[f]
  pts = [lo, float(lo), math.nextafter(float(lo), INF), math.nextafter(float(lo), -INF), 0, 1, 2, 3, 0.5, 0.25,
         1.5, 2.0, 2.5, 1.25, 3.75, 0.999, NAN, INF, -INF, -1, True, 1e300, np.float64(2.0), np.float64(0.3)]
  if math.isfinite(hi):
    pts += [hi, math.nextafter(float(hi), -INF), math.nextafter(float(hi), INF)]
  vals = [None, 'x', Other(), 3, 0.5, (), (1,), (1, 2, 3), [1, 2], (None, 1), (1, None), ('a', 2), (1, 'b')]
  for a in pts:
    for b in pts:
      vals.append((a, b))
  return vals


def construct_real(kw):
  from matched_markets.methodology import tbrmmdesignparameters as P
  try:
    return 'ok', P.TBRMMDesignParameters(**kw)
  except Exception as e:
    return 'err ' + type(e).__name__, None


def wire(kw):
  return 'obj ' + ' '.join(f'{k}={enc(v)}' for k, v in kw.items())


def base_kw(rng):
  return {'n_test': rng.choice([1, 7, 14, 28.0]), 'iroas': rng.choice([0, 0.0, 1.0, 3, 2.5])}


def run(out, tier, model_ok=True):
  rng = core.rng_for(PROP)
  cases = []        # kw dicts
  cdir = os.path.join(core.CORPUS, PROP)
  for f in FIELDS:
    grid = scalar_grid(f) if f in SCALAR_BOUNDS else range_grid(f, rng)
    for v in grid:
      kw = {'n_test': 7, 'iroas': 1.0}
      kw[f] = v
      cases.append(kw)
  n_one = len(cases)
  n_pairs = 500 if tier == 'quick' else 20000
  for _ in range(n_pairs):
    kw = base_kw(rng)
    for f in rng.sample(FIELDS, rng.choice([2, 2, 3, 5])):
      grid = scalar_grid(f) if f in SCALAR_BOUNDS else range_grid(f, rng)
      # mostly-valid stream: prefer in-domain values
      good = [v for v in grid if in_domain_field(f, v)]
      kw[f] = rng.choice(good) if (good and rng.random() < 0.7) else rng.choice(grid)
    cases.append(kw)
  lines = None
  if model_ok:
    lines = core.run_driver('Params.lean', [wire(kw) for kw in cases])
  acc = rej = 0
  objs = []
  for i, kw in enumerate(cases):
    got, obj = construct_real(kw)
    want = 'ok' if in_domain(kw) else 'err ValueError'
    if got != want:
      bad = {k: repr(v) for k, v in kw.items()}
      out.oracle_violation({'call': 'TBRMMDesignParameters', 'symptom': 'accept-reject',
                            'exception': got[4:] if got.startswith('err') else None},
                           {'kwargs': bad}, f'TBRMMDesignParameters({bad}) -> {got}, documented domain says {want}')
    elif lines is not None and lines[i].strip() != got:
      out.mismatch('params', {'kwargs': {k: repr(v) for k, v in kw.items()}},
                   f'{ {k: repr(v) for k, v in kw.items()} }: implementation {got}, model {lines[i]}')
    acc += got == 'ok'
    rej += got != 'ok'
    if obj is not None and len(objs) < 400:
      objs.append((kw, obj))
    out.count(tuple(sorted((k, enc(v)) for k, v in kw.items())))
  # defaults and equality
  from matched_markets.methodology import tbrmmdesignparameters as P
  d = P.TBRMMDesignParameters(n_test=7, iroas=1.0)
  for k, v in DEFAULTS.items():
    if getattr(d, k) != v:
      out.oracle_violation({'call': 'TBRMMDesignParameters', 'symptom': 'default'}, {'field': k},
                           f'default of {k} is {getattr(d, k)!r}, documented {v!r}')
  for k in OPTIONAL:
    if getattr(d, k) is not None:
      out.oracle_violation({'call': 'TBRMMDesignParameters', 'symptom': 'default'}, {'field': k},
                           f'default of optional {k} is {getattr(d, k)!r}, documented None')
  eq_lines, eq_want = [], []
  import dataclasses
  for _ in range(200 if tier == 'quick' else 3000):
    (ka, a), (kb, b) = rng.choice(objs), rng.choice(objs)
    if rng.random() < 0.4:
      kb, b = ka, construct_real(dict(ka))[1]
    mutated = None
    if rng.random() < 0.3:
      # the same values spelled with another numeric type (2 vs 2.0, (1, 5) vs (1.0, 5.0), 0.0 vs -0.0)
      def respell(v):
        if isinstance(v, bool):
          return v
        if isinstance(v, int):
          return float(v) if abs(v) < 2 ** 53 else v
        if isinstance(v, float) and v == 0.0:
          return -0.0
        if isinstance(v, float) and v.is_integer() and abs(v) < 1e15:
          return int(v)
        if isinstance(v, tuple):
          return tuple(respell(x) for x in v)
        return v
      kb = {k: respell(v) for k, v in ka.items()}
      b = construct_real(dict(kb))[1]
      if b is None:
        kb, b = ka, construct_real(dict(ka))[1]
    elif rng.random() < 0.3:
      # equality is about the values the fields hold now: re-assign a field after construction
      b = construct_real(dict(kb))[1]
      mutated = rng.choice([('n_test', 28), ('n_designs', 4), ('iroas', 2.5), ('budget_range', (1.0, 9.0)), ('sig_level', 0.85)])
      setattr(b, mutated[0], mutated[1])
    try:
      fieldwise = all(getattr(a, f) == getattr(b, f) for f in FIELDS)
    except OverflowError:
      # a numpy float against an integer of 400 digits: numpy cannot even compare them; not a pair the property is about
      out.count(None)
      continue
    try:
      got = (a == b)
    except Exception as e:
      got = 'err ' + type(e).__name__
    if got != fieldwise:
      out.oracle_violation({'call': 'TBRMMDesignParameters.__eq__', 'symptom': 'eq'},
                           {'a': {k: repr(v) for k, v in ka.items()}, 'b': {k: repr(v) for k, v in kb.items()}, 'reassigned': repr(mutated)},
                           f'== gives {got}, field-wise comparison gives {fieldwise}' + (f' (after re-assigning {mutated})' if mutated else ''))
    if mutated is not None:
      out.count(None)
      continue
    eq_lines.append('eq ' + wire(ka)[4:] + ' | ' + wire(kb)[4:])
    eq_want.append('true' if got is True else 'false')
    out.count(None)
  if model_ok:
    eq_model = core.run_driver('Params.lean', eq_lines)
    for ln, w, m in zip(eq_lines, eq_want, eq_model):
      if w != m.strip():
        out.mismatch('params-eq', {'line': ln}, f'{ln}: implementation {w}, model {m}')
  out.rule = ('one-field boundary grid: every field x {each bound, its float neighbours, +-inf, NaN, bool, str, object, None, '
              'tuples of wrong arity/type, reversed and equal pairs, integral and non-integral floats, 10**400} (exhaustive), '
              'plus random multi-field constructions (70% in-domain values) and random equality pairs; '
              'distinct by the encoded keyword arguments')
  out.extra.update({'one_field_grid': n_one, 'random_multi_field': n_pairs, 'accepted': acc, 'rejected': rej,
                    'equality_pairs': len(eq_lines), 'exhaustive': False})
  out.sample({k: repr(v) for k, v in cases[5].items()})
  out.sample({k: repr(v) for k, v in cases[-1].items()})


def replay(out, path, model_ok=True):
  with open(path) as f:
    rp = json.load(f)
  print('replay case:', json.dumps((rp.get('violation') or {}).get('case') or rp.get('correspondence_mismatches'))[:1000])
  run(out, 'quick', model_ok)
