"""C08: design diagnostics never serve stale values after their inputs change."""
import json
import math
import os
import warnings
import numpy as np
import core

warnings.filterwarnings('ignore')
PROP = 'C08'
LEAN_TARGETS = ['MM.Props.C08', 'MM.Audit.C08', 'MM.Driver.Wire', 'MM.Props.MemoTie']
THEOREMS = ['MM.DiagCache.' + n for n in (
    'C08_obligation_clears', 'C08_obligation_y', 'C08_cache_all_complete', 'C08_init_coherent', 'C08_step_coherent',
    'C08_read_fresh', 'C08_no_stale', 'C08_no_stale_from', 'C08_setY_clears_x')]
THEOREMS = list(THEOREMS) + ['MM.Memo.tie_memoised']
TRUSTED_BASE = [
    'Lean 4.33.0 kernel; axioms propext, Quot.sound (audited per theorem)',
    'translator T3 (harness/translate.py): the caches unconditionally reset by the x setter, whether the y setter ends with '
    'self.x = None, and which property writes which cache attribute, are regenerated from the source',
    'the read logic of each lazy property is hand-modelled (MM/Model/DiagCache.lean) over abstract stamps; the numeric '
    'functions behind the stamps (numpy/scipy) are not modelled; tie: history correspondence against fresh objects',
    'correspondence harness harness/props/c08.py, driver lean/drivers/Diag.lean',
]
QS = ['corr', 'required_impact', 'pretestfit', 'bbtest', 'dwtest', 'aatest', 'corr_test', 'tbrfit', 'tests_ok']


def same(a, b):
  if a is None or b is None:
    return a is None and b is None
  if isinstance(a, tuple) or isinstance(b, tuple):
    return isinstance(a, tuple) and isinstance(b, tuple) and len(a) == len(b) and all(same(x, y) for x, y in zip(a, b))
  if isinstance(a, np.ndarray) or isinstance(b, np.ndarray):
    a, b = np.asarray(a), np.asarray(b)
    return a.shape == b.shape and bool(np.array_equal(a, b, equal_nan=True))
  if isinstance(a, (float, np.floating)) or isinstance(b, (float, np.floating)):
    try:
      fa, fb = float(a), float(b)
    except (TypeError, ValueError):
      return False
    return fa == fb or (math.isnan(fa) and math.isnan(fb))
  return bool(a == b)


def read(diag, q):
  try:
    if q == 'tbrfit':
      return ('v', diag.tbrfit(12.5, 31.25))
    return ('v', getattr(diag, q))
  except Exception as e:
    return ('exc', type(e).__name__)


def gen_series(rng, n, kind=None):
  kind = kind or rng.choice(['walk', 'walk', 'walk', 'const', 'linear', 'noise'])
  if kind == 'const':
    return [float(rng.randint(1, 9))] * n
  if kind == 'linear':
    a, b = rng.randint(1, 5), rng.randint(0, 20)
    return [float(a * i + b) for i in range(n)]
  if kind == 'noise':
    return [float(rng.randint(0, 100)) for _ in range(n)]
  v = [float(rng.randint(50, 150))]
  for _ in range(n - 1):
    v.append(v[-1] + rng.randint(-10, 10))
  return v


def gen_history(rng, max_ops):
  n_test = rng.choice([1, 2, 7])
  n = rng.choice([3, 4, 5, 8, 10, 12, 20, 24])
  # in a third of the histories the caller keeps one array per series and assigns it again after changing its contents
  ops = [('init', gen_series(rng, n), n_test, rng.choice([0.8, 0.9, 0.99]), rng.random() < 0.33)]
  cur_n = n
  base = None
  for _ in range(rng.randint(3, max_ops)):
    r = rng.random()
    if r < 0.22:
      # control series related to y half of the time, so that the tests can pass
      if rng.random() < 0.6:
        y = next(o[1] for o in reversed(ops) if o[0] in ('init', 'setY'))
        s = [2 * v + rng.randint(-3, 3) for v in y]
      else:
        s = gen_series(rng, cur_n)
      ops.append(('setX', s))
    elif r < 0.28:
      ops.append(('clearX',))
    elif r < 0.36:
      cur_n = rng.choice([cur_n, cur_n, rng.choice([3, 5, 9, 15])])
      ops.append(('setY', gen_series(rng, cur_n)))
    elif r < 0.40:
      ops.append(('badSetX', gen_series(rng, cur_n + 1)))
    else:
      ops.append(('read', rng.choice(QS)))
  return ops


def make_par(n_test, min_corr):
  from matched_markets.methodology import tbrmmdesignparameters as P
  return P.TBRMMDesignParameters(n_test=n_test, iroas=1.0, min_corr=min_corr)


def fresh_obj(par, y, x):
  from matched_markets.methodology import tbrmmdiagnostics as D
  d = D.TBRMMDiagnostics(y, par)
  if x is not None:
    d.x = x
  return d


def n_conj(par, y, x):
  if x is None:
    return 4
  f = fresh_obj(par, y, x)
  try:
    if not f.corr_test:
      return 1
    if not f.bbtest.test_ok:
      return 2
    if not f.dwtest.test_ok:
      return 3
  except Exception:
    pass
  return 4


def run_history(ops):
  """-> (wire lines, list of per-read records)"""
  from matched_markets.methodology import tbrmmdiagnostics as D
  _, y0, n_test, min_corr = ops[0][:4]
  inplace = len(ops[0]) > 4 and bool(ops[0][4])
  buf = {'x': None, 'y': None}

  def given(which, values):
    """what the caller hands over: a fresh list, or (in-place histories) the caller's own array, refilled"""
    if not inplace:
      return values
    import numpy as np
    b = buf[which]
    if b is None or len(b) != len(values):
      b = buf[which] = np.array(values, dtype=float)
    else:
      b[:] = values
    return b
  par = make_par(n_test, min_corr)
  series = {0: y0}
  nxt = 1
  cur_y, cur_x = 0, None
  d = D.TBRMMDiagnostics(y0, par)
  short = lambda s: len(s) - n_test < 3
  lines = [f'init {int(short(y0))}']
  reads = []
  for op in ops[1:]:
    if op[0] == 'setX':
      d.x = given('x', op[1])
      series[nxt] = op[1]; cur_x = nxt; nxt += 1
      lines.append('setX')
    elif op[0] == 'badSetX':
      try:
        d.x = op[1]
        reads.append({'kind': 'badset-accepted'})
      except ValueError:
        pass
      except Exception as e:
        reads.append({'kind': 'badset-exc', 'exc': type(e).__name__})
    elif op[0] == 'clearX':
      d.x = None
      cur_x = None
      lines.append('clearX')
    elif op[0] == 'setY':
      d.y = given('y', op[1])
      series[nxt] = op[1]; cur_y = nxt; nxt += 1; cur_x = None
      lines.append(f'setY {int(short(op[1]))}')
    else:
      q = op[1]
      got = read(d, q)
      k = n_conj(par, series[cur_y], None if cur_x is None else series[cur_x]) if q == 'tests_ok' else None
      lines.append(f'read {q}' + (f' {k}' if k is not None else ''))
      want = read(fresh_obj(par, series[cur_y], None if cur_x is None else series[cur_x]), q)
      reads.append({'kind': 'read', 'q': q, 'got': got, 'want_current': want, 'cur': (cur_x, cur_y)})
  return lines, reads, par, series


def check_history(out, ops, model_lines):
  lines, reads, par, series = run_history(ops)
  ri = 0
  for r in reads:
    if r['kind'] != 'read':
      out.oracle_violation({'call': 'TBRMMDiagnostics.x', 'symptom': r['kind']}, {'ops': ops},
                           'a control series of the wrong length was not rejected with ValueError')
      return
    got, want = r['got'], r['want_current']
    ok = got[0] == want[0] and (same(got[1], want[1]) if got[0] == 'v' else got[1] == want[1])
    if not ok:
      out.oracle_violation({'call': 'TBRMMDiagnostics.' + r['q'], 'symptom': 'stale', 'q': r['q']},
                           {'ops': ops, 'read_index': ri},
                           f'read #{ri} of {r["q"]} returned {str(got[1])[:80]} but a fresh object on the current series gives {str(want[1])[:80]}')
      return
    if model_lines is not None:
      ml = model_lines[ri].strip()
      cx, cy = r['cur']
      want_ml = 'none' if (cx is None) else f'{cx} {cy}'
      # the model's stamp names the series versions the value was computed from; the implementation's value must
      # equal the fresh value on exactly those versions (already established above when the stamp is current)
      if ml != want_ml:
        if ml == 'none':
          agree = got[0] == 'v' and got[1] is None
        else:
          xv, yv = (int(t) for t in ml.split())
          fv = read(fresh_obj(par, series[yv], series[xv]), r['q']) if len(series[xv]) == len(series[yv]) else ('exc', '?')
          agree = fv[0] == got[0] and (same(fv[1], got[1]) if fv[0] == 'v' else fv[1] == got[1])
        out.mismatch('diag-history', {'ops': ops, 'read_index': ri},
                     f'read #{ri} of {r["q"]}: model stamp "{ml}" but current versions are "{want_ml}" '
                     f'(implementation agrees with model stamp: {agree})')
        return
    ri += 1


def run(out, tier, model_ok=True):
  rng = core.rng_for(PROP)
  n_hist = 300 if tier == 'quick' else 10000
  hists = []
  cdir = os.path.join(core.CORPUS, PROP)
  if os.path.isdir(cdir):
    for fn in sorted(os.listdir(cdir)):
      with open(os.path.join(cdir, fn)) as f:
        hists.append([tuple(o) for o in json.load(f)['ops']])
  n_corpus = len(hists)
  hists += [gen_history(rng, 40) for _ in range(n_hist)]
  model_out = None
  spans = []
  if model_ok:
    lines = []
    for ops in hists:
      l, reads, _, _ = run_history(ops)
      lines += l
      spans.append(sum(1 for x in l if x.startswith('read')))
    model_out = core.run_driver('Diag.lean', lines)
  pos = 0
  qhist = {}
  for i, ops in enumerate(hists):
    ml = None
    if model_out is not None:
      ml = model_out[pos:pos + spans[i]]
      pos += spans[i]
    check_history(out, ops, ml)
    # non-trivial: some quantity is read both before and after a change of series
    seen, changed, nontriv = set(), False, False
    for op in ops[1:]:
      if op[0] == 'read':
        qhist[op[1]] = qhist.get(op[1], 0) + 1
        if op[1] in seen and changed:
          nontriv = True
        seen.add(op[1])
      elif op[0] in ('setX', 'setY', 'clearX'):
        changed = bool(seen)
    out.count((json.dumps(ops),) if nontriv else None)
  out.rule = ('random histories (3-40 ops) over {set control series, clear it, set treatment series (possibly of another length), '
              'rejected set of a wrong-length series, read any of 9 derived quantities incl. tbrfit and the joint verdict}; series: '
              'random walks, constants (NaN-fit branch), linear, noise; lengths 3-24 incl. the short A/A branch; '
              'non-trivial = a quantity is read, a series changes, the quantity is read again; distinct by history')
  out.extra.update({'histories': len(hists), 'corpus_cases': n_corpus, 'reads_by_quantity': qhist})
  out.sample({'ops': [o if o[0] in ('read', 'clearX') else (o[0], '...series...') for o in hists[n_corpus][:20]]})


def replay(out, path, model_ok=True):
  with open(path) as f:
    rp = json.load(f)
  case = (rp.get('violation') or (rp.get('correspondence_mismatches') or [{}])[0]).get('case')
  ops = [tuple(o) for o in case['ops']]
  check_history(out, ops, None)
  out.count(('replay', 1)); out.count(('replay', 2))
