/- Driver for the C15 model.
   new | obs <geo> <date> <num/den> | elig <geo> <c> <t> <x> (cells 0|1|o)
   table            -> "geos ..", "dates ..", one "row .." per geo, "share .."
   trunc <n>        -> truncated "dates .." and rows
   agg <g1,g2,..|-> <i,j,..|->   -> "series .." and "share .."   (on the truncated table if trunc was given)
   reconcile        -> "ok g1 g2 .." (kept eligibility geos, table order) | "err ValueError"
   assignable       -> "ok .." (after reconcile)
   setindex <g1,g2,..|->  -> ok | err ValueError                                              -/
import MM.Model.Data
import MM.Driver.Wire
open MM MM.Data

structure S where
  rows : List Obs := []
  elig : List Elig.Row := []
  tbl : Option Table := none

def cellOf : String → Elig.Cell | "0" => .zero | "1" => .one | _ => .other
def listOf (s : String) : List String := if s == "-" then [] else s.splitOn ","
def showQ (l : List Rat) : String := " ".intercalate (l.map Wire.showRat)

partial def loop (h : IO.FS.Stream) (s : S) : IO Unit := do
  let line ← h.getLine
  if line.isEmpty then return ()
  match Wire.words line with
  | ["new"] => loop h {}
  | ["obs", g, d, v] => loop h { s with rows := s.rows ++ [{ geo := g, date := d.toNat?.getD 0, value := (Wire.parseRat v).getD 0 }] }
  | ["elig", g, c, t, x] => loop h { s with elig := s.elig ++ [{ geo := g, c := cellOf c, t := cellOf t, x := cellOf x }] }
  | ["table"] =>
    let t := mkTable s.rows
    IO.println ("geos " ++ " ".intercalate t.geos)
    IO.println ("dates " ++ " ".intercalate (t.dates.map toString))
    for r in t.cells do IO.println ("row " ++ showQ r)
    IO.println ("share " ++ showQ t.share)
    loop h { s with tbl := some t }
  | ["trunc", n] =>
    let t := truncate (s.tbl.getD (mkTable s.rows)) (n.toNat?.getD 0)
    IO.println ("dates " ++ " ".intercalate (t.dates.map toString))
    for r in t.cells do IO.println ("row " ++ showQ r)
    loop h { s with tbl := some t }
  | ["agg", gs, is] =>
    let t := s.tbl.getD (mkTable s.rows)
    let idx := listOf gs
    let sel := (listOf is).filterMap String.toNat?
    IO.println ("series " ++ showQ (aggregateSeries t idx sel))
    IO.println ("share " ++ Wire.showRat (aggregateShare t idx sel))
    loop h s
  | ["reconcile"] =>
    match reconcile s.elig (mkTable s.rows).geos with
    | .ok e => IO.println ("ok " ++ " ".intercalate (e.map (·.geo))); loop h { s with elig := e }
    | .error e => IO.println ("err " ++ e.name); loop h s
  | ["assignable"] => IO.println ("ok " ++ " ".intercalate (assignable s.elig)); loop h s
  | ["setindex", gs] =>
    match setGeoIndex s.elig (listOf gs) with
    | .ok _ => IO.println "ok"
    | .error e => IO.println ("err " ++ e.name)
    loop h s
  | [] => loop h s
  | _ => IO.println "bad-op"; loop h s

def main : IO Unit := do loop (← IO.getStdin) {}
