import MM.Props.DiagTests

#print axioms MM.Numeric.corr_abs_le_one
#print axioms MM.Numeric.dwStat_range
#print axioms MM.Numeric.bbBounds_length
#print axioms MM.Numeric.bbBounds_nonneg
#print axioms MM.Numeric.bbBounds_symm
#print axioms MM.Numeric.bbOk_scale
#print axioms MM.Numeric.dwStat_scale
#print axioms MM.Numeric.aaTest_contains_zero
#print axioms MM.Numeric.aaTest_verdict
#print axioms MM.Numeric.aaTest_interval
#print axioms MM.Numeric.float_order_lt
