"""C14: results ordered best-first and capped; the bounded queue keeps the top k."""
import heapq
import json
import os
import core

PROP = 'C14'
LEAN_TARGETS = ['MM.Props.C14', 'MM.Props.ScoreTie', 'MM.Props.HeapTie', 'MM.Driver.Wire']
THEOREMS = ['MM.HeapDict.C14_sorted', 'MM.HeapDict.C14_length', 'MM.HeapDict.C14_topk',
            'MM.HeapDict.C14_keys', 'MM.HeapDict.C14_get_pure', 'MM.HeapDict.C14_get_count',
            'MM.HeapDict.C14_get_prefix', 'MM.HeapDict.C14_get_prefix_idx', 'MM.Search.tie_score_order',
            'MM.HeapDict.tie_heap_push', 'MM.HeapDict.tie_heap_result', 'MM.HeapDict.tie_heap_init']
TRUSTED_BASE = [
    'Lean 4.33.0 kernel; axioms propext, Quot.sound (audited per theorem)',
    'CPython heapq (heappush / heappushpop / nlargest) is abstracted to an ascending list whose head is the heap root; '
    'HeapDict.push / get_result / __init__ are regenerated over these primitives from the source on every run (T7) and proved equal '
    'to the model functions (MM/Props/HeapTie.lean)',
    'correspondence harness harness/props/c14.py and driver lean/drivers/Heap.lean (compare order keys only: ties may be permuted)',
    'hypothesis of the order theorems: items form a strict weak order (NaN-free score tuples)',
]


class Item:
  """compares on `key` only, so distinct items can tie"""
  __slots__ = ('key', 'ident')

  def __init__(self, key, ident):
    self.key, self.ident = key, ident

  def __lt__(self, other):
    return self.key < other.key

  def __repr__(self):
    return f'Item({self.key},#{self.ident})'


class IntItem(int):
  """a plain int (so equal pushes compare `==`), with the `.key` the harness reads"""
  @property
  def key(self):
    return int(self)


def gen_history(rng, max_len):
  size = rng.choice([0, 1, 1, 2, 3, 4, 6])
  nkeys = rng.randint(1, 5)
  spread = rng.choice([1, 2, 3, 10, 1000])      # small spread = heavy ties
  n = rng.randint(0, max_len)
  # items: objects ordered by key only (distinct objects can tie), or plain ints (equal pushes are `==`)
  # keys: small ints, or a mixture of types that cannot be compared with each other ("any keys")
  ops = [('new', size, rng.choice(['obj', 'obj', 'int']), rng.choice(['int', 'int', 'mixed']))]
  for i in range(n):
    r = rng.random()
    if r < 0.15:
      ops.append(('get',))
    else:
      ops.append(('push', rng.randrange(nkeys) - 1, rng.randint(-spread, spread), i))
  ops.append(('get',))
  return ops


def run_real(ops):
  from matched_markets.methodology import heapdict
  h = None
  outs = []
  pushed = {}
  size = 0
  for op in ops:
    if op[0] == 'new':
      size = op[1]
      kind = op[2] if len(op) > 2 else 'obj'
      mixed = len(op) > 3 and op[3] == 'mixed'
      spell = (lambda k: (f'key{k}' if k % 3 == 0 else (k + 0.5 if k % 3 == 1 else k))) if mixed else (lambda k: k)
      unspell = {}
      h = heapdict.HeapDict(size)
      pushed = {}
    elif op[0] == 'push':
      it = Item(op[2], op[3]) if kind == 'obj' else IntItem(op[2])
      unspell[spell(op[1])] = op[1]
      h.push(spell(op[1]), it)
      pushed.setdefault(op[1], []).append(it)
    else:
      res = h.get_result()
      outs.append(([(unspell[k], [it.key for it in q]) for k, q in res.items()],
                   {k: list(v) for k, v in pushed.items()}, size))
      # a caller scribbling on the returned lists must not disturb the container
      for q in res.values():
        q.clear()
      res.clear()
  return outs


def wire(ops):
  lines = []
  for op in ops:
    lines.append(' '.join(str(x) for x in (op[:2] if op[0] == 'new' else op)))
  return lines


def show(real_get):
  return 'R ' + ';'.join(f'{k}:' + ','.join(str(x) for x in q) for k, q in real_get)


def oracle(real_get, pushed, size):
  """independent statement of the property on one read"""
  problems = []
  keys = [k for k, _ in real_get]
  if keys != list(pushed.keys()):
    problems.append(f'keys reported {keys} != keys pushed {list(pushed.keys())}')
  for k, q in real_get:
    want = sorted((it.key for it in pushed.get(k, [])), reverse=True)[:size]
    if q != want:
      problems.append(f'key {k}: reported {q}, the {size} largest pushed are {want}')
  return problems


def check_case(out, ops, model_lines=None):
  try:
    real = run_real(ops)
  except Exception as e:  # the container may not raise on any push/get history
    out.oracle_violation({'call': 'HeapDict', 'symptom': 'exception', 'exception': type(e).__name__},
                         {'ops': ops}, f'HeapDict raised {type(e).__name__}: {e}')
    return False
  for i, (rg, pushed, size) in enumerate(real):
    probs = oracle(rg, pushed, size)
    if probs:
      out.oracle_violation({'call': 'HeapDict.get_result', 'symptom': 'not-top-k'},
                           {'ops': ops, 'read_index': i}, probs[0])
      return False
  if model_lines is not None:
    want = [show(r[0]) for r in real]
    if want != model_lines:
      j = next((i for i in range(min(len(want), len(model_lines))) if want[i] != model_lines[i]), 0)
      out.mismatch('heap-history', {'ops': ops},
                   f'model and HeapDict disagree at read {j}: impl {want[j:j+1]} model {model_lines[j:j+1]}')
      return False
  return True


def run(out, tier, model_ok=True):
  rng = core.rng_for(PROP)
  n_hist = 300 if tier == 'quick' else 20000
  out.rule = ('random push/get histories on HeapDict (capacity 0-6, 1-5 keys, key spread 1..1000 so ties are heavy, '
              '<=200 pushes, reads interleaved, returned lists mutated by the caller); non-trivial = a read whose '
              'queue overflowed its capacity or contained ties; distinct by (capacity, pushed key multiset)')
  cases = []
  corpus_dir = os.path.join(core.CORPUS, PROP)
  if os.path.isdir(corpus_dir):
    for fn in sorted(os.listdir(corpus_dir)):
      with open(os.path.join(corpus_dir, fn)) as f:
        cases.append([tuple(o) for o in json.load(f)['ops']])
  n_corpus = len(cases)
  for _ in range(n_hist):
    cases.append(gen_history(rng, 200 if rng.random() < 0.2 else 30))
  model_out = None
  if model_ok:
    lines = []
    for ops in cases:
      lines += wire(ops)
    model_out = core.run_driver('Heap.lean', lines)
  pos = 0
  overflow = ties = 0
  for ci, ops in enumerate(cases):
    n_get = sum(1 for o in ops if o[0] == 'get')
    ml = model_out[pos:pos + n_get] if model_out is not None else None
    pos += n_get
    check_case(out, ops, ml)
    size = ops[0][1]
    per_key = {}
    for o in ops:
      if o[0] == 'push':
        per_key.setdefault(o[1], []).append(o[2])
    nontriv = any(len(v) > size or len(set(v)) < len(v) for v in per_key.values())
    overflow += any(len(v) > size for v in per_key.values())
    ties += any(len(set(v)) < len(v) for v in per_key.values())
    key = (size, tuple(sorted((k, tuple(sorted(v))) for k, v in per_key.items()))) if nontriv else None
    out.count(key)
    if ci in (n_corpus, n_corpus + 1):
      out.sample({'ops': ops[:25]})
  out.extra.update({'histories': len(cases), 'corpus_cases': n_corpus,
                    'histories_with_overflow': overflow, 'histories_with_ties': ties})
  # search-level clause (at most n_designs, best first) is covered by the search engine when present
  try:
    import engines.search as se
    se.judge_c14(out, tier)
  except ImportError:
    out.assumptions.append('search-level clause (results capped and ordered) not covered in this run')


def replay(out, path, model_ok=True):
  with open(path) as f:
    rp = json.load(f)
  case = (rp.get('violation') or (rp.get('correspondence_mismatches') or [{}])[0]).get('case') or {}
  ops = [tuple(o) for o in case.get('ops', [])]
  ml = core.run_driver('Heap.lean', wire(ops)) if model_ok and ops else None
  check_case(out, ops, ml)
  out.count(('replay',))
  out.count(('replay2',))
