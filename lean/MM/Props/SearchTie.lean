/-
Tie between the hand-written search model and the comparison fragments regenerated from the source on
every run (translator T5, MM/Generated/SearchGen.lean): the model's treatment-share filter, optimistic
budget screen, volume-ratio filter and geo-ratio size filter ARE the generated predicates.  A change of
`>` into `>=`, of a bound, or of the record/skip structure in the Python changes the generated file and
these obligations stop checking.
-/
import MM.Model.Search
import MM.Generated.SearchGen
namespace MM.Search
open MM

/-- the share filter of exhaustive_search -/
theorem tie_share (p : Params) (e : Env) (isLast : Bool) (pats : List GeoSet) (T : GeoSet) (lo hi : Rat)
    (h : p.shareRange = some (lo, hi)) (hb : p.budgetRange = none) :
    trtVerdict p e isLast pats T = if MM.Gen.Search.shareOutside (shareOf e T) lo hi then .skip else .go := by
  simp [trtVerdict, h, hb, MM.Gen.Search.shareOutside]

/-- the optimistic budget screen of exhaustive_search, for a finite optimistic impact and a positive iROAS -/
theorem tie_budget_screen (p : Params) (e : Env) (isLast : Bool) (pats : List GeoSet) (T : GeoSet) (lo hi q : Rat)
    (hs : p.shareRange = none) (hp : patSkip pats T = false) (hb : p.budgetRange = some (lo, hi))
    (hq : e.optImpact T = .fin q) (hi0 : p.iroas ≠ 0) :
    trtVerdict p e isLast pats T =
      if MM.Gen.Search.budgetAbove (q / p.iroas) lo hi then (if isLast then .go else .record)
      else if MM.Gen.Search.budgetBelow (q / p.iroas) lo hi then .skip else .go := by
  simp [trtVerdict, hs, hp, hb, hq, pyDivF, pyDiv, hi0, MM.Gen.Search.budgetAbove, MM.Gen.Search.budgetBelow, PyFloat.lt]

/-- the volume-ratio filter of exhaustive_search, for a non-zero treatment share -/
theorem tie_volume (p : Params) (e : Env) (T C : GeoSet) (τ : Rat) (hv : p.volTol = some τ) (hb : p.budgetRange = none)
    (hT : shareOf e T ≠ 0) :
    ctlOk p e T C = !MM.Gen.Search.volOutside (MM.Gen.Search.volRatio (shareOf e C) (shareOf e T))
                      (MM.Gen.Search.volTolMin τ) (MM.Gen.Search.volTolMax τ) := by
  simp [ctlOk, hv, hb, pyDiv, hT, MM.Gen.Search.volOutside, MM.Gen.Search.volRatio, MM.Gen.Search.volTolMin,
        MM.Gen.Search.volTolMax, PyFloat.lt]
  <;> rfl

/-- the geo-ratio test of the control size generator -/
theorem tie_geo_ratio (p : Params) (e : Env) (nT m : Nat) (τ : Rat) (hg : p.geoTol = some τ) :
    m ∈ ctlSizes p e nT ↔
      m ∈ ctlSizes { p with geoTol := none } e nT ∧
      MM.Gen.Search.geoRatioInside (MM.Gen.Search.geoRatio (m : Rat) (nT : Rat)) (MM.Gen.Search.geoTolMin (1 + τ)) (1 + τ) = true := by
  have hgen : MM.Gen.Search.geoRatioInside (MM.Gen.Search.geoRatio (m : Rat) (nT : Rat)) (MM.Gen.Search.geoTolMin (1 + τ)) (1 + τ)
      = (decide ((m : Rat) / (nT : Rat) ≥ 1 / (1 + τ)) && decide ((m : Rat) / (nT : Rat) ≤ 1 + τ)) := rfl
  rw [hgen]
  simp only [ctlSizes, hg, List.mem_filter]

end MM.Search
