/-
Model of the outlier-date loop of tbrdiagnostics.TBRDiagnostics._detect_outliers (beyond the twenty properties:
the loop did not terminate on a perfect fit, repaired in /repo commit 6c4c362).

The numerics are abstract: for the dates excluded so far, `maxResid` is the largest absolute studentized residual
(`none` = NaN, which is what a numerically perfect fit gives), `threshold` the cut-off (`none` = NaN, which is what
too few remaining points give), `argmax` the dates whose residual equals the maximum (`data_subset.index[absresid ==
max_resid]`: empty when the maximum is NaN, since NaN equals nothing).  No Mathlib imports.
-/
namespace MM.Outliers

structure Env where
  dates : List Nat
  maxResid : List Nat → Option Rat
  threshold : List Nat → Option Rat
  argmax : List Nat → List Nat

/-- the dates still in `data_subset` -/
def remaining (e : Env) (ex : List Nat) : List Nat := e.dates.filter fun d => !ex.contains d

/-- one pass of the `while True` body of the repaired code: `none` = `break` -/
def step (e : Env) (ex : List Nat) : Option (List Nat) :=
  if remaining e ex = [] then none else
  match e.maxResid ex with
  | none => none                                   -- `np.isnan(max_resid)`: stop (the repair)
  | some m =>
    match e.threshold ex with
    | some t => if m < t then none else some (ex ++ e.argmax ex)
    | none => some (ex ++ e.argmax ex)             -- `max_resid < nan` is False: the date is excluded

/-- the same pass before the repair: a NaN maximum is not smaller than the threshold, and nothing equals it -/
def stepOriginal (e : Env) (ex : List Nat) : Option (List Nat) :=
  if remaining e ex = [] then none else
  match e.maxResid ex with
  | none => some (ex ++ e.argmax ex)
  | some m =>
    match e.threshold ex with
    | some t => if m < t then none else some (ex ++ e.argmax ex)
    | none => some (ex ++ e.argmax ex)

/-- run a step function with fuel; `none` = out of fuel, `some ex` = the excluded dates at `break` -/
def loop (f : List Nat → Option (List Nat)) : Nat → List Nat → Option (List Nat)
  | 0, _ => none
  | fuel + 1, ex => match f ex with
    | none => some ex
    | some ex' => loop f fuel ex'

/-- what the real numerics guarantee: a finite maximum is attained on a remaining date, a NaN maximum on none -/
structure Sound (e : Env) : Prop where
  attained : ∀ ex m, e.maxResid ex = some m → ∃ d, d ∈ e.argmax ex ∧ d ∈ remaining e ex
  nan_empty : ∀ ex, e.maxResid ex = none → e.argmax ex = []

end MM.Outliers
