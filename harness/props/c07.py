"""C07: iROAS summary is coherent with its incremental response and cost."""
import json
import os
import math
import numpy as np
from scipy import stats
import core
import engines.numeric as en

PROP = 'C07'
LEAN_TARGETS = ['MM.Props.C07C18', 'MM.Driver.Wire', 'MM.Model.Numeric', 'MM.Props.MemoTie']
THEOREMS = ['MM.Numeric.' + n for n in (
    'C07_fixed_columns', 'C07_fixed_order', 'C07_fixed_equivariant', 'C07_scenario', 'C07_scenario_signed_sum_fails', 'C07_fixed_order_bundle',
    'quantile_nonpos', 'quantile_nonneg')]
THEOREMS = list(THEOREMS) + ['MM.Memo.tie_memoised']
TRUSTED_BASE = [
    'Lean 4.33.0 kernel + Mathlib; axioms propext, Classical.choice, Quot.sound (audited per theorem)',
    'fixed-cost scenario: model iroasFixed (MM/Model/Numeric.lean), theorems at ℝ, Float correspondence to 1e-9; Student-t quantile/cdf external '
    '(hypothesis bundle: strictly increasing, q(1/2)=0, q(1-p)=-q(p))',
    'variable-cost scenario (PARTIAL): the report is a function of (data, simulated draws); determinism w.r.t. random_state and unit '
    'equivariance are established for the code by paired real runs only (scipy rvs / numpy percentile are not modelled); '
    'lower <= estimate <= upper is not a theorem there (recorded finding F-C07-variable-mean)',
    'correspondence harness harness/props/c07.py + engines/numeric.py, driver lean/drivers/Numeric.lean',
]
COLS = ['estimate', 'precision', 'lower', 'upper', 'probability', 'incremental_cost', 'incremental_response',
        'incremental_response_lower', 'incremental_response_upper', 'relative_lift', 'relative_lift_lower', 'relative_lift_upper']


def real_iroas(fr, use_cooldown, rows=None):
  from matched_markets.methodology import tbr_iroas
  m = tbr_iroas.TBRiROAS(use_cooldown=use_cooldown)
  if fr.get('refit_after') is not None and rows is None:
    # the analysis object was used for another experiment (of the other cost scenario) before
    prev = fr['refit_after']
    try:
      m.fit(en.to_df(prev), **en.fit_kwargs(prev))
      m.summary(nsims=50, random_state=1)
    except Exception:
      pass
  m.fit(en.to_df(fr, rows), **en.fit_kwargs(fr))
  return m


def row_of(rep):
  d = {}
  for c in rep.columns:
    v = rep[c].iloc[-1]
    d[c] = v if isinstance(v, str) else float(v)
  return d


def scaled_rows(fr, a, b):
  return [[r[0], r[1], r[2], r[3], r[4] * b, r[5] * a] for r in fr['rows']]


def check_frame(out, rng, fr, sess, pending):
  use_cool = fr.get('use_cooldown', True)
  level = fr.get('level', 0.9)
  tails = fr.get('tails', 1)
  thr = fr.get('thr', 0.0)
  case = {'frame': fr}
  kw = dict(level=level, posterior_threshold=thr, tails=tails, nsims=fr.get('nsims', 2000), random_state=fr.get('random_state', 7))
  facts = {'call': 'TBRiROAS.summary', 'tails': tails, 'level': level, 'n_pre': fr['n_pre']}
  try:
    m = real_iroas(fr, use_cool)
    rep = row_of(m.summary(**kw))
  except Exception as e:
    out.oracle_violation(dict(facts, symptom='exception', exception=type(e).__name__), case, f'TBRiROAS raised {type(e).__name__}: {e}')
    return
  scen = rep['scenario']
  facts['scenario'] = scen
  # scenario label: fixed exactly when pre-period and control test-period costs are zero.  The statement does not say
  # whether pre-period costs of unassigned geos count (the code counts them): when the two readings differ either label is accepted.
  # "Are zero" is judged cost by cost (a +5 and a -5 are two non-zero costs, not a zero one), on the per-date group totals the
  # analysis works with and on the raw rows; when the readings differ either label is accepted.
  t_cost = en.totals(fr, col=5)
  strict = sum(abs(v) for v in t_cost[0][0] + t_cost[0][1] + t_cost[1][0])
  rows_nz = any(r[5] != 0 for r in fr['rows'] if (r[2] in (1, 2) and r[3] == 0) or (r[2] == 1 and r[3] == 1))
  per_date = {}
  for r in fr['rows']:
    if r[2] not in (1, 2) and r[3] == 0:
      per_date[r[1]] = per_date.get(r[1], 0.0) + r[5]
  broad = strict + sum(abs(v) for v in per_date.values())
  if (strict == 0) == (broad == 0) == (not rows_nz):
    want_scen = 'fixed' if strict == 0 else 'variable'
    if scen != want_scen:
      out.oracle_violation(dict(facts, symptom='scenario'), case,
                           f'scenario label {scen}, but the absolute non-incremental costs (pre-period, control test period) total {strict}')
      return
  px, py, tx, ty = en.series(fr, use_cool)
  cond = en.conditioned(px, py)
  if len(px) >= 3 and np.std(px) > 0 and en.own_ols(px, py)[2] <= 1e-18 * max(1.0, float(np.var(py))):
    out.count(None)      # zero residual variance: no Student-t posterior to summarise (outside the claim)
    return
  tol = lambda v: 1e-9 * max(1.0, abs(v))
  # order laws
  est, lo, up = rep['estimate'], rep['lower'], rep['upper']
  if any(math.isnan(v) for v in (est, lo, up)):
    out.oracle_violation(dict(facts, symptom='nan-summary'), case, f'summary contains NaN: {est}, {lo}, {up}')
    return
  if scen == 'fixed':
    if lo > est + tol(est):
      out.oracle_violation(dict(facts, symptom='lower>estimate'), case, f'fixed-cost: lower {lo} > estimate {est} (level={level}, tails={tails})')
    elif up < est - tol(est):
      out.oracle_violation(dict(facts, symptom='upper<estimate'), case, f'fixed-cost: upper {up} < estimate {est}')
  else:
    if lo > est + tol(est) or up < est - tol(est):
      out.oracle_violation(dict(facts, symptom='estimate-outside-bounds'), case,
                           f'variable-cost: estimate {est} outside [{lo}, {up}] (level={level}, tails={tails}, n_pre={fr["n_pre"]})')
  if scen == 'fixed':
    # columns = response summary / cost ; incremental-response bounds = iROAS bounds * cost
    mr = en.real_tbr(fr, 'response', use_cool)
    mc = en.real_tbr(fr, 'cost', use_cool)
    periods = (1, 2) if use_cool else (1,)
    cost = float(np.sum(mc.causal_effect(periods)))
    rs = mr.summary(level=level, threshold=thr * cost, tails=tails, report='last')
    r_est, r_lo, r_up = (float(rs[c].iloc[0]) for c in ('estimate', 'lower', 'upper'))
    if cost != 0 and cond:
      bad = None
      if not en.close(est, r_est / cost, 1e-9):
        bad = f'estimate {est} != response estimate / cost = {r_est / cost}'
      elif cost > 0 and not en.close(lo, r_lo / cost, 1e-9):
        bad = f'lower {lo} != response lower / cost = {r_lo / cost}'
      elif cost > 0 and not en.close(up, r_up / cost, 1e-9):
        bad = f'upper {up} != response upper / cost = {r_up / cost}'
      # a negative cost (spend reduction) turns the response interval around: the iROAS bounds are still the response bounds
      # divided by the cost, the larger response quantile giving the lower iROAS bound (Student-t: symmetric about the estimate)
      elif cost < 0 and not en.close(lo, (2 * r_est - r_lo) / cost, 1e-9, abs(r_est / cost)):
        bad = f'lower {lo} != upper response quantile / cost = {(2 * r_est - r_lo) / cost} (negative cost)'
      elif cost < 0 and tails == 2 and not en.close(up, r_lo / cost, 1e-9, abs(r_est / cost)):
        bad = f'upper {up} != lower response quantile / cost = {r_lo / cost} (negative cost)'
      elif cost < 0 and tails == 1 and up != math.inf:
        bad = f'upper {up} is not inf for a one-tailed report'
      elif not en.close(rep['incremental_response_lower'], lo * cost, 1e-9) or not en.close(rep['incremental_response_upper'], up * cost, 1e-9):
        bad = (f'incremental-response bounds ({rep["incremental_response_lower"]}, {rep["incremental_response_upper"]}) != '
               f'iROAS bounds x cost ({lo * cost}, {up * cost})')
      elif not en.close(rep['incremental_cost'], cost, 1e-9) or not en.close(rep['incremental_response'], r_est, 1e-9):
        bad = f'incremental cost/response ({rep["incremental_cost"]}, {rep["incremental_response"]}) != ({cost}, {r_est})'
      elif abs(rep['probability'] - (float(rs['probability'].iloc[0]) if cost > 0 else 1 - float(rs['probability'].iloc[0]))) > 1e-9:
        # iROAS > t  <=>  response > t x cost (cost > 0)  or  response < t x cost (cost < 0)
        bad = (f'probability {rep["probability"]} != probability that the response effect is {"above" if cost > 0 else "below"} '
               f'threshold x cost ({float(rs["probability"].iloc[0])} above)')
      if bad:
        out.oracle_violation(dict(facts, symptom='columns-incoherent'), case, 'fixed-cost: ' + bad)
        return
      if sess is not None:
        loc, scale, df = en.real_posterior(mr, 1.0)
        alpha = (1 - level) / tails
        qA = stats.t.ppf(alpha, df)
        qU = stats.t.ppf(1 - alpha, df) if tails == 2 else None
        r = sess.req(f'iroas {en.bits(loc[-1])} {en.bits(scale[-1])} {en.bits(cost)} {en.bits(qA)} '
                     f'{en.bits(qU) if qU is not None else "none"} {en.bits(thr)}', 1)
        pending.append((case, r, rep, df))
  # determinism in random_state, and unit equivariance (a, b powers of two: exact)
  rep2 = row_of(real_iroas(fr, use_cool).summary(**kw))
  for c in COLS:
    if c in rep and not (rep[c] == rep2[c] or (math.isnan(rep[c]) and math.isnan(rep2[c]))):
      out.oracle_violation(dict(facts, symptom='nondeterministic'), case, f'two runs with the same random_state differ in {c}: {rep[c]} vs {rep2[c]}')
      return
  a, b = 2.0 ** rng.choice([-2, 1, 3]), 2.0 ** rng.choice([-1, 2, 5])
  fr_s = dict(fr, rows=scaled_rows(fr, a, b))
  kw_s = dict(kw, posterior_threshold=thr * b / a)
  try:
    rep3 = row_of(real_iroas(fr_s, use_cool).summary(**kw_s))
  except Exception as e:
    out.oracle_violation(dict(facts, symptom='exception', exception=type(e).__name__), dict(case, a=a, b=b), f'scaled frame raised {type(e).__name__}: {e}')
    return
  cpx = en.series(fr, use_cool, col=5)[0]
  cost_regression_ok = scen == 'fixed' or (len(cpx) >= 3 and float(np.std(cpx)) > 1e-9 * max(1.0, float(np.abs(cpx).max())))
  # (variable cost with a constant control cost in the pre-period: the cost regression is rank deficient and its
  # minimum-norm solution is not scale equivariant - a degenerate cost effect, outside the claim)
  if rep3['scenario'] == scen and cond and cost_regression_ok:
    for c, f in (('estimate', b / a), ('lower', b / a), ('upper', b / a), ('precision', b / a), ('probability', 1.0),
                 ('relative_lift', 1.0), ('relative_lift_lower', 1.0), ('relative_lift_upper', 1.0), ('incremental_cost', a), ('incremental_response', b)):
      # a figure that is zero up to rounding (no lift at all) is noise at the scale of the data, not of itself
      mag_r = float(np.abs(en.series(fr, use_cool)[3]).sum()) or 1.0
      mag_c = max(abs(rep['incremental_cost']), 1e-300)
      floor = {'incremental_response': b * mag_r, 'incremental_cost': a * mag_c, 'probability': 1.0,
               'relative_lift': 1.0, 'relative_lift_lower': 1.0, 'relative_lift_upper': 1.0}.get(c, (b / a) * mag_r / mag_c)
      if not en.close(rep3[c], f * rep[c], 1e-7, floor):
        out.oracle_violation(dict(facts, symptom='not-equivariant', column=c), dict(case, a=a, b=b),
                             f'{scen}: cost x{a}, response x{b}: column {c} goes {rep[c]} -> {rep3[c]}, expected x{f} = {f * rep[c]}')
        return
  out.count((scen, fr['n_pre'], tails, level, round(est, 9)) if cond else None)


def run(out, tier, model_ok=True):
  rng = core.rng_for(PROP)
  n = 80 if tier == 'quick' else 2500
  sess = en.ModelSession() if model_ok else None
  pending = []
  scen_hist = {}
  prev_fr = None
  cdir = os.path.join(core.VERIF, 'corpus', 'C07')
  for fn in sorted(os.listdir(cdir)) if os.path.isdir(cdir) else []:      # past failures run first
    with open(os.path.join(cdir, fn)) as f:
      check_frame(out, rng, json.load(f)['frame'], sess, pending)
  for i in range(n):
    fr = en.gen_frame(rng, cost_kind=(('variable_trt_pre' if i % 9 == 2 else 'variable') if i % 3 == 2 else ('fixed_cool' if i % 6 == 1 else ('fixed_negative' if i % 6 == 4 else ('cancel_pre' if i % 12 == 3 else ('cancel_ctl_test' if i % 12 == 9 else 'fixed'))))), cooldown=(rng.choice([1, 2, 4]) if i % 6 == 1 else None), n_pre=(rng.choice([4, 5, 6]) if i % 7 == 0 else None))
    fr.update(use_cooldown=rng.random() < 0.6, level=rng.choice([0.9, 0.8, 0.95, 0.5, 0.3]), tails=rng.choice([1, 2]),
              thr=rng.choice([0.0, 0.0, 1.0, 2.5]), nsims=2000, random_state=rng.randint(0, 10 ** 6))
    if i % 5 == 2:
      fr['names'] = dict(en.CUSTOM_NAMES)      # caller-chosen column names
    if i % 4 == 3 and prev_fr is not None:
      fr['refit_after'] = prev_fr              # one analysis object, two experiments in a row
    prev_fr = {k: v for k, v in fr.items() if k != 'refit_after'}
    scen_hist[fr['cost_kind']] = scen_hist.get(fr['cost_kind'], 0) + 1
    check_frame(out, rng, fr, sess, pending)
  if sess is not None and pending:
    res = sess.run()
    for case, r, rep, df in pending:
      v = en.parse_vals(res[r][0])
      est, lo, up, prec, z, icost, iresp, irl, iru = v
      prob = 1.0 - stats.t.cdf(z, df)
      want = [rep['estimate'], rep['lower'], rep['upper'], rep['precision'], rep['probability'], rep['incremental_cost'],
              rep['incremental_response'], rep['incremental_response_lower'], rep['incremental_response_upper']]
      got = [est, lo, up, prec, prob, icost, iresp, irl, iru]
      if not all(en.close(g, w, 1e-8, 1e-9) for g, w in zip(got, want)):
        out.mismatch('numeric-iroas', case, f'fixed-cost report: implementation {want}; model {got}')
  out.rule = ('generated experiment frames (two thirds fixed-cost, one third variable-cost; every 7th with a 4-6 point pre-period), with/without '
              'cooldown, tails 1/2, levels {0.9,0.8,0.95,0.5,0.3}, thresholds; per frame: scenario label, order laws, fixed-cost column '
              'coherence against tbr.TBR, determinism (two runs, same random_state), equivariance under cost x2^i, response x2^j; '
              'fixed-cost reports also against the Lean model; non-trivial = well-conditioned frame; distinct by (scenario, n_pre, tails, level, estimate)')
  out.extra.update({'frames': n, 'by_cost_kind': scen_hist, 'model_compared': len(pending)})
  out.sample({'n_pre': fr['n_pre'], 'n_test': fr['n_test'], 'cost_kind': fr['cost_kind'], 'level': fr['level'], 'tails': fr['tails'], 'rows': fr['rows'][:4]})


def replay(out, path, model_ok=True):
  with open(path) as f:
    rp = json.load(f)
  case = (rp.get('violation') or (rp.get('correspondence_mismatches') or [{}])[0]).get('case')
  check_frame(out, core.rng_for(PROP, 'replay'), case['frame'], None, [])
  out.count(('replay', 1)); out.count(('replay', 2))
