import MM.Props.Exhaustive

#print axioms MM.Search.notSat_false_iff
#print axioms MM.Search.evaluated_sub_listing
#print axioms MM.Search.C01_exhaustive_evaluated
#print axioms MM.Search.C09_exhaustive_total
#print axioms MM.Search.C01_exhaustive
#print axioms MM.Search.C02_exhaustive_evaluated
#print axioms MM.Search.C02_exhaustive
#print axioms MM.Search.C03_sound
#print axioms MM.Search.C03_complete
#print axioms MM.Search.C03_nodup
#print axioms MM.Search.C03_topk
#print axioms MM.Search.C03_optimal
#print axioms MM.Search.C04_score_of_design
#print axioms MM.Search.C02_none_imposes_nothing
#print axioms MM.Search.designLt_strictWeak_on_nanFree
#print axioms MM.Search.exWF
#print axioms MM.Search.exNaNFree
#print axioms MM.Search.ex_not_omittable
