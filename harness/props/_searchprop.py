"""Common body of the search properties (C01 C02 C03 C04 C09 C13): one engine run (cached per tree/seed/tier),
the model-vs-implementation correspondence, and the property's own independent oracle."""
import json
import core
import engines.search as se

SEARCH_TARGETS = ['MM.Props.Exhaustive', 'MM.Props.Greedy', 'MM.Props.SearchTie', 'MM.Props.WithinTie', 'MM.Props.SizesTie', 'MM.Driver.Wire', 'MM.Model.Admit']
SEARCH_TRUST = [
    'Lean 4.33.0 kernel; axioms propext, Classical.choice, Quot.sound (audited per theorem)',
    'hand model MM/Model/Search.lean (+Admit.lean) of tbrmatchedmarkets.py, parametric in the data-dependent tables '
    '(share, optimistic impact, required impact, score); `_constraint_not_satisfied` regenerated from source (T4); the inline '
    'comparisons of exhaustive_search and of the control size generator regenerated from source (T5) and proved equal to the model\'s (MM/Props/SearchTie.lean); design_within_constraints regenerated from source as a chain of guarded checks (T8) and proved equal to the model\'s withinConstraints (MM/Props/WithinTie.lean); the integer arithmetic of the size ranges regenerated from source (T12) and proved to be the model\'s (MM/Props/SizesTie.lean)',
    'tables for the correspondence are produced by the real TBRMMDiagnostics/TBRMMScore classes applied to series the harness '
    'aggregates itself from the raw frame; geo_share is read from the real data object (checked separately under C15)',
    'float policy: the model compares exact rationals of the transferred floats; instances whose closest comparison margin '
    'is < 1e-9 are counted as guard-band and excluded; CPython set iteration of small ints is ascending; heapq abstracted',
    'correspondence harness harness/engines/search.py, driver lean/drivers/Search.lean',
]


def run_search_prop(out, prop, judge, tier, model_ok=True, correspondence=True, deepen=False):
  res = se.get_results(tier, model_ok=model_ok)
  if correspondence and model_ok:
    se.report_correspondence(out, res)
  se.describe(out, res)
  judge(out, res)
  if (out.mismatches or deepen) and not out.violations:
    # a proof obligation or the correspondence no longer checks: look harder for a concrete failing input, in the
    # neighbourhood of the disagreeing instances (same generator themes), judged by the independent oracle only
    themes = sorted({m['case']['inst'].get('theme') for m in out.mismatches if m.get('case') and m['case'].get('inst')} - {None}) or None
    extra = se.extra_instances(themes, 240, salt=prop)
    judge(out, {'recs': extra, 'tier': tier, 'model_ok': False})
    out.extra['failing_input_search_instances'] = len(extra)
  shown = 0
  for r in res['recs']:
    if r.get('tables') and r['tables']['n'] >= 3 and (r['exh'].get('result') or r['greedy'].get('result')) and shown < 3:
      se.sample_case(out, r)
      shown += 1
  b = se.budget(tier)
  out.rule = (f'{b["n"]} generated search instances (+corpus): 1-6 geos with integer-valued responses, shuffled rows, missing cells '
              'and duplicate rows, eligibility tables over the seven legal rows (some geos absent from the table / from the data), '
              'each of the six constraints present with probability ~1/3, n_geos_max, n_pretest_max cuts, n_designs 1..1000; both '
              'searches run on fresh objects; ' + out.rule)


def replay_search(out, path, judge):
  with open(path) as f:
    rp = json.load(f)
  case = (rp.get('violation') or (rp.get('correspondence_mismatches') or [{}])[0]).get('case') or {}
  inst = case.get('inst')
  if inst is None:
    print('replay file has no instance (broken obligation only):', rp.get('broken_obligations'))
    out.count(('replay', 0)); out.count(('replay', 1))
    return
  rec = se.process(('replay', inst))
  if rec.get('wire') if False else True:
    pass
  res = {'recs': [rec], 'tier': 'quick', 'model_ok': False}
  judge(out, res)
  print('replayed instance: exhaustive ->', rec['exh'].get('error') or [(d['Tids'], d['Cids']) for d in rec['exh'].get('result', [])],
        '| greedy ->', rec['greedy'].get('error') or [(d['Tids'], d['Cids']) for d in rec['greedy'].get('result', [])])
  out.count(('replay', 0)); out.count(('replay', 1))
