import MM.Props.C10
import MM.Props.MemoTie

#print axioms MM.Api.C10_init_inv
#print axioms MM.Api.C10_step_inv
#print axioms MM.Api.C10_params_unchanged
#print axioms MM.Api.C10_call_history_free
#print axioms MM.Api.C10_history_free
#print axioms MM.Api.C10_results_idempotent
#print axioms MM.Api.C10_results_after_search
#print axioms MM.Api.run_eq_specRun
#print axioms MM.Api.resInv_step
#print axioms MM.Api.after_inv
#print axioms MM.Api.after_resInv
#print axioms MM.Api.results_out
#print axioms MM.Api.stepBuggy_modifies_params
#print axioms MM.Api.stepBuggy_eq_step
#print axioms MM.Api.stepBuggyResults_not_idempotent
#print axioms MM.Api.run_hist3
#print axioms MM.Memo.tie_memoised
