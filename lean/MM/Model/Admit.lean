/-
Model of TBRMatchedMarkets.geos_within_constraints / geo_assignments (the admitted geo
set and its order), tbrmatchedmarkets.py:76-135.  Geos are positions in the data
object's row order (decreasing mean response).  No Mathlib imports.
-/
import MM.Model.Basic
import MM.Model.Search
namespace MM.Admit
open MM

/-- eligibility of a geo present in the data; `absent` = not mentioned in the table. -/
inductive Class7 | cFixed | tFixed | xFixed | ct | cx | tx | ctx | absent
deriving DecidableEq, Repr, Inhabited

def Class7.assignable : Class7 → Bool | .xFixed | .absent => false | _ => true
def Class7.must : Class7 → Bool | .cFixed | .tFixed | .ct => true | _ => false
def Class7.toGeoClass : Class7 → Option Search.GeoClass
  | .cFixed => some .cFixed | .tFixed => some .tFixed | .ct => some .ct
  | .cx => some .cx | .tx => some .tx | .ctx => some .ctx | _ => none

structure GeoRow where
  cls : Class7
  share : Rat              -- geo_share (against all geos in the data)
  reqImpact : PyFloat      -- geo_req_impact: optimistic required impact of the geo alone
deriving Repr, Inhabited

structure AdmitParams where
  shareHi : Option Rat := none       -- treatment_share_range[1]
  maxImpact : Option Rat := none     -- budget_range[1] * iroas
  nGeosMax : Option Nat := none

def tooLarge (ap : AdmitParams) (r : GeoRow) : Bool :=
  match ap.shareHi with | some hi => decide (r.share > hi) | none => false
def overBudget (ap : AdmitParams) (r : GeoRow) : Bool :=
  match ap.maxImpact with | some m => PyFloat.lt (.fin m) r.reqImpact | none => false

/-- before truncation: assignable geos that are neither too large nor over budget, plus
the geos that may not be excluded. -/
def candidate (ap : AdmitParams) (r : GeoRow) : Bool :=
  (r.cls.assignable && !tooLarge ap r && !overBudget ap r) || r.cls.must

/-- insertion sort by decreasing required impact (NaN last), stable. -/
def insertDesc (rows : List GeoRow) (i : Nat) : List Nat → List Nat
  | [] => [i]
  | j :: l =>
    let a := (rows.getD i default).reqImpact
    let b := (rows.getD j default).reqImpact
    if PyFloat.lt b a || (b == .nan && a != .nan) then i :: j :: l else j :: insertDesc rows i l

def sortDesc (rows : List GeoRow) (idx : List Nat) : List Nat := idx.foldr (insertDesc rows) []

/-- `geos_within_constraints` as an increasing list of row positions (= `geo_index` order).
Repaired tree: the `n_geos_max` truncation never drops a must-include geo. -/
def admitGeos (ap : AdmitParams) (rows : List GeoRow) : List Nat :=
  let cand := (List.range rows.length).filter fun i => candidate ap (rows.getD i default)
  match ap.nGeosMax with
  | none => cand
  | some m =>
    if cand.length ≤ m then cand else
    let must := cand.filter fun i => (rows.getD i default).cls.must
    let opt := (sortDesc rows cand).filter fun i => !(rows.getD i default).cls.must
    let keep := must ++ opt.take (m - must.length)
    cand.filter fun i => keep.contains i

/-- classes of the admitted geos in index order -/
def admittedClasses (rows : List GeoRow) (idx : List Nat) : List Search.GeoClass :=
  idx.filterMap fun i => (rows.getD i default).cls.toGeoClass

end MM.Admit
