"""C01: returned designs are legal assignments under the geo eligibility matrix."""
import core
import engines.search as se
from props._searchprop import SEARCH_TARGETS, SEARCH_TRUST, run_search_prop, replay_search

PROP = 'C01'
LEAN_TARGETS = SEARCH_TARGETS + ['MM.Props.C01Admit', 'MM.Props.C01Ids']
THEOREMS = ['MM.Search.' + n for n in ('evaluated_sub_listing', 'C01_exhaustive_evaluated', 'C01_exhaustive', 'C01_greedy')] + ['MM.Admit.admit_sorted', 'MM.Admit.admit_must', 'MM.Admit.admit_excluded', 'MM.Admit.admit_optional', 'MM.Admit.admit_all_candidates', 'MM.Admit.admit_cap', 'MM.Admit.admit_classes', 'MM.Admit.ids_injective'] + ['MM.Admit.C01_ids', 'MM.Admit.C01_ids_exhaustive', 'MM.Admit.C01_ids_greedy']
TRUSTED_BASE = SEARCH_TRUST + ['legality is stated on index sets of the admitted geos; the index->ID map (geo_index) is compared by the correspondence']


SUPPORTS_DEEPEN = True


def run(out, tier, model_ok=True, deepen=False):
  out.rule = 'oracle: every returned design is checked against the C01 sentence using only the raw eligibility table and the geos in the raw frame; non-trivial = >= 2 admitted geos and at least one design evaluated or returned; distinct by (class vector, parameters, number of evaluated designs)'
  run_search_prop(out, PROP, se.judge_c01, tier, model_ok, deepen=deepen)


def replay(out, path, model_ok=True):
  replay_search(out, path, se.judge_c01)
