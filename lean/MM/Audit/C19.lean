import MM.Props.C19

#print axioms MM.Screen.C19_data
#print axioms MM.Screen.C19_analysis
#print axioms MM.Screen.C19_reports
#print axioms MM.Screen.C19_totals
#print axioms MM.Screen.C19_totals_perm
#print axioms MM.Screen.C19_totals_other_groups
#print axioms MM.Screen.C19_totals_split
#print axioms MM.Screen.C19_perm_invariant
#print axioms MM.Screen.C19_total_fn
