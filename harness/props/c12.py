"""C12: search results are invariant to how the input is presented."""
import copy
import json
import math
import multiprocessing as mp
import os
import warnings
import core
import engines.search as se

warnings.filterwarnings('ignore')
PROP = 'C12'
LEAN_TARGETS = ['MM.Props.C15', 'MM.Props.C12', 'MM.Driver.Wire']
THEOREMS = (['MM.Data.' + n for n in ('C12_cell_perm', 'C12_dates_perm', 'C12_mean_perm', 'C12_pivot_perm', 'C12_pivot_dates',
                                      'C12_pivot_scale')] +
            ['MM.Search.' + n for n in ('C12_evaluated_scale', 'C12_exhaustive_scale', 'C12_greedy_scale', 'C12_rename')])
TRUSTED_BASE = [
    'Lean 4.33.0 kernel; axioms propext, Classical.choice, Quot.sound (audited per theorem)',
    'pivot invariance (row permutation under pairwise distinct geo means, monotone date relabelling, scaling) is proved for the data '
    'model (MM/Model/Data.lean); scale equivariance of both searches for the search model; renaming is the identity on everything the '
    'searches compute (they work on positions in the geo index) and enters through an injective relabelling of the reported index sets',
    'int-vs-str ID handling inside pandas (astype(str)) and exactness of power-of-two scaling in IEEE arithmetic are runtime behaviour '
    '(partial): established for the code by the paired real runs below',
    'paired-run harness harness/props/c12.py over instances of harness/engines/search.py',
]
RENAME_POOL = ['zz', 'y1', ' x', 'w9 ', 'v', 'u2', 't', 'Aa', 'B1', '0a']      # two of them padded with a blank


def transform(inst, kind, rng_seed):
  import random
  rng = random.Random(rng_seed)
  t = copy.deepcopy(inst)
  info = {'kind': kind}
  if kind == 'shuffle':
    rng.shuffle(t['rows'])
  elif kind == 'shift':
    k = rng.choice([1, 7, 365, 1000])
    t['date0'] = str((__import__('pandas').Timestamp('2020-01-01') + __import__('pandas').Timedelta(days=k)).date())
  elif kind == 'int_dates':
    # dates given as plain day numbers, shifted across a power of ten
    t['int_dates'] = rng.choice([3, 95, 990])
  elif kind == 'int_ids':
    # replace IDs by integers (dtype int64 column) - eligibility keys follow
    m = {g: str(100 + i * 7) for i, g in enumerate(sorted(inst['geos'], reverse=True))}
    _rename(t, m)
    t['id_type'] = rng.choice(['int', 'int_object'])
    info['map'] = m
  elif kind in ('rename_a', 'rename_b', 'rename_c'):
    # other alphabetical orders of the same geos (any order-dependence of a sum shows under some renaming)
    names = list(RENAME_POOL)
    rng.shuffle(names)
    m = {g: names[i] for i, g in enumerate(sorted(inst['geos']))}
    _rename(t, m)
    info['map'] = m
    info['kind'] = 'rename'
  elif kind == 'rename':
    names = list(RENAME_POOL)
    # names whose alphabetical order reverses the original one
    order = sorted(inst['geos'])
    m = {g: names[i] for i, g in enumerate(order)}
    _rename(t, m)
    info['map'] = m
  elif kind in ('scale', 'scale_tiny'):
    # a change of monetary unit: moderate, or so small that absolute tolerances / fixed-decimal rounding would show
    c = 2.0 ** (rng.choice([-3, -1, 2, 5, 10]) if kind == 'scale' else rng.choice([-12, -20, -30, -40, -60]))
    t['rows'] = [[g, d, v * c] for g, d, v in t['rows']]
    info['c'] = c
    t['scale_budget'] = c
  return t, info


def _rename(t, m):
  t['rows'] = [[m[g], d, v] for g, d, v in t['rows']]
  t['geos'] = [m[g] for g in t['geos']]
  if t['elig'] is not None:
    t['elig'] = {m.get(g, g): c for g, c in t['elig'].items()}


def run_pair(job):
  iid, inst, kinds = job
  from matched_markets.methodology import tbrmmdesignparameters
  rec = {'iid': iid, 'inst': inst, 'pairs': []}
  try:
    probe = tbrmmdesignparameters.TBRMMDesignParameters(n_test=int(inst['params']['n_test']), iroas=inst['params']['iroas'],
                                                         n_pretest_max=int(inst['params'].get('n_pretest_max') or 90))
    resolved = {k: v for k, v in se.resolve_budget(inst, probe).items() if v is not None}
    rec['resolved'] = resolved
    base = {w: run_one(inst, resolved, w) for w in ('exhaustive', 'greedy')}
    rec['base'] = base
    for j, kind in enumerate(kinds):
      t, info = transform(inst, kind, f'{iid}-{j}')
      res2 = dict(resolved)
      if kind in ('scale', 'scale_tiny') and res2.get('budget_range') is not None:
        res2['budget_range'] = [b * info['c'] for b in res2['budget_range']]
      out = {w: run_one(t, res2, w) for w in ('exhaustive', 'greedy')}
      rec['pairs'].append((info, out))
  except Exception:
    import traceback
    rec['harness_error'] = traceback.format_exc()[-1200:]
  return rec


def run_one(inst, resolved, which):
  """like engines.search.run_real but honouring id_type / date0 of transformed instances"""
  from matched_markets.methodology import tbrmmdata, tbrmatchedmarkets
  try:
    par = se.build_params(inst, resolved)
    frame = se.build_frame(inst, id_type=inst.get('id_type', 'str'), date0=inst.get('date0', '2020-01-01'))
    if inst.get('int_dates') is not None:
      frame['date'] = [inst['int_dates'] + int(r[1]) for r in inst['rows']]
    frame0 = frame.copy(deep=True)
    data = tbrmmdata.TBRMMData(frame, 'response', se.build_elig(inst))
    mm = tbrmatchedmarkets.TBRMatchedMarkets(data, par)
    with core.time_limit(60):
      res = mm.exhaustive_search() if which == 'exhaustive' else mm.greedy_search()
    if not frame.equals(frame0) or list(frame.dtypes) != list(frame0.dtypes):
      return {'err': 'CallerFrameModified'}      # the caller's frame must come back as it was given, whatever the ID type
    return {'ok': [{'T': sorted(d.treatment_geos), 'C': sorted(d.control_geos), 'score': [float(v) for v in d.score.score],
                    'corr': float(d.diag.corr), 'impact': float(d.diag.required_impact)} for d in res]}
  except Exception as e:
    return {'err': type(e).__name__}


def same(a, b, rel=0.0):
  if math.isnan(a) and math.isnan(b):
    return True
  return a == b if rel == 0.0 else math.isclose(a, b, rel_tol=rel)


def compare(base, other, info, has_budget):
  """-> problem string or None"""
  if ('err' in base) != ('err' in other) or base.get('err') != other.get('err'):
    return f'outcome differs: {base.get("err") or "ok"} vs {other.get("err") or "ok"}'
  if 'err' in base:
    return None
  m = info.get('map')
  c = info.get('c', 1.0)
  A, B = base['ok'], other['ok']
  if len(A) != len(B):
    return f'{len(A)} designs vs {len(B)}'
  # designs may be permuted inside a class of equal scores: compare as sorted lists of (score key, groups)
  def key(d, mapped):
    T = sorted((m[g] if (m and mapped) else g) for g in d['T'])
    C = sorted((m[g] if (m and mapped) else g) for g in d['C'])
    return (T, C)
  for i, (da, db) in enumerate(zip(A, B)):
    sa, sb = da['score'], db['score']
    if not all(same(x, y) for x, y in zip(sa[:5], sb[:5])):
      return f'design #{i}: test outcomes / rounded correlation differ: {sa[:5]} vs {sb[:5]}'
    want_last = sa[5] if has_budget else sa[5] / c
    if not same(sb[5], want_last):
      return f'design #{i}: last score entry {sb[5]} (expected {want_last}; scale factor {c}, budget range {"given" if has_budget else "absent"})'
    if not same(db['corr'], da['corr']) or not same(db['impact'], da['impact'] * c):
      return f'design #{i}: correlation/impact {db["corr"]}, {db["impact"]} vs {da["corr"]}, {da["impact"]} x {c}'
  if sorted(map(str, (key(d, True) for d in A))) != sorted(map(str, (key(d, False) for d in B))):
    return f'groups differ: {[key(d, True) for d in A][:3]} vs {[key(d, False) for d in B][:3]}'
  ties = len({tuple(d['score']) for d in A}) < len(A)
  if not ties and [key(d, True) for d in A] != [key(d, False) for d in B]:
    return 'same designs in a different order although no two scores tie'
  return None


def feasible(inst):
  from matched_markets.methodology import tbrmmdata, tbrmatchedmarkets, tbrmmdesignparameters
  try:
    probe = tbrmmdesignparameters.TBRMMDesignParameters(n_test=int(inst['params']['n_test']), iroas=inst['params']['iroas'],
                                                         n_pretest_max=int(inst['params'].get('n_pretest_max') or 90))
    resolved = {k: v for k, v in se.resolve_budget(inst, probe).items() if v is not None}
    mm = tbrmatchedmarkets.TBRMatchedMarkets(tbrmmdata.TBRMMData(se.build_frame(inst), 'response', se.build_elig(inst)),
                                            se.build_params(inst, resolved))
    return mm.count_max_designs() > 0
  except Exception:
    return False


def run(out, tier, model_ok=True):
  rng = core.rng_for(PROP)
  n = 60 if tier == 'quick' else 600
  jobs = []
  i = 0
  while len(jobs) < n:
    i += 1
    inst = se.gen_instance(rng, tier, max_admitted=5, theme=rng.choice(['default', 'default', 'share_lo', 'tfixed_budget', 'highcorr_budget', 'highcorr_budget']))
    if inst['params'].get('iroas') in (0, 0.0):
      inst['params']['iroas'] = 1.0
    # three quarters of the instances are ones that admit at least one design (generation aid only: an invariance
    # comparison of two empty results says little); the rest are taken as they come, errors and empty results included
    if (rng.random() < 0.15 or i % 2 == 1) and len(inst['geos']) >= 2:
      # a share bound the user read off the data: the share of one geo (or of two) as the data object reports it
      try:
        from matched_markets.methodology import tbrmmdata
        gs = tbrmmdata.TBRMMData(se.build_frame(inst), 'response').geo_share
        k = rng.randrange(len(gs))
        v = float(gs.iloc[k]) if rng.random() < 0.6 else float(gs.iloc[k] + gs.iloc[(k + 1) % len(gs)])
        if 0 < v < 1:
          inst['params']['treatment_share_range'] = [v, rng.choice([x for x in (0.6, 0.8, 0.95, 0.999) if x > v] or [min(0.9999, (1 + v) / 2)])] \
              if rng.random() < 0.5 else [rng.choice([x for x in (0.001, 0.01, 0.05) if x < v] or [v / 2]), v]
          inst['params'].pop('budget_range', None)
          inst['params']['n_designs'] = 1000      # every design is reported: a group flipping across the bound shows
      except Exception:
        pass
    if not feasible(inst) and rng.random() < 0.75 and i < 20 * n:
      continue
    kinds = ['shuffle', 'shift', 'rename', 'scale', 'scale_tiny', 'int_dates']
    if all(g.isdigit() for g in inst['geos']) or rng.random() < 0.5:
      kinds.append('int_ids')
    if inst['params'].get('n_designs') == 1000 and inst['params'].get('treatment_share_range') is not None:
      kinds += ['rename_a', 'rename_b', 'rename_c']
    jobs.append((f'm{i}', inst, kinds))
  with mp.Pool(min(16, os.cpu_count() or 4)) as pool:
    recs = pool.map(run_pair, jobs, chunksize=2)
  by_kind = {}
  for r in recs:
    if r.get('harness_error'):
      out.infra_error = 'harness error in C12: ' + r['harness_error'][-300:]
      continue
    # ties in the geo means make the row order ambiguous (outside the comparison)
    _, table = se.pivot(r['inst'])
    means = [float(v.mean()) for v in table.values()]
    if len(set(means)) != len(means):
      out.count(None)
      continue
    has_budget = r['resolved'].get('budget_range') is not None
    nontriv = False
    for info, res in r['pairs']:
      for w in ('exhaustive', 'greedy'):
        prob = compare(r['base'][w], res[w], info, has_budget and w == 'exhaustive')
        by_kind[info['kind']] = by_kind.get(info['kind'], 0) + 1
        if prob:
          out.oracle_violation({'call': w + '_search', 'symptom': 'presentation-dependent', 'transformation': info['kind']},
                               {'inst': r['inst'], 'resolved': r['resolved'], 'transformation': info},
                               f'{w} search, transformation {info}: {prob}')
        if res[w].get('ok'):
          nontriv = True
    out.count((r['iid'], json.dumps(r['resolved'], sort_keys=True)) if nontriv else None)
  out.rule = (f'{n} search instances x 6-7 transformations (row shuffle, date shift by 1/7/365/1000 days, dates as plain day numbers starting at 3/95/990, renaming incl. names that reverse '
              'the alphabetical order and eligibility renamed alike, integer-dtype IDs, scaling of every response and of the budget range by '
              '2^k for k in -3..10 and for k in {-12,-20,-30,-40,-60}) x both searches, real runs on fresh objects compared design by design (groups up to the renaming, test outcomes and '
              'rounded correlation identical, impact-based quantities scaled; tie classes may be permuted); '
              'non-trivial = some search returned designs; distinct by (instance, parameters)')
  out.extra.update({'instances': n, 'pair_comparisons_by_transformation': by_kind})
  for r in recs:
    if r.get('base', {}).get('exhaustive', {}).get('ok'):
      out.sample({'geos': r['inst']['geos'], 'params': r['resolved'], 'transformations': [p[0] for p in r['pairs']],
                  'exhaustive': [(d['T'], d['C']) for d in r['base']['exhaustive']['ok']][:2]})
      break


def replay(out, path, model_ok=True):
  with open(path) as f:
    rp = json.load(f)
  case = rp['violation']['case']
  r = run_pair(('replay', case['inst'], [case['transformation']['kind']]))
  for info, res in r['pairs']:
    for w in ('exhaustive', 'greedy'):
      prob = compare(r['base'][w], res[w], info, r['resolved'].get('budget_range') is not None and w == 'exhaustive')
      print(w, info, prob or 'same')
      if prob:
        out.oracle_violation({'call': w + '_search', 'symptom': 'presentation-dependent'}, case, prob)
  out.count(('replay', 1)); out.count(('replay', 2))
