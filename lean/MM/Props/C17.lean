/-
C17: `TBRMMDesignParameters` accepts exactly the documented domain, every rejection is a
`ValueError`, the dataclass defaults are the documented ones and are themselves legal, and
`==` compares field values.

Model: `MM/Model/ParamsCore.lean`, `MM/Model/Params.lean`; the check table, optionality and
defaults are generated from the source (`MM/Generated/ParamsGen.lean`) and the theorems below
are proved by unfolding them.  Helper lemmas: `MM/Proofs/Params.lean`.
-/
import MM.Proofs.Params

namespace MM.Params
open MM

def r09 : Rat := (8106479329266893 : Rat) / 9007199254740992    -- the double 0.9
def r08 : Rat := (3602879701896397 : Rat) / 4503599627370496    -- the double 0.8

/-- v is a number (not NaN) with `lo ⋈ v` -/
def numGe (v : PyVal) (lo : Rat) : Prop := v.isNum = true ∧ PyFloat.le (.fin lo) v.num = true
def numGt (v : PyVal) (lo : Rat) : Prop := v.isNum = true ∧ PyFloat.lt (.fin lo) v.num = true
def numLt (v : PyVal) (hi : Rat) : Prop := v.isNum = true ∧ PyFloat.lt v.num (.fin hi) = true
/-- integer-valued finite number -/
def integral (v : PyVal) : Prop := ∃ z : Int, v.num = .fin (z : Rat)
def optionalOr (v : PyVal) (P : PyVal → Prop) : Prop := v = .none ∨ P v
def isPair (v : PyVal) (P : PyVal → PyVal → Prop) : Prop := ∃ a b, v = .tuple [a, b] ∧ a.isNum = true ∧ b.isNum = true ∧ P a b
def finite (v : PyVal) : Prop := ∃ q, v.num = .fin q

def InDomain (o : Obj) : Prop :=
  (numGe (o .n_test) 1 ∧ integral (o .n_test)) ∧
  numGe (o .iroas) 0 ∧
  optionalOr (o .volume_ratio_tolerance) (fun v => numGt v 0) ∧
  optionalOr (o .geo_ratio_tolerance) (fun v => numGt v 0) ∧
  optionalOr (o .treatment_share_range) (fun v => isPair v fun a b => numGt a 0 ∧ PyFloat.lt a.num b.num = true ∧ numLt b 1) ∧
  optionalOr (o .budget_range) (fun v => isPair v fun a b => numGe a 0 ∧ PyFloat.lt a.num b.num = true ∧ finite b) ∧
  optionalOr (o .treatment_geos_range) (fun v => isPair v fun a b => numGe a 1 ∧ PyFloat.le a.num b.num = true ∧ integral a ∧ integral b) ∧
  optionalOr (o .control_geos_range) (fun v => isPair v fun a b => numGe a 1 ∧ PyFloat.le a.num b.num = true ∧ integral a ∧ integral b) ∧
  optionalOr (o .n_geos_max) (fun v => numGe v 2 ∧ integral v) ∧
  (numGe (o .n_pretest_max) 3 ∧ integral (o .n_pretest_max)) ∧
  (numGe (o .n_designs) 1 ∧ integral (o .n_designs)) ∧
  (numGe (o .rho_max) r09 ∧ numLt (o .rho_max) 1) ∧
  (numGt (o .sig_level) 0 ∧ numLt (o .sig_level) 1) ∧
  (numGt (o .power_level) 0 ∧ numLt (o .power_level) 1) ∧
  (numGe (o .min_corr) r08 ∧ numLt (o .min_corr) 1) ∧
  (numGe (o .flevel) r09 ∧ numLt (o .flevel) 1)

theorem C17_accept_iff (o : Obj) : postInit o = .ok () ↔ InDomain o := by
  rw [postInit_ok_iff]
  simp only [checks, List.forall_mem_cons, runCheck, Field.optional, List.not_mem_nil,
    false_imp_iff, implies_true, and_true]
  have h0 : ((0 : Rat) / 1) = 0 := by decide +kernel
  have h1 : ((1 : Rat) / 1) = 1 := by decide +kernel
  exact
    and_congr (vs_ge_int _ 1 1 rfl) <|
    and_congr (vs_ge_float _ _ 0 h0) <|
    and_congr (vs_gt_float_opt _ _ 0 h0) <|
    and_congr (vs_gt_float_opt _ _ 0 h0) <|
    and_congr (range_lt_lt_lt_opt _ _ 0 _ 1 h0 h1) <|
    and_congr (range_le_lt_inf_opt _ _ 0 h0) <|
    and_congr (range_int_le_le_inf_opt _ 1 1 rfl) <|
    and_congr (range_int_le_le_inf_opt _ 1 1 rfl) <|
    and_congr (vs_ge_int_opt _ 2 2 rfl) <|
    and_congr (vs_ge_int _ 3 3 rfl) <|
    and_congr (vs_ge_int _ 1 1 rfl) <|
    and_congr (wb_le_lt _ _ r09 _ 1 rfl h1) <|
    and_congr (wb_lt_lt _ _ 0 _ 1 h0 h1) <|
    and_congr (wb_lt_lt _ _ 0 _ 1 h0 h1) <|
    and_congr (wb_le_lt _ _ r08 _ 1 rfl h1) <|
    (wb_le_lt _ _ r09 _ 1 rfl h1)

theorem C17_total (o : Obj) : postInit o = .ok () ∨ postInit o = .error .valueError :=
  postInit_total o

theorem C17_reject_valueError (o : Obj) : ¬ InDomain o → postInit o = .error .valueError := by
  intro h
  rcases C17_total o with h' | h'
  · exact absurd ((C17_accept_iff o).1 h') h
  · exact h'

/-- construct with explicit keyword arguments (both required fields given) -/
theorem C17_construct (args : Field → Option PyVal) (h1 : (args .n_test).isSome) (h2 : (args .iroas).isSome) :
    ∃ o, fill args = .ok o ∧ (∀ f, o f = (args f).getD ((Field.default f).getD .none)) ∧
      (construct args = .ok o ↔ InDomain o) ∧ (¬ InDomain o → construct args = .error .valueError) := by
  refine ⟨_, fill_ok args h1 h2, ?_, ?_, ?_⟩
  · intro f
    cases h : args f <;> simp
  · rw [construct_eq args _ (fill_ok args h1 h2), ← C17_accept_iff]
    cases h : postInit _ <;> simp [Except.map]
  · intro hn
    rw [construct_eq args _ (fill_ok args h1 h2), C17_reject_valueError _ hn]
    rfl

/-- documented defaults -/
theorem C17_defaults : Field.default .n_pretest_max = some (.int 90) ∧ Field.default .n_designs = some (.int 1) ∧
    Field.default .sig_level = some (.float (.fin r09)) ∧ Field.default .power_level = some (.float (.fin r08)) ∧
    Field.default .min_corr = some (.float (.fin r08)) ∧ Field.default .rho_max = some (.float (.fin ((8962163258467287 : Rat) / 9007199254740992))) ∧
    Field.default .flevel = some (.float (.fin r09)) ∧
    (∀ f, f.optional = true → Field.default f = some .none) ∧ Field.default .n_test = none ∧ Field.default .iroas = none := by
  refine ⟨rfl, rfl, rfl, rfl, rfl, rfl, rfl, ?_, rfl, rfl⟩
  intro f hf
  cases f <;> first | rfl | exact absurd hf (by decide)

/-- the defaults themselves are in the domain once the two required fields are -/
theorem C17_defaults_in_domain (n i : PyVal) (hn : numGe n 1 ∧ integral n) (hi : numGe i 0) :
    InDomain (fun f => match f with | .n_test => n | .iroas => i | f => (Field.default f).getD .none) := by
  refine ⟨hn, hi, .inl rfl, .inl rfl, .inl rfl, .inl rfl, .inl rfl, .inl rfl, .inl rfl,
    ⟨⟨rfl, ?_⟩, 90, rfl⟩, ⟨⟨rfl, ?_⟩, 1, rfl⟩, ⟨⟨rfl, ?_⟩, rfl, ?_⟩, ⟨⟨rfl, ?_⟩, rfl, ?_⟩,
    ⟨⟨rfl, ?_⟩, rfl, ?_⟩, ⟨⟨rfl, ?_⟩, rfl, ?_⟩, ⟨rfl, ?_⟩, rfl, ?_⟩ <;> (dsimp only; decide +kernel)

/-- equality compares field values: for accepted objects objEq is an equivalence that holds iff every field is numerically equal -/
theorem C17_eq_refl (o : Obj) (h : InDomain o) : objEq o o = true := by
  obtain ⟨⟨h1, -⟩, h2, h3, h4, h5, h6, h7, h8, h9, ⟨h10, -⟩, ⟨h11, -⟩, ⟨h12, -⟩, ⟨h13, -⟩,
    ⟨h14, -⟩, ⟨h15, -⟩, ⟨h16, -⟩⟩ := h
  have ge : ∀ v q, numGe v q → pyEq v v = true :=
    fun v q h => pyEq_self_num v h.1 (ne_nan_of_le_right h.2)
  have gt : ∀ v q, numGt v q → pyEq v v = true :=
    fun v q h => pyEq_self_num v h.1 (ne_nan_of_lt_right h.2)
  have optGt : ∀ v q, optionalOr v (fun v => numGt v q) → pyEq v v = true := by
    rintro v q (h | h)
    · rw [h]; exact pyEq_self_none
    · exact gt v q h
  have geos : ∀ v q, optionalOr v (fun v => isPair v fun a b =>
      numGe a q ∧ PyFloat.le a.num b.num = true ∧ integral a ∧ integral b) → pyEq v v = true := by
    rintro v q (h | ⟨a, b, h, ha, hb, ⟨-, h1⟩, h2, -, -⟩)
    · rw [h]; exact pyEq_self_none
    · rw [h]; exact pyEq_self_pair a b ha hb (ne_nan_of_le_right h1) (ne_nan_of_le_right h2)
  rw [objEq_iff]
  intro f
  cases f
  · exact ge _ _ h1
  · exact ge _ _ h2
  · exact optGt _ _ h3
  · exact optGt _ _ h4
  · rcases h5 with h | ⟨a, b, h, ha, hb, ⟨-, h1⟩, h2, -⟩
    · rw [h]; exact pyEq_self_none
    · rw [h]; exact pyEq_self_pair a b ha hb (ne_nan_of_lt_right h1) (ne_nan_of_lt_right h2)
  · rcases h6 with h | ⟨a, b, h, ha, hb, ⟨-, h1⟩, h2, -⟩
    · rw [h]; exact pyEq_self_none
    · rw [h]; exact pyEq_self_pair a b ha hb (ne_nan_of_le_right h1) (ne_nan_of_lt_right h2)
  · exact geos _ _ h7
  · exact geos _ _ h8
  · rcases h9 with h | ⟨h, -⟩
    · rw [h]; exact pyEq_self_none
    · exact ge _ _ h
  · exact ge _ _ h10
  · exact ge _ _ h11
  · exact gt _ _ h13
  · exact gt _ _ h14
  · exact ge _ _ h15
  · exact ge _ _ h12
  · exact ge _ _ h16

theorem C17_eq_symm (a b : Obj) : objEq a b = objEq b a := by
  unfold objEq
  simp only [pyEq_comm (a _)]

theorem C17_eq_fields (a b : Obj) : objEq a b = true ↔ ∀ f, pyEq (a f) (b f) = true :=
  objEq_iff a b

/-! ### non-vacuity

Plain `decide` cannot evaluate `Rat` comparisons (core `Rat` arithmetic does not reduce in the
elaborator), so every example that has to get past a rational comparison uses `decide +kernel`
(kernel evaluation of the same `Decidable` instance; no extra axioms). -/

/-- a concrete object with every optional field set (float-valued integral `n_test`, a bool
for `n_designs`, ints where floats are documented and vice versa) -/
def exObj : Obj
  | .n_test => .float (.fin 3)
  | .iroas => .float (.fin (5 / 2))
  | .volume_ratio_tolerance => .float (.fin (1 / 10))
  | .geo_ratio_tolerance => .int 1
  | .treatment_share_range => .tuple [.float (.fin (1 / 4)), .float (.fin (3 / 4))]
  | .budget_range => .tuple [.int 0, .float (.fin 1000)]
  | .treatment_geos_range => .tuple [.int 1, .float (.fin 5)]
  | .control_geos_range => .tuple [.int 2, .int 2]
  | .n_geos_max => .int 10
  | .n_pretest_max => .int 90
  | .n_designs => .bool true
  | .sig_level => .float (.fin r09)
  | .power_level => .float (.fin r08)
  | .min_corr => .float (.fin r08)
  | .rho_max => .float (.fin (99 / 100))
  | .flevel => .float (.fin r09)

/-- `exObj` with one field replaced -/
def exObj.set (f : Field) (v : PyVal) : Obj := fun g => if g = f then v else exObj g

example : postInit exObj = .ok () := by decide +kernel
example : InDomain exObj := (C17_accept_iff _).1 (by decide +kernel)
example : objEq exObj exObj = true := C17_eq_refl _ ((C17_accept_iff _).1 (by decide +kernel))
-- `inf % 1` was an OverflowError before a repair, now a ValueError
example : postInit (exObj.set .n_test (.float .pinf)) = .error .valueError := by decide
example : postInit (exObj.set .treatment_share_range (.tuple [.float (.fin (1 / 2)), .float (.fin (1 / 2))]))
    = .error .valueError := by decide +kernel
example : postInit (exObj.set .rho_max (.float (.fin 1))) = .error .valueError := by decide +kernel
example : postInit (exObj.set .n_geos_max (.int 1)) = .error .valueError := by decide +kernel
example : postInit (exObj.set .budget_range (.tuple [.int 0, .float .pinf])) = .error .valueError := by decide +kernel
example : ¬ InDomain (exObj.set .budget_range (.tuple [.int 0, .float .pinf])) :=
  fun h => absurd ((C17_accept_iff _).2 h) (by decide +kernel)
-- further rejections: NaN, non-integral count, bad arity, wrong type, `None` for a required field
example : postInit (exObj.set .iroas (.float .nan)) = .error .valueError := by decide +kernel
example : postInit (exObj.set .n_test (.float (.fin (5 / 2)))) = .error .valueError := by decide +kernel
example : postInit (exObj.set .budget_range (.tuple [.int 0])) = .error .valueError := by decide +kernel
example : postInit (exObj.set .n_designs .other) = .error .valueError := by decide +kernel
example : postInit (exObj.set .n_pretest_max .none) = .error .valueError := by decide +kernel
-- a required field that is omitted is a TypeError from the generated `__init__`
example : fill (fun _ => none) = .error .typeError := rfl
-- `==` is numeric: `3 == 3.0`, `True == 1`, `nan != nan`
example : pyEq (.int 3) (.float (.fin 3)) = true := by decide +kernel
example : pyEq (.bool true) (.int 1) = true := by decide +kernel
example : pyEq (.float .nan) (.float .nan) = false := by decide +kernel

end MM.Params
