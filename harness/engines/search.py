"""Search engine shared by C01 C02 C03 C04 C09 C11 C13 C14: generates search instances, runs the
real TBRMatchedMarkets searches in-process, fills the model's oracle tables from the real
diagnostics class applied to series aggregated *by the harness from the raw frame*, runs the
Lean model (drivers/Search.lean) on the same instances and compares; plus the independent
per-property oracles that work from the raw input only.
"""
import copy
import hashlib
import itertools
import json
import math
import multiprocessing as mp
import os
import pickle
import sys
import time
import warnings
from fractions import Fraction

import numpy as np
import pandas as pd

import core

warnings.filterwarnings('ignore')

CLS_CODE = {  # (control, treatment, exclude) -> class name
    (1, 0, 0): 'cFixed', (0, 1, 0): 'tFixed', (0, 0, 1): 'xFixed', (1, 1, 0): 'ct',
    (1, 0, 1): 'cx', (0, 1, 1): 'tx', (1, 1, 1): 'ctx'}
CAN_T = {'tFixed', 'ct', 'tx', 'ctx'}
CAN_C = {'cFixed', 'ct', 'cx', 'ctx'}
CAN_X = {'cx', 'tx', 'ctx', 'xFixed'}
MUST = {'cFixed', 'tFixed', 'ct'}
GUARD = 1e-9
SEARCH_TIME_LIMIT = 60
_ORIG_PUSH = None


# ----------------------------------------------------------------------------
# instance generation
# ----------------------------------------------------------------------------
THEMES = ['default'] * 6 + ['highcorr_budget', 'share_lo', 'share_lo', 'doubles', 'tfixed_budget', 'dyadic_share', 'early_shift', 'one_sided', 'many_must', 'twins', 'mirror']


def gen_instance(rng, tier, max_admitted=5, force=None, theme=None):
  """A JSON-serialisable search instance. All randomness from `rng` (random.Random).
  Themes steer the generator towards regions where specific clauses bite:
    highcorr_budget: noise-free geos (correlation above rho_max) with a budget range whose lower bound is active
    share_lo:        a treatment-share range whose lower bound cuts through the enumerated groups
    doubles:         geos whose series are exact doubles of each other, dyadic tolerances: ratios land exactly on the bounds
    tfixed_budget:   a geo fixed to treatment together with a budget range
    dyadic_share:    geo shares that are exact binary fractions (k/16, k/32, k/64) with a share range whose bounds are
                     such fractions: treatment shares land exactly on the bounds
    mirror:          one geo is the mirror image of another (counter-seasonal market): correlations near -1
    twins:           one market reported twice under two IDs (identical series): exactly tied scores and perfectly
                     correlated candidates; the searches must still come back (with designs or ValueError)
    many_must:       more geos that may not be excluded than n_geos_max allows: all of them must still be placed
    one_sided:       every geo is eligible for one group only (or must be excluded): no design exists, both searches must
                     still terminate with an empty list or ValueError
    early_shift:     one geo is three times larger before the analysis window than inside it, with a volume tolerance:
                     volumes taken from the whole history and from the window differ"""
  force = force or {}
  theme = theme or rng.choice(THEMES)
  sizes = [1, 2, 3, 3, 4, 4, 4, 5, 5, 5]
  if max_admitted >= 6:
    sizes = sizes + [6, 6]
  if max_admitted >= 7 and rng.random() < 0.25:
    sizes = [7]
  n_data = force.get('n_data') or rng.choice(sizes)
  n_dates = rng.choice([8, 10, 12, 16, 20, 24])
  if theme == 'dyadic_share':
    n_dates = rng.choice([8, 16])      # division by the number of dates is exact
  n_test = rng.choice([1, 1, 2, 3])
  label_pool = ['10', '2', '33', 'a', 'B', 'geo7', '007', '41', 'z9', '5']
  rng.shuffle(label_pool)
  geos = label_pool[:n_data]
  # integer-valued responses: common signal * scale + noise, distinct means
  base = [rng.randint(40, 120)]
  for _ in range(n_dates - 1):
    base.append(max(5, base[-1] + rng.randint(-15, 15)))
  scales = rng.sample(range(1, 30), n_data)
  values = {}
  if theme == 'doubles':
    scales = [2 ** k for k in range(n_data)]
    rng.shuffle(scales)
  if theme == 'dyadic_share':
    scales = {1: [1], 2: [3, 1], 3: [8, 5, 3], 4: [8, 4, 3, 1], 5: [6, 4, 3, 2, 1], 6: [16, 6, 4, 3, 2, 1],
              7: [32, 12, 8, 6, 3, 2, 1]}[n_data]
    rng.shuffle(scales)
  for g, sc in zip(geos, scales):
    noise_amp = rng.choice([0, 1, 2, 5, 20, 60]) if theme not in ('highcorr_budget', 'doubles', 'dyadic_share') else 0
    if theme in ('doubles', 'dyadic_share'):
      # exact doubles in the mean, not collinear: a zero-sum perturbation (n_dates is even)
      amp = rng.randint(1, 9)
      pert = [amp * rng.choice([1, 2, 3]) * (1 if d % 2 == 0 else -1) for d in range(n_dates)]
      pert[1] = -pert[0]
      for d in range(2, n_dates, 2):
        pert[d + 1] = -pert[d]
      values[g] = [sc * b + q for b, q in zip(base, pert)]
    else:
      values[g] = [sc * b + rng.randint(-noise_amp, noise_amp) * sc + rng.randint(-3, 3) for b in base]
    if len(set(values[g])) == 1 and theme != 'dyadic_share':
      values[g][0] += 7
  if theme == 'early_shift' and n_dates >= 12:
    g0 = rng.choice(geos)
    values[g0] = [3 * v if d < n_dates // 2 else v for d, v in enumerate(values[g0])]
  if theme == 'twins' and n_data >= 2:
    values[geos[-1]] = list(values[geos[0]])
  if theme == 'mirror' and n_data >= 2:
    src = values[geos[0]]
    top = max(src) + min(src)
    values[geos[-1]] = [top - v + rng.randint(-2, 2) for v in src]
  rows = []
  missing = rng.random() < 0.15 and theme not in ('doubles', 'dyadic_share')
  dup = rng.random() < 0.1 and theme not in ('doubles', 'dyadic_share')
  for g in geos:
    for d in range(n_dates):
      if missing and rng.random() < 0.05 and n_dates > 10:
        continue
      rows.append([g, d, values[g][d]])
      if dup and rng.random() < 0.05:
        rows.append([g, d, values[g][d] + 2 * rng.randint(1, 4)])
  rng.shuffle(rows)
  # eligibility
  elig = None
  if rng.random() < 0.75:
    elig = {}
    weights = rng.choice([
        [1, 1, 1, 1, 1, 1, 6], [2, 2, 0, 2, 2, 2, 3], [0, 3, 0, 0, 0, 0, 6], [3, 0, 0, 0, 0, 0, 6],
        [1, 1, 2, 1, 3, 3, 2], [0, 0, 0, 3, 0, 0, 4]])
    codes = list(CLS_CODE.keys())
    for g in geos:
      if rng.random() < 0.1:
        continue  # in data, not in table
      elig[g] = list(rng.choices(codes, weights=weights)[0])
    if rng.random() < 0.12:
      elig['ghost'] = [1, 1, 1] if rng.random() < 0.8 else list(rng.choice(codes))
    if not elig:
      elig = None
  params = {'n_test': n_test, 'iroas': rng.choice([1.0, 1.0, 2.0, 0.5, 3.0])}
  npm = rng.choice([90, 90, None, None, 'cut'])
  if npm == 'cut':
    params['n_pretest_max'] = (n_test + 3) if rng.random() < 0.3 else rng.randint(n_test + 3, n_dates)
  elif npm is not None:
    params['n_pretest_max'] = npm
  if rng.random() < 0.35:
    lo = rng.randint(1, 3)
    params['treatment_geos_range'] = [lo, rng.randint(lo, 4)]
  if rng.random() < 0.35:
    lo = rng.randint(1, 3)
    params['control_geos_range'] = [lo, rng.randint(lo, 4)]
  if rng.random() < 0.35:
    params['geo_ratio_tolerance'] = rng.choice([0.25, 0.5, 1.0, 2.0, 3.0, 0.1, 0.7, 1e308, float('inf')])
  if rng.random() < 0.35:
    params['volume_ratio_tolerance'] = rng.choice([0.25, 0.5, 1.0, 2.0, 5.0, 0.33, 10.0])
  if rng.random() < 0.3:
    lo = rng.choice([0.01, 0.05, 0.1, 0.2, 0.3])
    params['treatment_share_range'] = [lo, rng.choice([x for x in (0.15, 0.3, 0.5, 0.7, 0.9, 0.99) if x > lo])]
  if rng.random() < 0.35:
    params['budget_range'] = 'auto:' + rng.choice(['lowhi', 'mid', 'wide', 'tight', 'high'])
  if rng.random() < 0.3:
    params['n_geos_max'] = rng.randint(2, max(2, n_data))
  params['n_designs'] = rng.choice([1, 1, 2, 3, 5, 1000])
  if theme == 'highcorr_budget':
    params['budget_range'] = 'auto:' + rng.choice(['mid', 'tight', 'high', 'tight'])
    params.pop('treatment_share_range', None)
  elif theme == 'share_lo':
    lo = rng.choice([0.15, 0.2, 0.3, 0.42])
    params['treatment_share_range'] = [lo, rng.choice([x for x in (0.5, 0.62, 0.8, 0.95) if x > lo])]
    params.pop('budget_range', None)
    params['n_designs'] = rng.choice([1, 3, 1000])
  elif theme == 'doubles':
    params['volume_ratio_tolerance'] = rng.choice([1.0, 1.0, 3.0, 0.5])
    if rng.random() < 0.5:
      params['geo_ratio_tolerance'] = rng.choice([1.0, 0.5, 2.0])
    params.pop('budget_range', None)
  elif theme == 'dyadic_share':
    lo = rng.choice([0.0625, 0.125, 0.1875, 0.25])
    params['treatment_share_range'] = [lo, rng.choice([x for x in (0.25, 0.375, 0.4375, 0.5, 0.75) if x > lo])]
    params.pop('budget_range', None)
    params.pop('n_geos_max', None)
    params['n_designs'] = rng.choice([1, 3, 1000])
    if rng.random() < 0.7:
      elig = None
  elif theme == 'early_shift':
    params['volume_ratio_tolerance'] = rng.choice([0.25, 0.5, 1.0, 0.33])
    params['n_pretest_max'] = max(n_test + 3, n_dates // 2)
    params.pop('budget_range', None)
    params['n_designs'] = rng.choice([3, 1000])
  elif theme == 'many_must':
    elig = {g: list(rng.choice([(1, 1, 0), (1, 1, 0), (0, 1, 0), (1, 0, 0)])) if i < max(3, n_data - 1) else [1, 1, 1]
            for i, g in enumerate(geos)}
    if not any(v[1] == 1 for v in elig.values()):
      elig[geos[0]] = [1, 1, 0]
    params['n_geos_max'] = rng.choice([2, 2, 3])
    for k in ('budget_range', 'treatment_share_range', 'treatment_geos_range', 'control_geos_range'):
      params.pop(k, None)
  elif theme == 'one_sided':
    side = rng.choice([[(0, 1, 0), (0, 1, 1), (0, 0, 1)], [(1, 0, 0), (1, 0, 1), (0, 0, 1)]])
    elig = {g: list(rng.choice(side[:2] if i < 2 else side)) for i, g in enumerate(geos)}
  elif theme == 'tfixed_budget':
    if elig is None:
      elig = {g: [1, 1, 1] for g in geos}
    elig[rng.choice(list(elig))] = [0, 1, 0]
    params['budget_range'] = 'auto:' + rng.choice(['lowhi', 'tight', 'mid'])
  if rng.random() < 0.12:
    # integer-valued parameters spelled as floats are accepted values
    for k in ('n_test', 'n_pretest_max', 'n_geos_max', 'n_designs'):
      if isinstance(params.get(k), int):
        params[k] = float(params[k])
    for k in ('treatment_geos_range', 'control_geos_range'):
      if params.get(k) is not None:
        # both ends, or only one of them, spelled as a float
        params[k] = [float(v) if (j == 1 or rng.random() < 0.6) else v for j, v in enumerate(params[k])]
  if rng.random() < 0.04:
    params['iroas'] = rng.choice([0.0, 0])
  inst = {'geos': geos, 'n_dates': n_dates, 'rows': rows, 'elig': elig, 'params': params,
          'max_admitted': max_admitted, 'theme': theme}
  if rng.random() < 0.12:
    # other confidence settings than the defaults (below one half the A/A interval is reversed)
    inst['params']['sig_level'] = rng.choice([0.3, 0.45, 0.6, 0.95])
    inst['params']['power_level'] = rng.choice([0.5, 0.8, 0.9])
  if rng.random() < 0.08:
    inst['min_corr_probe'] = True
  if rng.random() < 0.15:
    inst['late_read'] = True      # results are also read only after the caller has re-used its parameter object
  inst.update(force.get('extra', {}))
  return inst


def build_frame(inst, id_type='str', date0='2020-01-01'):
  d0 = pd.Timestamp(date0)
  rows = inst['rows']
  geo = [r[0] for r in rows]
  if id_type in ('int', 'int_object'):
    geo = [int(g) for g in geo]
  if id_type == 'int_object':       # Python ints in an object column (feeds of mixed provenance concatenated)
    geo = pd.Series(geo, dtype=object)
  return pd.DataFrame({'geo': geo,
                       'date': [d0 + pd.Timedelta(days=int(r[1])) for r in rows],
                       'response': [float(r[2]) for r in rows]})


def build_elig(inst):
  from matched_markets.methodology import geoeligibility
  if inst['elig'] is None:
    return None
  e = inst['elig']
  df = pd.DataFrame({'geo': list(e.keys()), 'control': [v[0] for v in e.values()],
                     'treatment': [v[1] for v in e.values()], 'exclude': [v[2] for v in e.values()]})
  return geoeligibility.GeoEligibility(df)


def build_params(inst, resolved):
  from matched_markets.methodology import tbrmmdesignparameters
  kw = {}
  for k, v in resolved.items():
    kw[k] = tuple(v) if isinstance(v, list) else v
  return tbrmmdesignparameters.TBRMMDesignParameters(**kw)


# ----------------------------------------------------------------------------
# harness-side (independent) view of the data
# ----------------------------------------------------------------------------
def pivot(inst):
  """geo -> list over sorted dates of the mean of the matching rows (0 when none)."""
  cells = {}
  dates = sorted({r[1] for r in inst['rows']})
  for g, d, v in inst['rows']:
    cells.setdefault((g, d), []).append(float(v))
  table = {}
  for g in inst['geos']:
    if not any(k[0] == g for k in cells):
      continue
    table[g] = np.array([(sum(cells[(g, d)]) / len(cells[(g, d)])) if (g, d) in cells else 0.0 for d in dates])
  return dates, table


def geo_class(inst, g):
  if inst['elig'] is None:
    return 'ctx'
  if g not in inst['elig']:
    return 'absent'
  return CLS_CODE[tuple(inst['elig'][g])]


class Tables:
  """Everything the model needs, computed from the raw rows and the real diagnostics class."""
  pass


def compute_tables(inst, par, shares_by_geo, real_order=None):
  from matched_markets.methodology import tbrmmdiagnostics, tbrmmscore
  D, S = tbrmmdiagnostics.TBRMMDiagnostics, tbrmmscore.TBRMMScore
  t = Tables()
  dates, table = pivot(inst)
  means = {g: float(np.mean(v)) for g, v in table.items()}
  order = sorted(table.keys(), key=lambda g: -means[g])
  t.distinct_means = len(set(means.values())) == len(means)
  if real_order is not None and sorted(real_order) == sorted(order) and \
      all(means[real_order[i]] >= means[real_order[i + 1]] for i in range(len(real_order) - 1)):
    # geos with equal means may come in either order: follow the data object's (any non-increasing order is canonical)
    order = list(real_order)
  t.order = order
  npm = int(par.n_pretest_max)
  n_window = min(len(dates), npm)
  t.n_window = n_window
  arr = np.array([table[g][-npm:] for g in order]) if order else np.zeros((0, n_window))
  t.arr = arr
  t.cls7 = [geo_class(inst, g) for g in order]
  t.share = [float(shares_by_geo[g]) for g in order]
  t.req = [float(D(arr[i], par).estimate_required_impact(par.rho_max)) for i in range(len(order))]
  # independent admit
  share_hi = par.treatment_share_range[1] if par.treatment_share_range is not None else None
  max_imp = par.budget_range[1] * par.iroas if par.budget_range is not None else None
  cand = []
  for i, c in enumerate(t.cls7):
    ok = c not in ('xFixed', 'absent')
    if ok and share_hi is not None and t.share[i] > share_hi:
      ok = False
    if ok and max_imp is not None and t.req[i] > max_imp:
      ok = False
    if ok or c in MUST:
      cand.append(i)
  t.req_distinct = len(set(t.req[i] for i in cand)) == len(cand)
  if par.n_geos_max is not None and len(cand) > par.n_geos_max:
    ngm = int(par.n_geos_max)
    must = [i for i in cand if t.cls7[i] in MUST]
    opt = sorted([i for i in cand if t.cls7[i] not in MUST], key=lambda i: -t.req[i])
    keep = set(must) | set(opt[:max(0, ngm - len(must))])
    cand = [i for i in cand if i in keep]
  t.idx = cand
  t.cls = [t.cls7[i] for i in cand]
  n = len(cand)
  t.n = n
  sub = arr[cand] if n else np.zeros((0, n_window))
  canT = [i for i in range(n) if t.cls[i] in CAN_T]
  canC = [i for i in range(n) if t.cls[i] in CAN_C]
  t.canT, t.canC = canT, canC
  t.opt, t.pair = {}, {}
  t.table_exceptions = 0
  hi = par.budget_range[1] if par.budget_range is not None else None

  def agg(s):
    return sub[list(s)].sum(axis=0) if n else np.zeros(n_window)

  for r in range(0, len(canT) + 1):
    for T in itertools.combinations(canT, r):
      y = agg(T)
      try:
        dy = D(y, par)
        if T:
          t.opt[T] = float(dy.estimate_required_impact(par.rho_max))
      except Exception:
        t.table_exceptions += 1
        continue
      restC = [i for i in canC if i not in T]
      for rc in range(0, len(restC) + 1):
        for C in itertools.combinations(restC, rc):
          try:
            d = D(y, par)
            d.x = agg(C)
            imp = d.required_impact
            sc = S(d).score
            binv = (1 / (imp / hi)) if hi is not None else float('nan')
            t.pair[(T, C)] = (float(imp), [float(v) for v in sc[:5]], float(sc[5]), float(binv),
                              bool(d.corr_test), sc)
          except Exception:
            t.table_exceptions += 1
  # Strict reading of C03: a geo that is too large (or alone over budget) to be a treatment geo is removed from the
  # search altogether, although as a *control* geo it is legal.  Designs that use such geos in the control group are
  # tabulated separately (small instances without n_geos_max only); see judge_c03 / known finding F-C03-admission.
  t.ext, t.pair_ext = [], {}
  extra = [i for i, c in enumerate(t.cls7) if i not in cand and c in ('ctx', 'cx')]
  if par.n_geos_max is None and extra and n + len(extra) <= 6 and not t.table_exceptions:
    t.ext = extra
    rows_ext = np.vstack([sub, arr[extra]]) if n else arr[extra]
    ext_pos = list(range(n, n + len(extra)))
    for r in range(1, len(canT) + 1):
      for T in itertools.combinations(canT, r):
        y = sub[list(T)].sum(axis=0)
        restC = [i for i in canC if i not in T] + ext_pos
        for rc in range(1, len(restC) + 1):
          for C in itertools.combinations(restC, rc):
            if not any(c >= n for c in C):
              continue
            try:
              d = D(y, par)
              d.x = rows_ext[list(C)].sum(axis=0)
              imp = d.required_impact
              sc = S(d).score
              binv = (1 / (imp / hi)) if hi is not None else float('nan')
              t.pair_ext[(T, C)] = (float(imp), [float(v) for v in sc[:5]], float(sc[5]), float(binv), bool(d.corr_test), sc)
            except Exception:
              pass
  return t


def resolve_budget(inst, probe_par):
  """Turn the 'auto:*' budget marker into numbers on the scale of this instance's impacts."""
  p = dict(inst['params'])
  b = p.get('budget_range')
  if isinstance(b, str):
    from matched_markets.methodology import tbrmmdiagnostics
    _, table = pivot(inst)
    imps = sorted(float(tbrmmdiagnostics.TBRMMDiagnostics(v[-int(probe_par.n_pretest_max):], probe_par)
                        .estimate_required_impact(probe_par.rho_max)) / (probe_par.iroas or 1.0) for v in table.values())
    imps = [x for x in imps if x > 0 and math.isfinite(x)] or [1.0]
    med, lo_, hi_ = imps[len(imps) // 2], imps[0], imps[-1]
    kind = b.split(':')[1]
    # values with few significant bits keep the products/quotients well away from rounding boundaries
    def r(x):
      return float(max(1, round(x)))
    rng = {'lowhi': (0.0, r(med * 1.5)), 'mid': (r(lo_ * 0.5), r(hi_ * 2) + 1), 'wide': (0.0, r(hi_ * 20) + 1),
           'tight': (r(med * 0.8), r(med * 3) + 1), 'high': (r(hi_ * 3), r(hi_ * 30) + 1)}[kind]
    p['budget_range'] = [rng[0], rng[1] if rng[1] > rng[0] else rng[0] + 1.0]
  return p


# ----------------------------------------------------------------------------
# running the real code
# ----------------------------------------------------------------------------
def design_rec(d, pos):
  return {'T': sorted(pos[g] for g in d.treatment_geos), 'C': sorted(pos[g] for g in d.control_geos),
          'Tids': sorted(d.treatment_geos), 'Cids': sorted(d.control_geos),
          'score': [float(v) for v in d.score.score],
          'diag_y': np.array(d.diag.y, dtype=float).tolist() if d.diag is not None else None,
          'diag_x': np.array(d.diag.x, dtype=float).tolist() if d.diag is not None and d.diag.x is not None else None,
          'diag_corr': float(d.diag.corr) if d.diag is not None and d.diag.corr is not None else None,
          'diag_impact': float(d.diag.required_impact) if d.diag is not None and d.diag.required_impact is not None else None,
          'diag_tests': _diag_tests(d.diag),
          'diag_id': id(d.diag), 'score_diag_id': id(d.score.diag)}


def _diag_tests(diag):
  try:
    return [bool(diag.corr_test), bool(diag.aatest.test_ok), bool(diag.bbtest.test_ok), bool(diag.dwtest.test_ok)]
  except Exception as e:
    return ['exception', type(e).__name__]


class SearchTimeout(Exception):
  pass


def _alarm(signum, frame):
  raise SearchTimeout('search did not terminate within the time limit')


def run_real(inst, resolved, which, late=False):
  """Fresh objects for every search. Returns dict with 'result' or 'error', push log, geo_index …"""
  import signal
  from matched_markets.methodology import tbrmmdata, tbrmatchedmarkets, heapdict
  out = {'which': which}
  log = []
  old = signal.signal(signal.SIGALRM, _alarm)
  signal.alarm(SEARCH_TIME_LIMIT)        # termination is part of C09: a search that hangs is reported, not waited for
  try:
    par = build_params(inst, resolved)
    data = tbrmmdata.TBRMMData(build_frame(inst), 'response', build_elig(inst))
    mm = tbrmatchedmarkets.TBRMatchedMarkets(data, par)
    data = mm.data
    out['geo_share'] = {str(k): float(v) for k, v in data.geo_share.items()}
    out['df_order'] = [str(g) for g in data.df.index]
    global _ORIG_PUSH
    orig_push = heapdict.HeapDict.push
    if _ORIG_PUSH is None:
      _ORIG_PUSH = orig_push

    def push(self, key, item):
      log.append((sorted(item.treatment_geos), sorted(item.control_geos), [float(v) for v in item.score.score]))
      return orig_push(self, key, item)
    if not late:      # the push log reads each score as it is pushed; a late-read run must not (it would hide lazy evaluation)
      heapdict.HeapDict.push = push
    try:
      if which == 'exhaustive':
        out['admitted'] = sorted(mm.geos_within_constraints)
        ga = mm.geo_assignments
        out['geo_index'] = [str(g) for g in data.geo_index]
        out['sizes'] = list(mm.treatment_group_size_range())
        out['count'] = int(mm.count_max_designs())
        listing = 0
        for nT in mm.treatment_group_size_range():
          for T in mm.treatment_group_generator(nT):
            for C in mm.control_group_generator(T):
              listing += 1
        out['listing'] = listing
        res = mm.exhaustive_search()
      else:
        res = mm.greedy_search()
      out['geo_index'] = [str(g) for g in data.geo_index]
    finally:
      heapdict.HeapDict.push = orig_push
    pos = {g: i for i, g in enumerate(out['geo_index'])}
    if late:
      # the caller goes on to use its parameter object for something else before it looks at the designs it was given
      par.min_corr = 0.999999
      par.power_level = 0.5
      par.sig_level = 0.5
    out['result'] = [design_rec(d, pos) for d in res]
    out['pushlog'] = log
  except Exception as e:  # the class is what matters
    out['error'] = type(e).__name__
    out['error_text'] = str(e)[:200]
    import traceback
    out['error_tb'] = traceback.format_exc()[-1500:]
    out['pushlog'] = log
  finally:
    signal.alarm(0)
    signal.signal(signal.SIGALRM, old)
    try:
      heapdict.HeapDict.push = _ORIG_PUSH or heapdict.HeapDict.push
    except Exception:
      pass
  return out


# ----------------------------------------------------------------------------
# wire
# ----------------------------------------------------------------------------
def sset(s):
  return ','.join(str(i) for i in s) if s else '-'


def wire_instance(iid, resolved, t):
  L = [f'inst {iid}']
  p = resolved
  if p.get('treatment_geos_range') is not None:
    L.append(f'param trt {int(p["treatment_geos_range"][0])} {int(p["treatment_geos_range"][1])}')
  if p.get('control_geos_range') is not None:
    L.append(f'param ctl {int(p["control_geos_range"][0])} {int(p["control_geos_range"][1])}')
  if p.get('geo_ratio_tolerance') is not None:
    L.append('param geotol ' + core.rat(p['geo_ratio_tolerance']))
  if p.get('volume_ratio_tolerance') is not None:
    L.append('param voltol ' + core.rat(p['volume_ratio_tolerance']))
  if p.get('treatment_share_range') is not None:
    L.append('param share ' + ' '.join(core.rat(x) for x in p['treatment_share_range']))
  if p.get('budget_range') is not None:
    L.append('param budget ' + ' '.join(core.rat(x) for x in p['budget_range']))
  L.append('param iroas ' + core.rat(p['iroas']))
  L.append(f'param ndesigns {int(p.get("n_designs", 1))}')
  if p.get('n_geos_max') is not None:
    L.append(f'param ngeosmax {int(p["n_geos_max"])}')
  for c, sh, rq in zip(t.cls7, t.share, t.req):
    L.append(f'row {c} {core.rat(sh)} {core.rat(rq)}')
  L.append('idx ' + ' '.join(str(i) for i in t.idx))
  for T, v in t.opt.items():
    L.append(f'opt {sset(T)} {core.rat(v)}')
  for (T, C), (imp, s5, inv, binv, _, _) in t.pair.items():
    L.append(f'pair {sset(T)} {sset(C)} {core.rat(imp)} ' + ' '.join(core.rat(v) for v in s5) +
             f' {core.rat(inv)} {core.rat(binv)}')
  L.append('run')
  return L


def parse_design(s):
  T, C, sc = s.split('|')
  ps = lambda x: [] if x == '-' else [int(i) for i in x.split(',')]
  score = []
  for tok in sc.split():
    v = core.parse_rat(tok)
    score.append(float(v))
  return {'T': ps(T), 'C': ps(C), 'score': score}


def parse_model(lines):
  """-> {iid: {...}}"""
  res, cur = {}, None
  for ln in lines:
    w = ln.split(' ', 1)
    k = w[0]
    rest = w[1] if len(w) > 1 else ''
    if k == 'inst':
      cur = {'ev': [], 'exh': [], 'greedy': [], 'bad': []}
      res[rest.strip()] = cur
    elif cur is None:
      continue
    elif k == 'admit':
      cur['admit'] = [] if rest.strip() in ('-', '') else [int(i) for i in rest.strip().split(',')]
    elif k == 'sizes':
      cur['sizes'] = [] if rest.strip() in ('-', '') else [int(i) for i in rest.strip().split(',')]
    elif k in ('count', 'listing'):
      cur[k] = int(rest)
    elif k in ('ev', 'exh', 'greedy'):
      cur[k].append(parse_design(rest))
    elif k in ('ev-error', 'exh-error', 'greedy-error'):
      cur[k] = rest.strip()
    elif k == 'greedy-nofuel':
      cur['greedy-nofuel'] = True
    elif k == 'admit-mismatch':
      cur['admit-mismatch'] = True
    elif k == 'bad-op':
      cur['bad'].append(rest)
  return res


# ----------------------------------------------------------------------------
# guard bands: the smallest relative margin of any comparison the search can make
# ----------------------------------------------------------------------------
def min_margin(resolved, t):
  p = resolved
  m = [math.inf]

  def cmp(v, thr, v_exact=None, thr_exact=None):
    """v, thr: the floats the implementation compares; v_exact, thr_exact: the rationals the model compares.
    When both pairs coincide exactly the two comparisons agree whatever the margin (an exact tie is fine)."""
    if not (math.isfinite(v) and math.isfinite(thr)):
      return
    if v_exact is not None and Fraction(v) == v_exact and Fraction(thr) == thr_exact:
      return
    m[0] = min(m[0], abs(v - thr) / max(abs(thr), abs(v), 1e-300))

  n = t.n
  allT = [T for T in t.opt]
  sh = [t.share[i] for i in t.idx]
  if p.get('treatment_share_range') is not None:
    lo, hi = p['treatment_share_range']
    tot = sum(sh)
    for T in allT:
      s = sum(sh[i] for i in T)
      cmp(s, lo); cmp(s, hi)
      if tot:
        cmp(s / tot, lo); cmp(s / tot, hi)
    for s in t.share:
      cmp(s, hi)
  if p.get('budget_range') is not None and p['iroas'] != 0:
    lo, hi = p['budget_range']
    for T, v in t.opt.items():
      cmp(v / p['iroas'], lo); cmp(v / p['iroas'], hi)
    for (T, C), rec in t.pair.items():
      cmp(rec[0] / p['iroas'], lo); cmp(rec[0] / p['iroas'], hi)
    for r in t.req:
      cmp(r, hi * p['iroas'])
  if p.get('volume_ratio_tolerance') is not None:
    tol = p['volume_ratio_tolerance']
    ft = Fraction(tol)
    npsh = np.array(sh)
    for (T, C) in t.pair:
      if not T or not C:
        continue
      sT, sC = float(npsh[list(T)].sum()), float(npsh[list(C)].sum())       # as the implementation sums
      eT, eC = sum(Fraction(sh[i]) for i in T), sum(Fraction(sh[i]) for i in C)   # as the model sums
      if sT and eT:
        cmp(sC / sT, 1.0 + tol, eC / eT, 1 + ft); cmp(sC / sT, 1.0 / (1.0 + tol), eC / eT, 1 / (1 + ft))
  if p.get('geo_ratio_tolerance') is not None:
    tol = p['geo_ratio_tolerance']
    exact = Fraction(1.0 + tol) == 1 + Fraction(tol)
    for a in range(1, n + 1):
      for b in range(1, n + 1):
        r = Fraction(b, a)
        for thr in (1 + Fraction(tol), 1 / (1 + Fraction(tol))):
          if r == thr and exact:
            continue
          cmp(float(r), float(thr))
  return m[0]


# ----------------------------------------------------------------------------
# one instance end to end (worker)
# ----------------------------------------------------------------------------
def process(job):
  iid, inst = job
  rec = {'iid': iid, 'inst': inst}
  t0 = time.time()
  try:
    from matched_markets.methodology import tbrmmdesignparameters
    probe = tbrmmdesignparameters.TBRMMDesignParameters(
        n_test=int(inst['params']['n_test']), iroas=inst['params']['iroas'],
        n_pretest_max=int(inst['params'].get('n_pretest_max') or 90))
    resolved = resolve_budget(inst, probe)
    resolved = {k: v for k, v in resolved.items() if v is not None}
    if inst.get('min_corr_probe'):
      # the user takes the correlation of a design it was shown as the minimum correlation of the next search: that
      # design's correlation then equals the threshold bit for bit ("at least min_corr" passes)
      probe_run = run_real(inst, dict(resolved, n_designs=1000), 'exhaustive')
      cs = sorted({d['diag_corr'] for d in probe_run.get('result', []) if d['diag_corr'] is not None and 0.8 <= d['diag_corr'] < 1})
      if cs:
        resolved['min_corr'] = cs[len(cs) // 2]
    rec['resolved'] = resolved
    rec['exh'] = run_real(inst, resolved, 'exhaustive')
    rec['greedy'] = run_real(inst, resolved, 'greedy')
    if inst.get('late_read'):
      rec['late'] = {w: run_real(inst, resolved, w, late=True) for w in ('exhaustive', 'greedy')}
    shares = rec['exh'].get('geo_share') or rec['greedy'].get('geo_share')
    if shares is None:
      rec['no_data_object'] = True      # construction of the data object was rejected
      return rec
    par = build_params(inst, resolved)
    t = compute_tables(inst, par, shares, real_order=rec['exh'].get('df_order') or rec['greedy'].get('df_order'))
    rec['tables'] = {'order': t.order, 'cls7': t.cls7, 'share': t.share, 'req': t.req, 'idx': t.idx,
                     'cls': t.cls, 'n': t.n, 'n_window': t.n_window, 'opt': t.opt, 'pair': t.pair,
                     'arr': t.arr, 'distinct_means': t.distinct_means, 'req_distinct': t.req_distinct,
                     'table_exceptions': t.table_exceptions, 'canT': t.canT, 'canC': t.canC,
                     'ext': t.ext, 'pair_ext': t.pair_ext}
    # an infinite ratio tolerance admits every ratio: for the model and the margins it is the same as none
    finite = {k: v for k, v in resolved.items() if not (k in ('geo_ratio_tolerance', 'volume_ratio_tolerance') and math.isinf(v))}
    rec['margin'] = min_margin(finite, t)
    rec['wire'] = wire_instance(iid, finite, t) if t.n <= 8 else None
  except Exception as e:
    import traceback
    rec['harness_error'] = traceback.format_exc()[-2000:]
  rec['wall'] = time.time() - t0
  return rec


def tree_hash():
  h = hashlib.sha256()
  for root in (os.path.join(core.REPO, 'matched_markets', 'methodology'),
               os.path.join(core.LEAN, 'MM', 'Model'), os.path.join(core.LEAN, 'drivers'),
               os.path.join(core.HERE, 'engines')):
    for dp, _, files in sorted(os.walk(root)):
      for fn in sorted(files):
        if fn.endswith(('.py', '.lean')):
          with open(os.path.join(dp, fn), 'rb') as f:
            h.update(fn.encode()); h.update(f.read())
  return h.hexdigest()[:20]


def budget(tier):
  return {'quick': dict(n=160, max_admitted=5), 'thorough': dict(n=6000, max_admitted=7)}[tier]


def corpus_instances():
  d = os.path.join(core.CORPUS, 'search')
  out = []
  if os.path.isdir(d):
    for fn in sorted(os.listdir(d)):
      if fn.endswith('.json'):
        with open(os.path.join(d, fn)) as f:
          out.append((fn[:-5], json.load(f)['inst']))
  return out


def get_results(tier, model_ok=True, use_cache=True):
  """Run (or load) the engine for this tree / seed / tier."""
  key = f'{tree_hash()}-{core.seed()}-{tier}-{int(model_ok)}'
  cdir = os.path.join(core.VERIF, '.cache')
  os.makedirs(cdir, exist_ok=True)
  cpath = os.path.join(cdir, f'search-{key}.pkl')
  if use_cache and os.path.exists(cpath):
    try:
      with open(cpath, 'rb') as f:
        return pickle.load(f)
    except Exception:
      pass
  rng = core.rng_for('search-engine')
  b = budget(tier)
  jobs = [('corpus-' + name, inst) for name, inst in corpus_instances()]
  for i in range(b['n']):
    jobs.append((f'g{i}', gen_instance(rng, tier, max_admitted=b['max_admitted'])))
  with mp.Pool(min(16, os.cpu_count() or 4)) as pool:
    recs = pool.map(process, jobs, chunksize=4)
  if model_ok:
    lines = []
    for r in recs:
      if r.get('wire'):
        lines += r['wire']
    try:
      model = parse_model(core.run_driver('Search.lean', lines)) if lines else {}
    except core.DriverError as e:
      model = None
      for r in recs:
        r['driver_error'] = str(e)[-500:]
    if model is not None:
      for r in recs:
        r['model'] = model.get(r['iid'])
  for r in recs:
    r.pop('wire', None)
  res = {'recs': recs, 'tier': tier, 'model_ok': model_ok}
  # keep the cache directory small
  for fn in os.listdir(cdir):
    if fn.startswith('search-') and fn != os.path.basename(cpath):
      try:
        os.remove(os.path.join(cdir, fn))
      except OSError:
        pass
  with open(cpath, 'wb') as f:
    pickle.dump(res, f)
  return res


# ----------------------------------------------------------------------------
# correspondence: model vs implementation on one record
# ----------------------------------------------------------------------------
def feq(a, b):
  return a == b or (isinstance(a, float) and isinstance(b, float) and math.isnan(a) and math.isnan(b))


def score_eq(a, b):
  return len(a) == len(b) and all(feq(float(x), float(y)) for x, y in zip(a, b))


def design_eq(a, b):
  return a['T'] == b['T'] and a['C'] == b['C'] and score_eq(a['score'], b['score'])


def compare_rec(r):
  """-> (list of mismatch strings, status) ; status in ok / guard / skipped."""
  if r.get('harness_error'):
    return [], 'harness_error'
  if r.get('no_data_object'):
    return [], 'no_data_object'
  m = r.get('model')
  if m is None:
    return [], 'no_model'
  t = r['tables']
  e, g = r['exh'], r['greedy']
  mm = []
  idx_ids = [t['order'][i] for i in t['idx']]
  if m.get('admit-mismatch') or m.get('admit') != t['idx']:
    mm.append(f'admitted set: model {m.get("admit")} harness {t["idx"]}')
  if 'geo_index' in e and e['geo_index'] != idx_ids:
    mm.append(f'geo_index: implementation {e["geo_index"]} model/harness {idx_ids}')
  if m.get('bad'):
    mm.append('driver rejected lines: ' + str(m['bad'][:2]))
  if not mm and 'error' not in e:
    if e['sizes'] != m.get('sizes'):
      mm.append(f'treatment size range: implementation {e["sizes"]} model {m.get("sizes")}')
    if e['count'] != m.get('count'):
      mm.append(f'count_max_designs: implementation {e["count"]} model {m.get("count")}')
    if e['listing'] != m.get('listing'):
      mm.append(f'generator listing length: implementation {e["listing"]} model {m.get("listing")}')
  if not mm:
    pos = {gid: i for i, gid in enumerate(idx_ids)}
    if 'error' in e:
      if m.get('ev-error') != e['error']:
        mm.append(f'exhaustive: implementation raised {e["error"]} ({e.get("error_text")}), model says {m.get("ev-error") or "ok"}')
    elif 'ev-error' in m:
      mm.append(f'exhaustive: model raises {m["ev-error"]}, implementation returned {len(e["result"])} designs')
    else:
      log = [{'T': sorted(p[0]), 'C': sorted(p[1]), 'score': p[2]} for p in e['pushlog']]
      if len(log) != len(m['ev']) or not all(design_eq(a, b) for a, b in zip(log, m['ev'])):
        j = next((i for i, (a, b) in enumerate(zip(log, m['ev'])) if not design_eq(a, b)), min(len(log), len(m['ev'])))
        mm.append(f'exhaustive push log differs at #{j}: implementation {log[j:j+1]} model {m["ev"][j:j+1]} '
                  f'(lengths {len(log)} / {len(m["ev"])})')
      else:
        res = e['result']
        if len(res) != len(m['exh']) or not all(score_eq(a['score'], b['score']) for a, b in zip(res, m['exh'])):
          mm.append(f'exhaustive result score keys differ: implementation {[d["score"] for d in res][:3]} '
                    f'model {[d["score"] for d in m["exh"]][:3]}')
        else:
          for a in res:   # tie-tolerant membership
            if not any(design_eq(a, b) for b in m['ev']):
              mm.append(f'exhaustive result design {a["T"]}/{a["C"]} not in the evaluated list of the model')
              break
    if 'error' in g:
      if m.get('greedy-error') != g['error']:
        mm.append(f'greedy: implementation raised {g["error"]} ({g.get("error_text")}), model says {m.get("greedy-error") or "ok"}')
    elif m.get('greedy-nofuel'):
      mm.append('greedy: model ran out of fuel, implementation terminated')
    elif 'greedy-error' in m:
      mm.append(f'greedy: model raises {m["greedy-error"]}, implementation returned designs')
    else:
      res = g['result']
      if len(res) != len(m['greedy']) or not all(score_eq(a['score'], b['score']) for a, b in zip(res, m['greedy'])):
        mm.append(f'greedy result score keys differ: implementation {[(d["T"], d["C"], d["score"]) for d in res][:3]} '
                  f'model {[(d["T"], d["C"], d["score"]) for d in m["greedy"]][:3]}')
      elif sorted((d['T'], d['C']) for d in res) != sorted((d['T'], d['C']) for d in m['greedy']):
        mm.append(f'greedy designs differ: implementation {[(d["T"], d["C"]) for d in res]} model {[(d["T"], d["C"]) for d in m["greedy"]]}')
  status = 'ok'
  if mm and (r.get('margin', math.inf) < GUARD or not t['distinct_means'] or t['table_exceptions']
             or (r['resolved'].get('n_geos_max') is not None and not t['req_distinct'])):
    return [], 'guard'
  return mm, status


# ----------------------------------------------------------------------------
# independent oracles (work from the raw instance + harness tables)
# ----------------------------------------------------------------------------
def lt_score(a, b):
  """Python tuple `<` on float tuples."""
  return tuple(a) < tuple(b)


def has_nan(s):
  return any(isinstance(v, float) and math.isnan(v) for v in s)


def c09_precondition(r):
  t = r.get('tables')
  if t is None:
    return True
  return t['n_window'] >= int(r['resolved']['n_test']) + 3


def raw_shares(r):
  """shares recomputed from the raw rows: mean over all dates / sum of means."""
  _, table = pivot(r['inst'])
  means = {g: float(np.mean(v)) for g, v in table.items()}
  tot = sum(means.values())
  return {g: (m / tot if tot else float('nan')) for g, m in means.items()}


def constraint_report(r, T, C, t, which, ids=None, rec=None):
  """(violations under reading A, under reading B) of the six constraints for index sets T, C
  (indices into the admitted list).  Tolerant at 1e-9 relative."""
  p = r['resolved']
  bad_common, badA, badB = [], [], []

  def outside(v, lo, hi):
    return v < lo - 1e-9 * max(1, abs(lo)) or v > hi + 1e-9 * max(1, abs(hi))

  if p.get('treatment_geos_range') is not None and not (p['treatment_geos_range'][0] <= len(T) <= p['treatment_geos_range'][1]):
    bad_common.append(f'treatment size {len(T)} outside {p["treatment_geos_range"]}')
  if p.get('control_geos_range') is not None and not (p['control_geos_range'][0] <= len(C) <= p['control_geos_range'][1]):
    bad_common.append(f'control size {len(C)} outside {p["control_geos_range"]}')
  if p.get('geo_ratio_tolerance') is not None and T and not math.isinf(p['geo_ratio_tolerance']):
    tol = Fraction(p['geo_ratio_tolerance'])
    ratio = Fraction(len(C), len(T))
    if ratio > 1 + tol or ratio < 1 / (1 + tol):
      if outside(float(ratio), float(1 / (1 + tol)), float(1 + tol)):
        bad_common.append(f'geo ratio {len(C)}/{len(T)} outside tolerance {p["geo_ratio_tolerance"]}')
  sh = raw_shares(r)
  admitted_ids = [t['order'][i] for i in t['idx']]
  ids = ids if ids is not None else admitted_ids
  sT = sum(sh[ids[i]] for i in T)
  sC = sum(sh[ids[i]] for i in C)
  if p.get('volume_ratio_tolerance') is not None and sT:
    tol = p['volume_ratio_tolerance']
    if outside(sC / sT, 1 / (1 + tol), 1 + tol):
      bad_common.append(f'volume ratio {sC / sT} outside tolerance {tol}')
  if p.get('treatment_share_range') is not None:
    lo, hi = p['treatment_share_range']
    if outside(sT, lo, hi):
      badA.append(f'treatment share {sT} (vs all geos) outside {[lo, hi]}')
    sAll = sum(sh[g] for g in admitted_ids)
    if sAll and outside(sT / sAll, lo, hi):
      badB.append(f'treatment share {sT / sAll} (vs admitted geos) outside {[lo, hi]}')
  if p.get('budget_range') is not None:
    rec = rec if rec is not None else t['pair'].get((tuple(T), tuple(C)))
    if rec is not None and math.isfinite(rec[0]):
      lo, hi = p['budget_range']
      b = rec[0] / p['iroas'] if p['iroas'] != 0 else (math.inf if rec[0] > 0 else (-math.inf if rec[0] < 0 else math.nan))
      if outside(b, lo, hi):
        bad_common.append(f'required budget {b} outside {[lo, hi]}')
  return bad_common, badA, badB


def facts_of(r, which):
  p = r['resolved']
  t = r.get('tables') or {}
  return {'call': which + '_search', 'n_admitted': t.get('n'), 'has_budget': p.get('budget_range') is not None,
          'has_share': p.get('treatment_share_range') is not None,
          'has_n_geos_max': p.get('n_geos_max') is not None,
          'n_tfixed': sum(1 for c in (t.get('cls') or []) if c == 'tFixed'),
          'n_designs': p.get('n_designs', 1)}


def case_of(r, which=None):
  return {'iid': r['iid'], 'inst': r['inst'], 'resolved': r['resolved'], 'which': which}


def iter_results(res):
  for r in res['recs']:
    if r.get('harness_error') or r.get('no_data_object') or 'tables' not in r:
      continue
    yield r


def report_correspondence(out, res, streams=('admit', 'exh', 'greedy')):
  n_ok = n_guard = n_other = 0
  for r in res['recs']:
    if r.get('harness_error'):
      out.infra_error = 'harness error in search engine: ' + r['harness_error'][-300:]
      continue
    mm, status = compare_rec(r)
    if status == 'guard':
      n_guard += 1
    elif status == 'ok' and not mm:
      n_ok += 1
    elif status != 'ok':
      n_other += 1
    for m in mm:
      out.mismatch('search-model', case_of(r), m)
  out.extra.update({'corr_instances_exact': n_ok, 'corr_guard_band_skipped': n_guard, 'corr_not_compared': n_other})


def describe(out, res):
  ns, kinds, errs = {}, {}, {}
  ev_total = 0
  for r in res['recs']:
    t = r.get('tables')
    if not t:
      kinds['rejected-at-construction'] = kinds.get('rejected-at-construction', 0) + 1
      continue
    ns[t['n']] = ns.get(t['n'], 0) + 1
    for k in ('treatment_geos_range', 'control_geos_range', 'geo_ratio_tolerance', 'volume_ratio_tolerance',
              'treatment_share_range', 'budget_range', 'n_geos_max'):
      if r['resolved'].get(k) is not None:
        kinds[k] = kinds.get(k, 0) + 1
    for w in ('exh', 'greedy'):
      if 'error' in r[w]:
        errs[w + ':' + r[w]['error']] = errs.get(w + ':' + r[w]['error'], 0) + 1
    ev_total += len(r['exh'].get('pushlog', []))
  out.extra.update({'instances': len(res['recs']), 'admitted_geos_histogram': {str(k): v for k, v in sorted(ns.items())},
                    'constraints_present': kinds, 'exceptions_seen': errs, 'designs_evaluated_total': ev_total})


def sample_case(out, r):
  out.sample({'iid': r['iid'], 'geos': r['inst']['geos'], 'elig': r['inst']['elig'], 'params': r['resolved'],
              'n_rows': len(r['inst']['rows']),
              'exhaustive': r['exh'].get('error') or [(d['Tids'], d['Cids']) for d in r['exh']['result']][:3],
              'greedy': r['greedy'].get('error') or [(d['Tids'], d['Cids']) for d in r['greedy']['result']][:3]})


def nontrivial_key(r):
  t = r.get('tables')
  if not t or t['n'] < 2:
    return None
  if not r['exh'].get('result') and not r['greedy'].get('result') and not r['exh'].get('pushlog'):
    return None
  return (tuple(t['cls']), json.dumps(r['resolved'], sort_keys=True), len(r['exh'].get('pushlog', [])))


def judge_c01(out, res):
  for r in iter_results(res):
    inst = r['inst']
    _, table = pivot(inst)
    cls = {g: geo_class(inst, g) for g in table}
    for which in ('exh', 'greedy'):
      rr = r[which]
      if 'result' not in rr:
        continue
      for pos_i, d in enumerate(rr['result']):
        T, C = set(d['Tids']), set(d['Cids'])
        prob = None
        if not T or not C:
          prob = 'empty group'
        elif T & C:
          prob = f'groups overlap on {sorted(T & C)}'
        elif not (T | C) <= set(table):
          prob = f'geos not in the data: {sorted((T | C) - set(table))}'
        elif any(cls[g] not in CAN_T for g in T):
          prob = f'treatment geo not eligible for treatment: {[g for g in T if cls[g] not in CAN_T]}'
        elif any(cls[g] not in CAN_C for g in C):
          prob = f'control geo not eligible for control: {[g for g in C if cls[g] not in CAN_C]}'
        else:
          left = [g for g in table if cls[g] in MUST and g not in T | C]
          if left:
            prob = f'geo(s) that may not be excluded are left out: {left}'
        if prob:
          f = facts_of(r, 'exhaustive' if which == 'exh' else 'greedy')
          f['symptom'] = 'illegal-design'
          out.oracle_violation(f, case_of(r, which), f'{which} design #{pos_i} T={sorted(T)} C={sorted(C)}: {prob}')
    out.count(nontrivial_key(r))


def judge_c02(out, res):
  for r in iter_results(res):
    t = r['tables']
    for which in ('exh', 'greedy'):
      rr = r[which]
      if 'result' not in rr:
        continue
      for pos_i, d in enumerate(rr['result']):
        common, a, b = constraint_report(r, d['T'], d['C'], t, which)
        bad = common + (a if (a and b) else [])
        if bad:
          f = facts_of(r, 'exhaustive' if which == 'exh' else 'greedy')
          f['symptom'] = 'constraint-violated'
          out.oracle_violation(f, case_of(r, which),
                               f'{which} design #{pos_i} T={d["Tids"]} C={d["Cids"]}: {bad[0]}')
    key = nontrivial_key(r)
    if key and not any(r['resolved'].get(k) is not None for k in (
        'treatment_geos_range', 'control_geos_range', 'geo_ratio_tolerance', 'volume_ratio_tolerance',
        'treatment_share_range', 'budget_range')):
      key = None
    out.count(key)


def feasible_designs(r, both_readings=True):
  """all legal designs over the admitted geos that satisfy every specified constraint."""
  t = r['tables']
  n = t['n']
  must = [i for i in range(n) if t['cls'][i] in MUST]
  tfix = [i for i in range(n) if t['cls'][i] == 'tFixed']
  cfix = [i for i in range(n) if t['cls'][i] == 'cFixed']
  outl = []
  for (T, C), rec in t['pair'].items():
    if not T or not C:
      continue
    if not set(tfix) <= set(T) or not set(cfix) <= set(C):
      continue
    if not set(must) <= set(T) | set(C):
      continue
    common, a, b = constraint_report(r, list(T), list(C), t, 'exh')
    if common:
      continue
    if both_readings and (a or b):
      continue
    if not both_readings and (a and b):
      continue
    outl.append((T, C))
  return outl


def design_score(r, T, C, budget_variant):
  rec = r['tables']['pair'][(tuple(T), tuple(C))]
  last = rec[3] if budget_variant else rec[2]
  return tuple(rec[1]) + (last,)


def judge_c03(out, res):
  for r in iter_results(res):
    e = r['exh']
    t = r['tables']
    if 'result' not in e or t['table_exceptions']:
      out.count(None)
      continue
    p = r['resolved']
    k = p.get('n_designs', 1)
    budget = p.get('budget_range')
    res_set = [(tuple(d['T']), tuple(d['C'])) for d in e['result']]
    f = facts_of(r, 'exhaustive')
    if len(set(res_set)) != len(res_set):
      f['symptom'] = 'duplicate-design'
      out.oracle_violation(f, case_of(r, 'exh'), f'result contains a design twice: {res_set}')
    if len(res_set) > k:
      f['symptom'] = 'too-many'
      out.oracle_violation(f, case_of(r, 'exh'), f'{len(res_set)} designs returned for n_designs={k}')
    scores = [tuple(d['score']) for d in e['result']]
    if any(has_nan(s) for s in scores) or any(has_nan(design_score(r, T, C, budget is not None)) for (T, C) in t['pair'] if T and C):
      out.count(None)   # NaN scores: outside the property's precondition
      continue
    if any(lt_score(scores[i], scores[i + 1]) for i in range(len(scores) - 1)):
      f['symptom'] = 'not-best-first'
      out.oracle_violation(f, case_of(r, 'exh'), f'result not in non-increasing score order: {scores}')
    feas = feasible_designs(r, both_readings=True)

    tfix_all = {i for i in range(t['n']) if t['cls'][i] == 'tFixed'}
    tr_rng = p.get('treatment_geos_range')

    def omittable(T):
      if budget is None:
        return False
      lo, hi = budget
      for rr_ in range(1, len(T) + 1):
        for S in itertools.combinations(T, rr_):
          # "its treatment group, or an admissible smaller sub-group of it": a sub-group the search itself could have
          # taken as a treatment group (holds every geo fixed to treatment, not below the minimum size)
          if len(S) < len(T) and (not tfix_all <= set(S) or (tr_rng is not None and len(S) < tr_rng[0])):
            continue
          v = t['opt'].get(S)
          if v is not None and math.isfinite(v) and not (p['iroas'] != 0 and lo <= v / p['iroas'] <= hi):
            return True
      return False

    worst = scores[-1] if scores else None
    for (T, C) in feas:
      if (T, C) in res_set or omittable(T):
        continue
      s = design_score(r, T, C, budget is not None)
      if len(res_set) < k:
        f['symptom'] = 'feasible-design-missing'
        out.oracle_violation(f, case_of(r, 'exh'),
                             f'feasible design T={list(T)} C={list(C)} is not returned although only {len(res_set)} < n_designs={k} designs were')
        break
      # tolerate last-ulp differences between the implementation's score and the recomputed one
      if lt_score(worst, s) and not all(math.isclose(a, b, rel_tol=1e-9, abs_tol=1e-12) for a, b in zip(worst, s)):
        f['symptom'] = 'better-design-omitted'
        out.oracle_violation(f, case_of(r, 'exh'),
                             f'feasible design T={list(T)} C={list(C)} scores {s}, strictly above the worst returned {worst}')
        break
    # strict reading: designs whose control group uses a geo the search never admits (too large / alone over budget)
    if t.get('pair_ext'):
      n = t['n']
      ids_ext = [t['order'][i] for i in t['idx']] + [t['order'][i] for i in t['ext']]
      must = {i for i in range(n) if t['cls'][i] in MUST}
      tfix = {i for i in range(n) if t['cls'][i] == 'tFixed'}
      cfix = {i for i in range(n) if t['cls'][i] == 'cFixed'}
      out.extra['strict_reading_designs'] = out.extra.get('strict_reading_designs', 0) + len(t['pair_ext'])
      for (T, C), rec in t['pair_ext'].items():
        if not tfix <= set(T) or not cfix <= set(C) or not must <= set(T) | set(C) or omittable(T):
          continue
        sc = tuple(rec[1]) + ((rec[3] if budget is not None else rec[2]),)
        if has_nan(sc):
          continue
        common, a, b = constraint_report(r, list(T), list(C), t, 'exh', ids=ids_ext, rec=rec)
        if common or a or b:
          continue
        better = worst is not None and lt_score(worst, sc) and not all(math.isclose(x, y, rel_tol=1e-9, abs_tol=1e-12) for x, y in zip(worst, sc))
        if len(res_set) < k or better:
          f2 = dict(f, symptom='better-design-omitted' if len(res_set) >= k else 'feasible-design-missing', uses_nonadmitted_geo=True)
          out.oracle_violation(f2, case_of(r, 'exh'),
                               f'design T={[ids_ext[i] for i in T]} C={[ids_ext[i] for i in C]} (score {sc}) is legal and within every constraint, '
                               f'but geo(s) {[ids_ext[i] for i in C if i >= n]} are not admitted to the search; returned: {len(res_set)} of n_designs={k}, worst {worst}')
          break
    out.count(nontrivial_key(r) if len(feas) > 1 else None)
    out.extra['feasible_total'] = out.extra.get('feasible_total', 0) + len(feas)


def independent_impact(x, y, p):
  """required impact recomputed from the two series and the parameters alone (numpy/scipy, not the library classes)"""
  from scipy import stats
  x, y = np.asarray(x, dtype=float), np.asarray(y, dtype=float)
  n = len(y)
  n_test = int(p['n_test'])
  corr = float(np.corrcoef(x, y)[0, 1])
  phi = stats.f.ppf(p.get('flevel', 0.9), 1, n - 1)
  tq = stats.t.ppf(p.get('sig_level', 0.9), n - 2) + stats.t.ppf(p.get('power_level', 0.8), n - 2)
  term = tq * n_test * math.sqrt(phi * (n + 1) / (n * n_test * (n - 1)) + 1 / n + 1 / n_test)
  return corr, term * float(np.std(y, ddof=2)) * math.sqrt(max(0.0, 1 - corr ** 2))


def judge_c04(out, res):
  for r in iter_results(res):
    t = r['tables']
    p = r['resolved']
    sub = t['arr'][t['idx']] if t['n'] else None
    for which in ('exh', 'greedy'):
      rr = r[which]
      if 'result' not in rr:
        continue
      budget_variant = which == 'exh' and p.get('budget_range') is not None
      ids = [d['diag_id'] for d in rr['result']]
      f = facts_of(r, 'exhaustive' if which == 'exh' else 'greedy')
      if len(set(ids)) != len(ids):
        f['symptom'] = 'shared-diagnostics-object'
        out.oracle_violation(f, case_of(r, which), 'two returned designs share one diagnostics object')
      for pos_i, d in enumerate(rr['result']):
        y = sub[d['T']].sum(axis=0)
        x = sub[d['C']].sum(axis=0)
        prob = None
        if d['diag_y'] is None or len(d['diag_y']) != len(y) or (d['diag_x'] is not None and len(d['diag_x']) != len(x)):
          prob = (f'series held by the diagnostics have {None if d["diag_y"] is None else len(d["diag_y"])} points, the analysis window '
                  f'(most recent n_pretest_max dates) has {len(y)}')
        elif not np.allclose(d['diag_y'], y, rtol=1e-12, atol=1e-9):
          prob = 'treatment series held by the diagnostics is not the sum of the reported treatment geos over the analysis window'
        elif d['diag_x'] is None or not np.allclose(d['diag_x'], x, rtol=1e-12, atol=1e-9):
          prob = 'control series held by the diagnostics is not the sum of the reported control geos over the analysis window'
        else:
          rec = t['pair'].get((tuple(d['T']), tuple(d['C'])))
          if rec is not None:
            want = tuple(rec[1]) + ((rec[3] if budget_variant else rec[2]),)
            got = tuple(d['score'])
            if has_nan(want) or has_nan(got):
              pass
            elif got[0] != (1.0 if d['diag_corr'] >= p.get('min_corr', 0.8) else 0.0):
              prob = (f'correlation test in the score is {got[0]} although the design\'s correlation {d["diag_corr"]!r} is '
                      f'{"at least" if d["diag_corr"] >= p.get("min_corr", 0.8) else "below"} min_corr = {p.get("min_corr", 0.8)!r}')
            elif got[4] != round(d['diag_corr'], 2):
              prob = f'fifth score entry {got[4]} is not the design\'s correlation {d["diag_corr"]!r} rounded to two decimals'
            elif not budget_variant and not math.isclose(got[5], 1.0 / d['diag_impact'], rel_tol=1e-12):
              prob = f'last score entry {got[5]} is not 1 / required impact = {1.0 / d["diag_impact"]}'
            elif budget_variant and not math.isclose(got[5], p['budget_range'][1] / d['diag_impact'], rel_tol=1e-12):
              prob = f'last score entry {got[5]} is not maximum budget / required impact = {p["budget_range"][1] / d["diag_impact"]}'
            elif got[:4] != want[:4]:
              prob = f'test outcomes in the score {got[:4]} differ from those recomputed from the series {want[:4]}'
            elif abs(got[4] - want[4]) > 1e-12:
              prob = f'rounded correlation in the score {got[4]} differs from the recomputed {want[4]}'
            elif not math.isclose(got[5], want[5], rel_tol=1e-9):
              prob = f'last score entry {got[5]} differs from the recomputed {want[5]} (budget variant={budget_variant})'
            elif not math.isclose(d['diag_impact'], rec[0], rel_tol=1e-9):
              prob = f'required impact {d["diag_impact"]} differs from the recomputed {rec[0]}'
            elif abs(d['diag_corr']) < 0.99999:
              ic, ii = independent_impact(x, y, p)
              if not (math.isclose(ic, d['diag_corr'], rel_tol=1e-9, abs_tol=1e-12) and math.isclose(ii, d['diag_impact'], rel_tol=1e-7)):
                prob = (f'correlation / required impact held by the design ({d["diag_corr"]}, {d["diag_impact"]}) differ from the '
                        f'values recomputed from its two series and the parameters ({ic}, {ii})')
        if prob:
          f['symptom'] = 'diagnostics-mismatch'
          out.oracle_violation(f, case_of(r, which), f'{which} design #{pos_i} T={d["Tids"]} C={d["Cids"]}: {prob}')
    # designs that are read only after the caller has re-used its parameter object must be the designs of the search
    for which, w in (('exh', 'exhaustive'), ('greedy', 'greedy')):
      late = (r.get('late') or {}).get(w)
      rr = r[which]
      if late is None or 'result' not in rr:
        continue
      f = facts_of(r, w)
      f['symptom'] = 'late-read'
      if 'result' not in late:
        out.oracle_violation(f, case_of(r, which), f'{w} search raised {late.get("error")} in a second identical run')
        continue
      if [(d['T'], d['C']) for d in late['result']] != [(d['T'], d['C']) for d in rr['result']]:
        if len({tuple(d['score']) for d in rr['result']}) == len(rr['result']):
          out.oracle_violation(f, case_of(r, which), f'{w} search: a second identical run returns different designs')
        continue
      for i, (a, b) in enumerate(zip(rr['result'], late['result'])):
        same_score = all((math.isnan(x) and math.isnan(y)) or x == y for x, y in zip(a['score'], b['score']))
        same_diag = a['diag_corr'] == b['diag_corr'] and (a['diag_impact'] == b['diag_impact'] or
                                                         (math.isnan(a['diag_impact']) and math.isnan(b['diag_impact'])))
        want_tests = [bool(v) for v in a['score'][:4]] if not has_nan(a['score'][:4]) else None
        if not same_score or not same_diag or (want_tests is not None and b['diag_tests'] != want_tests):
          out.oracle_violation(f, case_of(r, which),
                               f'{w} design #{i} T={a["Tids"]} C={a["Cids"]}: read after the caller changed min_corr / power_level / sig_level on '
                               f'its parameter object, the design reports score {b["score"]}, tests {b["diag_tests"]}, impact {b["diag_impact"]}; '
                               f'read at once it reports {a["score"]}, impact {a["diag_impact"]}')
          break
    key = nontrivial_key(r)
    out.count(key)


def judge_c09(out, res):
  for r in res['recs']:
    if r.get('harness_error'):
      continue
    ok_pre = c09_precondition(r)
    for which in ('exh', 'greedy'):
      rr = r.get(which) or {}
      if 'error' in rr and rr['error'] != 'ValueError' and ok_pre:
        f = facts_of(r, 'exhaustive' if which == 'exh' else 'greedy') if 'resolved' in r else {'call': which}
        f['symptom'] = 'exception'
        f['exception'] = rr['error']
        out.oracle_violation(f, case_of(r, which) if 'resolved' in r else {'iid': r['iid'], 'inst': r['inst']},
                             f'{which} search raised {rr["error"]}: {rr.get("error_text")}')
    t = r.get('tables')
    empty = t is not None and not r['exh'].get('result') and not r['greedy'].get('result')
    out.count((r['iid'], 'empty' if empty else 'nonempty', json.dumps(r.get('resolved'), sort_keys=True))
              if (t is None or empty or t['n'] <= 2 or 'error' in r['exh'] or 'error' in r['greedy']) else nontrivial_key(r))


def judge_c13(out, res):
  for r in iter_results(res):
    p = r['resolved']
    if p.get('budget_range') is not None or p.get('treatment_share_range') is not None:
      continue
    e, g = r['exh'], r['greedy']
    if 'result' not in e or 'result' not in g:
      continue
    t = r['tables']
    f = facts_of(r, 'greedy')
    if not e['result'] and g['result']:
      f['symptom'] = 'greedy-nonempty-exhaustive-empty'
      out.oracle_violation(f, case_of(r, 'greedy'),
                           f'exhaustive search found nothing but greedy returned {[(d["Tids"], d["Cids"]) for d in g["result"]]}')
      continue
    feas = set(feasible_designs(r, both_readings=False))
    ranked = {(tuple(sorted(pl[0])), tuple(sorted(pl[1]))) for pl in e.get('pushlog', [])}
    best = tuple(e['result'][0]['score']) if e['result'] else None
    for d in g['result']:
      key = (tuple(d['T']), tuple(d['C']))
      if key not in ranked:
        f['symptom'] = 'greedy-design-not-ranked'
        out.oracle_violation(f, case_of(r, 'greedy'), f'greedy design T={d["Tids"]} C={d["Cids"]} is not among the {len(ranked)} designs the exhaustive search ranked on the same input')
        break
      if key not in feas:
        f['symptom'] = 'greedy-design-infeasible'
        out.oracle_violation(f, case_of(r, 'greedy'), f'greedy design T={d["Tids"]} C={d["Cids"]} is not in the feasible set of the exhaustive search')
        break
      s = tuple(d['score'])
      if best is not None and not has_nan(s) and not has_nan(best) and lt_score(best, s) and \
          not all(math.isclose(a, b, rel_tol=1e-9, abs_tol=1e-12) for a, b in zip(best, s)):
        f['symptom'] = 'greedy-beats-exhaustive'
        out.oracle_violation(f, case_of(r, 'greedy'), f'greedy design T={d["Tids"]} C={d["Cids"]} scores {s} > exhaustive best {best}')
        break
    out.count(nontrivial_key(r) if g['result'] else None)


def judge_c14_search(out, res):
  for r in iter_results(res):
    k = r['resolved'].get('n_designs', 1)
    for which in ('exh', 'greedy'):
      rr = r[which]
      if 'result' not in rr:
        continue
      scores = [tuple(d['score']) for d in rr['result']]
      f = facts_of(r, 'exhaustive' if which == 'exh' else 'greedy')
      if len(scores) > k:
        f['symptom'] = 'too-many'
        out.oracle_violation(f, case_of(r, which), f'{which} returned {len(scores)} designs for n_designs={k}')
      if not any(has_nan(s) for s in scores) and any(lt_score(scores[i], scores[i + 1]) for i in range(len(scores) - 1)):
        f['symptom'] = 'not-best-first'
        out.oracle_violation(f, case_of(r, which), f'{which} results not in non-increasing score order: {scores}')


def judge_c14(out, tier):
  res = get_results(tier)
  judge_c14_search(out, res)
  out.extra['search_instances_checked_for_order_and_cap'] = len(res['recs'])


def extra_instances(themes, n, salt=''):
  """more instances (optionally restricted to some generator themes), real runs + tables only (no model)"""
  rng = core.rng_for('search-extra', salt)
  jobs = []
  for i in range(n):
    th = rng.choice(themes) if themes else None
    jobs.append((f'x{i}', gen_instance(rng, 'quick', max_admitted=5, theme=th)))
  with mp.Pool(min(16, os.cpu_count() or 4)) as pool:
    recs = pool.map(process, jobs, chunksize=4)
  for r in recs:
    r.pop('wire', None)
  return recs
