"""Numeric engine shared by C05 C06 C07 C18: experiment-frame generator, runs of the real TBR / TBRiROAS /
TBRMMDiagnostics code, the Lean model at Float (drivers/Numeric.lean), and helpers for the oracles."""
import math
import struct
import warnings

import numpy as np
import pandas as pd

import core

warnings.filterwarnings('ignore')
RTOL = 1e-9


def bits(x):
  return str(struct.unpack('<Q', struct.pack('<d', float(x)))[0])


def unbits(s):
  if s == 'inf':
    return math.inf
  if s == '-inf':
    return -math.inf
  return struct.unpack('<d', struct.pack('<Q', int(s)))[0]


def close(a, b, rtol=RTOL, scale=1.0):
  a, b = float(a), float(b)
  if math.isnan(a) or math.isnan(b):
    return math.isnan(a) and math.isnan(b)
  if math.isinf(a) or math.isinf(b):
    return a == b
  return abs(a - b) <= rtol * max(abs(a), abs(b), scale)


def all_close(a, b, rtol=RTOL, scale=None):
  a, b = list(a), list(b)
  if len(a) != len(b):
    return False
  sc = scale if scale is not None else max([1e-300] + [abs(float(v)) for v in a + b if math.isfinite(float(v))])
  return all(close(x, y, rtol, sc) for x, y in zip(a, b))


# ----------------------------------------------------------------------------
# frames
# ----------------------------------------------------------------------------
def gen_frame(rng, n_pre=None, cooldown=None, cost_kind=None, spike=False, flat_test=False):
  """JSON-able experiment: rows (geo, date, group, period, response, cost) + what the totals should be."""
  n_pre = n_pre or rng.choice([3, 3, 4, 5, 6, 8, 10, 14, 20])
  n_test = rng.choice([1, 2, 3, 4, 6, 8])
  n_cool = rng.choice([0, 0, 1, 2, 4]) if cooldown is None else cooldown
  n_lead = rng.choice([0, 0, 2])        # unassigned dates before the pre-period
  n_c, n_t = rng.randint(1, 4), rng.randint(1, 4)
  n_un = rng.choice([0, 0, 1, 3])       # unassigned geos
  cost_kind = cost_kind or rng.choice(['fixed', 'fixed', 'variable'])
  n_trail = rng.choice([0, 0, 0, 2])     # dates after the experiment
  # dates outside the experiment carry the 'unassigned' label, or some other label that is none of the four the analysis knows
  lead_label, trail_label = rng.choice([-1, -1, 5]), rng.choice([-1, 6])
  T = n_lead + n_pre + n_test + n_cool + n_trail
  period = [lead_label] * n_lead + [0] * n_pre + [1] * n_test + [2] * n_cool + [trail_label] * n_trail
  base = [rng.uniform(80, 120)]
  for _ in range(T - 1):
    base.append(max(20.0, base[-1] + rng.uniform(-12, 12)))
  if spike and n_test + n_cool >= 2:     # control spike on the first test day followed by a reversal
    i0 = n_lead + n_pre
    base[i0] += rng.uniform(150, 400)
    base[i0 + 1] -= rng.uniform(100, 250)
    base[i0 + 1] = max(base[i0 + 1], 1.0)
  if flat_test:     # the control total is the same on every day of the experiment (a capped or rounded feed)
    i0 = n_lead + n_pre
    for d in range(i0, i0 + n_test + n_cool):
      base[d] = base[i0]
  a, b = rng.uniform(-20, 40), rng.uniform(0.5, 2.5)
  noise = rng.choice([0.5, 2.0, 6.0])
  lift = rng.uniform(0, 30)
  rows = []
  cancel = [rng.randint(2, 9) + (d % 3) * 10 for d in range(T)]      # never constant over three consecutive days
  wc = [rng.uniform(0.5, 2) for _ in range(n_c)]
  wt = [rng.uniform(0.5, 2) for _ in range(n_t)]
  for d in range(T):
    xc = base[d]
    yt = a + b * base[d] + rng.gauss(0, noise) + (lift if period[d] == 1 else 0.0)
    for g in range(n_c):
      v = xc * wc[g] / sum(wc)
      cost = rng.uniform(1, 5) if cost_kind == 'variable' else 0.0
      if cost_kind == 'fixed_cool' and period[d] == 2:
        cost = rng.uniform(1, 5)       # control spend after the test period: still the fixed-cost scenario
      if cost_kind == 'cancel_pre' and period[d] == 0:
        cost = float(cancel[d])        # offset by the first treatment geo's booking below: the costs are not zero, their sum is
      if cost_kind == 'cancel_ctl_test':
        pre_sum = float(sum(cancel[i] for i in range(T) if period[i] == 0))
        cost = float(cancel[d] * n_test) if period[d] == 0 else (-pre_sum if period[d] == 1 else 0.0)   # pre-period spend, refunded during the test
      rows.append([f'c{g}', d, 1, period[d], v, cost])
    for g in range(n_t):
      v = yt * wt[g] / sum(wt)
      if cost_kind == 'variable':
        cost = rng.uniform(1, 5) + (rng.uniform(20, 60) if period[d] == 1 else 0.0)
      elif cost_kind == 'variable_trt_pre':      # only the treatment geos spend before the test
        cost = (rng.uniform(1, 5) if period[d] == 0 else 0.0) + (rng.uniform(20, 60) if period[d] == 1 else 0.0)
      elif cost_kind == 'cancel_pre':
        cost = (-float(cancel[d]) * n_c if (period[d] == 0 and g == 0) else 0.0) + (rng.uniform(20, 60) if period[d] == 1 else 0.0)
      elif cost_kind == 'cancel_ctl_test':
        cost = rng.uniform(20, 60) if period[d] == 1 else 0.0
      elif cost_kind == 'fixed_negative':        # spend reduction recorded as negative incremental cost
        cost = -rng.uniform(20, 60) if period[d] == 1 else 0.0
      else:
        cost = rng.uniform(20, 60) if period[d] == 1 else 0.0
      rows.append([f't{g}', d, 2, period[d], v, cost])
    for g in range(n_un):
      rows.append([f'u{g}', d, -1, period[d], rng.uniform(0, 500), rng.uniform(0, 9)])
  int_values = rng.random() < 0.2
  if int_values:      # count-like metrics: integer-valued columns with an integer dtype
    rows = [[r[0], r[1], r[2], r[3], float(round(r[4])), float(round(r[5]))] for r in rows]
  rng.shuffle(rows)
  return {'int_values': int_values, 'rows': rows, 'n_pre': n_pre, 'n_test': n_test, 'n_cool': n_cool, 'cost_kind': cost_kind, 'spike': spike}


def to_df(fr, rows=None):
  rows = fr['rows'] if rows is None else rows
  d0 = pd.Timestamp('2021-03-01')
  df = pd.DataFrame({'geo': [r[0] for r in rows], 'date': [d0 + pd.Timedelta(days=int(r[1])) for r in rows],
                     'group': [int(r[2]) for r in rows], 'period': [int(r[3]) for r in rows],
                     'response': [float(r[4]) for r in rows], 'cost': [float(r[5]) for r in rows]})
  if fr.get('int_values') and all(float(r[4]).is_integer() and float(r[5]).is_integer() for r in rows):
    df['response'] = df['response'].astype('int64')
    df['cost'] = df['cost'].astype('int64')
  df = df.set_index('geo')
  if fr.get('names'):       # caller-chosen column names, passed to fit() as key_* (see fit_kwargs)
    df = df.rename(columns=fr['names'])
    df.index.name = fr['names'].get('geo', 'geo')
  return df


CUSTOM_NAMES = {'date': 'day', 'group': 'arm', 'period': 'phase', 'response': 'sales', 'cost': 'spend', 'geo': 'market'}


def fit_kwargs(fr):
  n = fr.get('names') or {}
  return {'key_' + k: v for k, v in n.items()}


def totals(fr, col=4, rows=None):
  """independent aggregation: per period-class lists of (control total, treatment total) by date"""
  rows = fr['rows'] if rows is None else rows
  acc = {}
  per = {}
  for r in rows:
    if r[2] in (1, 2):
      acc[(r[1], r[2])] = acc.get((r[1], r[2]), 0.0) + r[col]
      per[r[1]] = max(per.get(r[1], -9), r[3])
  out = {0: ([], []), 1: ([], []), 2: ([], [])}
  for d in sorted(per):
    if per[d] in out:
      out[per[d]][0].append(acc.get((d, 1), 0.0))
      out[per[d]][1].append(acc.get((d, 2), 0.0))
  return out


def series(fr, use_cooldown=True, col=4, rows=None):
  t = totals(fr, col, rows)
  px, py = t[0]
  tx, ty = list(t[1][0]), list(t[1][1])
  if use_cooldown:
    tx += t[2][0]
    ty += t[2][1]
  return np.array(px), np.array(py), np.array(tx), np.array(ty)


# ----------------------------------------------------------------------------
# real code
# ----------------------------------------------------------------------------
def real_tbr(fr, target='response', use_cooldown=True, rows=None):
  from matched_markets.methodology import tbr
  m = tbr.TBR(use_cooldown=use_cooldown)
  if fr.get('refit_after') is not None and rows is None:
    # the analysis object was used for another experiment before: fitted, reported on, and now fitted again
    prev = fr['refit_after']
    try:
      kwp = fit_kwargs(prev)
      m.fit(to_df(prev), kwp.get('key_' + target, target), **kwp)
      m.summary(report='last')
      m.causal_cumulative_distribution()
    except Exception:
      pass
  kw = fit_kwargs(fr)
  m.fit(to_df(fr, rows), kw.get('key_' + target, target), **kw)
  return m


def real_posterior(m, rescale=1.0, periods=None):
  d = m.causal_cumulative_distribution(rescale=rescale, periods=periods)
  return np.atleast_1d(d.kwds['loc']).astype(float), np.atleast_1d(d.kwds['scale']).astype(float), float(d.args[0])


# ----------------------------------------------------------------------------
# model (Float)
# ----------------------------------------------------------------------------
class ModelSession:
  """collects driver lines; `run()` returns the output lines grouped per request"""

  def __init__(self):
    self.lines = []
    self.expect = []   # number of output lines per request

  def set_series(self, px, py, tx, ty, obs=None):
    self.lines += ['prex ' + ' '.join(bits(v) for v in px), 'prey ' + ' '.join(bits(v) for v in py),
                   'testx ' + ' '.join(bits(v) for v in tx), 'testy ' + ' '.join(bits(v) for v in ty)]
    if obs is not None:
      self.lines.append('obs ' + ' '.join(bits(v) for v in obs))

  def req(self, line, n_out):
    self.lines.append(line)
    self.expect.append(n_out)
    return len(self.expect) - 1

  def run(self):
    out = core.run_driver('Numeric.lean', self.lines)
    res, pos = [], 0
    for n in self.expect:
      res.append(out[pos:pos + n])
      pos += n
    if pos != len(out):
      raise core.DriverError(f'numeric driver returned {len(out)} lines, expected {pos}: {out[:3]}')
    return res


def parse_vals(line, skip=0):
  return [unbits(t) for t in line.split()[skip:]]


def own_ols(px, py):
  n = len(px)
  xb, yb = px.mean(), py.mean()
  sxx = float(((px - xb) ** 2).sum())
  b = float(((px - xb) * (py - yb)).sum() / sxx)
  a = float(yb - b * xb)
  res = py - a - b * px
  s2 = float((res ** 2).sum() / (n - 2))
  return a, b, s2, sxx, xb, res


def kerman(px, py, tx, ty, rescale=1.0):
  """closed form of Kerman (2017) eq. 5, computed by the harness from the series alone"""
  a, b, s2, sxx, xb, _ = own_ols(px, py)
  n = len(px)
  loc = rescale * np.cumsum(ty - (a + b * tx))
  t = np.arange(1, len(tx) + 1)
  D = np.cumsum(tx - xb)
  scale = abs(rescale) * np.sqrt(s2 * (t ** 2 / n + D ** 2 / sxx + t))
  return loc, scale, n - 2


def conditioned(px, py):
  """well-conditioned pre-period: the float tolerance of the correspondence is only claimed here"""
  if len(px) < 3:
    return False
  sx, sy = np.std(px), np.std(py)
  if sx < 1e-6 * max(1.0, abs(px.mean())) or sy < 1e-9:
    return False
  r = np.corrcoef(px, py)[0, 1]
  if not math.isfinite(r) or abs(r) > 0.99999:
    return False
  a, b, s2, *_ = own_ols(px, py)
  return s2 > 1e-12 * max(1.0, float(np.var(py)))
