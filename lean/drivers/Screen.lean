/- Driver for the C19 model.
   new | row <geo> <date> <group> <period> <num/den> | noisy <g1,g2|-> | outliers <d1,d2|-> | fit <control> <treatment>
   output of fit:  "ok <n rows kept>" , then "kept <geo>@<date> ..." , "x <date>:<num/den> ..." , "y ..."   |  "err ValueError" -/
import MM.Model.Screen
import MM.Driver.Wire
open MM MM.Screen

structure S where
  rows : List Row := []
  noisy : List String := []
  outliers : List Nat := []

def listOf (s : String) : List String := if s == "-" then [] else s.splitOn ","
def showTot (l : List (Nat × Rat)) : String := " ".intercalate (l.map fun (d, v) => s!"{d}:{Wire.showRat v}")

partial def loop (h : IO.FS.Stream) (s : S) : IO Unit := do
  let line ← h.getLine
  if line.isEmpty then return ()
  match Wire.words line with
  | ["new"] => loop h {}
  | ["row", g, d, grp, per, v] =>
    let r : Row := { geo := g, date := d.toNat?.getD 0, group := grp.toInt?.getD 0, period := per.toInt?.getD 0,
                     value := (Wire.parseRat v).getD 0 }
    loop h { s with rows := s.rows ++ [r] }
  | ["noisy", gs] => loop h { s with noisy := listOf gs }
  | ["outliers", ds] => loop h { s with outliers := (listOf ds).filterMap String.toNat? }
  | ["fit", c, t] =>
    let sem : Semantics := { control := c.toInt?.getD 1, treatment := t.toInt?.getD 2 }
    let det : Detectors := { noisy := fun _ => s.noisy, outliers := fun _ => s.outliers }
    match fit sem det s.rows with
    | .error e => IO.println ("err " ++ e.name)
    | .ok r =>
      IO.println s!"ok {r.data.length}"
      IO.println ("kept " ++ " ".intercalate (r.data.map fun x => s!"{x.geo}@{x.date}"))
      IO.println ("x " ++ showTot r.analysis.1)
      IO.println ("y " ++ showTot r.analysis.2)
    loop h s
  | [] => loop h s
  | _ => IO.println "bad-op"; loop h s

def main : IO Unit := do loop (← IO.getStdin) {}
