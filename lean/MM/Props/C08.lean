/-
C08: the lazily cached diagnostics of `TBRMMDiagnostics` never serve a value computed from a
series that has since been replaced: for every history of assignments to `x` / `y` and reads,
every read returns what a freshly constructed object on the current series would return.

Model: `MM/Model/DiagCache.lean` (values abstracted to stamps = versions of the series they were
computed from).  Generated invalidation data: `MM/Generated/DiagGen.lean` (`xSetterClears`,
`ySetterClearsX`, regenerated from the Python source on every run).
Helper lemmas: `MM/Proofs/DiagCache.lean`, proved for an ARBITRARY clear list `cl` and flag `yclr`
under the hypotheses `∀ c, c ∈ cl` and `yclr = true`.

The theorems below depend on the generated data ONLY through `C08_obligation_clears` and
`C08_obligation_y`, which are discharged by `decide` on the generated values.  Dropping an
invalidation line in the x setter, or the trailing `self.x = None` of the y setter, makes exactly
those `decide`s fail.  The negative witnesses at the end show that the obligations are necessary.
-/
import MM.Proofs.DiagCache

namespace MM.DiagCache

/-! ## obligations on the generated invalidation data -/

/-- the x setter resets every cache attribute -/
theorem C08_obligation_clears : ∀ c ∈ Cache.all, c ∈ xSetterClears := by decide

/-- the y setter ends with `self.x = None` -/
theorem C08_obligation_y : ySetterClearsX = true := by decide

/-- `Cache.all` lists every cache attribute -/
theorem C08_cache_all_complete : ∀ c : Cache, c ∈ Cache.all := by intro c; cases c <;> decide

/-- the form in which the helper lemmas consume the first obligation -/
theorem C08_clears_every : ∀ c : Cache, c ∈ xSetterClears :=
  fun c => C08_obligation_clears c (C08_cache_all_complete c)

/-! ## the invariant -/

/-- invariant: every cached value was computed from the current series; nothing is cached while
x is None -/
def Coherent (s : St) : Prop := ∀ c v, s.cache c = some v → ∃ x, s.xv = some x ∧ v = (x, s.yv)

/-- `Coherent` is the invariant `Coh` used by the helper lemmas -/
theorem Coherent_iff_Coh (s : St) : Coherent s ↔ Coh s := Iff.rfl

theorem C08_init_coherent (b : Bool) : Coherent (init b) := init_coh b

theorem C08_step_coherent (s : St) (op : Op) (h : Coherent s) : Coherent (step s op).1 := by
  rw [← stepWith_gen]
  exact stepWith_coh C08_clears_every C08_obligation_y s op h

/-- a read returns what a freshly built object on the current series returns -/
theorem C08_read_fresh (s : St) (q : Q) (h : Coherent s) :
    (readQ s q).2 = fresh s ∧ fresh (readQ s q).1 = fresh s := by
  have hr := readQ_ok s q h
  refine ⟨hr.val, ?_⟩
  simp only [fresh, hr.xv, hr.yv]

/-! ## main theorem -/

/-- the specification: a read reports the fresh value of the series current at that point -/
def specRun (s : St) : List Op → List (Option (Option Stamp))
  | [] => []
  | op :: ops =>
    (match op with | .read _ => some (fresh s) | _ => none) :: specRun (step s op).1 ops

theorem specRunWith_gen (s : St) (ops : List Op) :
    specRunWith xSetterClears ySetterClearsX s ops = specRun s ops := by
  induction ops generalizing s with
  | nil => rfl
  | cons op ops ih =>
    simp only [specRunWith, specRun, stepWith_gen, ih]
    cases op <;> rfl

/-- from any coherent state, every read of every history reports the fresh value -/
theorem C08_no_stale_from (s : St) (h : Coherent s) (ops : List Op) : run s ops = specRun s ops := by
  rw [← runWith_gen, ← specRunWith_gen]
  exact runWith_spec C08_clears_every C08_obligation_y s h ops

/-- main theorem: for every history of assignments and reads from a new object, every read
reports the fresh value of the series current at that point -/
theorem C08_no_stale (b : Bool) (ops : List Op) : run (init b) ops = specRun (init b) ops :=
  C08_no_stale_from (init b) (C08_init_coherent b) ops

/-! ## the current-series bookkeeping is what one expects -/

/-- assigning `y` leaves `x = None` (so nothing can be read until `x` is assigned again) -/
theorem C08_setY_clears_x (s : St) (b : Bool) : (step s (.setY b)).1.xv = none := by
  rw [← stepWith_gen]
  exact stepWith_setY_xv C08_obligation_y s b

/-- assigning `x` installs a version never used before and bumps the version counter -/
theorem C08_setX_new_version (s : St) :
    (step s .setX).1.xv = some s.next ∧ (step s .setX).1.next = s.next + 1 ∧
      (step s .setX).1.yv = s.yv := ⟨rfl, rfl, rfl⟩

/-- assigning `y` installs a version never used before -/
theorem C08_setY_new_version (s : St) (b : Bool) :
    (step s (.setY b)).1.yv = s.next ∧ (step s (.setY b)).1.next = s.next + 1 := by
  rw [← stepWith_gen]
  have hy := C08_obligation_y
  revert hy
  generalize ySetterClearsX = yclr
  intro hy
  subst hy
  exact ⟨rfl, rfl⟩

/-- `x = None` assignment -/
theorem C08_clearX_xv (s : St) : (step s .clearX).1.xv = none := rfl

/-! ## negative witnesses: the obligations are necessary -/

/-- a clear list lacking `tests_ok` (the x setter without its `self._tests_ok = None` line) -/
def clearsWithoutTestsOk : List Cache :=
  [.corr, .required_impact, .pretestfit, .aatest, .bbtest, .dwtest]

/-- the history `x = a; tests_ok; x = b; tests_ok` -/
def staleHistory : List Op := [.setX, .read (.tests_ok 4), .setX, .read (.tests_ok 4)]

/-- with that list the second `tests_ok` read serves the value computed from the first `x`
(version 1) although the current `x` has version 2 -/
example : runWith clearsWithoutTestsOk true (init false) staleHistory
    = [none, some (some (1, 0)), none, some (some (1, 0))] := by decide

/-- ... which differs from what the specification demands of that very machine -/
example : runWith clearsWithoutTestsOk true (init false) staleHistory
    ≠ specRunWith clearsWithoutTestsOk true (init false) staleHistory := by decide

example : specRunWith clearsWithoutTestsOk true (init false) staleHistory
    = [none, some (some (1, 0)), none, some (some (2, 0))] := by decide

/-- ... and from the specification of the real machine -/
example : runWith clearsWithoutTestsOk true (init false) staleHistory
    ≠ specRun (init false) staleHistory := by decide

/-- the short list indeed violates the first obligation -/
example : ¬ ∀ c ∈ Cache.all, c ∈ clearsWithoutTestsOk := by decide

/-- a stale dependency propagates: dropping only `pretestfit` makes `bbtest` (recomputed from the
stale fit) and `tests_ok` stale -/
example : runWith [.corr, .required_impact, .aatest, .bbtest, .dwtest, .tests_ok] true (init false)
      [.setX, .read .bbtest, .setX, .read .bbtest, .read (.tests_ok 4)]
    = [none, some (some (1, 0)), none, some (some (1, 0)), some (some (1, 0))] := by decide

/-- without the trailing `self.x = None` of the y setter, a value cached before `y = ...` is
served afterwards (stamp `(1, 0)` while the current series are `(1, 2)`) -/
example : runWith Cache.all false (init false) [.setX, .read .corr, .setY false, .read .corr]
    = [none, some (some (1, 0)), none, some (some (1, 0))] := by decide

example : runWith Cache.all false (init false) [.setX, .read .corr, .setY false, .read .corr]
    ≠ specRunWith Cache.all false (init false) [.setX, .read .corr, .setY false, .read .corr] := by
  decide

/-! ## non-vacuity -/

/-- a history with every kind of operation and a read of every quantity -/
def demoHistory : List Op :=
  [.read .corr,                                   -- x is None
   .setX,
   .read (.tests_ok 4), .read .corr, .read .required_impact, .read .pretestfit, .read .bbtest,
   .read .dwtest, .read .aatest, .read .corr_test, .read .tbrfit,
   .setY true,
   .read .aatest,                                 -- x is None again
   .setX,
   .read .aatest, .read (.tests_ok 2), .read .dwtest,
   .clearX,
   .read .corr, .read (.tests_ok 1),
   .setX,
   .read (.tests_ok 3), .read .required_impact]

example : run (init false) demoHistory =
    [some none,
     none,
     some (some (1, 0)), some (some (1, 0)), some (some (1, 0)), some (some (1, 0)),
     some (some (1, 0)), some (some (1, 0)), some (some (1, 0)), some (some (1, 0)),
     some (some (1, 0)),
     none,
     some none,
     none,
     some (some (3, 2)), some (some (3, 2)), some (some (3, 2)),
     none,
     some none, some none,
     none,
     some (some (4, 2)), some (some (4, 2))] := by decide

example : run (init false) demoHistory = specRun (init false) demoHistory := by decide

/-- the invariant is not vacuous: reads do populate the caches ... -/
example : (step (step (init false) .setX).1 (.read (.tests_ok 4))).1.cache .tests_ok = some (1, 0) := by
  decide

example : (step (step (init false) .setX).1 (.read (.tests_ok 4))).1.cache .dwtest = some (1, 0) := by
  decide

/-- ... the short-`y` A/A placeholder is reported but not cached ... -/
example : (step (step (init true) .setX).1 (.read .aatest)).2 = some (some (1, 0)) ∧
    (step (step (init true) .setX).1 (.read .aatest)).1.cache .aatest = none := by decide

/-- ... and the x setter empties them -/
example : (step (step (step (init false) .setX).1 (.read (.tests_ok 4))).1 .setX).1.cache .tests_ok
    = none := by decide

/-- `Coherent` can fail: a state holding a value of an older series is not coherent -/
example : ¬ Coherent { xv := some 2, yv := 0, yShort := false, next := 3,
                       cache := fun _ => some (1, 0) } := by
  intro h
  obtain ⟨x, hx, hv⟩ := h .corr (1, 0) rfl
  simp at hx hv
  omega

end MM.DiagCache
