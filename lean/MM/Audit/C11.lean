import MM.Props.C11
import MM.Props.SizesTie

#print axioms MM.Search.C11_count_eq_spec
#print axioms MM.Search.C11_sizes_pos
#print axioms MM.Search.C11_listing_mem
#print axioms MM.Search.C11_listing_nodup
#print axioms MM.Search.C11_listing_length
#print axioms MM.Search.C11_upper_bound
#print axioms MM.mem_combos
#print axioms MM.length_combos
#print axioms MM.nodup_combos
#print axioms MM.Search.choose_eq
#print axioms MM.Search.tie_trt_sizes
#print axioms MM.Search.tie_ctl_sizes
