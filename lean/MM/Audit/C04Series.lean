import MM.Props.C04Series

#print axioms MM.Data.C04_series
#print axioms MM.Data.C04_series_length
#print axioms MM.Data.C04_window
