/- Line-protocol driver for the search model (C01-C04, C09-C14).  See harness/engines/search.py. -/
import MM.Model.Search
import MM.Model.Admit
import MM.Model.Api
import MM.Driver.Wire
import Std.Data.HashMap
open MM MM.Search MM.Admit Wire
open MM.Api (World State Op Out)

structure PairRec where
  impact : PyFloat
  s5 : Score
  inv : Option Rat
  binv : Option Rat

structure Inst where
  p : Params := {}
  ngeosmax : Option Nat := none
  rows : Array GeoRow := #[]
  idx : List Nat := []
  opt : Std.HashMap (List Nat) PyFloat := {}
  pairs : Std.HashMap (List Nat × List Nat) PairRec := {}

def parseCls7 : String → Class7
  | "cFixed" => .cFixed | "tFixed" => .tFixed | "xFixed" => .xFixed | "ct" => .ct
  | "cx" => .cx | "tx" => .tx | "ctx" => .ctx | _ => .absent

def showScore (s : Score) : String := " ".intercalate (s.map showEntry)
def showDesign (d : Design) : String := s!"{showSet d.T}|{showSet d.C}|{showScore d.score}"

def mkEnv (inst : Inst) (cls : List GeoClass) : Env :=
  let rows := inst.rows
  let idx := inst.idx.toArray
  { cls := cls
    share := fun i => ((rows.getD (idx.getD i 0) default).share)
    optImpact := fun T => (inst.opt.get? T).getD .nan
    impact := fun T C => match inst.pairs.get? (T, C) with | some r => r.impact | none => .nan
    score5 := fun T C => match inst.pairs.get? (T, C) with | some r => r.s5 | none => [none, none, none, none, none]
    invImpact := fun T C => match inst.pairs.get? (T, C) with | some r => r.inv | none => none
    budgetInv := fun T C => match inst.pairs.get? (T, C) with | some r => r.binv | none => none }

def runInst (inst : Inst) : IO Unit := do
  let p := inst.p
  let ap : AdmitParams :=
    { shareHi := p.shareRange.map (·.2), maxImpact := p.budgetRange.map (fun r => r.2 * p.iroas),
      nGeosMax := inst.ngeosmax }
  let rows := inst.rows.toList
  let adm := admitGeos ap rows
  IO.println ("admit " ++ showSet adm)
  if adm != inst.idx then
    IO.println "admit-mismatch"
    IO.println "end"
    return
  let cls := admittedClasses rows adm
  let e := mkEnv inst cls
  IO.println ("sizes " ++ showSet (trtSizeRange p e))
  IO.println s!"count {countMaxDesigns p e}"
  IO.println s!"listing {(designsListing p e).length}"
  match evaluated p e with
  | .error err => IO.println ("ev-error " ++ err.name)
  | .ok ev => for d in ev do IO.println ("ev " ++ showDesign d)
  match exhaustive p e with
  | .error err => IO.println ("exh-error " ++ err.name)
  | .ok ds => for d in ds do IO.println ("exh " ++ showDesign d)
  match greedyFuel 100000 p e with
  | none => IO.println "greedy-nofuel"
  | some (.error err) => IO.println ("greedy-error " ++ err.name)
  | some (.ok ds) => for d in ds do IO.println ("greedy " ++ showDesign d)
  IO.println "end"

def worldOf (inst : Inst) : World :=
  { rows := inst.rows.toList, nGeosMax := inst.ngeosmax,
    env := fun idx => mkEnv { inst with idx := idx } (admittedClasses inst.rows.toList idx) }

def showOut : Out → String
  | .geos l => "geos " ++ showSet l
  | .classes l => "classes " ++ " ".intercalate (l.map fun c => toString (repr c))
  | .sizes l => "sizes " ++ showSet l
  | .num n => s!"num {n}"
  | .groups l => "groups " ++ ";".intercalate (l.map showSet)
  | .bool b => s!"bool {b}"
  | .designs l => "designs " ++ ";".intercalate (l.map fun (t, c, sc) => s!"{showSet t}|{showSet c}|{showScore sc}")
  | .err e => "err " ++ e.name
  | .diverge => "diverge"

def parseOp : List String → Option Op
  | ["withinConstraints"] => some .withinConstraints
  | ["assignments"] => some .assignments
  | ["sizeRange"] => some .sizeRange
  | ["count"] => some .count
  | ["trt", n] => n.toNat?.map .trtGroups
  | ["ctl", t] => some (.ctlGroups (parseSet t))
  | ["ok", t, c] => some (.designOk (parseSet t) (parseSet c))
  | ["exhaustive"] => some .exhaustive
  | ["greedy"] => some (.greedy 100000)
  | ["results"] => some .results
  | _ => none

def optRange (a b : String) : Option (Int × Int) :=
  match a.toInt?, b.toInt? with | some a, some b => some (a, b) | _, _ => none

partial def loop (h : IO.FS.Stream) (inst : Inst) (st : State := MM.Api.init {}) : IO Unit := do
  let line ← h.getLine
  if line.isEmpty then return ()
  match words line with
  | ["api-init"] => loop h inst (MM.Api.init inst.p)
  | "api" :: rest =>
    match parseOp rest with
    | some op =>
      let r := MM.Api.step (worldOf inst) st op
      IO.println ("api-out " ++ showOut r.2)
      loop h inst r.1
    | none => IO.println "bad-op api"; loop h inst st
  | ["inst", id] => IO.println ("inst " ++ id); loop h {}
  | ["param", "trt", a, b] => loop h { inst with p := { inst.p with trtRange := optRange a b } }
  | ["param", "ctl", a, b] => loop h { inst with p := { inst.p with ctlRange := optRange a b } }
  | ["param", "geotol", r] => loop h { inst with p := { inst.p with geoTol := parseRat r } }
  | ["param", "voltol", r] => loop h { inst with p := { inst.p with volTol := parseRat r } }
  | ["param", "share", a, b] =>
    loop h { inst with p := { inst.p with shareRange := (parseRat a).bind fun a => (parseRat b).map fun b => (a, b) } }
  | ["param", "budget", a, b] =>
    loop h { inst with p := { inst.p with budgetRange := (parseRat a).bind fun a => (parseRat b).map fun b => (a, b) } }
  | ["param", "iroas", r] => loop h { inst with p := { inst.p with iroas := (parseRat r).getD 1 } }
  | ["param", "ndesigns", k] => loop h { inst with p := { inst.p with nDesigns := k.toNat?.getD 1 } }
  | ["param", "ngeosmax", m] => loop h { inst with ngeosmax := m.toNat? }
  | ["row", c, sh, ri] =>
    let row : GeoRow := { cls := parseCls7 c, share := (parseRat sh).getD 0, reqImpact := (parsePyFloat ri).getD .nan }
    loop h { inst with rows := inst.rows.push row }
  | "idx" :: rest => loop h { inst with idx := rest.filterMap String.toNat? }
  | ["opt", t, v] => loop h { inst with opt := inst.opt.insert (parseSet t) ((parsePyFloat v).getD .nan) }
  | ["pair", t, c, imp, s1, s2, s3, s4, s5, inv, binv] =>
    let rec5 := [s1, s2, s3, s4, s5].map fun s => (parseEntry s).getD none
    let pr : PairRec := { impact := (parsePyFloat imp).getD .nan, s5 := rec5,
                          inv := (parseEntry inv).getD none, binv := (parseEntry binv).getD none }
    loop h { inst with pairs := inst.pairs.insert (parseSet t, parseSet c) pr }
  | ["run"] => runInst inst; loop h inst
  | [] => loop h inst
  | _ => IO.println ("bad-op " ++ line.trimAscii.toString); loop h inst

def main : IO Unit := do loop (← IO.getStdin) {}
