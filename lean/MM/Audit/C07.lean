import MM.Props.C07C18
import MM.Props.MemoTie
#print axioms MM.Numeric.C07_fixed_columns
#print axioms MM.Numeric.C07_fixed_order
#print axioms MM.Numeric.C07_fixed_equivariant
#print axioms MM.Numeric.C07_scenario
#print axioms MM.Numeric.C07_scenario_signed_sum_fails
#print axioms MM.Numeric.C07_fixed_order_bundle
#print axioms MM.Numeric.quantile_nonpos
#print axioms MM.Numeric.quantile_nonneg
#print axioms MM.Memo.tie_memoised
