import MM.Props.C01Ids

#print axioms MM.Admit.canX_of_must
#print axioms MM.Admit.map_ids_nodup
#print axioms MM.Admit.map_ids_disjoint
#print axioms MM.Admit.mem_map_ids
#print axioms MM.Admit.not_mem_map_ids
#print axioms MM.Admit.canT_toGeoClass
#print axioms MM.Admit.canC_toGeoClass
#print axioms MM.Admit.C01_ids
#print axioms MM.Admit.C01_ids_spelled_out
#print axioms MM.Admit.C01_ids_exhaustive
#print axioms MM.Admit.C01_ids_greedy
#print axioms MM.Admit.legal5
#print axioms MM.Admit.sentence5
