/-
Helper lemmas for the model of tbrmmdata.py (`MM/Model/Data.lean`): rational sums, the sorted
duplicate-free date list, first-appearance geo list, cells and means, the insertion sort by
decreasing mean, aggregation.  No Mathlib imports.
-/
import MM.Model.Data
namespace MM.Data
open MM

/-! ### rational sums -/

theorem sumQ_eq_sum (l : List Rat) : sumQ l = l.sum := List.sum_eq_foldl.symm

@[simp] theorem sumQ_nil : sumQ [] = 0 := rfl
@[simp] theorem sumQ_cons (a : Rat) (l : List Rat) : sumQ (a :: l) = a + sumQ l := by
  simp [sumQ_eq_sum]
@[simp] theorem sumQ_append (l l' : List Rat) : sumQ (l ++ l') = sumQ l + sumQ l' := by
  simp [sumQ_eq_sum, List.sum_append]

theorem sumQ_perm {l l' : List Rat} (h : l.Perm l') : sumQ l = sumQ l' := by
  induction h with
  | nil => rfl
  | cons a _ ih => simp [ih]
  | swap a b l => simp only [sumQ_cons]; grind
  | trans _ _ ih1 ih2 => exact ih1.trans ih2

theorem sumQ_map_mul_left {α : Type} (c : Rat) (f : α → Rat) (l : List α) :
    sumQ (l.map fun x => c * f x) = c * sumQ (l.map f) := by
  induction l with
  | nil => simp
  | cons a l ih => simp only [List.map_cons, sumQ_cons, ih]; grind

theorem sumQ_map_div {α : Type} (T : Rat) (f : α → Rat) (l : List α) :
    sumQ (l.map fun x => f x / T) = sumQ (l.map f) / T := by
  induction l with
  | nil => simp [Rat.div_def]
  | cons a l ih => simp only [List.map_cons, sumQ_cons, ih]; grind

theorem sumQ_map_add {α : Type} (f g : α → Rat) (l : List α) :
    sumQ (l.map fun x => f x + g x) = sumQ (l.map f) + sumQ (l.map g) := by
  induction l with
  | nil => simp [Rat.add_zero]
  | cons a l ih => simp only [List.map_cons, sumQ_cons, ih]; grind

/-- mean of a list of rationals, zero for the empty list (the pattern used by `cell` and `meanOf`) -/
def meanQ (vs : List Rat) : Rat := if vs.isEmpty then 0 else sumQ vs / (vs.length : Rat)

theorem cell_eq (rows : List Obs) (g : String) (d : Nat) :
    cell rows g d = meanQ ((rows.filter fun o => o.geo == g && o.date == d).map (·.value)) := rfl

theorem meanOf_eq (rows : List Obs) (g : String) : meanOf rows g = meanQ (rowOf rows g) := rfl

theorem meanQ_perm {l l' : List Rat} (h : l.Perm l') : meanQ l = meanQ l' := by
  have hl := h.length_eq
  have hs := sumQ_perm h
  simp only [meanQ, List.isEmpty_iff_length_eq_zero, hl, hs]

theorem meanQ_map_mul (c : Rat) (l : List Rat) : meanQ (l.map (c * ·)) = c * meanQ l := by
  unfold meanQ
  cases l with
  | nil => simp
  | cons a l =>
    have := sumQ_map_mul_left c (fun x => x) (a :: l)
    simp only [List.map_id'] at this
    simp only [List.isEmpty_cons, Bool.false_eq_true, if_false, this, List.length_map]
    grind

/-! ### the date list -/

theorem mem_insertNat (a x : Nat) (l : List Nat) : x ∈ insertNat a l ↔ x = a ∨ x ∈ l := by
  induction l with
  | nil => simp [insertNat]
  | cons b l ih =>
    simp only [insertNat]
    split
    · simp
    · split
      · subst_vars; simp
      · simp only [List.mem_cons, ih]; grind

theorem sorted_insertNat (a : Nat) (l : List Nat) (h : l.Pairwise (· < ·)) :
    (insertNat a l).Pairwise (· < ·) := by
  induction l with
  | nil => simp [insertNat]
  | cons b l ih =>
    rw [List.pairwise_cons] at h
    simp only [insertNat]
    split
    · rename_i hab
      refine List.pairwise_cons.2 ⟨?_, List.pairwise_cons.2 h⟩
      intro x hx
      rcases List.mem_cons.1 hx with rfl | hx
      · exact hab
      · exact Nat.lt_trans hab (h.1 x hx)
    · split
      · exact List.pairwise_cons.2 h
      · refine List.pairwise_cons.2 ⟨?_, ih h.2⟩
        intro x hx
        rcases (mem_insertNat a x l).1 hx with rfl | hx
        · omega
        · exact h.1 x hx

theorem mem_datesOf (rows : List Obs) (d : Nat) : d ∈ datesOf rows ↔ ∃ o ∈ rows, o.date = d := by
  induction rows with
  | nil => simp [datesOf]
  | cons o rows ih =>
    have : datesOf (o :: rows) = insertNat o.date (datesOf rows) := rfl
    rw [this, mem_insertNat, ih]
    simp only [List.mem_cons, exists_eq_or_imp]
    grind

theorem sorted_datesOf (rows : List Obs) : (datesOf rows).Pairwise (· < ·) := by
  induction rows with
  | nil => simp [datesOf]
  | cons o rows ih => exact sorted_insertNat _ _ ih

/-- a strictly increasing list is determined by its members -/
theorem sorted_unique {l l' : List Nat} (h : l.Pairwise (· < ·)) (h' : l'.Pairwise (· < ·))
    (hm : ∀ x, x ∈ l ↔ x ∈ l') : l = l' := by
  have nd : l.Nodup := h.imp (fun hab => Nat.ne_of_lt hab)
  have nd' : l'.Nodup := h'.imp (fun hab => Nat.ne_of_lt hab)
  refine List.Perm.eq_of_pairwise (le := (· < ·)) ?_ h h' ((List.perm_ext_iff_of_nodup nd nd').2 hm)
  intro a b _ _ h1 h2
  omega

theorem datesOf_perm {rows rows' : List Obs} (h : rows.Perm rows') : datesOf rows' = datesOf rows := by
  apply sorted_unique (sorted_datesOf _) (sorted_datesOf _)
  intro x
  simp only [mem_datesOf]
  constructor
  · rintro ⟨o, ho, rfl⟩; exact ⟨o, h.mem_iff.2 ho, rfl⟩
  · rintro ⟨o, ho, rfl⟩; exact ⟨o, h.mem_iff.1 ho, rfl⟩

theorem datesOf_map_date (rows : List Obs) (f : Nat → Nat) (hf : ∀ a b, a < b → f a < f b) :
    datesOf (rows.map fun o => { o with date := f o.date }) = (datesOf rows).map f := by
  apply sorted_unique (sorted_datesOf _)
  · rw [List.pairwise_map]
    exact (sorted_datesOf rows).imp (fun hab => hf _ _ hab)
  · intro x
    simp only [mem_datesOf, List.mem_map]
    constructor
    · rintro ⟨o, ⟨o', ho', rfl⟩, rfl⟩; exact ⟨o'.date, ⟨o', ho', rfl⟩, rfl⟩
    · rintro ⟨d, ⟨o, ho, rfl⟩, rfl⟩; exact ⟨_, ⟨o, ho, rfl⟩, rfl⟩

theorem datesOf_map_value (rows : List Obs) (f : Obs → Rat) :
    datesOf (rows.map fun o => { o with value := f o }) = datesOf rows := by
  induction rows with
  | nil => rfl
  | cons o rows ih =>
    show insertNat _ (datesOf (rows.map _)) = insertNat _ (datesOf rows)
    rw [ih]

theorem strictMono_inj (f : Nat → Nat) (hf : ∀ a b, a < b → f a < f b) (a b : Nat) : f a = f b ↔ a = b := by
  constructor
  · intro h
    rcases Nat.lt_trichotomy a b with h1 | h1 | h1
    · have := hf _ _ h1; omega
    · exact h1
    · have := hf _ _ h1; omega
  · rintro rfl; rfl

/-! ### the geo list -/

theorem nodup_eraseDups : (l : List String) → l.eraseDups.Nodup
  | [] => by simp
  | a :: as => by
    rw [List.eraseDups_cons, List.nodup_cons]
    refine ⟨?_, nodup_eraseDups _⟩
    simp [List.mem_eraseDups]
  termination_by l => l.length
  decreasing_by
    simp only [List.length_cons]
    exact Nat.lt_succ_of_le (List.length_filter_le _ _)

theorem nodup_geosOf (rows : List Obs) : (geosOf rows).Nodup := nodup_eraseDups _

theorem mem_geosOf (rows : List Obs) (g : String) : g ∈ geosOf rows ↔ ∃ o ∈ rows, o.geo = g := by
  simp [geosOf, List.mem_eraseDups]

theorem geosOf_perm {rows rows' : List Obs} (h : rows.Perm rows') : (geosOf rows').Perm (geosOf rows) := by
  rw [List.perm_ext_iff_of_nodup (nodup_geosOf _) (nodup_geosOf _)]
  intro g
  simp only [mem_geosOf]
  constructor
  · rintro ⟨o, ho, rfl⟩; exact ⟨o, h.mem_iff.2 ho, rfl⟩
  · rintro ⟨o, ho, rfl⟩; exact ⟨o, h.mem_iff.1 ho, rfl⟩

/-! ### cells, rows, means -/

theorem cell_perm {rows rows' : List Obs} (h : rows.Perm rows') (g : String) (d : Nat) :
    cell rows' g d = cell rows g d := by
  rw [cell_eq, cell_eq]
  exact meanQ_perm ((h.symm.filter _).map _)

theorem cell_missing (rows : List Obs) (g : String) (d : Nat)
    (h : ∀ o ∈ rows, ¬ (o.geo = g ∧ o.date = d)) : cell rows g d = 0 := by
  have : (rows.filter fun o => o.geo == g && o.date == d) = [] := by
    rw [List.filter_eq_nil_iff]
    intro o ho
    simpa using h o ho
  rw [cell_eq, this]
  rfl

theorem rowOf_perm {rows rows' : List Obs} (h : rows.Perm rows') (g : String) : rowOf rows' g = rowOf rows g := by
  unfold rowOf
  rw [datesOf_perm h]
  exact List.map_congr_left (fun d _ => cell_perm h g d)

theorem meanOf_perm {rows rows' : List Obs} (h : rows.Perm rows') (g : String) : meanOf rows' g = meanOf rows g := by
  rw [meanOf_eq, meanOf_eq, rowOf_perm h]

theorem cell_map_date (rows : List Obs) (f : Nat → Nat) (hf : ∀ a b, a < b → f a < f b) (g : String) (d : Nat) :
    cell (rows.map fun o => { o with date := f o.date }) g (f d) = cell rows g d := by
  rw [cell_eq, cell_eq, List.filter_map, List.map_map]
  congr 1
  have : ((fun o : Obs => o.geo == g && o.date == f d) ∘ fun o : Obs => { o with date := f o.date })
      = fun o : Obs => o.geo == g && o.date == d := by
    funext o
    simp only [Function.comp]
    have := strictMono_inj f hf o.date d
    grind
  rw [this]
  rfl

theorem rowOf_map_date (rows : List Obs) (f : Nat → Nat) (hf : ∀ a b, a < b → f a < f b) (g : String) :
    rowOf (rows.map fun o => { o with date := f o.date }) g = rowOf rows g := by
  unfold rowOf
  rw [datesOf_map_date rows f hf, List.map_map]
  exact List.map_congr_left (fun d _ => cell_map_date rows f hf g d)

theorem meanOf_map_date (rows : List Obs) (f : Nat → Nat) (hf : ∀ a b, a < b → f a < f b) (g : String) :
    meanOf (rows.map fun o => { o with date := f o.date }) g = meanOf rows g := by
  rw [meanOf_eq, meanOf_eq, rowOf_map_date rows f hf]

theorem cell_scale (rows : List Obs) (c : Rat) (g : String) (d : Nat) :
    cell (rows.map fun o => { o with value := c * o.value }) g d = c * cell rows g d := by
  rw [cell_eq, cell_eq, List.filter_map, List.map_map, ← meanQ_map_mul, List.map_map]
  rfl

theorem rowOf_scale (rows : List Obs) (c : Rat) (g : String) :
    rowOf (rows.map fun o => { o with value := c * o.value }) g = (rowOf rows g).map (c * ·) := by
  unfold rowOf
  rw [datesOf_map_value rows (fun o => c * o.value), List.map_map]
  exact List.map_congr_left (fun d _ => cell_scale rows c g d)

theorem meanOf_scale (rows : List Obs) (c : Rat) (g : String) :
    meanOf (rows.map fun o => { o with value := c * o.value }) g = c * meanOf rows g := by
  rw [meanOf_eq, meanOf_eq, rowOf_scale, meanQ_map_mul]

/-! ### the row order -/

theorem insertByMean_perm (rows : List Obs) (g : String) (l : List String) :
    (insertByMean rows g l).Perm (g :: l) := by
  induction l with
  | nil => simp [insertByMean]
  | cons h t ih =>
    simp only [insertByMean]
    split
    · exact List.Perm.refl _
    · exact ((List.Perm.cons h ih).trans (List.Perm.swap g h t))

theorem insertByMean_sorted (rows : List Obs) (g : String) (l : List String)
    (hs : l.Pairwise (fun a b => meanOf rows b ≤ meanOf rows a)) :
    (insertByMean rows g l).Pairwise (fun a b => meanOf rows b ≤ meanOf rows a) := by
  induction l with
  | nil => simp [insertByMean]
  | cons h t ih =>
    rw [List.pairwise_cons] at hs
    simp only [insertByMean]
    split
    · rename_i hlt
      refine List.pairwise_cons.2 ⟨?_, List.pairwise_cons.2 hs⟩
      intro x hx
      rcases List.mem_cons.1 hx with rfl | hx
      · grind
      · have := hs.1 x hx; grind
    · rename_i hlt
      refine List.pairwise_cons.2 ⟨?_, ih hs.2⟩
      intro x hx
      rcases List.mem_cons.1 ((insertByMean_perm rows g t).mem_iff.1 hx) with rfl | hx
      · grind
      · exact hs.1 x hx

/-- `order` with an arbitrary initial accumulator -/
def orderFrom (rows : List Obs) (l acc : List String) : List String :=
  l.foldl (fun acc g => insertByMean rows g acc) acc

theorem order_eq (rows : List Obs) : order rows = orderFrom rows (geosOf rows) [] := rfl

theorem orderFrom_perm (rows : List Obs) (l acc : List String) : (orderFrom rows l acc).Perm (l ++ acc) := by
  induction l generalizing acc with
  | nil => exact List.Perm.refl _
  | cons g l ih =>
    show (orderFrom rows l (insertByMean rows g acc)).Perm _
    refine (ih _).trans ?_
    refine ((insertByMean_perm rows g acc).append_left l).trans ?_
    simp

theorem orderFrom_sorted (rows : List Obs) (l acc : List String)
    (hs : acc.Pairwise (fun a b => meanOf rows b ≤ meanOf rows a)) :
    (orderFrom rows l acc).Pairwise (fun a b => meanOf rows b ≤ meanOf rows a) := by
  induction l generalizing acc with
  | nil => exact hs
  | cons g l ih => exact ih _ (insertByMean_sorted rows g acc hs)

theorem order_perm (rows : List Obs) : (order rows).Perm (geosOf rows) := by
  simpa [order_eq] using orderFrom_perm rows (geosOf rows) []

theorem order_sorted (rows : List Obs) : (order rows).Pairwise (fun a b => meanOf rows b ≤ meanOf rows a) :=
  orderFrom_sorted rows _ [] List.Pairwise.nil

theorem nodup_order (rows : List Obs) : (order rows).Nodup :=
  (order_perm rows).nodup_iff.2 (nodup_geosOf rows)

theorem mem_order (rows : List Obs) (g : String) : g ∈ order rows ↔ ∃ o ∈ rows, o.geo = g := by
  rw [(order_perm rows).mem_iff, mem_geosOf]

/-- the insertion only looks at comparisons of means -/
theorem insertByMean_congr (rows rows' : List Obs)
    (h : ∀ a b, meanOf rows' a < meanOf rows' b ↔ meanOf rows a < meanOf rows b) (g : String) (l : List String) :
    insertByMean rows' g l = insertByMean rows g l := by
  induction l with
  | nil => rfl
  | cons x t ih => simp only [insertByMean, h, ih]

theorem order_congr (rows rows' : List Obs)
    (h : ∀ a b, meanOf rows' a < meanOf rows' b ↔ meanOf rows a < meanOf rows b)
    (hg : geosOf rows' = geosOf rows) : order rows' = order rows := by
  have : insertByMean rows' = insertByMean rows := by
    funext g l; exact insertByMean_congr rows rows' h g l
  unfold order
  rw [this, hg]

/-- with pairwise distinct means the order is strict -/
theorem order_strict (rows : List Obs)
    (hd : ∀ g1 ∈ geosOf rows, ∀ g2 ∈ geosOf rows, g1 ≠ g2 → meanOf rows g1 ≠ meanOf rows g2) :
    (order rows).Pairwise (fun a b => meanOf rows b < meanOf rows a) := by
  refine ((order_sorted rows).and (nodup_order rows)).imp_of_mem ?_
  intro a b ha hb hab
  have ha' := (order_perm rows).mem_iff.1 ha
  have hb' := (order_perm rows).mem_iff.1 hb
  have := hd a ha' b hb' hab.2
  grind

theorem order_of_perm {rows rows' : List Obs} (h : rows.Perm rows')
    (hd : ∀ g1 ∈ geosOf rows, ∀ g2 ∈ geosOf rows, g1 ≠ g2 → meanOf rows g1 ≠ meanOf rows g2) :
    order rows' = order rows := by
  have hm : meanOf rows' = meanOf rows := funext (meanOf_perm h)
  have hgp := geosOf_perm h
  have hd' : ∀ g1 ∈ geosOf rows', ∀ g2 ∈ geosOf rows', g1 ≠ g2 → meanOf rows' g1 ≠ meanOf rows' g2 := by
    intro g1 h1 g2 h2 hne
    rw [hm]
    exact hd g1 (hgp.mem_iff.1 h1) g2 (hgp.mem_iff.1 h2) hne
  have s' := order_strict rows' hd'
  rw [hm] at s'
  refine List.Perm.eq_of_pairwise (le := fun a b => meanOf rows b < meanOf rows a) ?_ s' (order_strict rows hd)
    (((order_perm rows').trans hgp).trans (order_perm rows).symm)
  intro a b _ _ h1 h2
  grind

/-! ### aggregation -/

theorem length_seriesOf (t : Table) (g : String) (hshape : ∀ r ∈ t.cells, r.length = t.dates.length) :
    (seriesOf t g).length = t.dates.length := by
  unfold seriesOf
  split
  · rename_i i _
    rw [List.getD_eq_getElem?_getD]
    cases hi : t.cells[i]? with
    | none => simp [zeros]
    | some r => exact hshape r (List.mem_of_getElem? hi)
  · simp [zeros]

theorem length_addRows (a b : List Rat) (n : Nat) (ha : a.length = n) (hb : b.length = n) :
    (addRows a b).length = n := by
  simp [addRows, ha, hb]

theorem getD_addRows (a b : List Rat) (n j : Nat) (ha : a.length = n) (hb : b.length = n) (hj : j < n) :
    (addRows a b).getD j 0 = a.getD j 0 + b.getD j 0 := by
  have h1 : j < a.length := by omega
  have h2 : j < b.length := by omega
  simp [addRows, List.getD_eq_getElem?_getD, List.getElem?_zipWith, h1, h2]

/-- fold of `addRows` over rows of a common length -/
def addFold (f : Nat → List Rat) (s : List Nat) (acc : List Rat) : List Rat :=
  s.foldl (fun acc i => addRows acc (f i)) acc

theorem aggregateSeries_eq (t : Table) (idx : List String) (s : List Nat) :
    aggregateSeries t idx s = addFold (fun i => seriesOf t (idx.getD i "")) s (zeros t.dates.length) := rfl

theorem length_addFold (f : Nat → List Rat) (n : Nat) (hf : ∀ i, (f i).length = n) (s : List Nat) (acc : List Rat)
    (hacc : acc.length = n) : (addFold f s acc).length = n := by
  induction s generalizing acc with
  | nil => exact hacc
  | cons i s ih => exact ih _ (length_addRows _ _ n hacc (hf i))

theorem getD_addFold (f : Nat → List Rat) (n : Nat) (hf : ∀ i, (f i).length = n) (s : List Nat) (acc : List Rat)
    (hacc : acc.length = n) (j : Nat) (hj : j < n) :
    (addFold f s acc).getD j 0 = acc.getD j 0 + sumQ (s.map fun i => (f i).getD j 0) := by
  induction s generalizing acc with
  | nil => simp [addFold, Rat.add_zero]
  | cons i s ih =>
    show (addFold f s (addRows acc (f i))).getD j 0 = _
    rw [ih _ (length_addRows _ _ n hacc (hf i)), getD_addRows _ _ n j hacc (hf i) hj]
    simp only [List.map_cons, sumQ_cons]
    grind

theorem ext_getD (a b : List Rat) (n : Nat) (ha : a.length = n) (hb : b.length = n)
    (h : ∀ j, j < n → a.getD j 0 = b.getD j 0) : a = b := by
  apply List.ext_getElem (by omega)
  intro j h1 h2
  have := h j (by omega)
  simpa [List.getD_eq_getElem?_getD, List.getElem?_eq_getElem, h1, h2] using this

theorem length_aggregateSeries (t : Table) (idx : List String) (s : List Nat)
    (hshape : ∀ r ∈ t.cells, r.length = t.dates.length) : (aggregateSeries t idx s).length = t.dates.length := by
  rw [aggregateSeries_eq]
  exact length_addFold _ _ (fun i => length_seriesOf t _ hshape) s _ (by simp [zeros])

theorem getD_aggregateSeries (t : Table) (idx : List String) (s : List Nat) (j : Nat) (hj : j < t.dates.length)
    (hshape : ∀ r ∈ t.cells, r.length = t.dates.length) :
    (aggregateSeries t idx s).getD j 0 = sumQ (s.map fun i => (seriesOf t (idx.getD i "")).getD j 0) := by
  rw [aggregateSeries_eq, getD_addFold _ _ (fun i => length_seriesOf t _ hshape) s _ (by simp [zeros]) j hj]
  simp [zeros, List.getD_eq_getElem?_getD, hj, Rat.zero_add]

end MM.Data
