/-
Model of matched_markets/methodology/tbrmatchedmarkets.py: size ranges, group
generators, count_max_designs, exhaustive_search, design_within_constraints,
greedy_search.  Everything the data contributes enters through `Env` (function
parameters), so theorems quantify over all panels.  No Mathlib imports.
-/
import MM.Model.Basic
import MM.Model.HeapDict
import MM.Generated.ConstsGen
namespace MM.Search
open MM

/-- eligibility class of an *admitted* geo (x_fixed geos are never admitted). -/
inductive GeoClass | cFixed | tFixed | ct | cx | tx | ctx
deriving DecidableEq, Repr, Inhabited

def GeoClass.canT : GeoClass → Bool | .tFixed | .ct | .tx | .ctx => true | _ => false
def GeoClass.canC : GeoClass → Bool | .cFixed | .ct | .cx | .ctx => true | _ => false
def GeoClass.canX : GeoClass → Bool | .cx | .tx | .ctx => true | _ => false

structure Params where
  trtRange : Option (Int × Int) := none
  ctlRange : Option (Int × Int) := none
  geoTol : Option Rat := none
  volTol : Option Rat := none
  shareRange : Option (Rat × Rat) := none
  budgetRange : Option (Rat × Rat) := none
  iroas : Rat := 1
  nDesigns : Nat := 1

/-- numpy float division `a / b` of finite values (no exception; inf/nan on zero). -/
def pyDiv (a b : Rat) : PyFloat :=
  if b = 0 then (if a > 0 then .pinf else if a < 0 then .ninf else .nan) else .fin (a / b)

def pyDivF (a : PyFloat) (b : Rat) : PyFloat :=
  match a with
  | .fin q => pyDiv q b
  | .nan => .nan
  | .pinf => if b < 0 then .ninf else .pinf       -- inf/0.0 = inf in numpy (b ≥ 0 here)
  | .ninf => if b < 0 then .pinf else .ninf

/-- `_constraint_not_satisfied` (generated from the source): `(v < lo) | (v > hi)`; NaN satisfies everything. -/
def notSat (v : PyFloat) (lo hi : Rat) : Bool := MM.Gen.Consts.constraintNotSatisfied v lo hi

structure Env where
  cls : List GeoClass                       -- admitted geos in geo_index order
  share : Nat → Rat                         -- geo_share[geo_index[i]]
  optImpact : GeoSet → PyFloat              -- estimate_required_impact(rho_max) of the aggregate of T
  impact : GeoSet → GeoSet → PyFloat        -- required_impact of (T, C)
  score5 : GeoSet → GeoSet → Score          -- corr_test, aa, bb, dw, round(corr, 2)
  invImpact : GeoSet → GeoSet → Option Rat  -- 1 / required_impact
  budgetInv : GeoSet → GeoSet → Option Rat  -- 1 / (required_impact / budget_range[1])

def Env.n (e : Env) : Nat := e.cls.length
def Env.idx (e : Env) (pr : GeoClass → Bool) : GeoSet :=
  (List.range e.cls.length).filter fun i => match e.cls[i]? with | some c => pr c | none => false

def Env.all (e : Env) : GeoSet := List.range e.cls.length
def Env.canT (e : Env) : GeoSet := e.idx GeoClass.canT
def Env.canC (e : Env) : GeoSet := e.idx GeoClass.canC
def Env.canX (e : Env) : GeoSet := e.idx GeoClass.canX
def Env.tFixed (e : Env) : GeoSet := e.idx (· == .tFixed)
def Env.cFixed (e : Env) : GeoSet := e.idx (· == .cFixed)
def Env.ct (e : Env) : GeoSet := e.idx (· == .ct)

def shareOf (e : Env) (s : GeoSet) : Rat := (s.map e.share).sum

/-- `range(lo, hi+1)` with `lo ≥ 1`, as naturals. -/
def natRangeIncl (lo hi : Int) : List Nat := (pyRangeIncl lo hi).map Int.toNat

/-- `treatment_group_size_range()` -/
def trtSizeRange (p : Params) (e : Env) : List Nat :=
  let nMin : Int := max 1 (e.tFixed.length : Int)
  let nMax0 : Int := (e.canT.length : Int)
  let nMax : Int := if (e.idx fun c => c == .cx || c == .cFixed).isEmpty then nMax0 - 1 else nMax0
  let (lo, hi) : Int × Int := match p.trtRange with
    | none => (nMin, nMax)
    | some (a, b) => (max a nMin, min b nMax)
  natRangeIncl lo hi

/-- `_control_group_size_generator(n_treatment_geos)` -/
def ctlSizes (p : Params) (e : Env) (nT : Nat) : List Nat :=
  let nMin : Int := max 1 (e.cFixed.length : Int)
  let nMax : Int := (e.canC.length : Int)
  let (lo, hi) : Int × Int := match p.ctlRange with
    | none => (nMin, nMax)
    | some (a, b) => (max a nMin, min b nMax)
  let sizes := natRangeIncl lo hi
  match p.geoTol with
  | none => sizes
  | some τ => sizes.filter fun m =>
      let r : Rat := (m : Rat) / (nT : Rat)
      decide (r ≥ 1 / (1 + τ)) && decide (r ≤ 1 + τ)

/-- `treatment_group_generator(n)` for `n ≥ 1`. -/
def trtGroups (e : Env) (n : Nat) : List GeoSet :=
  let tF := e.tFixed
  let vary := diffSet e.canT tF
  if n < tF.length then [] else
  let r := n - tF.length
  if r == 0 then (if tF.isEmpty then [] else [tF]) else (combos r vary).map (unionSet tF)

def fixedCtl (e : Env) (T : GeoSet) : GeoSet := unionSet e.cFixed (diffSet e.ct T)
def varyCtl (e : Env) (T : GeoSet) : GeoSet := diffSet (diffSet e.canC T) (fixedCtl e T)

/-- `control_group_generator(T)` for a non-empty `T ⊆ canT`. -/
def ctlGroups (p : Params) (e : Env) (T : GeoSet) : List GeoSet :=
  let fixedC := fixedCtl e T
  let vary := varyCtl e T
  (ctlSizes p e T.length).flatMap fun m =>
    if m < fixedC.length then [] else
    let r := m - fixedC.length
    if r == 0 then (if fixedC.isEmpty then [] else [fixedC]) else (combos r vary).map (unionSet fixedC)

/-- `comb(n, k, exact=True)` -/
def choose : Nat → Nat → Nat
  | _, 0 => 1
  | 0, _+1 => 0
  | n+1, k+1 => choose n k + choose n (k+1)

def countCls (e : Env) (c : GeoClass) : Nat := (e.cls.filter (· == c)).length

/-- `count_max_designs()`: the five nested loops, verbatim. -/
def countMaxDesigns (p : Params) (e : Env) : Nat :=
  let nTF := countCls e .tFixed; let nCF := countCls e .cFixed
  let nCX := countCls e .cx; let nTX := countCls e .tx
  let nCT := countCls e .ct; let nCTX := countCls e .ctx
  let trtSizes := trtSizeRange p e
  ((List.range (1 + nCT)).map fun iCT =>
    ((List.range (1 + nTX)).map fun iTX =>
      ((List.range (1 + nCTX)).map fun iCTX =>
        let nTrt := nTF + iTX + iCTX + iCT
        if trtSizes.contains nTrt then
          let ctlS := ctlSizes p e nTrt
          ((List.range (1 + nCX)).map fun iCX =>
            ((List.range (1 + nCTX - iCTX)).map fun iCCTX =>
              let nCtl := nCF + iCX + iCCTX + (nCT - iCT)
              if ctlS.contains nCtl then
                choose nCT iCT * choose nTX iTX * choose nCTX iCTX * choose nCX iCX
                  * choose (nCTX - iCTX) iCCTX
              else 0).sum).sum
        else 0).sum).sum).sum

/-- the (treatment, control) pairs the two generators list over all admissible sizes. -/
def designsListing (p : Params) (e : Env) : List (GeoSet × GeoSet) :=
  (trtSizeRange p e).flatMap fun n =>
    (trtGroups e n).flatMap fun T => (ctlGroups p e T).map fun C => (T, C)

structure Design where
  T : GeoSet
  C : GeoSet
  score : Score
deriving Repr, DecidableEq

def Design.lt (a b : Design) : Bool := scoreLt a.score b.score

/-- `TBRMMDesign.__post_init__` accepts the pair. -/
def ctorOk (T C : GeoSet) : Bool := !T.isEmpty && !C.isEmpty && (interSet T C).isEmpty

def patSkip (pats : List GeoSet) (T : GeoSet) : Bool := pats.any fun q => subsetSet q T

inductive TrtVerdict | skip | record | go
deriving DecidableEq, Repr

/-- lines 353-378 of exhaustive_search for one treatment group. -/
def trtVerdict (p : Params) (e : Env) (isLast : Bool) (pats : List GeoSet) (T : GeoSet) : TrtVerdict :=
  let ts := shareOf e T
  let shareBad := match p.shareRange with
    | some (lo, hi) => decide (ts > hi) || decide (ts < lo)
    | none => patSkip pats T
  if shareBad then .skip else
  match p.budgetRange with
  | none => .go
  | some (lo, hi) =>
    let ob := pyDivF (e.optImpact T) p.iroas
    if PyFloat.lt (.fin hi) ob then (if isLast then .go else .record)
    else if PyFloat.lt ob (.fin lo) then .skip else .go

/-- lines 381-392: volume-ratio and budget tests of one (T, C). -/
def ctlOk (p : Params) (e : Env) (T C : GeoSet) : Bool :=
  (match p.volTol with
    | none => true
    | some τ =>
      let r := pyDiv (shareOf e C) (shareOf e T)
      !(PyFloat.lt (.fin (1 + τ)) r || PyFloat.lt r (.fin (1 / (1 + τ))))) &&
  (match p.budgetRange with
    | none => true
    | some (lo, hi) => !notSat (pyDivF (e.impact T C) p.iroas) lo hi)

def mkDesign (p : Params) (e : Env) (T C : GeoSet) : Design :=
  { T := T, C := C,
    score := e.score5 T C ++ [if p.budgetRange.isSome then e.budgetInv T C else e.invImpact T C] }

abbrev ExhState := List GeoSet × List Design      -- (skip patterns, push log)

def stepTrt (p : Params) (e : Env) (isLast : Bool) (st : ExhState) (T : GeoSet) : ExhState :=
  match trtVerdict p e isLast st.1 T with
  | .skip => st
  | .record => (st.1 ++ [T], st.2)
  | .go => (st.1, st.2 ++ ((ctlGroups p e T).filter (ctlOk p e T)).map (mkDesign p e T))

def stepSize (p : Params) (e : Env) (last : Nat) (st : ExhState) (n : Nat) : ExhState :=
  (trtGroups e n).foldl (stepTrt p e (n == last)) st

/-- the designs pushed to the queue, in push order. (Repaired tree: an empty
treatment size range gives no designs instead of `IndexError`.) -/
def evaluatedRaw (p : Params) (e : Env) : List Design :=
  let sizes := trtSizeRange p e
  match sizes.getLast? with
  | none => []
  | some last => (sizes.foldl (stepSize p e last) ([], [])).2

def evaluated (p : Params) (e : Env) : Py (List Design) :=
  let raw := evaluatedRaw p e
  if raw.all (fun d => ctorOk d.T d.C) then .ok raw else .error .valueError

/-- top-k through the bounded queue (key 0), best first. -/
def topK (k : Nat) (ds : List Design) : List Design :=
  HeapDict.resultFor (HeapDict.pushAll Design.lt (HeapDict.init k) (ds.map fun d => ((0 : Nat), d))) 0

def exhaustive (p : Params) (e : Env) : Py (List Design) := do
  let ev ← evaluated p e
  pure (topK p.nDesigns ev)

/-! ### design_within_constraints and greedy_search -/

/-- the size ranges greedy_search fills in when the user left them unspecified. -/
def effTrtRange (p : Params) (e : Env) : Int × Int :=
  match p.trtRange with
  | some r => r
  | none =>
    let nT : Int := e.canT.length
    let rem : Int := (e.n : Int) - nT
    (1, if rem == 0 then nT - 1 else nT)

def effCtlRange (p : Params) (e : Env) : Int × Int :=
  match p.ctlRange with
  | some r => r
  | none =>
    let nC : Int := e.canC.length
    let rem : Int := (e.n : Int) - nC
    (1, if rem == 0 then nC - 1 else nC)

def greedyParams (p : Params) (e : Env) : Params :=
  { p with trtRange := some (effTrtRange p e), ctlRange := some (effCtlRange p e) }

def ratioBad (v : PyFloat) (tol : Rat) : Bool := notSat v (1 / (1 + tol)) (1 + tol)

def intBad (n : Nat) (r : Int × Int) : Bool := decide ((n : Int) < r.1) || decide ((n : Int) > r.2)

/-- `design_within_constraints` (repaired tree: an empty group is not within constraints). -/
def withinConstraints (p : Params) (e : Env) (T C : GeoSet) : Bool :=
  if T.isEmpty || C.isEmpty then false else
  (match p.volTol with
    | none => true | some τ => !ratioBad (pyDiv (shareOf e C) (shareOf e T)) τ) &&
  (match p.geoTol with
    | none => true | some τ => !ratioBad (.fin ((C.length : Rat) / (T.length : Rat))) τ) &&
  (match p.shareRange with
    | none => true | some (lo, hi) => !notSat (pyDiv (shareOf e T) (shareOf e e.all)) lo hi) &&
  (match p.trtRange with | none => true | some r => !intBad T.length r) &&
  (match p.ctlRange with | none => true | some r => !intBad C.length r)

def budgetBad (p : Params) (e : Env) (T C : GeoSet) : Bool :=
  match p.budgetRange with
  | none => false
  | some (lo, hi) => notSat (pyDivF (e.impact T C) p.iroas) lo hi

def fullScore (e : Env) (T C : GeoSet) : Score := e.score5 T C ++ [e.invImpact T C]
def zeroScore : Score := [some 0, some 0, some 0, some 0, some 0, some 0]

def dictGet (d : List (Nat × GeoSet)) (k : Nat) : GeoSet :=
  match d.find? (·.1 == k) with | some (_, v) => v | none => []
def dictSet (d : List (Nat × GeoSet)) (k : Nat) (v : GeoSet) : List (Nat × GeoSet) :=
  if d.any (·.1 == k) then d.map (fun kv => if kv.1 == k then (k, v) else kv) else d ++ [(k, v)]
def dictPop (d : List (Nat × GeoSet)) (k : Nat) : List (Nat × GeoSet) := d.filter (·.1 != k)

structure GState where
  k : Nat
  needs : Bool
  ctl : GeoSet
  starTrt : List (Nat × GeoSet)
  starCtl : List (Nat × GeoSet)
deriving Repr

/-- the per-move gate: constraints are only tested once the treatment group has reached
its minimum size and the candidate control group does not exceed its maximum. -/
def gated (gp : Params) (e : Env) (k : Nat) (C : GeoSet) : Bool :=
  decide ((k : Int) ≥ (effTrtRange gp e).1) && decide ((C.length : Int) ≤ (effCtlRange gp e).2)

/-- is the candidate (T, C) rejected before scoring? -/
def candRejected (gp : Params) (e : Env) (k : Nat) (T C : GeoSet) : Bool :=
  (gated gp e k C && (C.isEmpty || !withinConstraints gp e T C)) || budgetBad gp e T C

/-- one pass of the control-matching phase for treatment group `T`. -/
def matchPass (gp : Params) (e : Env) (k : Nat) (T ctl : GeoSet) : GeoSet × Score :=
  let rControl := diffSet e.canC (unionSet ctl T)
  let rUnassigned := diffSet (interSet ctl e.canX) T
  let reassignable := unionSet rControl rUnassigned
  reassignable.foldl (fun (acc : GeoSet × Score) g =>
      let nb := toggleSet ctl g
      if candRejected gp e k T nb then acc else
      let s := fullScore e T nb
      if scoreLt acc.2 s then (nb, s) else acc) (ctl, fullScore e T ctl)

/-- one pass of the treatment-augmentation phase. -/
def addPass (gp : Params) (e : Env) (k : Nat) (T Cstar ctl : GeoSet) : GeoSet × GeoSet × Score :=
  (diffSet e.canT T).foldl (fun (acc : GeoSet × GeoSet × Score) g =>
      let aug := insertSet g T
      let upd := diffSet Cstar [g]
      if candRejected gp e k aug upd then acc else
      let s := fullScore e aug upd
      if scoreLt acc.2.2 s then (upd, aug, s) else acc) (ctl, T, zeroScore)

def greedyStep (gp : Params) (e : Env) (st : GState) : GState :=
  let T := dictGet st.starTrt st.k
  if st.needs then
    let (tmp, cur) := matchPass gp e st.k T st.ctl
    if scoreLt (fullScore e T st.ctl) cur then { st with ctl := tmp }
    else { st with starCtl := dictSet st.starCtl st.k tmp, needs := false }
  else
    let (ctl', trt', _) := addPass gp e st.k T (dictGet st.starCtl st.k) st.ctl
    { st with ctl := ctl', starTrt := dictSet st.starTrt (st.k + 1) trt', k := st.k + 1, needs := true }

def greedyRunning (gp : Params) (e : Env) (st : GState) : Bool :=
  decide ((st.k : Int) < (effTrtRange gp e).2) || st.needs

def greedyLoop (gp : Params) (e : Env) : Nat → GState → Option GState
  | 0, st => if greedyRunning gp e st then none else some st
  | fuel+1, st => if greedyRunning gp e st then greedyLoop gp e fuel (greedyStep gp e st) else some st

def greedyInit (e : Env) : GState :=
  let k0 := e.tFixed.length
  { k := k0, needs := k0 != 0, ctl := e.canC,
    starTrt := [(k0, e.tFixed)], starCtl := if k0 == 0 then [(k0, e.canC)] else [] }

/-- the post-loop bookkeeping: the kappa_0 block, dropping key 0, the final filter. -/
def greedyFinal (gp : Params) (e : Env) (st : GState) : List Design :=
  let k0 := e.tFixed.length
  let T0 := dictGet st.starTrt k0
  let C0 := dictGet st.starCtl k0
  let drop0 := k0 != 0 && (C0.isEmpty || !withinConstraints gp e T0 C0) && budgetBad gp e T0 C0
  let trt := dictPop (if drop0 then dictPop st.starTrt k0 else st.starTrt) 0
  let ctl := dictPop (if drop0 then dictPop st.starCtl k0 else st.starCtl) 0
  (trt.filter fun kv => withinConstraints gp e kv.2 (dictGet ctl kv.1)
                        && !budgetBad gp e kv.2 (dictGet ctl kv.1)).map fun kv =>
    { T := kv.2, C := dictGet ctl kv.1, score := fullScore e kv.2 (dictGet ctl kv.1) }

/-- `greedy_search()`; `none` = out of fuel. -/
def greedyFuel (fuel : Nat) (p : Params) (e : Env) : Option (Py (List Design)) :=
  let gp := greedyParams p e
  match greedyLoop gp e fuel (greedyInit e) with
  | none => none
  | some st =>
    let ds := greedyFinal gp e st
    some (if ds.all (fun d => ctorOk d.T d.C) then .ok (topK p.nDesigns ds) else .error .valueError)

end MM.Search
