/-
C04 (part): the time series a design's diagnostics hold are, for every date of the analysis window
(the most recent `n` dates of the data), the sums over the design's geos of the geo's cell of the
canonical table.  Composes the C15 statements (`C15_cell`, `C15_shape`, `C15_aggregate_pointwise`,
`C15_truncate`) into one statement about the input frame.

Model: `MM/Model/Data.lean`.  Helper lemmas: `MM/Proofs/Data.lean`, `MM/Proofs/DataSeries.lean`
(which also defines `window`).  No Mathlib imports.
-/
import MM.Props.C15
import MM.Proofs.DataSeries

namespace MM.Data
open MM

/-- the truncated table's columns are the analysis window -/
theorem C04_window (rows : List Obs) (n : Nat) :
    (truncate (mkTable rows) n).dates = window rows n ∧ (window rows n).length = min n (datesOf rows).length :=
  ⟨dates_truncate_mkTable rows n, length_window rows n⟩

/-- the series a design's diagnostics hold: for every date of the analysis window, the sum over the
reported geos (index set s of the installed geo index idx, all of them geos of the data) of that
geo's cell (mean of its observations on that date, zero if none) -/
theorem C04_series (rows : List Obs) (n : Nat) (idx : List String) (s : List Nat)
    (hidx : ∀ i ∈ s, i < idx.length ∧ idx.getD i "" ∈ (mkTable rows).geos) (j : Nat) (d : Nat)
    (hd : (window rows n)[j]? = some d) :
    (aggregateSeries (truncate (mkTable rows) n) idx s).getD j 0 = sumQ (s.map fun i => cell rows (idx.getD i "") d) := by
  have hj : j < (truncate (mkTable rows) n).dates.length := by
    rw [dates_truncate_mkTable]
    exact (List.getElem?_eq_some_iff.1 hd).1
  rw [C15_aggregate_pointwise _ idx s j hj (shape_truncate _ n (shape_mkTable rows))]
  congr 1
  apply List.map_congr_left
  intro i hi
  exact getD_seriesOf_truncate rows n _ (hidx i hi).2 j d hd

/-- one entry per date of the window — for every index set, the empty one included (the fold starts
from a row of zeros of that length), and whatever the installed geo index -/
theorem C04_series_length (rows : List Obs) (n : Nat) (idx : List String) (s : List Nat) :
    (aggregateSeries (truncate (mkTable rows) n) idx s).length = (window rows n).length := by
  rw [← dates_truncate_mkTable]
  exact length_aggregateSeries _ idx s (shape_truncate _ n (shape_mkTable rows))

/-! ## non-vacuity: the 7-observation `frame` of `MM/Props/C15.lean`, n = 2

Rows in table order are "c", "b", "a"; dates 10 < 20 < 30, so the window is [20, 30].  With the geo
index ["a", "c"] installed, the design group {0, 1} = {"a", "c"} has the series [0 + 0, 4 + 9]. -/

example : window frame 2 = [20, 30] := by decide +kernel
example : ∀ i ∈ [0, 1], i < ["a", "c"].length ∧ ["a", "c"].getD i "" ∈ (mkTable frame).geos := by decide +kernel
#guard aggregateSeries (truncate (mkTable frame) 2) ["a", "c"] [0, 1] == [0, 13]

example : (aggregateSeries (truncate (mkTable frame) 2) ["a", "c"] [0, 1]).getD 1 0 = 13 := by
  rw [C04_series frame 2 ["a", "c"] [0, 1] (by decide +kernel) 1 30 (by decide +kernel)]
  decide +kernel

example : (aggregateSeries (truncate (mkTable frame) 2) ["a", "c"] [0, 1]).getD 0 0
    = cell frame "a" 20 + cell frame "c" 20 := by
  rw [C04_series frame 2 ["a", "c"] [0, 1] (by decide +kernel) 0 20 (by decide +kernel)]
  decide +kernel

example : (aggregateSeries (truncate (mkTable frame) 2) ["a", "c"] []).length = 2 := by
  rw [C04_series_length, (C04_window frame 2).2]
  decide +kernel

end MM.Data
