/-
Helper lemmas for the diagnostic tests (MM/Model/DiagTests.lean) over ℝ:
Cauchy–Schwarz for `zipWith` sums, the Durbin–Watson numerator bound, entries of the
Brownian-bridge bounds, scaling of the standardised residuals, projections of `aaTest`.
-/
import MM.Model.DiagTests
import MM.Proofs.NumericCore
import Mathlib.Algebra.QuadraticDiscriminant
import Mathlib.Tactic.NormNum
namespace MM.Numeric

/-! ### Cauchy–Schwarz for list sums -/

/-- Σ (t a + b)² ≥ 0, written out -/
theorem dot_quadratic_nonneg (as bs : List ℝ) (t : ℝ) :
    0 ≤ dot as as * (t * t) + 2 * dot as bs * t + dot bs bs := by
  induction as generalizing bs with
  | nil => simpa using dot_self_nonneg bs
  | cons a as ih =>
    cases bs with
    | nil =>
      have h := dot_self_nonneg (a :: as)
      have : dot (a :: as) [] = 0 := by simp [dot]
      rw [this]
      simp only [dot_nil_left, mul_zero, zero_mul, add_zero]
      nlinarith [mul_self_nonneg t]
    | cons b bs =>
      simp only [dot_cons]
      nlinarith [ih bs, mul_self_nonneg (t * a + b)]

theorem dot_cauchy_schwarz (as bs : List ℝ) :
    dot as bs * dot as bs ≤ dot as as * dot bs bs := by
  have h := discrim_le_zero (dot_quadratic_nonneg as bs)
  unfold discrim at h
  nlinarith [h]

theorem sprod_eq_dot (xs ys : List ℝ) (m k : ℝ) :
    sprod xs ys m k = dot (xs.map (· - m)) (ys.map (· - k)) := by
  simp only [sprod, sum_real, dot, List.zipWith_map]

/-- (Σ (x − m)(y − k))² ≤ Σ (x − m)² · Σ (y − k)² -/
theorem sprod_cauchy_schwarz (xs ys : List ℝ) (m k : ℝ) :
    sprod xs ys m k * sprod xs ys m k ≤ sprod xs xs m m * sprod ys ys k k := by
  simp only [sprod_eq_dot]
  exact dot_cauchy_schwarz _ _

theorem sxy_sq_le (xs ys : List ℝ) : sxy xs ys ^ 2 ≤ sxx xs * sxx ys := by
  rw [pow_two]
  exact sprod_cauchy_schwarz xs ys (mean xs) (mean ys)

/-! ### Durbin–Watson -/

/-- numerator of the Durbin–Watson statistic -/
noncomputable def dwNum (r : List ℝ) : ℝ :=
  (List.zipWith (fun a b => (b - a) * (b - a)) r r.tail).sum

/-- denominator of the Durbin–Watson statistic -/
noncomputable def sumSq (r : List ℝ) : ℝ := (r.map fun x => x * x).sum

theorem dwStat_eq (r : List ℝ) : dwStat r = dwNum r / sumSq r := by
  simp only [dwStat, sum_real, dwNum, sumSq]

theorem sumSq_nonneg (r : List ℝ) : 0 ≤ sumSq r := by
  apply List.sum_nonneg
  intro x hx
  simp only [List.mem_map] at hx
  obtain ⟨a, _, rfl⟩ := hx
  exact mul_self_nonneg a

theorem dwNum_nonneg (r : List ℝ) : 0 ≤ dwNum r := by
  apply List.sum_nonneg
  intro x hx
  simp only [List.mem_iff_getElem, List.getElem_zipWith] at hx
  obtain ⟨i, _, rfl⟩ := hx
  exact mul_self_nonneg _

/-- each r_t² is counted at most twice -/
theorem dwNum_cons_le (a : ℝ) (l : List ℝ) : dwNum (a :: l) ≤ 2 * (a * a) + 4 * sumSq l := by
  induction l generalizing a with
  | nil => simp only [dwNum, sumSq, List.tail_cons, List.zipWith_nil_right, List.sum_nil, List.map_nil,
      mul_zero, add_zero]; nlinarith [mul_self_nonneg a]
  | cons b l ih =>
    have h := ih b
    simp only [dwNum, sumSq, List.tail_cons, List.zipWith_cons_cons, List.sum_cons, List.map_cons] at h ⊢
    nlinarith [mul_self_nonneg (a + b)]

theorem dwNum_le (r : List ℝ) : dwNum r ≤ 4 * sumSq r := by
  cases r with
  | nil => simp [dwNum, sumSq]
  | cons a l =>
    have h := dwNum_cons_le a l
    have : sumSq (a :: l) = a * a + sumSq l := by simp [sumSq]
    rw [this]
    nlinarith [mul_self_nonneg a]

theorem sumSq_map_mul (r : List ℝ) (c : ℝ) : sumSq (r.map (c * ·)) = c * c * sumSq r := by
  induction r with
  | nil => simp [sumSq]
  | cons a l ih =>
    simp only [sumSq, List.map_cons, List.sum_cons] at ih ⊢
    rw [ih]; ring

theorem dwNum_map_mul (r : List ℝ) (c : ℝ) : dwNum (r.map (c * ·)) = c * c * dwNum r := by
  cases r with
  | nil => simp [dwNum]
  | cons a l =>
    induction l generalizing a with
    | nil => simp [dwNum]
    | cons b l ih =>
      have h := ih b
      simp only [dwNum, List.map_cons, List.tail_cons, List.zipWith_cons_cons, List.sum_cons] at h ⊢
      rw [h]; ring

/-! ### Brownian-bridge bounds -/

theorem bbBounds_getElem? (n : Nat) (b : ℝ) (i : Nat) (hi : i < n - 1) :
    (bbBounds n b)[i]? =
      some (b * Real.sqrt (((i + 1 : Nat) : ℝ) * (1 - ((i + 1 : Nat) : ℝ) / (n : ℝ)))) := by
  simp [bbBounds, List.getElem?_map, List.getElem?_range hi]

/-- k (1 − k/n) = k (n − k) / n -/
theorem bb_arg (n k : ℝ) (hn : n ≠ 0) : k * (1 - k / n) = k * (n - k) / n := by
  field_simp

/-! ### standardised residuals -/

theorem absCumStdResid_scale (r : List ℝ) (sigma c : ℝ) (hc : c ≠ 0) :
    absCumStdResid (r.map (c * ·)) (c * sigma) = absCumStdResid r sigma := by
  have hm : (r.map (c * ·)).map (fun x => x / (c * sigma)) = r.map fun x => x / sigma := by
    rw [List.map_map]
    apply List.map_congr_left
    intro x _
    simp only [Function.comp]
    exact mul_div_mul_left x sigma hc
  simp only [absCumStdResid, hm]

/-! ### the A/A test -/

/-- the design-side fit used by `aaTest` -/
noncomputable def aaFit (xs ys : List ℝ) (nTest : Nat) (tqSig : ℝ) : TbrFit ℝ :=
  tbrfit (xs.take (ys.length - nTest)) (ys.take (ys.length - nTest)) nTest tqSig
    (mean (xs.drop (ys.length - nTest))) (mean (ys.drop (ys.length - nTest)))

theorem aaTest_lower (xs ys : List ℝ) (nTest : Nat) (tqSig : ℝ) (cdf : ℝ → ℝ) (thr : ℝ) :
    (aaTest xs ys nTest tqSig cdf thr).lower =
      (aaFit xs ys nTest tqSig).estimate - (aaFit xs ys nTest tqSig).cihw := by
  unfold aaTest aaFit
  dsimp only
  split <;> rfl

theorem aaTest_upper (xs ys : List ℝ) (nTest : Nat) (tqSig : ℝ) (cdf : ℝ → ℝ) (thr : ℝ) :
    (aaTest xs ys nTest tqSig cdf thr).upper =
      (aaFit xs ys nTest tqSig).estimate + (aaFit xs ys nTest tqSig).cihw := by
  unfold aaTest aaFit
  dsimp only
  split <;> rfl

theorem aaTest_of_neg (xs ys : List ℝ) (nTest : Nat) (tqSig : ℝ) (cdf : ℝ → ℝ) (thr : ℝ)
    (h : ((aaFit xs ys nTest tqSig).estimate - (aaFit xs ys nTest tqSig).cihw) *
      ((aaFit xs ys nTest tqSig).estimate + (aaFit xs ys nTest tqSig).cihw) < 0) :
    (aaTest xs ys nTest tqSig cdf thr).ok = true ∧ (aaTest xs ys nTest tqSig cdf thr).prob = none := by
  have h' : ((aaFit xs ys nTest tqSig).estimate - (aaFit xs ys nTest tqSig).cihw) *
      ((aaFit xs ys nTest tqSig).estimate + (aaFit xs ys nTest tqSig).cihw) < (nat 0 : ℝ) := by
    simpa using h
  unfold aaFit at h'
  unfold aaTest
  dsimp only
  rw [if_pos h']
  exact ⟨rfl, rfl⟩

theorem aaTest_ok_of_prob (xs ys : List ℝ) (nTest : Nat) (tqSig : ℝ) (cdf : ℝ → ℝ) (thr p : ℝ)
    (h : (aaTest xs ys nTest tqSig cdf thr).prob = some p) :
    (aaTest xs ys nTest tqSig cdf thr).ok = decide (p ≤ thr) := by
  unfold aaTest at h ⊢
  dsimp only at h ⊢
  split
  · rename_i hlt
    rw [if_pos hlt] at h
    simp at h
  · rename_i hlt
    rw [if_neg hlt] at h
    simp only [Option.some.injEq] at h
    simp only [h]

end MM.Numeric
