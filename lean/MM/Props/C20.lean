/-
C20: `find_days_to_exclude` parses `'YYYY/MM/DD'` and `'YYYY/MM/DD - YYYY/MM/DD'` entries into
closed day windows (ValueError for malformed entries and reversed ranges) and
`expand_time_windows` expands them into a list holding each covered day exactly once,
independent of the order, duplication and overlap of the entries.

Model: `MM/Model/Dates.lean`.  Helper lemmas: `MM/Proofs/Dates.lean`.
-/
import MM.Proofs.Dates

namespace MM.Dates
open MM

/-! ### expansion -/

/-- membership: a day is in the expansion iff some window covers it -/
theorem C20_mem (ws : List Window) (n : Nat) :
    n ∈ expand ws ↔ ∃ w ∈ ws, w.1 ≤ n ∧ n ≤ w.2 :=
  mem_expand ws n

/-- each covered day exactly once -/
theorem C20_nodup (ws : List Window) : (expand ws).Nodup :=
  nodup_expand ws

/-- order, duplication and overlap of entries are irrelevant:
same covered set ⇒ same list up to order -/
theorem C20_set_invariant (ws ws' : List Window)
    (h : ∀ n, (∃ w ∈ ws, w.1 ≤ n ∧ n ≤ w.2) ↔ (∃ w ∈ ws', w.1 ≤ n ∧ n ≤ w.2)) :
    (expand ws).Perm (expand ws') := by
  apply expand_perm_of_mem_iff
  intro n
  rw [mem_expand, mem_expand]
  exact h n

theorem C20_perm_invariant (ws ws' : List Window) (h : ws.Perm ws') :
    (expand ws).Perm (expand ws') := by
  apply C20_set_invariant
  intro n
  constructor
  · rintro ⟨w, hw, hn⟩; exact ⟨w, h.mem_iff.1 hw, hn⟩
  · rintro ⟨w, hw, hn⟩; exact ⟨w, h.mem_iff.2 hw, hn⟩

theorem C20_dup_invariant (ws : List Window) (w : Window) (h : w ∈ ws) :
    (expand (w :: ws)).Perm (expand ws) := by
  apply C20_set_invariant
  intro n
  constructor
  · rintro ⟨w', hw', hn⟩
    rcases List.mem_cons.1 hw' with rfl | hw'
    · exact ⟨w', h, hn⟩
    · exact ⟨w', hw', hn⟩
  · rintro ⟨w', hw', hn⟩
    exact ⟨w', List.mem_cons_of_mem _ hw', hn⟩

/-! ### pipeline -/

/-- pipeline level: permuting the entry strings permutes nothing observable -/
theorem C20_pipeline_perm (es es' : List String) (h : es.Perm es') (ds : List Nat)
    (hok : pipeline es = .ok ds) : ∃ ds', pipeline es' = .ok ds' ∧ ds.Perm ds' := by
  rw [pipeline_eq] at hok
  cases hws : findDays es with
  | error err => rw [hws] at hok; cases hok
  | ok ws =>
    rw [hws] at hok
    obtain ⟨ws', hws', hp⟩ := findDays_perm es es' h ws hws
    refine ⟨expand ws', ?_, ?_⟩
    · rw [pipeline_eq, hws']
    · cases hok
      exact C20_perm_invariant ws ws' hp

/-- the pipeline either succeeds or raises ValueError, nothing else -/
theorem C20_total (es : List String) :
    (∃ ds, pipeline es = .ok ds) ∨ pipeline es = .error .valueError := by
  rw [pipeline_eq]
  rcases findDays_total es with ⟨ws, h⟩ | h
  · rw [h]; exact Or.inl ⟨_, rfl⟩
  · rw [h]; exact Or.inr rfl

/-! ### rejection rules -/

theorem C20_reject_reversed (a b : String) (d1 d2 : Date) (h1 : parseDate a = some d1)
    (h2 : parseDate b = some d2) (h : ordinal d2 < ordinal d1) :
    entryOfParts [a, b] = .error .valueError := by
  simp only [entryOfParts, h1, h2]
  rw [if_pos h]

theorem C20_reject_parts (parts : List String) (h : parts.length ≠ 1 ∧ parts.length ≠ 2) :
    entryOfParts parts = .error .valueError := by
  match parts, h with
  | [], _ => rfl
  | [_], h => exact absurd rfl h.1
  | [_, _], h => exact absurd rfl h.2
  | _ :: _ :: _ :: _, _ => rfl

theorem C20_reject_bad_token (a : String) (h : parseDate a = none) :
    entryOfParts [a] = .error .valueError ∧
      ∀ b, entryOfParts [a, b] = .error .valueError ∧ entryOfParts [b, a] = .error .valueError := by
  refine ⟨?_, fun b => ⟨?_, ?_⟩⟩
  · simp only [entryOfParts, h]
  · simp only [entryOfParts, h]
  · cases hb : parseDate b <;> simp only [entryOfParts, h, hb]

theorem C20_parse_valid (a : String) (d : Date) (h : parseDate a = some d) : d.valid = true :=
  parseDate_valid a d h

theorem C20_bad_entry_fails (es : List String) (e : String) (he : e ∈ es)
    (hbad : parseEntry e = .error .valueError) : pipeline es = .error .valueError := by
  rw [pipeline_eq, findDays_bad es e he hbad]

/-! ### calendar -/

/-- calendar: the ordinal of the next calendar day is the next ordinal, and validity is
preserved; hence ordinal ranges are calendar-day ranges -/
theorem C20_succ_valid (d : Date) (h : d.valid = true) : (succDay d).valid = true :=
  succDay_valid d h

theorem C20_ordinal_succ (d : Date) (h : d.valid = true) : ordinal (succDay d) = ordinal d + 1 :=
  ordinal_succDay d h

/-- ordinal is strictly monotone w.r.t. the lexicographic (y, m, d) order on valid dates
(hence injective) -/
theorem C20_ordinal_strictMono (d1 d2 : Date) (h1 : d1.valid = true) (h2 : d2.valid = true)
    (hlt : d1.y < d2.y ∨ (d1.y = d2.y ∧ (d1.m < d2.m ∨ (d1.m = d2.m ∧ d1.d < d2.d)))) :
    ordinal d1 < ordinal d2 :=
  ordinal_strictMono d1 d2 h1 h2 hlt

theorem C20_ordinal_injective (d1 d2 : Date) (h1 : d1.valid = true) (h2 : d2.valid = true)
    (h : ordinal d1 = ordinal d2) : d1 = d2 :=
  ordinal_injective d1 d2 h1 h2 h

/-! ### non-vacuity -/

example : expand [(5, 8), (7, 10), (6, 6)] = [5, 6, 7, 8, 9, 10] := by decide

example : ordinal ⟨1, 1, 1⟩ = 1 := by decide
example : ordinal ⟨2020, 1, 1⟩ = 737425 := by decide
example : ordinal ⟨2020, 2, 29⟩ + 1 = ordinal ⟨2020, 3, 1⟩ := by decide
example : succDay ⟨2020, 2, 28⟩ = ⟨2020, 2, 29⟩ := by decide
example : succDay ⟨2020, 2, 29⟩ = ⟨2020, 3, 1⟩ := by decide
example : succDay ⟨2019, 2, 28⟩ = ⟨2019, 3, 1⟩ := by decide
example : succDay ⟨2019, 12, 31⟩ = ⟨2020, 1, 1⟩ := by decide

/-- a reversed range is rejected (kernel-checked given the two token parses) -/
example (a b : String) (h1 : parseDate a = some ⟨2020, 3, 2⟩)
    (h2 : parseDate b = some ⟨2020, 2, 27⟩) : entryOfParts [a, b] = .error .valueError :=
  C20_reject_reversed a b _ _ h1 h2 (by decide)

/-- the forward range is accepted, with the expected window -/
example (a b : String) (h1 : parseDate a = some ⟨2020, 2, 27⟩)
    (h2 : parseDate b = some ⟨2020, 3, 2⟩) : entryOfParts [a, b] = .ok (737482, 737486) := by
  simp only [entryOfParts, h1, h2]; rfl

/-! String primitives (`splitOn`, `trimAscii`, `toNat?`) do not reduce in the kernel, so the
end-to-end string examples are evaluated tests (`#guard`), not `decide` proofs. -/

private def okEq (r : Py (List Nat)) (l : List Nat) : Bool :=
  match r with
  | .ok l' => l' == l
  | .error _ => false

private def errEq {α : Type} (r : Py α) (e : PyErr) : Bool :=
  match r with
  | .ok _ => false
  | .error e' => e' == e

#guard okEq (pipeline ["2020/02/27 - 2020/03/02", "2020/03/01", "2020/02/28"])
  [737482, 737483, 737484, 737485, 737486]
#guard okEq (pipeline ["2020/03/01", "2020/02/28", "2020/02/27 - 2020/03/02", "2020/03/01"])
  [737485, 737483, 737482, 737484, 737486]
#guard okEq (pipeline []) []
#guard errEq (pipeline ["2020/03/02 - 2020/02/27"]) .valueError
#guard errEq (pipeline ["2020/03/01", "2020/02/30"]) .valueError
#guard errEq (pipeline ["2020/3/1"]) .valueError
#guard errEq (pipeline ["2020-03-01"]) .valueError
#guard errEq (pipeline [""]) .valueError
#guard errEq (pipeline ["2020/03/01 - 2020/03/02 - 2020/03/03"]) .valueError
#guard parseDate " 2020/02/29 " == some ⟨2020, 2, 29⟩
#guard parseDate "2019/02/29" == none

end MM.Dates
