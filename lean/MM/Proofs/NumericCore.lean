/-
Helper lemmas for the numeric layer at ℝ: sums of `zipWith` expressions, centred sums,
OLS identities, behaviour under affine maps, prefixes.
-/
import MM.Proofs.NumericReal
import Mathlib.Analysis.SpecialFunctions.Sqrt
import Mathlib.Tactic.Positivity
namespace MM.Numeric

/-- raw cross product Σ x y -/
noncomputable def dot (xs ys : List ℝ) : ℝ := (List.zipWith (fun x y => x * y) xs ys).sum

@[simp] theorem dot_nil_left (ys : List ℝ) : dot [] ys = 0 := by simp [dot]
@[simp] theorem dot_cons (x y : ℝ) (xs ys : List ℝ) : dot (x :: xs) (y :: ys) = x * y + dot xs ys := by
  simp [dot]

theorem dot_self (xs : List ℝ) : dot xs xs = (xs.map fun x => x * x).sum := by
  induction xs with
  | nil => simp
  | cons x xs ih => simp [ih]

theorem dot_self_nonneg (xs : List ℝ) : 0 ≤ dot xs xs := by
  induction xs with
  | nil => simp
  | cons x xs ih => simp only [dot_cons]; nlinarith [mul_self_nonneg x]

/-- the master lemma: sum of a product of two affine forms over two lists of equal length -/
theorem sum_zipWith_bilin (xs ys : List ℝ) (h : xs.length = ys.length) (a b c d e f : ℝ) :
    (List.zipWith (fun x y => (a + b * x + c * y) * (d + e * x + f * y)) xs ys).sum =
      (xs.length : ℝ) * (a * d) + (a * e + b * d) * xs.sum + (a * f + c * d) * ys.sum
        + b * e * dot xs xs + (b * f + c * e) * dot xs ys + c * f * dot ys ys := by
  induction xs generalizing ys with
  | nil =>
    cases ys with
    | nil => simp
    | cons y ys => simp at h
  | cons x xs ih =>
    cases ys with
    | nil => simp at h
    | cons y ys =>
      have h' : xs.length = ys.length := by simpa using h
      simp only [List.zipWith_cons_cons, List.sum_cons, List.length_cons, dot_cons, ih ys h']
      push_cast
      ring

theorem sprod_eq (xs ys : List ℝ) (h : xs.length = ys.length) (m k : ℝ) :
    sprod xs ys m k = dot xs ys - m * ys.sum - k * xs.sum + (xs.length : ℝ) * m * k := by
  have hf : (fun x y : ℝ => (x - m) * (y - k)) =
      fun x y => (-m + 1 * x + 0 * y) * (-k + 0 * x + 1 * y) := by
    funext x y; ring
  simp only [sprod, sum_real, hf, sum_zipWith_bilin xs ys h]
  ring

theorem length_cast_ne_zero {xs : List ℝ} (h : xs ≠ []) : (xs.length : ℝ) ≠ 0 := by
  have : xs.length ≠ 0 := by simpa using h
  exact_mod_cast this

theorem sxx_raw (xs : List ℝ) (h : xs ≠ []) :
    sxx xs = dot xs xs - xs.sum * xs.sum / (xs.length : ℝ) := by
  have hn := length_cast_ne_zero h
  rw [sxx, sprod_eq xs xs rfl, mean_real]
  field_simp
  ring

theorem sxy_raw (xs ys : List ℝ) (hlen : xs.length = ys.length) (h : xs ≠ []) :
    sxy xs ys = dot xs ys - xs.sum * ys.sum / (xs.length : ℝ) := by
  have hn := length_cast_ne_zero h
  rw [sxy, sprod_eq xs ys hlen, mean_real, mean_real, ← hlen]
  field_simp
  ring

theorem sum_zipWith_lin (xs ys : List ℝ) (h : xs.length = ys.length) (a b c : ℝ) :
    (List.zipWith (fun x y => a + b * x + c * y) xs ys).sum =
      (xs.length : ℝ) * a + b * xs.sum + c * ys.sum := by
  have hf : (fun x y : ℝ => a + b * x + c * y) =
      fun x y => (a + b * x + c * y) * (1 + 0 * x + 0 * y) := by
    funext x y; ring
  rw [hf, sum_zipWith_bilin xs ys h]
  ring

theorem sum_map_sub_const (p : List ℝ) (c : ℝ) :
    (p.map fun x => x - c).sum = p.sum - (p.length : ℝ) * c := by
  induction p with
  | nil => simp
  | cons x p ih => simp only [List.map_cons, List.sum_cons, List.length_cons, ih]; push_cast; ring

/-! ### OLS -/

theorem ols_a (xs ys : List ℝ) : (ols xs ys).a = mean ys - (ols xs ys).b * mean xs := rfl
theorem ols_b (xs ys : List ℝ) : (ols xs ys).b = sxy xs ys / sxx xs := rfl
theorem ols_resid (xs ys : List ℝ) :
    (ols xs ys).resid = List.zipWith (fun x y => y - (ols xs ys).a - (ols xs ys).b * x) xs ys := rfl
theorem ols_rss_def (xs ys : List ℝ) :
    (ols xs ys).rss = ((ols xs ys).resid.map fun r => r * r).sum := sum_real _
theorem ols_sigma2 (xs ys : List ℝ) :
    (ols xs ys).sigma2 = (ols xs ys).rss / ((xs.length : ℝ) - 2) := by
  show (ols xs ys).rss / (nat xs.length - nat 2) = _
  simp
theorem ols_resid_length (xs ys : List ℝ) (hlen : xs.length = ys.length) :
    (ols xs ys).resid.length = xs.length := by
  simp [ols_resid, hlen]

theorem ols_resid_sum_core (xs ys : List ℝ) (hlen : xs.length = ys.length) (hne : xs ≠ []) :
    ((ols xs ys).resid).sum = 0 := by
  have hn := length_cast_ne_zero hne
  have hf : (fun x y : ℝ => y - (ols xs ys).a - (ols xs ys).b * x) =
      fun x y => -(ols xs ys).a + (-(ols xs ys).b) * x + 1 * y := by
    funext x y; ring
  rw [ols_resid, hf, sum_zipWith_lin _ _ hlen, ols_a, mean_real, mean_real, ← hlen]
  field_simp
  ring

theorem ols_rss_nonneg (xs ys : List ℝ) : 0 ≤ (ols xs ys).rss := by
  rw [ols_rss_def]
  apply List.sum_nonneg
  intro r hr
  simp only [List.mem_map] at hr
  obtain ⟨a, _, rfl⟩ := hr
  exact mul_self_nonneg a

theorem ols_rss_core (xs ys : List ℝ) (hlen : xs.length = ys.length) (hne : xs ≠ [])
    (hx : 0 < sxx xs) :
    (ols xs ys).rss = sxx ys - sxy xs ys * sxy xs ys / sxx xs := by
  have hn := length_cast_ne_zero hne
  have hney : ys ≠ [] := by
    intro h; apply hne; rw [h] at hlen; simpa using hlen
  have hf : (fun x y : ℝ => (y - (ols xs ys).a - (ols xs ys).b * x) *
        (y - (ols xs ys).a - (ols xs ys).b * x)) =
      fun x y => (-(ols xs ys).a + (-(ols xs ys).b) * x + 1 * y) *
        (-(ols xs ys).a + (-(ols xs ys).b) * x + 1 * y) := by
    funext x y; ring
  have hxx : dot xs xs = sxx xs + xs.sum * xs.sum / (xs.length : ℝ) := by
    rw [sxx_raw xs hne]; ring
  have hxy : dot xs ys = sxy xs ys + xs.sum * ys.sum / (xs.length : ℝ) := by
    rw [sxy_raw xs ys hlen hne]; ring
  have hyy : dot ys ys = sxx ys + ys.sum * ys.sum / (xs.length : ℝ) := by
    rw [sxx_raw ys hney, hlen]; ring
  rw [ols_rss_def, ols_resid, List.map_zipWith, hf, sum_zipWith_bilin _ _ hlen, ols_a, ols_b,
    mean_real, mean_real, ← hlen, hxx, hxy, hyy]
  have hD : sxx xs ≠ 0 := ne_of_gt hx
  generalize sxx xs = D at hD ⊢
  generalize sxy xs ys = C
  generalize sxx ys = E
  field_simp
  ring

/-- residuals are centred, hence their centred sum of squares is the rss -/
theorem sxx_resid (xs ys : List ℝ) (hlen : xs.length = ys.length) (hne : xs ≠ []) :
    sxx (ols xs ys).resid = (ols xs ys).rss := by
  have h0 := ols_resid_sum_core xs ys hlen hne
  have hm : mean (ols xs ys).resid = 0 := by rw [mean_real, h0, zero_div]
  rw [sxx, hm, sprod_eq _ _ rfl, dot_self, ols_rss_def]
  ring

theorem ols_sigma2_nonneg (xs ys : List ℝ) (hn : 2 ≤ xs.length) : 0 ≤ (ols xs ys).sigma2 := by
  rw [ols_sigma2]
  apply div_nonneg (ols_rss_nonneg xs ys)
  have : (2 : ℝ) ≤ (xs.length : ℝ) := by exact_mod_cast hn
  linarith

theorem std2_resid (xs ys : List ℝ) (hlen : xs.length = ys.length) (hne : xs ≠ []) :
    std2 (ols xs ys).resid = Real.sqrt (ols xs ys).sigma2 := by
  simp only [std2, sqrt_real, nat_real, sxx_resid xs ys hlen hne, ols_resid_length xs ys hlen,
    ols_sigma2, Nat.cast_ofNat]

/-! ### prefixes -/

theorem prefixes_getElem? {α : Type} (l : List α) (t : Nat) (ht : t < l.length) :
    (prefixes l)[t]? = some (l.take (t + 1)) := by
  simp [prefixes, List.getElem?_map, List.getElem?_range ht]

theorem take_succ_ne_nil {α : Type} (l : List α) (t : Nat) (ht : t < l.length) :
    l.take (t + 1) ≠ [] := by
  intro h
  have := congrArg List.length h
  rw [List.length_take, List.length_nil] at this
  omega

/-! ### affine maps -/

theorem sprod_map_affine (xs ys : List ℝ) (c1 k1 c2 k2 m k : ℝ) :
    sprod (xs.map fun x => c1 * x + k1) (ys.map fun y => c2 * y + k2) (c1 * m + k1) (c2 * k + k2)
      = c1 * c2 * sprod xs ys m k := by
  simp only [sprod, sum_real]
  induction xs generalizing ys with
  | nil => simp
  | cons x xs ih =>
    cases ys with
    | nil => simp
    | cons y ys =>
      simp only [List.map_cons, List.zipWith_cons_cons, List.sum_cons, ih ys]
      ring

theorem sprod_map_affine_right (xs ys : List ℝ) (c2 k2 m k : ℝ) :
    sprod xs (ys.map fun y => c2 * y + k2) m (c2 * k + k2) = c2 * sprod xs ys m k := by
  simp only [sprod, sum_real]
  induction xs generalizing ys with
  | nil => simp
  | cons x xs ih =>
    cases ys with
    | nil => simp
    | cons y ys =>
      simp only [List.map_cons, List.zipWith_cons_cons, List.sum_cons, ih ys]
      ring

theorem sum_map_affine (ys : List ℝ) (c k : ℝ) :
    (ys.map fun y => c * y + k).sum = c * ys.sum + (ys.length : ℝ) * k := by
  induction ys with
  | nil => simp
  | cons y ys ih => simp only [List.map_cons, List.sum_cons, List.length_cons, ih]; push_cast; ring

theorem mean_map_affine (ys : List ℝ) (hne : ys ≠ []) (c k : ℝ) :
    mean (ys.map fun y => c * y + k) = c * mean ys + k := by
  have hn := length_cast_ne_zero hne
  rw [mean_real, mean_real, sum_map_affine, List.length_map]
  field_simp

theorem sxx_nil : sxx ([] : List ℝ) = 0 := by simp [sxx, sprod]

theorem sxx_map_affine (ys : List ℝ) (hne : ys ≠ []) (c k : ℝ) :
    sxx (ys.map fun y => c * y + k) = c * c * sxx ys := by
  rw [sxx, mean_map_affine ys hne, sprod_map_affine, sxx]

theorem sxx_map_mul (ys : List ℝ) (c : ℝ) : sxx (ys.map (c * ·)) = c * c * sxx ys := by
  by_cases hne : ys = []
  · subst hne; simp [sxx_nil]
  · have hf : (fun y : ℝ => c * y) = fun y => c * y + 0 := by funext y; ring
    rw [hf, sxx_map_affine ys hne]

theorem sxx_map_add (ys : List ℝ) (k : ℝ) : sxx (ys.map (· + k)) = sxx ys := by
  by_cases hne : ys = []
  · subst hne; simp [sxx_nil]
  · have hf : (fun y : ℝ => y + k) = fun y => 1 * y + k := by funext y; ring
    rw [hf, sxx_map_affine ys hne]; ring

theorem sxy_map_affine_right (xs ys : List ℝ) (hne : ys ≠ []) (c k : ℝ) :
    sxy xs (ys.map fun y => c * y + k) = c * sxy xs ys := by
  rw [sxy, mean_map_affine ys hne, sprod_map_affine_right, sxy]

/-! ### square roots -/

theorem sqrt_mul_self_mul {c : ℝ} (hc : 0 ≤ c) (a : ℝ) : Real.sqrt (c * c * a) = c * Real.sqrt a := by
  rw [Real.sqrt_mul (mul_self_nonneg c), Real.sqrt_mul_self hc]

theorem std2_map_mul (ys : List ℝ) {c : ℝ} (hc : 0 ≤ c) : std2 (ys.map (c * ·)) = c * std2 ys := by
  simp only [std2, sqrt_real, nat_real, List.length_map, sxx_map_mul]
  rw [mul_div_assoc, sqrt_mul_self_mul hc]

theorem std2_map_add (ys : List ℝ) (k : ℝ) : std2 (ys.map (· + k)) = std2 ys := by
  simp only [std2, sqrt_real, nat_real, List.length_map, sxx_map_add]

/-! ### design-side scale and the Kerman variance -/

theorem tbrfit_scale (xs ys : List ℝ) (hlen : xs.length = ys.length) (hne : xs ≠ [])
    (nTest : Nat) (tq xt yt : ℝ) :
    (tbrfit xs ys nTest tq xt yt).scale =
      (nTest : ℝ) * Real.sqrt (ols xs ys).sigma2 *
        Real.sqrt ((1 + (xt - mean xs) * (xt - mean xs) / (sxx xs / (xs.length : ℝ))) / (xs.length : ℝ)
          + 1 / (nTest : ℝ)) := by
  simp only [tbrfit, std2_resid xs ys hlen hne, nat_real, sqrt_real, Nat.cast_one]

theorem kermanVar_eq (xs : List ℝ) (hne : xs ≠ []) (hx : sxx xs ≠ 0) (sigma2 : ℝ) (p : List ℝ)
    (hp : p ≠ []) :
    kermanVar xs sigma2 p = sigma2 * ((p.length : ℝ) * (p.length : ℝ) *
      ((1 + (mean p - mean xs) * (mean p - mean xs) / (sxx xs / (xs.length : ℝ))) / (xs.length : ℝ)
          + 1 / (p.length : ℝ))) := by
  have hn0 := length_cast_ne_zero hne
  have ht0 := length_cast_ne_zero hp
  simp only [kermanVar, sum_real, nat_real, sum_map_sub_const, mean_real p]
  generalize sxx xs = D at hx ⊢
  generalize mean xs = mx
  generalize p.sum = P
  generalize (xs.length : ℝ) = n at hn0 ⊢
  generalize (p.length : ℝ) = t at ht0 ⊢
  field_simp

end MM.Numeric
