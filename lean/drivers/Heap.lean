/- Line-protocol driver for the HeapDict model (C14).
   new <size> | push <key> <itemkey> <itemid> | get          -/
import MM.Model.HeapDict
import MM.Driver.Wire
open MM MM.HeapDict

abbrev Item := Int × Nat
def itemLt (a b : Item) : Bool := decide (a.1 < b.1)

def showQueues (r : List (Int × List Item)) : String :=
  ";".intercalate (r.map fun (k, q) => s!"{k}:" ++ ",".intercalate (q.map fun it => toString it.1))

partial def loop (h : IO.FS.Stream) (s : State Int Item) : IO Unit := do
  let line ← h.getLine
  if line.isEmpty then return ()
  match Wire.words line with
  | ["new", n] => loop h (init (n.toNat?.getD 0))
  | ["push", k, ik, id] =>
    match k.toInt?, ik.toInt?, id.toNat? with
    | some k, some ik, some id => loop h (push itemLt s k (ik, id))
    | _, _, _ => IO.println "bad-op"; loop h s
  | ["get"] => IO.println ("R " ++ showQueues (getResult s)); loop h s
  | _ => IO.println "bad-op"; loop h s

def main : IO Unit := do loop (← IO.getStdin) (init 0)
