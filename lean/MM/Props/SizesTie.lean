/-
Obligations on the size bounds regenerated from tbrmatchedmarkets.py by translator T12 (the integer arithmetic of
`treatment_group_size_range` and `_control_group_size_generator`: minimum from the fixed geos, maximum from the
eligible geos, one treatment geo less when no geo is left for control, clipping by the user's ranges): they are the
bounds of the hand-written `trtSizeRange` / `ctlSizes` that C01, C03, C09, C11 and C13 are proved about.
-/
import MM.Generated.SizesGen
namespace MM.Search
open MM

theorem tie_trt_sizes (p : Params) (e : Env) :
    trtSizeRange p e = natRangeIncl (MM.Gen.Sizes.trtBoundsGen p e).1 (MM.Gen.Sizes.trtBoundsGen p e).2 := by
  unfold trtSizeRange MM.Gen.Sizes.trtBoundsGen
  cases p.trtRange with
  | none => rfl
  | some r => rcases r with ⟨a, b⟩; rfl

theorem tie_ctl_sizes (p : Params) (e : Env) (nT : Nat) :
    ctlSizes p e nT =
      (match p.geoTol with
       | none => natRangeIncl (MM.Gen.Sizes.ctlBoundsGen p e).1 (MM.Gen.Sizes.ctlBoundsGen p e).2
       | some τ => (natRangeIncl (MM.Gen.Sizes.ctlBoundsGen p e).1 (MM.Gen.Sizes.ctlBoundsGen p e).2).filter fun m =>
           decide (((m : Rat) / (nT : Rat)) ≥ 1 / (1 + τ)) && decide (((m : Rat) / (nT : Rat)) ≤ 1 + τ)) := by
  unfold ctlSizes MM.Gen.Sizes.ctlBoundsGen
  cases p.ctlRange with
  | none => cases p.geoTol <;> rfl
  | some r => rcases r with ⟨a, b⟩; cases p.geoTol <;> rfl

end MM.Search
