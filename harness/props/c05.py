"""C05: required impact is calibrated to the post-analysis test at the stated power."""
import json
import math
import numpy as np
from scipy import stats
import core
import engines.numeric as en

PROP = 'C05'
LEAN_TARGETS = ['MM.Props.C05C06', 'MM.Driver.Wire', 'MM.Model.Numeric']
THEOREMS = ['MM.Numeric.' + n for n in (
    'C05_sigma', 'C05_calibration', 'C05_lower_bound', 'C05_homogeneous', 'C05_shift_invariant', 'C05_corr_invariant',
    'C05_antitone_partial', 'C05_antitone_fails', 'C06_closed_form', 'C06_design_side')]
TRUSTED_BASE = [
    'Lean 4.33.0 kernel + Mathlib (real analysis); axioms propext, Classical.choice, Quot.sound (audited per theorem)',
    'generic numeric model MM/Model/Numeric.lean: theorems at ℝ, correspondence at Float to relative 1e-9; scipy t / F quantiles '
    'are external (arbitrary reals in the theorems, scipy values in the Float run); numpy corrcoef/std and scipy linregress = textbook formulas',
    'three-way tie: design-side code (TBRMMDiagnostics), analysis-side code (tbr.TBR) and the model on the same data',
    'correspondence harness harness/props/c05.py + engines/numeric.py, driver lean/drivers/Numeric.lean',
]


def frame_from_series(px, py, tx, ty):
  rows = []
  d = 0
  for x, y in zip(px, py):
    rows += [['c', d, 1, 0, float(x), 0.0], ['t', d, 2, 0, float(y), 0.0]]
    d += 1
  for x, y in zip(tx, ty):
    rows += [['c', d, 1, 1, float(x), 0.0], ['t', d, 2, 1, float(y), 1.0]]
    d += 1
  return {'rows': rows, 'n_pre': len(px), 'n_test': len(tx), 'n_cool': 0, 'cost_kind': 'fixed'}


def check_case(out, rng, px, py, par_kw, sess, pending):
  from matched_markets.methodology import tbrmmdiagnostics, tbrmmdesignparameters
  n = len(px)
  case = {'px': list(map(float, px)), 'py': list(map(float, py)), 'par': par_kw}
  par = tbrmmdesignparameters.TBRMMDesignParameters(iroas=1.0, **par_kw)
  n_test, sig, pw, fl = par.n_test, par.sig_level, par.power_level, par.flevel
  tq_sig, tq_pow = stats.t.ppf(sig, n - 2), stats.t.ppf(pw, n - 2)
  phi = stats.f.ppf(fl, 1, n - 1)
  facts = {'call': 'required_impact', 'n_pre': n, 'tq_sum': float(tq_sig + tq_pow), 'sig_level': sig, 'power_level': pw}
  if not en.conditioned(px, py):
    out.count(None)      # (nearly) collinear series: the class refuses |corr| >= 1 with ValueError; outside the claim
    return
  d = tbrmmdiagnostics.TBRMMDiagnostics(py, par)
  d.x = px
  if d.required_impact is None:
    out.oracle_violation(dict(facts, symptom='missing'), case, f'required_impact is None although the control series is set (correlation {d.corr!r})')
    return
  ri = float(d.required_impact)
  if not en.conditioned(px, py) or not math.isfinite(ri):
    out.count(None)
    return
  # (a) calibration against the analysis-side code at the planning displacement
  dx = math.sqrt(phi * (n + 1) / (n_test * (n - 1)) * float(np.var(px)))
  a, b, s2, sxx, xb, _ = en.own_ols(px, py)
  for sign in (1.0, -1.0):
    tx = np.full(n_test, xb + sign * dx)
    ty = a + b * tx + ri / n_test          # the test period shows exactly the required lift
    m = en.real_tbr(frame_from_series(px, py, tx, ty), use_cooldown=False)
    loc, scale, df = en.real_posterior(m, 1.0)
    s = float(scale[-1])
    if not en.close(ri, (tq_sig + tq_pow) * s, 1e-8, abs(s)):
      out.oracle_violation(dict(facts, symptom='not-calibrated'), case,
                           f'required impact {ri} != (tq_sig + tq_pow) * posterior scale = {(tq_sig + tq_pow) * s} '
                           f'(n={n}, n_test={n_test}, sig={sig}, power={pw}, flevel={fl})')
      return
    sm = m.summary(level=sig, tails=1, report='last')
    est, lo = float(sm['estimate'].iloc[0]), float(sm['lower'].iloc[0])
    if not (en.close(est, ri, 1e-8, abs(s)) and en.close(lo, tq_pow * s, 1e-8, abs(s))):
      out.oracle_violation(dict(facts, symptom='lower-bound'), case,
                           f'with the required lift in the test period: estimate {est} (want {ri}), one-sided lower bound {lo} '
                           f'(want tq_pow * scale = {tq_pow * s})')
      return
  # (b) homogeneity (powers of two are exact), (c) shift invariance
  c = 2.0 ** rng.choice([-3, -1, 1, 4, 10])
  d2 = tbrmmdiagnostics.TBRMMDiagnostics(py * c, par)
  d2.x = px * c
  if not en.close(float(d2.required_impact), c * ri, 1e-12):
    out.oracle_violation(dict(facts, symptom='not-homogeneous'), dict(case, c=c),
                         f'scaling the response unit by {c} changes required impact {ri} -> {float(d2.required_impact)} (want {c * ri})')
    return
  k = rng.choice([1000.0, -250.0, 12345.0, 1e6, 1e9, 4e9])
  d3 = tbrmmdiagnostics.TBRMMDiagnostics(py + k, par)
  d3.x = px + rng.choice([0.0, k])
  # representing the shifted values costs about one ulp of the level per point: the tolerance follows the level
  # ... and what it perturbs is the residual of the fit, so the residual s.d. (not the spread of the series) is the yardstick
  shift_tol = max(1e-8, 50 * abs(k) * 2.3e-16 / max(min(float(np.std(py)), math.sqrt(max(s2, 0.0))), 1e-300))
  if not en.close(float(d3.required_impact), ri, shift_tol):
    out.oracle_violation(dict(facts, symptom='not-shift-invariant'), dict(case, k=k),
                         f'a level shift of {k} changes required impact {ri} -> {float(d3.required_impact)}')
    return
  # (d) strictly decreasing in |corr|
  grid = [0.0, 0.1, -0.3, 0.5, -0.7, 0.9, -0.95, 0.99, 0.995]
  vals = [float(d.estimate_required_impact(r)) for r in grid]
  if not all(vals[i] > vals[i + 1] for i in range(len(vals) - 1)):
    out.oracle_violation(dict(facts, call='estimate_required_impact', symptom='not-decreasing-in-corr'), case,
                         f'impact is not strictly decreasing in |corr| on {grid}: {vals} (tq_sig + tq_pow = {tq_sig + tq_pow})')
  # model
  if sess is not None:
    sess.set_series(px, py, [xb + dx] * n_test, [0.0] * n_test)
    rho = rng.choice([0.5, 0.995, -0.8])
    r1 = sess.req(f'design {n_test} {en.bits(phi)} {en.bits(tq_sig)} {en.bits(tq_pow)} {en.bits(rho)}', 1)
    xt, yt = xb + dx, float(py.mean()) + 3.0
    r2 = sess.req(f'tbrfit {n_test} {en.bits(tq_sig)} {en.bits(xt)} {en.bits(yt)}', 1)
    f = d.tbrfit(xt, yt)
    pending.append((case, r1, r2, dict(corr=float(d.corr), ri=ri, est=float(d.estimate_required_impact(rho)),
                                       sigma=float(d.pretestfit.sigma), fit=[float(f.estimate), float(f.cihw), float(f.sigma), float(f.scale)],
                                       tq=tq_sig + tq_pow, s=s)))
  out.count((n, n_test, round(ri, 9)))


def run(out, tier, model_ok=True):
  rng = core.rng_for(PROP)
  n_cases = 150 if tier == 'quick' else 4000
  sess = en.ModelSession() if model_ok else None
  pending = []
  for i in range(n_cases):
    fr = en.gen_frame(rng, n_pre=rng.choice([4, 5, 6, 8, 10, 14, 20, 21]))
    px, py, _, _ = en.series(fr, False)
    if i % 25 == 7:
      # a control series exactly orthogonal to the response (balanced patterns): correlation 0.0, the largest required impact
      m4 = 4 * rng.randint(1, 5)
      px = np.array([100.0 + 5 * (1 if j % 2 == 0 else -1) for j in range(m4)])
      py = np.array([50.0 + 3 * (1 if (j // 2) % 2 == 0 else -1) for j in range(m4)])
    if i % 3 == 1:
      py = float(py.max() + py.min()) - py      # a response that moves against the control series (negative correlation)
    if i % 5 == 0:
      lo_levels = [0.3, 0.2, 0.45]     # sig + power <= 1: the antitone clause is a recorded finding there
      sig, pw = rng.choice(lo_levels), rng.choice(lo_levels)
    else:
      sig, pw = rng.choice([0.9, 0.8, 0.95, 0.6, 0.99]), rng.choice([0.8, 0.9, 0.7, 0.5, 0.55])
    par_kw = {'n_test': rng.choice([1, 2, 7, 14, 28]), 'sig_level': sig, 'power_level': pw,
              'flevel': rng.choice([0.9, 0.95, 0.99])}
    if rng.random() < 0.3:
      par_kw['n_pretest_max'] = rng.randint(3, max(3, len(px) - 1))   # the diagnostics class is given the series as is
    check_case(out, rng, px, py, par_kw, sess, pending)
  if sess is not None and pending:
    res = sess.run()
    for case, r1, r2, real in pending:
      c, ri, ei, sg, osg = en.parse_vals(res[r1][0])
      if not (en.close(c, real['corr'], 1e-9, 1.0) and en.close(ri, real['ri'], 1e-8) and en.close(ei, real['est'], 1e-8)
              and en.close(osg, real['sigma'], 1e-8) and en.close(sg, osg, 1e-7)):
        out.mismatch('numeric-design', case, f'design side: implementation corr {real["corr"]} impact {real["ri"]} est {real["est"]} sigma {real["sigma"]}; '
                     f'model corr {c} impact {ri} est {ei} sigma {sg} / {osg}')
        continue
      f = en.parse_vals(res[r2][0])
      if not en.all_close(f, real['fit'], 1e-8):
        out.mismatch('numeric-tbrfit', case, f'tbrfit: implementation {real["fit"]}; model {f}')
  out.rule = ('pre-period series from generated experiment frames (n 4-21), n_test in {1,2,7,14,28}, sig/power/flevel over their domains '
              '(every 5th case sig + power <= 1); per case: (a) the analysis-side TBR is run on a synthetic test period whose control mean is '
              'displaced by the planning amount (both signs) and whose lift equals the required impact: impact = (tq_sig+tq_pow) x scale, '
              'estimate = impact, one-sided lower bound = tq_pow x scale; (b) scaling by 2^k; (c) level shifts up to 4e9 (tolerance follows the level); (d) monotone in |corr| on a '
              '9-point grid; model correspondence of corr / impact / sigma / tbrfit; distinct by (n, n_test, impact)')
  out.extra.update({'cases': n_cases, 'model_compared': len(pending)})
  if pending:
    out.sample({'par': pending[0][0]['par'], 'px': pending[0][0]['px'][:5], 'py': pending[0][0]['py'][:5], 'required_impact': pending[0][3]['ri']})


def replay(out, path, model_ok=True):
  with open(path) as f:
    rp = json.load(f)
  case = (rp.get('violation') or (rp.get('correspondence_mismatches') or [{}])[0]).get('case')
  rng = core.rng_for(PROP, 'replay')
  check_case(out, rng, np.array(case['px']), np.array(case['py']), case['par'], None, [])
  out.count(('replay', 1)); out.count(('replay', 2))
