#!/bin/bash
# usage: try_mutant.sh <patch.diff> <prop> [<prop> ...]   — applies the patch to /repo, runs the quick checks, reverts.
patch=$1; shift
cd /repo || exit 2
if ! git diff --quiet; then echo "/repo has uncommitted changes"; exit 2; fi
git apply "$patch" || { echo "patch does not apply"; exit 2; }
for p in "$@"; do
  out=$(cd /verif && VERIF_SEED=${VERIF_SEED:-0} timeout 1500 harness/vcheck.py $p --tier ${TIER:-quick} 2>&1)
  echo "[$p] $(echo "$out" | grep -E 'VIOLATION|^OK|INFRA' | head -2 | cut -c1-160)"
  echo "$out" | grep -E '^  ' | head -2 | cut -c1-260
done
git checkout -- . ; git status --short | grep -v egg-info
