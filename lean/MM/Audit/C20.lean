import MM.Props.C20

#print axioms MM.Dates.C20_mem
#print axioms MM.Dates.C20_nodup
#print axioms MM.Dates.C20_set_invariant
#print axioms MM.Dates.C20_perm_invariant
#print axioms MM.Dates.C20_dup_invariant
#print axioms MM.Dates.C20_pipeline_perm
#print axioms MM.Dates.C20_total
#print axioms MM.Dates.C20_reject_reversed
#print axioms MM.Dates.C20_reject_parts
#print axioms MM.Dates.C20_reject_bad_token
#print axioms MM.Dates.C20_parse_valid
#print axioms MM.Dates.C20_bad_entry_fails
#print axioms MM.Dates.C20_succ_valid
#print axioms MM.Dates.C20_ordinal_succ
#print axioms MM.Dates.C20_ordinal_strictMono
#print axioms MM.Dates.C20_ordinal_injective
